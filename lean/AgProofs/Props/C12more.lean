/-
C12 (frame, continued)  `json`, `logfmt` and `split` only add or overwrite the fields they name.

C12.lean has the frame theorems for `where`, field expressions, `fields`, `timeslice` and `parse`.
This file adds the three operators that were missing.  Model: `applyStateless` (AgModel/Ops.lean)
for src/operator.rs `ParseJson`, `ParseLogfmt` and src/operator/split.rs, `putExpr`
(`Record::put_expr`), over the model's `Fields` with `Fields.get` / `Fields.put`.

For each operator there is
* an exact description of every field of the output row (`…_merges` / `…_exact`), and
* the frame statement in the property's words (`…_frame`): fields the operator does not name keep
  their value, and the output has no field besides input fields and the named ones.
-/
import AgModel.Pipeline
import AgProofs.Lemmas.Fields
import AgProofs.Lemmas.Basic

namespace Ag.C12

/-! ### a sequence of writes into a record -/

/-- the value carried by the LAST write to `k` in a list of writes, if there is one -/
def lastWrite (k : String) : List (String × Value) → Option Value
  | [] => none
  | (k', v) :: rest =>
    match lastWrite k rest with
    | some w => some w
    | none => if k == k' then some v else none

/-- the result of a sequence of `put`s, field by field: the last write to `k` if there is one,
otherwise what was there before -/
theorem get_foldl_put (k : String) (ws : List (String × Value)) :
    ∀ (f : Fields), Fields.get k (ws.foldl (fun d kv => Fields.put kv.1 kv.2 d) f) =
      match lastWrite k ws with
      | some w => some w
      | none => Fields.get k f := by
  induction ws with
  | nil => intro f; simp [lastWrite]
  | cons kv rest ih =>
    intro f
    obtain ⟨k', v⟩ := kv
    simp only [List.foldl_cons, lastWrite]
    rw [ih]
    cases lastWrite k rest with
    | some w => rfl
    | none =>
      by_cases hk : k = k'
      · subst hk; simp [Fields.get_put_eq]
      · have : (k == k') = false := by simpa using hk
        simp [this, Fields.get_put_ne k k' v f hk]

theorem lastWrite_none (k : String) (ws : List (String × Value)) :
    lastWrite k ws = none ↔ k ∉ ws.map Prod.fst := by
  induction ws with
  | nil => simp [lastWrite]
  | cons kv rest ih =>
    obtain ⟨k', v⟩ := kv
    simp only [lastWrite, List.map_cons, List.mem_cons, not_or]
    cases hl : lastWrite k rest with
    | some w =>
      have hm : k ∈ rest.map Prod.fst :=
        Classical.byContradiction (fun hn => by simp [ih.mpr hn] at hl)
      exact ⟨fun h => by simp at h, fun h => absurd hm h.2⟩
    | none =>
      have h1 := ih.mp hl
      by_cases hk : k = k'
      · subst hk; simp
      · have : (k == k') = false := by simpa using hk
        simp [this, hk, h1]

theorem lastWrite_mem (k : String) (w : Value) (ws : List (String × Value))
    (h : lastWrite k ws = some w) : (k, w) ∈ ws := by
  induction ws with
  | nil => simp [lastWrite] at h
  | cons kv rest ih =>
    obtain ⟨k', v⟩ := kv
    simp only [lastWrite] at h
    cases hl : lastWrite k rest with
    | some w' =>
      simp only [hl, Option.some.injEq] at h
      subst h
      exact List.mem_cons_of_mem _ (ih hl)
    | none =>
      simp only [hl] at h
      split at h
      · rename_i hk
        have e : k = k' := by simpa using hk
        simp only [Option.some.injEq] at h
        subst e h
        exact List.mem_cons_self
      · simp at h

/-- every named field is present afterwards -/
theorem lastWrite_isSome (k : String) (ws : List (String × Value)) (h : k ∈ ws.map Prod.fst) :
    (lastWrite k ws).isSome = true := by
  cases hl : lastWrite k ws with
  | some w => rfl
  | none => exact absurd h ((lastWrite_none k ws).mp hl)

/-- The frame property of a record update, in the property's words: `names` are the only fields
that may have been added or changed. -/
structure Frame (names : List String) (r r' : Record) : Prop where
  /-- the raw line is not touched -/
  raw : r'.raw = r.raw
  /-- every field the operator does not name has the same value (or is absent) as before -/
  untouched : ∀ k, k ∉ names → Fields.get k r'.data = Fields.get k r.data
  /-- the output has no field other than input fields and the named ones -/
  nothing_else : ∀ k, (Fields.get k r'.data).isSome = true →
    (Fields.get k r.data).isSome = true ∨ k ∈ names
  /-- no input field disappears -/
  keeps : ∀ k, (Fields.get k r.data).isSome = true → (Fields.get k r'.data).isSome = true

theorem Frame.refl (names : List String) (r : Record) : Frame names r r :=
  ⟨rfl, fun _ _ => rfl, fun _ h => Or.inl h, fun _ h => h⟩

/-- a sequence of writes satisfies the frame property for the written names -/
theorem frame_of_writes (ws : List (String × Value)) (r : Record) :
    Frame (ws.map Prod.fst)
      r { r with data := ws.foldl (fun d kv => Fields.put kv.1 kv.2 d) r.data } := by
  refine ⟨rfl, ?_, ?_, ?_⟩
  · intro k hk
    simp only [get_foldl_put, (lastWrite_none k ws).mpr hk]
  · intro k hk
    simp only [get_foldl_put] at hk
    cases hl : lastWrite k ws with
    | some w =>
      right
      exact List.mem_map.mpr ⟨(k, w), lastWrite_mem k w ws hl, rfl⟩
    | none => simp only [hl] at hk; exact Or.inl hk
  · intro k hk
    simp only [get_foldl_put]
    cases lastWrite k ws with
    | some w => rfl
    | none => exact hk

/-! ### json -/

/-- the member names of the JSON object `json [from src]` reads on this row (none when the input
is not an object) -/
def jsonNames (ext : Ext) (src : Option Expr) (r : Record) : List String :=
  match getInput ext r src with
  | .ok inp =>
    match Json.parse inp with
    | some (.obj kvs) => kvs.map Prod.fst
    | _ => []
  | _ => []

/-- `json` never drops a row: with a readable input that parses it emits exactly one row, a
parse failure is an error -/
theorem json_result (ext : Ext) (src : Option Expr) (r : Record) (inp : String)
    (hi : getInput ext r src = .ok inp) :
    applyStateless ext (.json src) r =
      match Json.parse inp with
      | none => .err "ExpectedJson"
      | some (.obj kvs) =>
        .ok (some { r with data := kvs.foldl (fun d kv => Fields.put kv.1 kv.2 d) r.data })
      | some _ => .ok (some r) := by
  simp only [applyStateless, bind, Outcome.bind, hi]
  cases Json.parse inp with
  | none => rfl
  | some v => cases v <;> rfl

/-- **C12 (`json` merges).** `json` (with or without `from`) applied to a record that already
has fields — an earlier stage made them — MERGES the members of the parsed object into the row:
each field of the output is the last member of that name if the object has one, and otherwise
exactly what the input row had (present with the same value, or absent).  The row is not replaced. -/
theorem C12_json_merges (ext : Ext) (src : Option Expr) (r r' : Record) (inp : String)
    (kvs : List (String × Value))
    (hi : getInput ext r src = .ok inp) (hp : Json.parse inp = some (.obj kvs))
    (h : applyStateless ext (.json src) r = .ok (some r')) :
    r'.raw = r.raw ∧
    ∀ k, Fields.get k r'.data =
      match lastWrite k kvs with
      | some w => some w
      | none => Fields.get k r.data := by
  rw [json_result ext src r inp hi, hp] at h
  simp only [Outcome.ok.injEq, Option.some.injEq] at h
  subst h
  exact ⟨rfl, fun k => get_foldl_put k kvs r.data⟩

/-- in particular every earlier field whose name is not a member name survives with its value -/
theorem C12_json_keeps_earlier (ext : Ext) (src : Option Expr) (r r' : Record) (inp : String)
    (kvs : List (String × Value))
    (hi : getInput ext r src = .ok inp) (hp : Json.parse inp = some (.obj kvs))
    (h : applyStateless ext (.json src) r = .ok (some r'))
    (k : String) (v : Value) (hk : Fields.get k r.data = some v) (hne : k ∉ kvs.map Prod.fst) :
    Fields.get k r'.data = some v := by
  rw [(C12_json_merges ext src r r' inp kvs hi hp h).2 k, (lastWrite_none k kvs).mpr hne]
  exact hk

/-- a JSON value that is not an object leaves the row as it is -/
theorem C12_json_non_object (ext : Ext) (src : Option Expr) (r r' : Record) (inp : String)
    (v : Value) (hi : getInput ext r src = .ok inp) (hp : Json.parse inp = some v)
    (hv : ∀ kvs, v ≠ .obj kvs)
    (h : applyStateless ext (.json src) r = .ok (some r')) : r' = r := by
  rw [json_result ext src r inp hi, hp] at h
  cases v with
  | obj kvs => exact absurd rfl (hv kvs)
  | _ => simp only [Outcome.ok.injEq, Option.some.injEq] at h; exact h.symm

/-- **C12 (`json` frame).** Whenever `json [from src]` keeps a row, the fields that are not
member names of the parsed object are untouched, nothing but member names is added, no field
is lost and the raw line is the same. -/
theorem C12_json_frame (ext : Ext) (src : Option Expr) (r r' : Record)
    (h : applyStateless ext (.json src) r = .ok (some r')) :
    Frame (jsonNames ext src r) r r' := by
  cases hi : getInput ext r src with
  | ok inp =>
    rw [json_result ext src r inp hi] at h
    simp only [jsonNames, hi]
    cases hp : Json.parse inp with
    | none => simp [hp] at h
    | some v =>
      simp only [hp] at h
      cases v with
      | obj kvs =>
        simp only [Outcome.ok.injEq, Option.some.injEq] at h
        subst h
        exact frame_of_writes kvs r
      | _ =>
        simp only [Outcome.ok.injEq, Option.some.injEq] at h
        subst h
        exact Frame.refl _ _
  | err k => simp [applyStateless, bind, Outcome.bind, hi] at h
  | panic p => simp [applyStateless, bind, Outcome.bind, hi] at h
  | unmodelled w => simp [applyStateless, bind, Outcome.bind, hi] at h

/-! ### logfmt -/

/-- the value `logfmt` stores for a pair: `key=value` is converted like any parsed text, a bare
`key` becomes `None` -/
def logfmtValue (p : Logfmt.Pair) : Value :=
  match p.val with
  | none => .none
  | some v => Value.fromString v

/-- the writes `logfmt [from src]` performs on this row, in order -/
def logfmtWrites (ext : Ext) (src : Option Expr) (r : Record) : List (String × Value) :=
  match getInput ext r src with
  | .ok inp =>
    (Logfmt.parse (String.ofList (Text.trimEnd inp.toList))).map (fun p => (p.key, logfmtValue p))
  | _ => []

theorem foldl_congr_fun {α β} (F G : β → α → β) (h : ∀ d p, F d p = G d p) (l : List α) (d : β) :
    l.foldl F d = l.foldl G d := by
  have : F = G := funext fun d => funext fun p => h d p
  rw [this]

/-- `logfmt` never drops a row: with a readable input it emits the input row with one `put` per
pair -/
theorem logfmt_result (ext : Ext) (src : Option Expr) (r : Record) (inp : String)
    (hi : getInput ext r src = .ok inp) :
    applyStateless ext (.logfmt src) r =
      .ok (some { r with data :=
        (logfmtWrites ext src r).foldl (fun d kv => Fields.put kv.1 kv.2 d) r.data }) := by
  simp only [applyStateless, bind, Outcome.bind, hi, logfmtWrites, Outcome.pure_eq]
  generalize Logfmt.parse (String.ofList (Text.trimEnd inp.toList)) = pairs
  rw [List.foldl_map]
  refine congrArg (fun x => Outcome.ok (some ({ r with data := x } : Record)))
    (foldl_congr_fun _ _ ?_ pairs r.data)
  intro d p
  unfold logfmtValue
  cases p.val <;> rfl

/-- **C12 (`logfmt` merges).** Each field of the output of `logfmt [from src]` is the last pair
of that key if there is one and otherwise exactly what the input row had. -/
theorem C12_logfmt_merges (ext : Ext) (src : Option Expr) (r r' : Record)
    (h : applyStateless ext (.logfmt src) r = .ok (some r')) :
    r'.raw = r.raw ∧
    ∀ k, Fields.get k r'.data =
      match lastWrite k (logfmtWrites ext src r) with
      | some w => some w
      | none => Fields.get k r.data := by
  cases hi : getInput ext r src with
  | ok inp =>
    rw [logfmt_result ext src r inp hi] at h
    simp only [Outcome.ok.injEq, Option.some.injEq] at h
    subst h
    exact ⟨rfl, fun k => get_foldl_put k _ r.data⟩
  | err k => simp [applyStateless, bind, Outcome.bind, hi] at h
  | panic p => simp [applyStateless, bind, Outcome.bind, hi] at h
  | unmodelled w => simp [applyStateless, bind, Outcome.bind, hi] at h

/-- **C12 (`logfmt` frame).** Whenever `logfmt [from src]` keeps a row, the fields that are not
keys of the parsed pairs are untouched, nothing but those keys is added, no field is lost and
the raw line is the same. -/
theorem C12_logfmt_frame (ext : Ext) (src : Option Expr) (r r' : Record)
    (h : applyStateless ext (.logfmt src) r = .ok (some r')) :
    Frame ((logfmtWrites ext src r).map Prod.fst) r r' := by
  cases hi : getInput ext r src with
  | ok inp =>
    rw [logfmt_result ext src r inp hi] at h
    simp only [Outcome.ok.injEq, Option.some.injEq] at h
    subst h
    exact frame_of_writes _ r
  | err k => simp [applyStateless, bind, Outcome.bind, hi] at h
  | panic p => simp [applyStateless, bind, Outcome.bind, hi] at h
  | unmodelled w => simp [applyStateless, bind, Outcome.bind, hi] at h

/-- the written names of `logfmt` are the keys of the pairs parsed from the (right-trimmed) input -/
theorem logfmtWrites_keys (ext : Ext) (src : Option Expr) (r : Record) (inp : String)
    (hi : getInput ext r src = .ok inp) :
    (logfmtWrites ext src r).map Prod.fst =
      (Logfmt.parse (String.ofList (Text.trimEnd inp.toList))).map (·.key) := by
  simp [logfmtWrites, hi, List.map_map, Function.comp_def]

/-! ### split -/

/-- the top-level field `split … [on src] [as dst]` writes: the head of the `as` column, else of
the `on` column, else `_split` -/
def splitName (src dst : Option Expr) : String :=
  match (dst.orElse fun _ => src) with
  | some (.col head _) => head
  | _ => "_split"

/-- `Record::put_expr` touches exactly one top-level field: the head of the column path -/
theorem putExpr_shape (data data' : Fields) (key : Expr) (v : Value)
    (h : putExpr data key v = .ok data') :
    ∃ head rest v', key = .col head rest ∧ data' = Fields.put head v' data ∧
      (rest = [] → v' = v) ∧ (rest ≠ [] → (Fields.get head data).isSome = true) := by
  cases key with
  | col head rest =>
    simp only [putExpr] at h
    cases hg : Fields.get head data with
    | none =>
      simp only [hg] at h
      split at h
      · rename_i hr
        simp only [Outcome.ok.injEq] at h
        have : rest = [] := by simpa using hr
        exact ⟨head, rest, v, rfl, h.symm, fun _ => rfl, fun hne => absurd this hne⟩
      · simp at h
    | some root =>
      simp only [hg] at h
      cases hp : putPath root rest v with
      | ok r' =>
        simp only [hp, Outcome.ok.injEq] at h
        refine ⟨head, rest, r', rfl, h.symm, ?_, fun _ => by simp [hg]⟩
        intro hr
        subst hr
        simp only [putPath, Outcome.ok.injEq] at hp
        exact hp.symm
      | err k => simp [hp] at h
      | panic p => simp [hp] at h
      | unmodelled w => simp [hp] at h
  | _ => simp [putExpr] at h

/-- a single write satisfies the frame property for its name -/
theorem frame_of_put (name : String) (v : Value) (r : Record) :
    Frame [name] r { r with data := Fields.put name v r.data } :=
  frame_of_writes [(name, v)] r

/-- **C12 (`split` frame).** Whenever `split` keeps a row, only the output field (`as` column,
else the `on` column, else `_split`) is added or overwritten: every other field has the value it
had, no field is added besides the output field, none is lost, and the raw line is the same. -/
theorem C12_split_frame (ext : Ext) (sep : String) (src dst : Option Expr) (r r' : Record)
    (h : applyStateless ext (.split sep src dst) r = .ok (some r')) :
    Frame [splitName src dst] r r' ∧ (Fields.get (splitName src dst) r'.data).isSome = true := by
  simp only [applyStateless, bind, Outcome.bind] at h
  cases hi : getInput ext r src with
  | ok inp =>
    simp only [hi] at h
    cases hs : Split.split inp.toList sep.toList with
    | none => simp [hs] at h
    | some toks =>
      simp only [hs] at h
      cases ht : (dst.orElse fun _ => src) with
      | none =>
        simp only [ht, Outcome.pure_eq, Outcome.ok.injEq, Option.some.injEq] at h
        subst h
        have hn : splitName src dst = "_split" := by simp only [splitName, ht]
        rw [hn]
        exact ⟨frame_of_put _ _ r, by simp [Fields.get_put_eq]⟩
      | some d =>
        simp only [ht] at h
        cases hp : putExpr r.data d
            (Value.arr (toks.map (fun t => Value.fromString (String.ofList t)))) with
        | ok data' =>
          simp only [hp, Outcome.pure_eq, Outcome.ok.injEq, Option.some.injEq] at h
          subst h
          obtain ⟨head, rest, v', hd, hdata, _, _⟩ := putExpr_shape _ _ _ _ hp
          subst hd
          have hn : splitName src dst = head := by simp only [splitName, ht]
          rw [hn]
          subst hdata
          exact ⟨frame_of_put head v' r, by simp [Fields.get_put_eq]⟩
        | err k => simp [hp] at h
        | panic p => simp [hp] at h
        | unmodelled w => simp [hp] at h
  | err k => simp [hi] at h
  | panic p => simp [hi] at h
  | unmodelled w => simp [hi] at h

/-- **C12 (`split` result).** With a plain output column (`as name`, `on name` without `as`, or
neither) the output row is the input row with that one field set to the array of tokens: each
field of the output is the token array if it is the output field and otherwise exactly what the
input row had. -/
theorem C12_split_exact (ext : Ext) (sep : String) (src dst : Option Expr) (r r' : Record)
    (inp : String) (toks : List (List Char))
    (hi : getInput ext r src = .ok inp) (hs : Split.split inp.toList sep.toList = some toks)
    (hplain : ∀ head rest, (dst.orElse fun _ => src) = some (.col head rest) → rest = [])
    (h : applyStateless ext (.split sep src dst) r = .ok (some r')) :
    r'.raw = r.raw ∧
    ∀ k, Fields.get k r'.data =
      if k = splitName src dst then
        some (.arr (toks.map (fun t => Value.fromString (String.ofList t))))
      else Fields.get k r.data := by
  simp only [applyStateless, bind, Outcome.bind, hi, hs] at h
  cases ht : (dst.orElse fun _ => src) with
  | none =>
    simp only [ht, Outcome.pure_eq, Outcome.ok.injEq, Option.some.injEq] at h
    subst h
    have hn : splitName src dst = "_split" := by simp only [splitName, ht]
    rw [hn]
    refine ⟨rfl, fun k => ?_⟩
    by_cases hk : k = "_split"
    · subst hk; simp [Fields.get_put_eq]
    · simp only [hk, if_false]; exact Fields.get_put_ne k _ _ _ hk
  | some d =>
    simp only [ht] at h
    cases hp : putExpr r.data d
        (Value.arr (toks.map (fun t => Value.fromString (String.ofList t)))) with
    | ok data' =>
      simp only [hp, Outcome.pure_eq, Outcome.ok.injEq, Option.some.injEq] at h
      subst h
      obtain ⟨head, rest, v', hd, hdata, hv, _⟩ := putExpr_shape _ _ _ _ hp
      subst hd
      have hr : rest = [] := hplain head rest ht
      have hv' := hv hr
      subst hv'
      have hn : splitName src dst = head := by simp only [splitName, ht]
      rw [hn]
      subst hdata
      refine ⟨rfl, fun k => ?_⟩
      by_cases hk : k = head
      · subst hk; simp [Fields.get_put_eq]
      · simp only [hk, if_false]; exact Fields.get_put_ne k _ _ _ hk
    | err k => simp [hp] at h
    | panic p => simp [hp] at h
    | unmodelled w => simp [hp] at h

/-! ### non-vacuity -/

/-- a merge on a row that already has fields: the earlier field `a` survives, `b` is
overwritten, `c` is new, an unrelated name stays absent -/
example (d0 : Fields) (ha : Fields.get "a" d0 = some (.int 1)) (hz : Fields.get "z" d0 = none) :
    let d1 := [("b", Value.int 7), ("c", Value.int 8)].foldl (fun d kv => Fields.put kv.1 kv.2 d) d0
    Fields.get "a" d1 = some (.int 1) ∧ Fields.get "b" d1 = some (.int 7)
      ∧ Fields.get "c" d1 = some (.int 8) ∧ Fields.get "z" d1 = none := by
  intro d1
  simp only [d1, get_foldl_put]
  simp [lastWrite, ha, hz]

theorem parse_sample :
    Json.parse (String.ofList ['{', '"', 'b', '"', ':', 't', 'r', 'u', 'e', '}']) =
      some (.obj [("b", .bool true)]) := by
  simp [Json.parse, Json.parseValue, Json.parseMembers, Json.parseStr, Json.skipWs, Json.isWs,
    Fields.put]

/-- a row that already has a field `a` and whose raw line is `{"b":true}` -/
def sampleRow : Record :=
  { data := [("a", .int 1)], raw := String.ofList ['{', '"', 'b', '"', ':', 't', 'r', 'u', 'e', '}'] }

/-- the hypotheses of `C12_json_merges` are met by the model: `sampleRow` is kept, and the output
has both the earlier field `a` and the member `b` -/
example (ext : Ext) :
    ∃ r' inp kvs, Fields.get "a" sampleRow.data = some (.int 1)
      ∧ getInput ext sampleRow none = .ok inp
      ∧ Json.parse inp = some (.obj kvs)
      ∧ applyStateless ext (.json none) sampleRow = .ok (some r')
      ∧ Fields.get "a" r'.data = some (.int 1) ∧ Fields.get "b" r'.data = some (.bool true) := by
  have hi : getInput ext sampleRow none = .ok sampleRow.raw := by simp [getInput]
  have hp : Json.parse sampleRow.raw = some (.obj [("b", .bool true)]) := by
    simp only [sampleRow]; exact parse_sample
  have ha : Fields.get "a" sampleRow.data = some (.int 1) := by simp [sampleRow, Fields.get]
  have h := json_result ext none sampleRow sampleRow.raw hi
  simp only [hp] at h
  obtain ⟨_, hm⟩ := C12_json_merges ext none sampleRow _ sampleRow.raw _ hi hp h
  refine ⟨_, sampleRow.raw, _, ha, hi, hp, h, ?_, ?_⟩
  · rw [hm]; simp [lastWrite, ha]
  · rw [hm]; simp [lastWrite]

/-- `split` keeps rows and writes `_split` only -/
example (ext : Ext) (r : Record) (inp : String) (toks : List (List Char))
    (hi : getInput ext r none = .ok inp) (hs : Split.split inp.toList ",".toList = some toks) :
    ∃ r', applyStateless ext (.split "," none none) r = .ok (some r')
      ∧ Frame ["_split"] r r' := by
  refine ⟨_, ?_, frame_of_put "_split"
    (Value.arr (toks.map (fun t => Value.fromString (String.ofList t)))) r⟩
  simp only [applyStateless, bind, Outcome.bind, hi, hs, Option.orElse, Outcome.pure_eq]

end Ag.C12
