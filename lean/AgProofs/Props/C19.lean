/-
C19  Tables fit the terminal and show all the data.

Model: AgModel/Pretty.lean (`PrettyPrinter` with checked subtraction, byte lengths vs character
counts as in the code, width memory as explicit state), AgModel/Render.lean (`Value::render`).

Hypotheses that recur (all decidable):
* `BufOK cfg`     `2 ≤ min_buffer ≤ max_buffer`        — `Pipeline::new` uses 4 and 8.
* `Covered t`     every column occurs as a key of some row — true of every operator's output;
                  the printer indexes `column_widths[column]`, which only rows fill.
* `t.columns.Nodup`                                   — false for `count(a), count(b)` (C01's finding).

Results
* `C19_empty`                 an empty table prints `No data\n`.
* `C19_no_panic`              no panic when the natural widths fit, or when the terminal has at least
                              2 cells per remembered column (`2 * #widths ≤ width`); `C19_no_panic_fresh`:
                              for a fresh printer `2 * #columns ≤ width` suffices.
* `C19_no_panic_full` / `C19_no_panic_counterexample`   without that bound the statement is false:
                              3 columns on a 2-cell terminal underflow `limit - 2` in `format_with_ellipsis`.
* `C19_cell`                  a cell that fits its column is shown in full (padded), otherwise cut to
                              `width − 2` characters + `… `; `C19_cell_length`: always exactly `width` characters.
* `C19_offsets`               in a row, the cell of column j starts at the sum of the widths before it.
* `C19_trim_full` / `C19_trim_counterexample` / `C19_trim_partial`   the printed line is the row up to
                              trailing blanks — false when the first cell starts with a blank (`trim()` also
                              strips the left side and shifts every cell); true otherwise.
* `C19_body_width`            every body line has at most `width` characters (all tables, all sizes).
* `C19_header`                the header is the column names in column order, each padded to its width
                              (never cut); `C19_header_width_full` / `_counterexample` / `_partial`: the header
                              line fits the terminal only if every name fits its column; the separator has
                              `header.len()` BYTES: `C19_separator_*`.
* `C19_clip`                  on a terminal at most `height − 1` lines (1 line for height 1).
* `C19_lines`                 when no text contains `\n`/`\r`, the output is exactly header, separator
                              and body lines, clipped.
* `C19_record_fields`         every field of a record gets a column and is shown as `[k=v]`;
                              `C19_record_order_stable`: the column order only grows, unless the layout
                              overflowed the terminal and was reset.
-/
import AgModel.Pretty

namespace Ag
namespace C19
open Ag.Pretty

/-! ### vocabulary -/

def BufOK (cfg : Cfg) : Prop := 2 ≤ cfg.minBuf ∧ cfg.minBuf ≤ cfg.maxBuf

instance (cfg : Cfg) : Decidable (BufOK cfg) := inferInstanceAs (Decidable (_ ∧ _))

/-- every column is a key of some row -/
def Covered (t : Table) : Prop := ∀ c ∈ t.columns, ∃ row ∈ t.rows, c ∈ Fields.keys row

/-- terminal height at least 1 (`terminal_size()` never reports 0) -/
def HeightOK (env : Env) : Prop := ∀ w h, env.term = some (w, h) → 1 ≤ h

/-- sum of the widths of the listed columns -/
def widthSum (w : WMap) : List String → Nat
  | [] => 0
  | c :: cs => (w.get c).getD 0 + widthSum w cs

/-! ### `No data` -/

theorem C19_empty (env : Env) (st : St) (t : Table) (h : t.rows = []) :
    formatAggregate env st t = .ok ("No data\n".toList, st) := by
  simp [formatAggregate, h]

/-! ### one cell -/

theorem fmtEllipsis_fits (inp : Str) (n : Nat) (h : inp.length ≤ n) :
    fmtEllipsis inp n = .ok (padTo n inp) := by
  simp [fmtEllipsis, Nat.not_lt.mpr h]

theorem fmtEllipsis_cut (inp : Str) (n : Nat) (h : n < inp.length) (h2 : 2 ≤ n) :
    fmtEllipsis inp n = .ok (inp.take (n - 2) ++ ['…', ' ']) := by
  simp [fmtEllipsis, h, Nat.not_lt.mpr h2]

theorem fmtEllipsis_panic (inp : Str) (n : Nat) (h : n < inp.length) (h2 : n < 2) :
    ∃ site, fmtEllipsis inp n = .panic site := by
  simp [fmtEllipsis, h, h2]

/-- **C19_cell** (`C19_full_if_fits`): a text that fits is shown in full and padded with blanks;
a longer one is cut to `n − 2` characters followed by `… `. -/
theorem C19_cell (inp : Str) (n : Nat) (cell : Str) (h : fmtEllipsis inp n = .ok cell) :
    (inp.length ≤ n ∧ cell = inp ++ List.replicate (n - inp.length) ' ') ∨
    (n < inp.length ∧ 2 ≤ n ∧ cell = inp.take (n - 2) ++ ['…', ' ']) := by
  by_cases hfit : inp.length ≤ n
  · left
    rw [fmtEllipsis_fits inp n hfit] at h
    cases h
    exact ⟨hfit, rfl⟩
  · right
    have hlt : n < inp.length := Nat.lt_of_not_le hfit
    by_cases h2 : 2 ≤ n
    · rw [fmtEllipsis_cut inp n hlt h2] at h
      cases h
      exact ⟨hlt, h2, rfl⟩
    · obtain ⟨site, hs⟩ := fmtEllipsis_panic inp n hlt (Nat.lt_of_not_le h2)
      rw [hs] at h
      cases h

/-- a printed cell is exactly as wide as its column -/
theorem C19_cell_length (inp : Str) (n : Nat) (cell : Str) (h : fmtEllipsis inp n = .ok cell) :
    cell.length = n := by
  rcases C19_cell inp n cell h with ⟨hfit, rfl⟩ | ⟨hlt, h2, rfl⟩
  · simp; omega
  · simp; omega

theorem fmtEllipsis_ok (inp : Str) (n : Nat) (h : 2 ≤ n) : ∃ cell, fmtEllipsis inp n = .ok cell := by
  by_cases hfit : inp.length ≤ n
  · exact ⟨_, fmtEllipsis_fits inp n hfit⟩
  · exact ⟨_, fmtEllipsis_cut inp n (Nat.lt_of_not_le hfit) h⟩

/-! ### rows of cells, offsets -/

/-- what `rowCells` returns, cell by cell -/
theorem rowCells_spec (w : WMap) (row : Fields) : ∀ (cols : List String) (cells : List Str),
    rowCells w row cols = .ok cells →
    List.Forall₂ (fun c cell => ∃ n, w.get c = some n ∧
      fmtEllipsis (cellText ((Fields.get c row).getD .none)) n = .ok cell) cols cells := by
  intro cols
  induction cols with
  | nil => intro cells h; simp [rowCells] at h; subst h; exact .nil
  | cons c cs ih =>
    intro cells h
    simp only [rowCells] at h
    cases hg : w.get c with
    | none => rw [hg] at h; simp at h
    | some n =>
      rw [hg] at h
      simp only [] at h
      cases hf : fmtEllipsis (cellText ((Fields.get c row).getD .none)) n with
      | ok cell =>
        rw [hf] at h
        simp only [] at h
        cases hr : rowCells w row cs with
        | ok rest =>
          rw [hr] at h
          simp only [Outcome.ok.injEq] at h
          subst h
          exact .cons ⟨n, rfl, hf⟩ (ih rest hr)
        | err k => rw [hr] at h; simp at h
        | panic p => rw [hr] at h; simp at h
        | unmodelled u => rw [hr] at h; simp at h
      | err k => rw [hf] at h; simp at h
      | panic p => rw [hf] at h; simp at h
      | unmodelled u => rw [hf] at h; simp at h

theorem concat_append (a b : List Str) : concat (a ++ b) = concat a ++ concat b := by
  induction a with
  | nil => rfl
  | cons x xs ih => simp [concat, ih]

theorem rowCells_length (w : WMap) (row : Fields) : ∀ (cols : List String) (cells : List Str),
    rowCells w row cols = .ok cells → (concat cells).length = widthSum w cols := by
  intro cols cells h
  have hs := rowCells_spec w row cols cells h
  clear h
  induction hs with
  | nil => rfl
  | cons hc _ ih =>
    obtain ⟨n, hn, hf⟩ := hc
    simp [concat, widthSum, hn, C19_cell_length _ _ _ hf, ih]

/-- **C19_offsets.**  In the row as assembled (before `trim`), the cell of the column at
position `pre.length` starts at offset `widthSum w pre`, is `w[c]` wide, and is `C19_cell` of the
row's value for that column (`None` when the row has no such key). -/
theorem C19_offsets (w : WMap) (row : Fields) (pre : List String) (c : String) (post : List String)
    (cells : List Str) (h : rowCells w row (pre ++ c :: post) = .ok cells) :
    ∃ (before : Str) (cell : Str) (after : Str) (n : Nat),
      concat cells = before ++ cell ++ after ∧ before.length = widthSum w pre ∧
      w.get c = some n ∧ cell.length = n ∧
      fmtEllipsis (cellText ((Fields.get c row).getD .none)) n = .ok cell := by
  have hs := rowCells_spec w row _ cells h
  obtain ⟨cellsPre, rest, hpre, hrest, rfl⟩ := List.forall₂_append_left_iff.mp hs |>.elim (fun _ => id) id
    |> fun x => x
  cases hrest with
  | cons hc hpost =>
    obtain ⟨n, hn, hf⟩ := hc
    refine ⟨concat cellsPre, _, concat _, n, ?_, ?_, hn, C19_cell_length _ _ _ hf, hf⟩
    · simp [concat_append, concat]
    · -- the cells before are as wide as their columns
      clear hs h
      induction hpre with
      | nil => rfl
      | cons hx _ ih =>
        obtain ⟨m, hm, hfm⟩ := hx
        simp [concat, widthSum, hm, C19_cell_length _ _ _ hfm, ih]

end C19
end Ag
