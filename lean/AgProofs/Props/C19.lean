/-
C19  Tables fit the terminal and show all the data.

Model: AgModel/Pretty.lean (`PrettyPrinter` with checked subtraction, byte lengths vs character
counts as in the code, width memory as explicit state), AgModel/Render.lean (`Value::render`).

The model follows the repaired printer (fix commits 9f65de4 ellipsis underflow, 3a98c5e header cells
cut like body cells, 0faaa16 separator counts characters, 439c1ac `trim_end()` instead of `trim()`); the
counterexample theorems of the unrepaired code are gone and the former `_partial` theorems are full.

Hypotheses that remain (decidable, about the table's shape, not its size):
* `Covered t`     every column occurs as a key of some row — true of every operator's output;
                  the printer indexes `column_widths[column]`, which only rows fill.
* `t.columns.Nodup`                                   — false for `count(a), count(b)` (C01's finding).

Results (all for every terminal size ≥ 1×1, the no-terminal case, every buffer configuration and every
state earlier frames left in the printer)
* `C19_empty`        an empty table prints `No data\n`.
* `C19_no_panic`     `format_aggregate` never panics.
* `C19_cell`         a text that fits its column is shown in full (padded); otherwise it is cut to
                     `width − 2` characters + `… ` (to `width` characters when the column is narrower than
                     2); `C19_cell_length`: a cell is always exactly `width` characters.
* `C19_offsets`      in a row, the cell of column j starts at the sum of the widths before it;
  `C19_trim`         the printed line is that row minus trailing blanks.
* `C19_header`       the header is the column names in column order, each formatted like a cell of its
                     column, minus trailing blanks — names sit at their columns' offsets.
* `C19_separator`    the separator is as many dashes as the table is wide.
* `C19_width`        no line — header, separator, body — has more characters than the terminal is wide
                     (240 without a terminal); `C19_body_width`, `C19_header_width`, `C19_separator_width`.
* `C19_clip`         on a terminal at most `height − 1` lines (1 line for height 1).
* `C19_lines`        when no text contains `\n`/`\r`, the output is exactly header, separator and body
                     lines, clipped.
* `C19_record_fields`, `C19_record_cells`   every field of a record gets a column and is shown as `[k=v]`;
  `C19_record_order_stable`  the column order only grows, unless the layout overflowed the terminal and
                     was reset.
Not carried: display width of East-Asian wide characters (one character = one cell here).
-/
import AgModel.Pretty

namespace Ag
namespace C19
open Ag.Pretty

/-! ### vocabulary -/

/-- every column is a key of some row -/
def Covered (t : Table) : Prop := ∀ c ∈ t.columns, ∃ row ∈ t.rows, c ∈ Fields.keys row

/-- terminal height at least 1 (`terminal_size()` never reports 0) -/
def HeightOK (env : Env) : Prop := ∀ w h, env.term = some (w, h) → 1 ≤ h

/-- sum of the widths of the listed columns -/
def widthSum (w : WMap) : List String → Nat
  | [] => 0
  | c :: cs => (w.get c).getD 0 + widthSum w cs

/-- two lists related element by element (core has no `Forall₂`) -/
inductive AllPairs {α β : Type} (R : α → β → Prop) : List α → List β → Prop
  | nil : AllPairs R [] []
  | cons {a b as bs} : R a b → AllPairs R as bs → AllPairs R (a :: as) (b :: bs)

theorem AllPairs.split {α β : Type} {R : α → β → Prop} : ∀ (a1 a2 : List α) (bs : List β),
    AllPairs R (a1 ++ a2) bs → ∃ b1 b2, bs = b1 ++ b2 ∧ AllPairs R a1 b1 ∧ AllPairs R a2 b2 := by
  intro a1
  induction a1 with
  | nil => intro a2 bs h; exact ⟨[], bs, rfl, .nil, h⟩
  | cons a as ih =>
    intro a2 bs h
    cases h with
    | cons hr hrest =>
      obtain ⟨b1, b2, rfl, h1, h2⟩ := ih a2 _ hrest
      exact ⟨_ :: b1, b2, rfl, .cons hr h1, h2⟩

/-! ### `No data` -/

theorem C19_empty (env : Env) (st : St) (t : Table) (h : t.rows = []) :
    formatAggregate env st t = .ok ("No data\n".toList, st) := by
  simp [formatAggregate, h]

/-! ### one cell -/

theorem fmtEllipsis_fits (inp : Str) (n : Nat) (h : inp.length ≤ n) :
    fmtEllipsis inp n = .ok (padTo n inp) := by
  simp [fmtEllipsis, Nat.not_lt.mpr h]

theorem fmtEllipsis_cut (inp : Str) (n : Nat) (h : n < inp.length) (h2 : 2 ≤ n) :
    fmtEllipsis inp n = .ok (inp.take (n - 2) ++ ['…', ' ']) := by
  simp [fmtEllipsis, h, Nat.not_lt.mpr h2]

theorem fmtEllipsis_narrow (inp : Str) (n : Nat) (h : n < inp.length) (h2 : n < 2) :
    fmtEllipsis inp n = .ok (inp.take n) := by
  simp [fmtEllipsis, h, h2]

/-- **C19_cell** (`C19_full_if_fits`): a text that fits is shown in full and padded with blanks;
a longer one is cut to `n − 2` characters followed by `… ` — or, in a column narrower than 2, to its
first `n` characters. -/
theorem C19_cell (inp : Str) (n : Nat) (cell : Str) (h : fmtEllipsis inp n = .ok cell) :
    (inp.length ≤ n ∧ cell = inp ++ List.replicate (n - inp.length) ' ') ∨
    (n < inp.length ∧ 2 ≤ n ∧ cell = inp.take (n - 2) ++ ['…', ' ']) ∨
    (n < inp.length ∧ n < 2 ∧ cell = inp.take n) := by
  by_cases hfit : inp.length ≤ n
  · left
    rw [fmtEllipsis_fits inp n hfit] at h
    cases h
    exact ⟨hfit, rfl⟩
  · right
    have hlt : n < inp.length := Nat.lt_of_not_le hfit
    by_cases h2 : 2 ≤ n
    · left
      rw [fmtEllipsis_cut inp n hlt h2] at h
      cases h
      exact ⟨hlt, h2, rfl⟩
    · right
      rw [fmtEllipsis_narrow inp n hlt (Nat.lt_of_not_le h2)] at h
      cases h
      exact ⟨hlt, Nat.lt_of_not_le h2, rfl⟩

/-- a printed cell is exactly as wide as its column -/
theorem C19_cell_length (inp : Str) (n : Nat) (cell : Str) (h : fmtEllipsis inp n = .ok cell) :
    cell.length = n := by
  rcases C19_cell inp n cell h with ⟨hfit, rfl⟩ | ⟨hlt, h2, rfl⟩ | ⟨hlt, h2, rfl⟩
  · simp; omega
  · simp; omega
  · simp; omega

/-- formatting a cell never fails -/
theorem fmtEllipsis_ok (inp : Str) (n : Nat) : ∃ cell, fmtEllipsis inp n = .ok cell := by
  by_cases hfit : inp.length ≤ n
  · exact ⟨_, fmtEllipsis_fits inp n hfit⟩
  · by_cases h2 : 2 ≤ n
    · exact ⟨_, fmtEllipsis_cut inp n (Nat.lt_of_not_le hfit) h2⟩
    · exact ⟨_, fmtEllipsis_narrow inp n (Nat.lt_of_not_le hfit) (Nat.lt_of_not_le h2)⟩

/-! ### rows of cells, offsets -/

/-- what `rowCells` returns, cell by cell -/
theorem rowCells_spec (w : WMap) (row : Fields) : ∀ (cols : List String) (cells : List Str),
    rowCells w row cols = .ok cells →
    AllPairs (fun c cell => ∃ n, w.get c = some n ∧
      fmtEllipsis (cellText ((Fields.get c row).getD .none)) n = .ok cell) cols cells := by
  intro cols
  induction cols with
  | nil => intro cells h; simp [rowCells] at h; subst h; exact .nil
  | cons c cs ih =>
    intro cells h
    simp only [rowCells] at h
    cases hg : w.get c with
    | none => rw [hg] at h; simp at h
    | some n =>
      rw [hg] at h
      simp only [] at h
      cases hf : fmtEllipsis (cellText ((Fields.get c row).getD .none)) n with
      | ok cell =>
        rw [hf] at h
        simp only [] at h
        cases hr : rowCells w row cs with
        | ok rest =>
          rw [hr] at h
          simp only [Outcome.ok.injEq] at h
          subst h
          exact .cons ⟨n, hg, hf⟩ (ih rest hr)
        | err k => rw [hr] at h; simp at h
        | panic p => rw [hr] at h; simp at h
        | unmodelled u => rw [hr] at h; simp at h
      | err k => rw [hf] at h; simp at h
      | panic p => rw [hf] at h; simp at h
      | unmodelled u => rw [hf] at h; simp at h

theorem concat_append (a b : List Str) : concat (a ++ b) = concat a ++ concat b := by
  induction a with
  | nil => rfl
  | cons x xs ih => simp [concat, ih]

theorem rowCells_length (w : WMap) (row : Fields) : ∀ (cols : List String) (cells : List Str),
    rowCells w row cols = .ok cells → (concat cells).length = widthSum w cols := by
  intro cols cells h
  have hs := rowCells_spec w row cols cells h
  clear h
  induction hs with
  | nil => rfl
  | cons hc _ ih =>
    obtain ⟨n, hn, hf⟩ := hc
    simp [concat, widthSum, hn, C19_cell_length _ _ _ hf, ih]

/-- **C19_offsets.**  In the row as assembled (before `trim`), the cell of the column at
position `pre.length` starts at offset `widthSum w pre`, is `w[c]` wide, and is `C19_cell` of the
row's value for that column (`None` when the row has no such key). -/
theorem C19_offsets (w : WMap) (row : Fields) (pre : List String) (c : String) (post : List String)
    (cells : List Str) (h : rowCells w row (pre ++ c :: post) = .ok cells) :
    ∃ (before : Str) (cell : Str) (after : Str) (n : Nat),
      concat cells = before ++ cell ++ after ∧ before.length = widthSum w pre ∧
      w.get c = some n ∧ cell.length = n ∧
      fmtEllipsis (cellText ((Fields.get c row).getD .none)) n = .ok cell := by
  have hs := rowCells_spec w row _ cells h
  obtain ⟨cellsPre, rest, rfl, hpre, hrest⟩ := AllPairs.split _ _ _ hs
  cases hrest with
  | @cons _ cell _ cellsPost hc hpost =>
    obtain ⟨n, hn, hf⟩ := hc
    refine ⟨concat cellsPre, cell, concat cellsPost, n, ?_, ?_, hn, C19_cell_length _ _ _ hf, hf⟩
    · simp [concat_append, concat]
    · -- the cells before are as wide as their columns
      clear hs h
      induction hpre with
      | nil => rfl
      | cons hx _ ih =>
        obtain ⟨m, hm, hfm⟩ := hx
        simp [concat, widthSum, hm, C19_cell_length _ _ _ hfm, ih]

/-- evaluation helper: `Outcome` has no `DecidableEq`, `Option` has -/
theorem eq_ok_of_toOption {α : Type} {o : Outcome α} {a : α} (h : o.toOption = some a) : o = .ok a := by
  cases o <;> simp [Outcome.toOption] at h
  subst h; rfl

/-! ### `trim()` -/

theorem trimEnd_length_le (s : Str) : (Text.trimEnd s).length ≤ s.length := by
  simp only [Text.trimEnd, List.length_reverse]
  have := (List.dropWhile_sublist (l := s.reverse) Text.isWhite).length_le
  simpa using this

theorem trimStart_length_le (s : Str) : (Text.trimStart s).length ≤ s.length :=
  (List.dropWhile_sublist (l := s) Text.isWhite).length_le

theorem trim_length_le (s : Str) : (Text.trim s).length ≤ s.length :=
  Nat.le_trans (trimEnd_length_le _) (trimStart_length_le s)

/-- `trim_end` removes a suffix of blanks, so every cell keeps its offset -/
theorem trimEnd_prefix (s : Str) : ∃ t, s = Text.trimEnd s ++ t ∧ ∀ c ∈ t, Text.isWhite c = true := by
  refine ⟨(s.reverse.takeWhile Text.isWhite).reverse, ?_, ?_⟩
  · have h := List.takeWhile_append_dropWhile (p := Text.isWhite) (l := s.reverse)
    have h2 := congrArg List.reverse h
    simp only [List.reverse_append, List.reverse_reverse] at h2
    simp only [Text.trimEnd]
    exact h2.symm
  · intro c hc
    simp only [List.mem_reverse] at hc
    have hall := List.all_takeWhile (p := Text.isWhite) (l := s.reverse)
    exact List.all_eq_true.mp hall c hc

/-- **C19_trim.**  The printed line of a row is the assembled row (`C19_offsets`) minus trailing
blanks: every cell keeps its column's offset on the printed line. -/
theorem C19_trim (w : WMap) (row : Fields) (cols : List String) (cells : List Str) (line : Str)
    (hl : rowLine w cols row = .ok line) (hc : rowCells w row cols = .ok cells) :
    ∃ t, concat cells = line ++ t ∧ ∀ c ∈ t, Text.isWhite c = true := by
  simp only [rowLine, hc, Outcome.ok.injEq] at hl
  subst hl
  exact trimEnd_prefix _

/-- the former counterexample: an empty first cell no longer moves the row -/
example : (rowLine [("k", 3), ("n", 3)] ["k", "n"] [("k", .str ""), ("n", .int 7)]).toOption =
    some [' ', ' ', ' ', '7'] := by decide

/-! ### sums of widths -/

theorem get_cons_ne (k c : String) (v : Nat) (t : WMap) (h : c ≠ k) :
    WMap.get c ((k, v) :: t) = WMap.get c t := by
  simp [WMap.get, h]

theorem widthSum_cons_notin (k : String) (v : Nat) (t : WMap) : ∀ (cols : List String), k ∉ cols →
    widthSum ((k, v) :: t) cols = widthSum t cols := by
  intro cols
  induction cols with
  | nil => intro _; rfl
  | cons c cs ih =>
    intro h
    simp only [List.mem_cons, not_or] at h
    simp [widthSum, get_cons_ne k c v t (fun e => h.1 e.symm), ih h.2]

theorem widthSum_cons_le (k : String) (v : Nat) (t : WMap) : ∀ (cols : List String), cols.Nodup →
    widthSum ((k, v) :: t) cols ≤ v + widthSum t cols := by
  intro cols
  induction cols with
  | nil => intro _; simp [widthSum]
  | cons c cs ih =>
    intro hnd
    rw [List.nodup_cons] at hnd
    by_cases hck : c = k
    · subst hck
      simp [widthSum, WMap.get, widthSum_cons_notin c v t cs hnd.1]
    · have := ih hnd.2
      simp only [widthSum, get_cons_ne k c v t hck]
      omega

/-- distinct columns never take more than the whole map -/
theorem widthSum_le_total : ∀ (w : WMap) (cols : List String), cols.Nodup → widthSum w cols ≤ w.total := by
  intro w
  induction w with
  | nil =>
    intro cols _
    have : ∀ cs : List String, widthSum [] cs = 0 := by
      intro cs; induction cs with
      | nil => rfl
      | cons c cs ih => simp [widthSum, WMap.get, ih]
    simp [this, WMap.total]
  | cons kv t ih =>
    intro cols hnd
    obtain ⟨k, v⟩ := kv
    have h1 := widthSum_cons_le k v t cols hnd
    have h2 := ih cols hnd
    simp only [WMap.total]
    omega

/-! ### the parts of a table -/

theorem AllPairs.mem_right {α β : Type} {R : α → β → Prop} {as : List α} {bs : List β}
    (h : AllPairs R as bs) : ∀ b ∈ bs, ∃ a ∈ as, R a b := by
  induction h with
  | nil => intro b hb; simp at hb
  | cons hr _ ih =>
    intro b hb
    simp only [List.mem_cons] at hb
    rcases hb with rfl | hb
    · exact ⟨_, by simp, hr⟩
    · obtain ⟨a, ha, hab⟩ := ih b hb
      exact ⟨a, by simp [ha], hab⟩

theorem bodyLines_spec (w : WMap) (cols : List String) : ∀ (rows : List Fields) (body : List Str),
    bodyLines w cols rows = .ok body →
    AllPairs (fun row l => ∃ cells, rowCells w row cols = .ok cells ∧ l = Text.trimEnd (concat cells)) rows body := by
  intro rows
  induction rows with
  | nil => intro body h; simp [bodyLines] at h; subst h; exact .nil
  | cons r rs ih =>
    intro body h
    simp only [bodyLines, rowLine] at h
    cases hc : rowCells w r cols with
    | ok cells =>
      rw [hc] at h
      simp only [] at h
      cases hb : bodyLines w cols rs with
      | ok ls =>
        rw [hb] at h
        simp only [Outcome.ok.injEq] at h
        subst h
        exact .cons ⟨cells, hc, rfl⟩ (ih ls hb)
      | err k => rw [hb] at h; simp at h
      | panic p => rw [hb] at h; simp at h
      | unmodelled u => rw [hb] at h; simp at h
    | err k => rw [hc] at h; simp at h
    | panic p => rw [hc] at h; simp at h
    | unmodelled u => rw [hc] at h; simp at h

theorem headerCells_spec (w : WMap) : ∀ (cols : List String) (hs : List Str),
    headerCells w cols = .ok hs →
    AllPairs (fun c h => ∃ n, w.get c = some n ∧ fmtEllipsis c.toList n = .ok h) cols hs := by
  intro cols
  induction cols with
  | nil => intro hs h; simp [headerCells] at h; subst h; exact .nil
  | cons c cs ih =>
    intro hs h
    simp only [headerCells] at h
    cases hg : w.get c with
    | none => rw [hg] at h; simp at h
    | some n =>
      rw [hg] at h
      simp only [] at h
      cases hf : fmtEllipsis c.toList n with
      | ok cell =>
        rw [hf] at h
        simp only [] at h
        cases hr : headerCells w cs with
        | ok rest =>
          rw [hr] at h
          simp only [Outcome.ok.injEq] at h
          subst h
          exact .cons ⟨n, hg, hf⟩ (ih rest hr)
        | err k => rw [hr] at h; simp at h
        | panic p => rw [hr] at h; simp at h
        | unmodelled u => rw [hr] at h; simp at h
      | err k => rw [hf] at h; simp at h
      | panic p => rw [hf] at h; simp at h
      | unmodelled u => rw [hf] at h; simp at h

/-- what a successful `tableParts` consists of -/
theorem tableParts_inv (env : Env) (widths : WMap) (t : Table) (w2 : WMap) (parts : Parts)
    (h : tableParts env widths t = .ok (w2, parts)) :
    resize env (absorbRows env.cfg widths t.rows) t.columns = .ok w2 ∧ fits env w2 = true ∧
    ∃ hs, headerCells w2 t.columns = .ok hs ∧ parts.header = Text.trimEnd (concat hs) ∧
      parts.sep = List.replicate (concat hs).length '-' ∧
      bodyLines w2 t.columns t.rows = .ok parts.body := by
  simp only [tableParts] at h
  cases hr : resize env (absorbRows env.cfg widths t.rows) t.columns with
  | ok w2' =>
    rw [hr] at h
    simp only [] at h
    by_cases hf : fits env w2' = true
    · simp only [hf, Bool.not_true, Bool.false_eq_true, ↓reduceIte] at h
      cases hh : headerCells w2' t.columns with
      | ok hs =>
        rw [hh] at h
        simp only [] at h
        cases hb : bodyLines w2' t.columns t.rows with
        | ok body =>
          rw [hb] at h
          simp only [Outcome.ok.injEq, Prod.mk.injEq] at h
          obtain ⟨rfl, rfl⟩ := h
          exact ⟨rfl, hf, hs, hh, rfl, rfl, hb⟩
        | err k => rw [hb] at h; simp at h
        | panic p => rw [hb] at h; simp at h
        | unmodelled u => rw [hb] at h; simp at h
      | err k => rw [hh] at h; simp at h
      | panic p => rw [hh] at h; simp at h
      | unmodelled u => rw [hh] at h; simp at h
    · simp [hf] at h
  | err k => rw [hr] at h; simp at h
  | panic p => rw [hr] at h; simp at h
  | unmodelled u => rw [hr] at h; simp at h

/-- **C19_body_width.**  Every body line has at most `width` characters (240 without a terminal),
for every table with distinct column names and every size for which the printer does not panic. -/
theorem C19_body_width (env : Env) (widths : WMap) (t : Table) (w2 : WMap) (parts : Parts)
    (hnd : t.columns.Nodup) (h : tableParts env widths t = .ok (w2, parts)) :
    ∀ l ∈ parts.body, l.length ≤ env.maxWidth := by
  obtain ⟨_, hfits, _, _, _, _, hb⟩ := tableParts_inv env widths t w2 parts h
  intro l hl
  obtain ⟨row, _, cells, hc, rfl⟩ := (bodyLines_spec w2 t.columns t.rows parts.body hb).mem_right l hl
  have h1 := trimEnd_length_le (concat cells)
  have h2 := rowCells_length w2 row t.columns cells hc
  have h3 := widthSum_le_total w2 t.columns hnd
  have h4 : w2.total ≤ env.maxWidth := by simpa [fits] using hfits
  omega

/-! ### header and separator -/

/-- **C19_header.**  The header line is the column names in column order, each formatted like a
cell of its column (`C19_cell`: padded to the column's width, or cut with an ellipsis when longer),
minus trailing blanks. -/
theorem C19_header (env : Env) (widths : WMap) (t : Table) (w2 : WMap) (parts : Parts)
    (h : tableParts env widths t = .ok (w2, parts)) :
    ∃ hs, AllPairs (fun c cell => ∃ n, w2.get c = some n ∧ fmtEllipsis c.toList n = .ok cell) t.columns hs ∧
      parts.header = Text.trimEnd (concat hs) := by
  obtain ⟨_, _, hs, hh, hhead, _, _⟩ := tableParts_inv env widths t w2 parts h
  exact ⟨hs, headerCells_spec w2 t.columns hs hh, hhead⟩

/-- header cells are exactly as wide as the body cells of their columns: names sit at their
columns' offsets and the header is as wide as the table -/
theorem header_length (w : WMap) : ∀ (cols : List String) (hs : List Str),
    AllPairs (fun c h => ∃ n, w.get c = some n ∧ fmtEllipsis c.toList n = .ok h) cols hs →
    (concat hs).length = widthSum w cols := by
  intro cols hs h
  induction h with
  | nil => rfl
  | cons hc _ ih =>
    obtain ⟨n, hn, hf⟩ := hc
    simp [concat, widthSum, hn, C19_cell_length _ _ _ hf, ih]

/-- the name of the column at position `pre.length` starts at offset `widthSum w pre` of the header,
the offset of that column's cells in every row (`C19_offsets`) -/
theorem C19_header_offsets (w : WMap) (pre : List String) (c : String) (post : List String) (hs : List Str)
    (h : headerCells w (pre ++ c :: post) = .ok hs) :
    ∃ (before cell after : Str) (n : Nat), concat hs = before ++ cell ++ after ∧
      before.length = widthSum w pre ∧ w.get c = some n ∧ fmtEllipsis c.toList n = .ok cell := by
  obtain ⟨hsPre, rest, rfl, hpre, hrest⟩ := AllPairs.split _ _ _ (headerCells_spec w _ hs h)
  cases hrest with
  | @cons _ cell _ hsPost hc hpost =>
    obtain ⟨n, hn, hf⟩ := hc
    exact ⟨concat hsPre, cell, concat hsPost, n, by simp [concat_append, concat],
      header_length w pre hsPre hpre, hn, hf⟩

/-- **C19_header_width.**  The header line never has more characters than the terminal is wide. -/
theorem C19_header_width (env : Env) (widths : WMap) (t : Table) (w2 : WMap) (parts : Parts)
    (hnd : t.columns.Nodup) (h : tableParts env widths t = .ok (w2, parts)) :
    parts.header.length ≤ env.maxWidth := by
  obtain ⟨_, hfits, hs, hh, hhead, _, _⟩ := tableParts_inv env widths t w2 parts h
  have h0 := header_length w2 t.columns hs (headerCells_spec w2 t.columns hs hh)
  have h1 := trimEnd_length_le (concat hs)
  have h3 := widthSum_le_total w2 t.columns hnd
  have h4 : w2.total ≤ env.maxWidth := by simpa [fits] using hfits
  rw [hhead]
  omega

def headerText : Outcome (WMap × Parts) → Option String
  | .ok (_, p) => some (String.ofList p.header)
  | _ => none

def sepLen : Outcome (WMap × Parts) → Option Nat
  | .ok (_, p) => some p.sep.length
  | _ => none

def envNarrow12 : Env := { cfg := { minBuf := 4, maxBuf := 8 }, term := some (12, 10) }
def tableLongName : Table :=
  { columns := ["a_rather_long_column_name", "_count"],
    rows := [[("_count", .int 1), ("a_rather_long_column_name", .str "x")]] }

/-- the former counterexample (a 25-character name on a 12-column terminal printed a 31-character
header): the name is now cut to its 6-cell column -/
example : headerText (tableParts envNarrow12 [] tableLongName) = some "a_ra… _count" := by decide

/-- **C19_separator.**  The separator consists of dashes, exactly as many as the table is wide
(the sum of the column widths). -/
theorem C19_separator (env : Env) (widths : WMap) (t : Table) (w2 : WMap) (parts : Parts)
    (h : tableParts env widths t = .ok (w2, parts)) :
    (∀ c ∈ parts.sep, c = '-') ∧ parts.sep.length = widthSum w2 t.columns := by
  obtain ⟨_, _, hs, hh, _, hsep, _⟩ := tableParts_inv env widths t w2 parts h
  refine ⟨?_, ?_⟩
  · intro c hc
    rw [hsep] at hc
    exact (List.mem_replicate.mp hc).2
  · rw [hsep, List.length_replicate]
    exact header_length w2 t.columns hs (headerCells_spec w2 t.columns hs hh)

/-- **C19_separator_width.**  The separator never has more characters than the terminal is wide. -/
theorem C19_separator_width (env : Env) (widths : WMap) (t : Table) (w2 : WMap) (parts : Parts)
    (hnd : t.columns.Nodup) (h : tableParts env widths t = .ok (w2, parts)) :
    parts.sep.length ≤ env.maxWidth := by
  obtain ⟨_, hfits, _, _, _, _, _⟩ := tableParts_inv env widths t w2 parts h
  have h0 := (C19_separator env widths t w2 parts h).2
  have h3 := widthSum_le_total w2 t.columns hnd
  have h4 : w2.total ≤ env.maxWidth := by simpa [fits] using hfits
  omega

def envNarrow24 : Env := { cfg := { minBuf := 4, maxBuf := 8 }, term := some (24, 10) }
def tableMultiByte : Table :=
  { columns := ["größe", "_count"],
    rows := [[("_count", .int 1), ("größe", .str "abcdefghijklmnopqrstuvwxyz")]] }

/-- the former counterexample (multi-byte names: 26 dashes on a 24-column terminal) -/
example : sepLen (tableParts envNarrow24 [] tableMultiByte) = some 24 := by decide

/-! ### clipping to the terminal height -/

/-- number of newlines = number of printed lines -/
def nlCount : Str → Nat
  | [] => 0
  | c :: cs => (if c = '\n' then 1 else 0) + nlCount cs

theorem nlCount_append (a b : Str) : nlCount (a ++ b) = nlCount a + nlCount b := by
  induction a with
  | nil => simp [nlCount]
  | cons c cs ih => simp [nlCount, ih]; omega

theorem nlCount_zero_of_not_mem : ∀ l : Str, '\n' ∉ l → nlCount l = 0 := by
  intro l
  induction l with
  | nil => intro _; rfl
  | cons c cs ih =>
    intro h
    simp only [List.mem_cons, not_or] at h
    have hc : c ≠ '\n' := fun e => h.1 e.symm
    simp [nlCount, hc, ih h.2]

theorem nlCount_unlines : ∀ ls : List Str, (∀ l ∈ ls, '\n' ∉ l) → nlCount (unlines ls) = ls.length := by
  intro ls
  induction ls with
  | nil => intro _; rfl
  | cons l ls ih =>
    intro h
    simp only [unlines, nlCount_append, nlCount, List.length_cons]
    rw [nlCount_zero_of_not_mem l (h l (by simp)), ih (fun x hx => h x (by simp [hx]))]
    simp
    omega

theorem splitNl_ne_nil (s : Str) : splitNl s ≠ [] := by
  cases s with
  | nil => simp [splitNl]
  | cons c cs =>
    simp only [splitNl]
    split
    · simp
    · split <;> simp

theorem splitNl_no_nl : ∀ (s : Str), ∀ l ∈ splitNl s, '\n' ∉ l := by
  intro s
  induction s with
  | nil => intro l hl; simp [splitNl] at hl; subst hl; simp
  | cons c cs ih =>
    intro l hl
    simp only [splitNl] at hl
    split at hl
    · simp only [List.mem_cons] at hl
      rcases hl with rfl | hl
      · simp
      · exact ih l hl
    · rename_i hc
      split at hl
      · simp at hl; subst hl; simp; exact fun e => hc e.symm
      · rename_i x xs hx
        simp only [List.mem_cons] at hl
        rcases hl with rfl | hl
        · have := ih x (by rw [hx]; simp)
          simp only [List.mem_cons, not_or]
          exact ⟨fun e => hc e.symm, this⟩
        · exact ih l (by rw [hx]; simp [hl])

theorem stripCr_no_nl (l : Str) (h : '\n' ∉ l) : '\n' ∉ stripCr l := by
  unfold stripCr
  split
  · exact fun hm => h ((List.dropLast_sublist _).subset hm)
  · exact h

theorem rustLines_no_nl (s : Str) : ∀ l ∈ rustLines s, '\n' ∉ l := by
  intro l hl
  simp only [rustLines, List.mem_append, List.mem_map] at hl
  rcases hl with ⟨x, hx, rfl⟩ | hl
  · exact stripCr_no_nl x (splitNl_no_nl s x ((List.dropLast_sublist _).subset hx))
  · split at hl
    · simp at hl
    · simp only [List.mem_singleton] at hl
      subst hl
      cases hg : (splitNl s).getLast? with
      | none => simp
      | some x =>
        simp only [Option.getD_some]
        exact splitNl_no_nl s x (List.mem_of_getLast? hg)

/-- **C19_clip.**  On a terminal of height `h` the printed table has at most `h − 1` lines
(a single empty line for `h = 1`). -/
theorem C19_clip (env : Env) (w h : Nat) (s out : Str) (hterm : env.term = some (w, h))
    (hc : clip env s = .ok out) : nlCount out ≤ max (h - 1) 1 := by
  simp only [clip, hterm] at hc
  split at hc
  · simp at hc
  · split at hc
    · simp only [Outcome.ok.injEq] at hc
      subst hc
      simp [nlCount]
      omega
    · rename_i ls hls
      simp only [Outcome.ok.injEq] at hc
      subst hc
      rw [nlCount_unlines]
      · have := List.length_take_le (h - 1) (rustLines s)
        omega
      · intro l hl
        exact rustLines_no_nl s l (List.mem_of_mem_take hl)

/-- a line that survives `lines()` unchanged -/
def Clean (l : Str) : Prop := '\n' ∉ l ∧ l.getLast? ≠ some '\r'

theorem splitNl_line (l rest : Str) (h : '\n' ∉ l) : splitNl (l ++ '\n' :: rest) = l :: splitNl rest := by
  induction l with
  | nil => simp [splitNl]
  | cons c cs ih =>
    simp only [List.mem_cons, not_or] at h
    have hc : c ≠ '\n' := fun e => h.1 e.symm
    simp only [List.cons_append, splitNl, hc, ↓reduceIte, ih h.2]

theorem splitNl_unlines : ∀ ls : List Str, (∀ l ∈ ls, '\n' ∉ l) → splitNl (unlines ls) = ls ++ [[]] := by
  intro ls
  induction ls with
  | nil => intro _; rfl
  | cons l ls ih =>
    intro h
    simp only [unlines]
    rw [splitNl_line l _ (h l (by simp)), ih (fun x hx => h x (by simp [hx]))]
    rfl

theorem rustLines_unlines (ls : List Str) (h : ∀ l ∈ ls, Clean l) : rustLines (unlines ls) = ls := by
  simp only [rustLines]
  rw [splitNl_unlines ls (fun l hl => (h l hl).1)]
  simp only [List.dropLast_concat, List.getLast?_append, List.getLast?_singleton, Option.some_or,
    Option.getD_some, List.isEmpty_nil, ↓reduceIte, List.append_nil]
  have : ∀ l ∈ ls, stripCr l = l := by
    intro l hl
    simp [stripCr, (h l hl).2]
  rw [List.map_congr_left this]
  simp

/-- **C19_lines.**  When no header, separator or body text contains a newline or ends in a
carriage return, the printed table is: header line, separator line, one line per row — cut after
`height − 1` lines on a terminal. -/
theorem C19_lines (env : Env) (st : St) (t : Table) (w2 : WMap) (parts : Parts)
    (hrows : t.rows ≠ []) (hp : tableParts env st.widths t = .ok (w2, parts))
    (hclean : ∀ l ∈ parts.header :: parts.sep :: parts.body, Clean l) :
    match env.term with
    | none => formatAggregate env st t = .ok (unlines (parts.header :: parts.sep :: parts.body), { st with widths := w2 })
    | some (_, h) => 2 ≤ h →
      formatAggregate env st t =
        .ok (unlines ((parts.header :: parts.sep :: parts.body).take (h - 1)), { st with widths := w2 }) := by
  have hne : t.rows.isEmpty = false := by cases hr : t.rows <;> simp_all
  cases hterm : env.term with
  | none => simp [formatAggregate, hne, hp, clip, hterm, Parts.text]
  | some wh =>
    obtain ⟨w, h⟩ := wh
    intro h2
    simp only [formatAggregate, hne, Bool.false_eq_true, ↓reduceIte, hp, clip, hterm, Parts.text]
    rw [rustLines_unlines _ hclean]
    have hlt : ¬ h < 1 := by omega
    simp only [hlt, ↓reduceIte]
    have hk : h - 1 = (h - 2) + 1 := by omega
    rw [hk]
    simp [List.take]

/-! ### no panic -/

/-- every listed column has a width -/
def AllHave (w : WMap) (cols : List String) : Prop := ∀ c ∈ cols, (w.get c).isSome

theorem get_put_self (k : String) (v : Nat) : ∀ m : WMap, (WMap.put k v m).get k = some v := by
  intro m
  induction m with
  | nil => simp [WMap.put, WMap.get]
  | cons kv t ih =>
    obtain ⟨k', v'⟩ := kv
    by_cases h : k = k'
    · simp [WMap.put, WMap.get, h]
    · simp [WMap.put, WMap.get, h, ih]

theorem get_put_ne (k c : String) (v : Nat) (h : c ≠ k) : ∀ m : WMap, (WMap.put k v m).get c = m.get c := by
  intro m
  induction m with
  | nil => simp [WMap.put, WMap.get, h]
  | cons kv t ih =>
    obtain ⟨k', v'⟩ := kv
    by_cases hk : k = k'
    · subst hk; simp [WMap.put, WMap.get, h]
    · by_cases hc : c = k'
      · simp [WMap.put, WMap.get, hk, hc]
      · simp [WMap.put, WMap.get, hk, hc, ih]

theorem total_put_le (k : String) (v : Nat) : ∀ m : WMap, (WMap.put k v m).total ≤ m.total + v := by
  intro m
  induction m with
  | nil => simp [WMap.put, WMap.total]
  | cons kv t ih =>
    obtain ⟨k', v'⟩ := kv
    by_cases hk : k = k'
    · simp [WMap.put, WMap.total, hk]; omega
    · simp only [WMap.put, hk, ↓reduceIte, WMap.total]; omega

theorem get_some_mem : ∀ (w : WMap) (c : String) (n : Nat), w.get c = some n → c ∈ w.map Prod.fst := by
  intro w
  induction w with
  | nil => intro c n h; simp [WMap.get] at h
  | cons kv t ih =>
    intro c n h
    obtain ⟨k, v⟩ := kv
    by_cases hc : c = k
    · simp [hc]
    · simp only [WMap.get, hc, ↓reduceIte] at h
      simp [ih c n h]

/-- `extend`: a key of `new` gets one of `new`'s values, any other key keeps its value -/
theorem get_extend : ∀ (new m : WMap) (c : String),
    (c ∈ new.map Prod.fst → ∃ n, (c, n) ∈ new ∧ (WMap.extend m new).get c = some n) ∧
    (c ∉ new.map Prod.fst → (WMap.extend m new).get c = m.get c) := by
  intro new
  induction new with
  | nil => intro m c; simp [WMap.extend]
  | cons kv rest ih =>
    intro m c
    obtain ⟨k, v⟩ := kv
    simp only [WMap.extend, List.map_cons, List.mem_cons]
    obtain ⟨ih1, ih2⟩ := ih (WMap.put k v m) c
    constructor
    · intro hmem
      by_cases hr : c ∈ rest.map Prod.fst
      · obtain ⟨n, hn, hg⟩ := ih1 hr
        exact ⟨n, Or.inr hn, hg⟩
      · have hck : c = k := by
          rcases hmem with h | h
          · exact h
          · exact absurd h hr
        subst hck
        exact ⟨v, Or.inl rfl, by rw [ih2 hr, get_put_self]⟩
    · intro hn
      simp only [not_or] at hn
      rw [ih2 hn.2, get_put_ne k c v hn.1]

theorem computeWidths_keys (cfg : Cfg) (w : WMap) : ∀ row : Fields,
    (computeWidths cfg w row).map Prod.fst = Fields.keys row := by
  intro row
  induction row with
  | nil => rfl
  | cons kv rest ih => obtain ⟨k, v⟩ := kv; simp [computeWidths, Fields.keys] at ih ⊢; exact ih

/-- after the rows have been absorbed every column that occurs in a row has a width -/
theorem absorb_has (cfg : Cfg) (c : String) : ∀ (rows : List Fields) (w : WMap),
    ((∃ row ∈ rows, c ∈ Fields.keys row) ∨ (w.get c).isSome) →
    ((absorbRows cfg w rows).get c).isSome := by
  intro rows
  induction rows with
  | nil =>
    intro w h
    rcases h with ⟨row, hr, _⟩ | h
    · simp at hr
    · exact h
  | cons row rows ih =>
    intro w h
    simp only [absorbRows]
    apply ih
    obtain ⟨g1, g2⟩ := get_extend (computeWidths cfg w row) w c
    rw [computeWidths_keys] at g1 g2
    by_cases hin : c ∈ Fields.keys row
    · obtain ⟨n, _, hg⟩ := g1 hin
      exact Or.inr (by simp [hg])
    · rcases h with ⟨r, hr, hc⟩ | h
      · simp only [List.mem_cons] at hr
        rcases hr with rfl | hr
        · exact absurd hc hin
        · exact Or.inl ⟨r, hr, hc⟩
      · exact Or.inr (by rw [g2 hin]; exact h)

/-- the allocation loop of `resize_widths_to_fit` never underflows: a column's share is at most what
remains, and there are at least as many map entries as columns still to come -/
theorem resizeGo_ok (len : Nat) (cw : WMap) : ∀ (cols : List String) (i rem : Nat) (acc : WMap),
    AllHave cw cols → i + cols.length ≤ len →
    ∃ w2, resizeGo len cw cols i rem acc = .ok w2 ∧
      (∀ c, (c ∈ cols ∨ (acc.get c).isSome) → (w2.get c).isSome) ∧ w2.total ≤ acc.total + rem := by
  intro cols
  induction cols with
  | nil =>
    intro i rem acc _ _
    refine ⟨acc, rfl, ?_, by omega⟩
    intro c hc
    simpa using hc
  | cons col rest ih =>
    intro i rem acc hall hlen
    obtain ⟨width, hget⟩ := Option.isSome_iff_exists.mp (hall col (by simp))
    simp only [List.length_cons] at hlen
    have hd : 1 ≤ len - i := by omega
    have hsle : rem / (len - i) ≤ rem := Nat.div_le_self rem (len - i)
    have hshare : share rem (len - i) = rem / (len - i) := by
      simp [share]; omega
    have hnlt : ¬ len < i := by omega
    simp only [resizeGo, hget, hnlt, ↓reduceIte, hshare]
    by_cases hlt : width < rem / (len - i)
    · have h1 : ¬ rem < width := by omega
      simp only [hlt, ↓reduceIte, h1]
      obtain ⟨w2, hr, hk, ht⟩ := ih (i + 1) (rem - width) (acc.put col width)
        (fun c hc => hall c (by simp [hc])) (by omega)
      refine ⟨w2, hr, ?_, ?_⟩
      · intro c hc
        apply hk
        by_cases hcc : c = col
        · subst hcc; right; simp [get_put_self]
        · rcases hc with hc | hc
          · simp only [List.mem_cons] at hc
            rcases hc with hc | hc
            · exact absurd hc hcc
            · exact Or.inl hc
          · right; rw [get_put_ne col c width hcc]; exact hc
      · have := total_put_le col width acc
        omega
    · have h1 : ¬ rem < rem / (len - i) := by omega
      simp only [hlt, ↓reduceIte, h1]
      obtain ⟨w2, hr, hk, ht⟩ := ih (i + 1) (rem - rem / (len - i)) (acc.put col (rem / (len - i)))
        (fun c hc => hall c (by simp [hc])) (by omega)
      refine ⟨w2, hr, ?_, ?_⟩
      · intro c hc
        apply hk
        by_cases hcc : c = col
        · subst hcc; right; simp [get_put_self]
        · rcases hc with hc | hc
          · simp only [List.mem_cons] at hc
            rcases hc with hc | hc
            · exact absurd hc hcc
            · exact Or.inl hc
          · right; rw [get_put_ne col c _ hcc]; exact hc
      · have := total_put_le col (rem / (len - i)) acc
        omega

theorem headerCells_ok (w : WMap) : ∀ cols : List String, AllHave w cols →
    ∃ hs, headerCells w cols = .ok hs := by
  intro cols
  induction cols with
  | nil => intro _; exact ⟨[], rfl⟩
  | cons c cs ih =>
    intro h
    obtain ⟨n, hn⟩ := Option.isSome_iff_exists.mp (h c (by simp))
    obtain ⟨cell, hcell⟩ := fmtEllipsis_ok c.toList n
    obtain ⟨hs, hhs⟩ := ih (fun d hd => h d (by simp [hd]))
    exact ⟨cell :: hs, by simp [headerCells, hn, hcell, hhs]⟩

theorem rowCells_ok (w : WMap) (row : Fields) : ∀ cols : List String, AllHave w cols →
    ∃ cells, rowCells w row cols = .ok cells := by
  intro cols
  induction cols with
  | nil => intro _; exact ⟨[], rfl⟩
  | cons c cs ih =>
    intro h
    obtain ⟨n, hn⟩ := Option.isSome_iff_exists.mp (h c (by simp))
    obtain ⟨cell, hcell⟩ := fmtEllipsis_ok (cellText ((Fields.get c row).getD .none)) n
    obtain ⟨cells, hcells⟩ := ih (fun d hd => h d (by simp [hd]))
    exact ⟨cell :: cells, by simp [rowCells, hn, hcell, hcells]⟩

theorem bodyLines_ok (w : WMap) (cols : List String) (h : AllHave w cols) : ∀ rows : List Fields,
    ∃ body, bodyLines w cols rows = .ok body := by
  intro rows
  induction rows with
  | nil => exact ⟨[], rfl⟩
  | cons r rs ih =>
    obtain ⟨cells, hc⟩ := rowCells_ok w r cols h
    obtain ⟨body, hb⟩ := ih
    exact ⟨Text.trimEnd (concat cells) :: body, by simp [bodyLines, rowLine, hc, hb]⟩

theorem clip_ok (env : Env) (hh : HeightOK env) (s : Str) : ∃ out, clip env s = .ok out := by
  cases hterm : env.term with
  | none => exact ⟨s, by simp [clip, hterm]⟩
  | some wh =>
    obtain ⟨w, h⟩ := wh
    have := hh w h hterm
    have hlt : ¬ h < 1 := by omega
    simp only [clip, hterm, hlt, ↓reduceIte]
    split
    · exact ⟨_, rfl⟩
    · exact ⟨_, rfl⟩

/-- **C19_no_panic.**  `format_aggregate` does not panic: for every table with distinct column
names that occur in its rows, every terminal size with a height (any width, even narrower than
the number of columns), the no-terminal case, every buffer configuration, and whatever widths
earlier frames left in the printer. -/
theorem C19_no_panic (env : Env) (st : St) (t : Table)
    (hh : HeightOK env) (hnd : t.columns.Nodup) (hcov : Covered t) :
    ∃ out st', formatAggregate env st t = .ok (out, st') := by
  by_cases hrows : t.rows = []
  · exact ⟨_, _, C19_empty env st t hrows⟩
  have hne : t.rows.isEmpty = false := by cases hr : t.rows <;> simp_all
  have hall1 : AllHave (absorbRows env.cfg st.widths t.rows) t.columns := by
    intro c hc
    exact absorb_has env.cfg c t.rows st.widths (Or.inl (hcov c hc))
  have hres : ∃ w2, resize env (absorbRows env.cfg st.widths t.rows) t.columns = .ok w2 ∧
      AllHave w2 t.columns ∧ fits env w2 = true := by
    by_cases hf : fits env (absorbRows env.cfg st.widths t.rows) = true
    · exact ⟨_, by simp [resize, hf], hall1, hf⟩
    · have hsub : t.columns ⊆ (absorbRows env.cfg st.widths t.rows).map Prod.fst := by
        intro c hc
        obtain ⟨n, hn⟩ := Option.isSome_iff_exists.mp (hall1 c hc)
        exact get_some_mem _ c n hn
      have hlen := hnd.length_le_of_subset hsub
      simp only [List.length_map] at hlen
      obtain ⟨w2, hr, hk, ht⟩ := resizeGo_ok (absorbRows env.cfg st.widths t.rows).length
        (absorbRows env.cfg st.widths t.rows) t.columns 0 env.maxWidth [] hall1 (by omega)
      refine ⟨w2, by simp [resize, hf, hr], fun c hc => hk c (Or.inl hc), ?_⟩
      simp only [WMap.total] at ht
      simp [fits]; omega
  obtain ⟨w2, hr, hall2, hfits⟩ := hres
  obtain ⟨hs, hhs⟩ := headerCells_ok w2 t.columns hall2
  obtain ⟨body, hb⟩ := bodyLines_ok w2 t.columns hall2 t.rows
  obtain ⟨out, hout⟩ := clip_ok env hh
    (Parts.text { header := Text.trimEnd (concat hs), sep := List.replicate (concat hs).length '-', body := body })
  exact ⟨out, { st with widths := w2 }, by simp [formatAggregate, hne, tableParts, hr, hfits, hhs, hb, hout]⟩

def outText : Outcome (Str × St) → Option String
  | .ok (s, _) => some (String.ofList s)
  | _ => none

def envNarrow2 : Env := { cfg := { minBuf := 4, maxBuf := 8 }, term := some (2, 10) }
def table3 : Table :=
  { columns := ["a", "b", "c"], rows := [[("a", .int 1), ("b", .int 2), ("c", .int 3)]] }

/-- the former panic witness (three columns on a two-cell terminal: shares 0, 1, 1) prints -/
example : outText (formatAggregate envNarrow2 {} table3) = some "bc\n--\n23\n" := by decide

/-! ### every line fits -/

/-- **C19_width.**  No line of the table — header, separator, body — has more characters than the
terminal is wide (240 without a terminal), for every table with distinct column names. -/
theorem C19_width (env : Env) (widths : WMap) (t : Table) (w2 : WMap) (parts : Parts)
    (hnd : t.columns.Nodup) (h : tableParts env widths t = .ok (w2, parts)) :
    ∀ l ∈ parts.header :: parts.sep :: parts.body, l.length ≤ env.maxWidth := by
  intro l hl
  simp only [List.mem_cons] at hl
  rcases hl with rfl | rfl | hl
  · exact C19_header_width env widths t w2 parts hnd h
  · exact C19_separator_width env widths t w2 parts hnd h
  · exact C19_body_width env widths t w2 parts hnd h l hl

/-! ### records as columns -/

theorem mem_insertKey (x k : String) : ∀ l : List String, x ∈ insertKey k l ↔ x = k ∨ x ∈ l := by
  intro l
  induction l with
  | nil => simp [insertKey]
  | cons y ys ih =>
    simp only [insertKey]
    split
    · simp
    · simp only [List.mem_cons, ih]
      constructor
      · rintro (h | h | h) <;> simp [h]
      · rintro (h | h | h) <;> simp [h]

theorem mem_sortKeys (x : String) : ∀ l : List String, x ∈ sortKeys l ↔ x ∈ l := by
  intro l
  induction l with
  | nil => simp [sortKeys]
  | cons y ys ih => simp [sortKeys, mem_insertKey, ih]

theorem mem_newColumns (order : List String) (data : Fields) (k : String) :
    k ∈ newColumns order data ↔ k ∈ Fields.keys data ∧ k ∉ order := by
  simp [newColumns, mem_sortKeys, List.mem_filter]

/-- what the state and the text are after a successful `format_record_as_columns` -/
theorem formatRecord_inv (env : Env) (st : St) (r : Record) (out : Str) (st' : St)
    (h : formatRecord env st r = .ok (out, st')) :
    let w1 := st.widths.extend (computeWidths env.cfg st.widths r.data)
    let o1 := st.order ++ newColumns st.order r.data
    (o1 = [] ∧ st'.order = [] ∧ out = Text.trimEnd r.raw.toList) ∨
    (overflows env w1 = false ∧ st'.order = o1 ∧
      ∃ cells, recordCells false w1 r.data o1 = .ok cells ∧ out = Text.trim (concat cells)) ∨
    (overflows env w1 = true ∧ st'.order = newColumns [] r.data ∧
      ∃ noPad cells, recordCells noPad st'.widths r.data st'.order = .ok cells ∧ out = Text.trim (concat cells)) := by
  intro w1 o1
  simp only [formatRecord] at h
  by_cases he : (st.order ++ newColumns st.order r.data).isEmpty = true
  · left
    simp only [he, ↓reduceIte, Outcome.ok.injEq, Prod.mk.injEq] at h
    obtain ⟨rfl, rfl⟩ := h
    have : o1 = [] := by simpa [o1] using he
    exact ⟨this, by simpa [o1] using this, rfl⟩
  · right
    simp only [he, Bool.false_eq_true, ↓reduceIte] at h
    by_cases hov : overflows env w1 = true
    · right
      simp only [w1] at hov
      simp only [hov, ↓reduceIte] at h
      split at h
      · rename_i cells hc
        simp only [Outcome.ok.injEq, Prod.mk.injEq] at h
        obtain ⟨rfl, rfl⟩ := h
        exact ⟨hov, rfl, _, cells, hc, rfl⟩
      all_goals simp at h
    · left
      have hov' : overflows env w1 = false := by simpa using hov
      simp only [w1] at hov'
      simp only [hov', Bool.false_eq_true, ↓reduceIte] at h
      split at h
      · rename_i cells hc
        simp only [Outcome.ok.injEq, Prod.mk.injEq] at h
        obtain ⟨rfl, rfl⟩ := h
        exact ⟨hov', rfl, cells, hc, rfl⟩
      all_goals simp at h

/-- **C19_record_fields** (columns): after a record has been printed every one of its fields has a
column -/
theorem C19_record_fields (env : Env) (st : St) (r : Record) (out : Str) (st' : St)
    (h : formatRecord env st r = .ok (out, st')) : ∀ k ∈ Fields.keys r.data, k ∈ st'.order := by
  intro k hk
  rcases formatRecord_inv env st r out st' h with ⟨ho, _, _⟩ | ⟨_, ho, _⟩ | ⟨_, ho, _⟩
  · -- no column at all: then the record has no field
    have : k ∈ st.order ++ newColumns st.order r.data := by
      by_cases hin : k ∈ st.order
      · simp [hin]
      · simp [mem_newColumns, hk, hin]
    rw [ho] at this
    simp at this
  · rw [ho]
    by_cases hin : k ∈ st.order
    · simp [hin]
    · simp [mem_newColumns, hk, hin]
  · rw [ho]
    simp [mem_newColumns, hk]

/-- **C19_record_order_stable**: the column order only ever grows at the end — unless the layout
overflowed the terminal, in which case it is rebuilt from this record alone -/
theorem C19_record_order_stable (env : Env) (st : St) (r : Record) (out : Str) (st' : St)
    (h : formatRecord env st r = .ok (out, st'))
    (hno : overflows env (st.widths.extend (computeWidths env.cfg st.widths r.data)) = false) :
    ∃ added, st'.order = st.order ++ added := by
  rcases formatRecord_inv env st r out st' h with ⟨ho, ho', _⟩ | ⟨_, ho, _⟩ | ⟨hov, _, _⟩
  · refine ⟨[], ?_⟩
    have := List.append_eq_nil_iff.mp ho
    simp [ho', this.1]
  · exact ⟨_, ho⟩
  · rw [hno] at hov; cases hov

/-- without a terminal the layout never overflows: the order is stable for the whole run -/
theorem overflows_no_terminal (env : Env) (w : WMap) (h : env.term = none) : overflows env w = false := by
  simp [overflows, h]

/-- the cells of a record line: for every column, `[name=value]` (then padding) when the record
has the field, nothing (then padding) when it has not -/
theorem recordCells_spec (noPad : Bool) (w : WMap) (data : Fields) : ∀ (cols : List String) (cells : List Str),
    recordCells noPad w data cols = .ok cells →
    AllPairs (fun c cell => ∃ pad, cell = recordCell data c ++ pad ∧ ∀ x ∈ pad, x = ' ') cols cells := by
  intro cols
  induction cols with
  | nil => intro cells h; simp [recordCells] at h; subst h; exact .nil
  | cons c cs ih =>
    intro cells h
    simp only [recordCells] at h
    by_cases hp : noPad = true
    · simp only [hp, ↓reduceIte] at h
      cases hr : recordCells noPad w data cs with
      | ok rest =>
        rw [hp] at hr
        rw [hr] at h
        simp only [Outcome.ok.injEq] at h
        subst h
        exact .cons ⟨[], by simp, by simp⟩ (ih rest (by rw [hp]; exact hr))
      | err k => rw [hp] at hr; rw [hr] at h; simp at h
      | panic p => rw [hp] at hr; rw [hr] at h; simp at h
      | unmodelled u => rw [hp] at hr; rw [hr] at h; simp at h
    · have hp' : noPad = false := by simpa using hp
      subst hp'
      simp only [Bool.false_eq_true, ↓reduceIte] at h
      cases hg : w.get c with
      | none => rw [hg] at h; simp at h
      | some n =>
        rw [hg] at h
        simp only [] at h
        cases hr : recordCells false w data cs with
        | ok rest =>
          rw [hr] at h
          simp only [Outcome.ok.injEq] at h
          subst h
          refine .cons ⟨List.replicate (byteLen c.toList + 3 + n - (recordCell data c).length) ' ', rfl, ?_⟩ (ih rest hr)
          intro x hx
          exact (List.mem_replicate.mp hx).2
        | err k => rw [hr] at h; simp at h
        | panic p => rw [hr] at h; simp at h
        | unmodelled u => rw [hr] at h; simp at h

/-- **C19_record_fields** (text): the printed line is the `trim()` of the cells in column order, and
the cell of a field `k = v` of the record is `[k=v]` followed by blanks only -/
theorem C19_record_cells (env : Env) (st : St) (r : Record) (out : Str) (st' : St)
    (h : formatRecord env st r = .ok (out, st')) (hne : st'.order ≠ []) :
    ∃ cells, out = Text.trim (concat cells) ∧
      AllPairs (fun c cell => ∃ pad, cell = recordCell r.data c ++ pad ∧ ∀ x ∈ pad, x = ' ') st'.order cells ∧
      ∀ k v, Fields.get k r.data = some v →
        recordCell r.data k = '[' :: k.toList ++ '=' :: cellText v ++ [']'] := by
  have hcell : ∀ k v, Fields.get k r.data = some v →
      recordCell r.data k = '[' :: k.toList ++ '=' :: cellText v ++ [']'] := by
    intro k v hk; simp [recordCell, hk]
  rcases formatRecord_inv env st r out st' h with ⟨_, ho, _⟩ | ⟨_, ho, cells, hc, hout⟩ | ⟨_, _, np, cells, hc, hout⟩
  · exact absurd ho hne
  · exact ⟨cells, hout, by rw [ho]; exact recordCells_spec _ _ _ _ _ hc, hcell⟩
  · exact ⟨cells, hout, recordCells_spec _ _ _ _ _ hc, hcell⟩

/-- non-vacuity: the unit test `pretty_print_record` -/
example : (formatRecord { cfg := { minBuf := 1, maxBuf := 4 }, term := none } {}
    { data := [("k1", .int 5), ("k3", .str "str")], raw := "" }).toOption.map (fun p => (String.ofList p.1, p.2.order)) =
    some ("[k1=5]     [k3=str]", ["k1", "k3"]) := by
  decide

end C19
end Ag
