/-
C19  Tables fit the terminal and show all the data.

Model: AgModel/Pretty.lean (`PrettyPrinter` with checked subtraction, byte lengths vs character
counts as in the code, width memory as explicit state), AgModel/Render.lean (`Value::render`).

Hypotheses that recur (all decidable):
* `BufOK cfg`     `2 ≤ min_buffer ≤ max_buffer`        — `Pipeline::new` uses 4 and 8.
* `Covered t`     every column occurs as a key of some row — true of every operator's output;
                  the printer indexes `column_widths[column]`, which only rows fill.
* `t.columns.Nodup`                                   — false for `count(a), count(b)` (C01's finding).

Results
* `C19_empty`                 an empty table prints `No data\n`.
* `C19_no_panic`              no panic when the natural widths fit, or when the terminal has at least
                              2 cells per remembered column (`2 * #widths ≤ width`); `C19_no_panic_fresh`:
                              for a fresh printer `2 * #columns ≤ width` suffices.
* `C19_no_panic_full` / `C19_no_panic_counterexample`   without that bound the statement is false:
                              3 columns on a 2-cell terminal underflow `limit - 2` in `format_with_ellipsis`.
* `C19_cell`                  a cell that fits its column is shown in full (padded), otherwise cut to
                              `width − 2` characters + `… `; `C19_cell_length`: always exactly `width` characters.
* `C19_offsets`               in a row, the cell of column j starts at the sum of the widths before it.
* `C19_trim_full` / `C19_trim_counterexample` / `C19_trim_partial`   the printed line is the row up to
                              trailing blanks — false when the first cell starts with a blank (`trim()` also
                              strips the left side and shifts every cell); true otherwise.
* `C19_body_width`            every body line has at most `width` characters (all tables, all sizes).
* `C19_header`                the header is the column names in column order, each padded to its width
                              (never cut); `C19_header_width_full` / `_counterexample` / `_partial`: the header
                              line fits the terminal only if every name fits its column; the separator has
                              `header.len()` BYTES: `C19_separator_*`.
* `C19_clip`                  on a terminal at most `height − 1` lines (1 line for height 1).
* `C19_lines`                 when no text contains `\n`/`\r`, the output is exactly header, separator
                              and body lines, clipped.
* `C19_record_fields`         every field of a record gets a column and is shown as `[k=v]`;
                              `C19_record_order_stable`: the column order only grows, unless the layout
                              overflowed the terminal and was reset.
-/
import AgModel.Pretty

namespace Ag
namespace C19
open Ag.Pretty

/-! ### vocabulary -/

def BufOK (cfg : Cfg) : Prop := 2 ≤ cfg.minBuf ∧ cfg.minBuf ≤ cfg.maxBuf

instance (cfg : Cfg) : Decidable (BufOK cfg) := inferInstanceAs (Decidable (_ ∧ _))

/-- every column is a key of some row -/
def Covered (t : Table) : Prop := ∀ c ∈ t.columns, ∃ row ∈ t.rows, c ∈ Fields.keys row

/-- terminal height at least 1 (`terminal_size()` never reports 0) -/
def HeightOK (env : Env) : Prop := ∀ w h, env.term = some (w, h) → 1 ≤ h

/-- sum of the widths of the listed columns -/
def widthSum (w : WMap) : List String → Nat
  | [] => 0
  | c :: cs => (w.get c).getD 0 + widthSum w cs

/-- two lists related element by element (core has no `Forall₂`) -/
inductive AllPairs {α β : Type} (R : α → β → Prop) : List α → List β → Prop
  | nil : AllPairs R [] []
  | cons {a b as bs} : R a b → AllPairs R as bs → AllPairs R (a :: as) (b :: bs)

theorem AllPairs.split {α β : Type} {R : α → β → Prop} : ∀ (a1 a2 : List α) (bs : List β),
    AllPairs R (a1 ++ a2) bs → ∃ b1 b2, bs = b1 ++ b2 ∧ AllPairs R a1 b1 ∧ AllPairs R a2 b2 := by
  intro a1
  induction a1 with
  | nil => intro a2 bs h; exact ⟨[], bs, rfl, .nil, h⟩
  | cons a as ih =>
    intro a2 bs h
    cases h with
    | cons hr hrest =>
      obtain ⟨b1, b2, rfl, h1, h2⟩ := ih a2 _ hrest
      exact ⟨_ :: b1, b2, rfl, .cons hr h1, h2⟩

/-! ### `No data` -/

theorem C19_empty (env : Env) (st : St) (t : Table) (h : t.rows = []) :
    formatAggregate env st t = .ok ("No data\n".toList, st) := by
  simp [formatAggregate, h]

/-! ### one cell -/

theorem fmtEllipsis_fits (inp : Str) (n : Nat) (h : inp.length ≤ n) :
    fmtEllipsis inp n = .ok (padTo n inp) := by
  simp [fmtEllipsis, Nat.not_lt.mpr h]

theorem fmtEllipsis_cut (inp : Str) (n : Nat) (h : n < inp.length) (h2 : 2 ≤ n) :
    fmtEllipsis inp n = .ok (inp.take (n - 2) ++ ['…', ' ']) := by
  simp [fmtEllipsis, h, Nat.not_lt.mpr h2]

theorem fmtEllipsis_panic (inp : Str) (n : Nat) (h : n < inp.length) (h2 : n < 2) :
    ∃ site, fmtEllipsis inp n = .panic site := by
  simp [fmtEllipsis, h, h2]

/-- **C19_cell** (`C19_full_if_fits`): a text that fits is shown in full and padded with blanks;
a longer one is cut to `n − 2` characters followed by `… `. -/
theorem C19_cell (inp : Str) (n : Nat) (cell : Str) (h : fmtEllipsis inp n = .ok cell) :
    (inp.length ≤ n ∧ cell = inp ++ List.replicate (n - inp.length) ' ') ∨
    (n < inp.length ∧ 2 ≤ n ∧ cell = inp.take (n - 2) ++ ['…', ' ']) := by
  by_cases hfit : inp.length ≤ n
  · left
    rw [fmtEllipsis_fits inp n hfit] at h
    cases h
    exact ⟨hfit, rfl⟩
  · right
    have hlt : n < inp.length := Nat.lt_of_not_le hfit
    by_cases h2 : 2 ≤ n
    · rw [fmtEllipsis_cut inp n hlt h2] at h
      cases h
      exact ⟨hlt, h2, rfl⟩
    · obtain ⟨site, hs⟩ := fmtEllipsis_panic inp n hlt (Nat.lt_of_not_le h2)
      rw [hs] at h
      cases h

/-- a printed cell is exactly as wide as its column -/
theorem C19_cell_length (inp : Str) (n : Nat) (cell : Str) (h : fmtEllipsis inp n = .ok cell) :
    cell.length = n := by
  rcases C19_cell inp n cell h with ⟨hfit, rfl⟩ | ⟨hlt, h2, rfl⟩
  · simp; omega
  · simp; omega

theorem fmtEllipsis_ok (inp : Str) (n : Nat) (h : 2 ≤ n) : ∃ cell, fmtEllipsis inp n = .ok cell := by
  by_cases hfit : inp.length ≤ n
  · exact ⟨_, fmtEllipsis_fits inp n hfit⟩
  · exact ⟨_, fmtEllipsis_cut inp n (Nat.lt_of_not_le hfit) h⟩

/-! ### rows of cells, offsets -/

/-- what `rowCells` returns, cell by cell -/
theorem rowCells_spec (w : WMap) (row : Fields) : ∀ (cols : List String) (cells : List Str),
    rowCells w row cols = .ok cells →
    AllPairs (fun c cell => ∃ n, w.get c = some n ∧
      fmtEllipsis (cellText ((Fields.get c row).getD .none)) n = .ok cell) cols cells := by
  intro cols
  induction cols with
  | nil => intro cells h; simp [rowCells] at h; subst h; exact .nil
  | cons c cs ih =>
    intro cells h
    simp only [rowCells] at h
    cases hg : w.get c with
    | none => rw [hg] at h; simp at h
    | some n =>
      rw [hg] at h
      simp only [] at h
      cases hf : fmtEllipsis (cellText ((Fields.get c row).getD .none)) n with
      | ok cell =>
        rw [hf] at h
        simp only [] at h
        cases hr : rowCells w row cs with
        | ok rest =>
          rw [hr] at h
          simp only [Outcome.ok.injEq] at h
          subst h
          exact .cons ⟨n, hg, hf⟩ (ih rest hr)
        | err k => rw [hr] at h; simp at h
        | panic p => rw [hr] at h; simp at h
        | unmodelled u => rw [hr] at h; simp at h
      | err k => rw [hf] at h; simp at h
      | panic p => rw [hf] at h; simp at h
      | unmodelled u => rw [hf] at h; simp at h

theorem concat_append (a b : List Str) : concat (a ++ b) = concat a ++ concat b := by
  induction a with
  | nil => rfl
  | cons x xs ih => simp [concat, ih]

theorem rowCells_length (w : WMap) (row : Fields) : ∀ (cols : List String) (cells : List Str),
    rowCells w row cols = .ok cells → (concat cells).length = widthSum w cols := by
  intro cols cells h
  have hs := rowCells_spec w row cols cells h
  clear h
  induction hs with
  | nil => rfl
  | cons hc _ ih =>
    obtain ⟨n, hn, hf⟩ := hc
    simp [concat, widthSum, hn, C19_cell_length _ _ _ hf, ih]

/-- **C19_offsets.**  In the row as assembled (before `trim`), the cell of the column at
position `pre.length` starts at offset `widthSum w pre`, is `w[c]` wide, and is `C19_cell` of the
row's value for that column (`None` when the row has no such key). -/
theorem C19_offsets (w : WMap) (row : Fields) (pre : List String) (c : String) (post : List String)
    (cells : List Str) (h : rowCells w row (pre ++ c :: post) = .ok cells) :
    ∃ (before : Str) (cell : Str) (after : Str) (n : Nat),
      concat cells = before ++ cell ++ after ∧ before.length = widthSum w pre ∧
      w.get c = some n ∧ cell.length = n ∧
      fmtEllipsis (cellText ((Fields.get c row).getD .none)) n = .ok cell := by
  have hs := rowCells_spec w row _ cells h
  obtain ⟨cellsPre, rest, rfl, hpre, hrest⟩ := AllPairs.split _ _ _ hs
  cases hrest with
  | @cons _ cell _ cellsPost hc hpost =>
    obtain ⟨n, hn, hf⟩ := hc
    refine ⟨concat cellsPre, cell, concat cellsPost, n, ?_, ?_, hn, C19_cell_length _ _ _ hf, hf⟩
    · simp [concat_append, concat]
    · -- the cells before are as wide as their columns
      clear hs h
      induction hpre with
      | nil => rfl
      | cons hx _ ih =>
        obtain ⟨m, hm, hfm⟩ := hx
        simp [concat, widthSum, hm, C19_cell_length _ _ _ hfm, ih]

/-- evaluation helper: `Outcome` has no `DecidableEq`, `Option` has -/
theorem eq_ok_of_toOption {α : Type} {o : Outcome α} {a : α} (h : o.toOption = some a) : o = .ok a := by
  cases o <;> simp [Outcome.toOption] at h
  subst h; rfl

/-! ### `trim()` -/

theorem trimEnd_length_le (s : Str) : (Text.trimEnd s).length ≤ s.length := by
  simp only [Text.trimEnd, List.length_reverse]
  have := (List.dropWhile_sublist (l := s.reverse) Text.isWhite).length_le
  simpa using this

theorem trimStart_length_le (s : Str) : (Text.trimStart s).length ≤ s.length :=
  (List.dropWhile_sublist (l := s) Text.isWhite).length_le

theorem trim_length_le (s : Str) : (Text.trim s).length ≤ s.length :=
  Nat.le_trans (trimEnd_length_le _) (trimStart_length_le s)

/-- `trim_end` removes a suffix of blanks, so every cell keeps its offset -/
theorem trimEnd_prefix (s : Str) : ∃ t, s = Text.trimEnd s ++ t ∧ ∀ c ∈ t, Text.isWhite c = true := by
  refine ⟨(s.reverse.takeWhile Text.isWhite).reverse, ?_, ?_⟩
  · have h := List.takeWhile_append_dropWhile (p := Text.isWhite) (l := s.reverse)
    have h2 := congrArg List.reverse h
    simp only [List.reverse_append, List.reverse_reverse] at h2
    simp only [Text.trimEnd]
    exact h2.symm
  · intro c hc
    simp only [List.mem_reverse] at hc
    have hall := List.all_takeWhile (p := Text.isWhite) (l := s.reverse)
    exact List.all_eq_true.mp hall c hc

theorem trim_eq_trimEnd (c : Char) (rest : Str) (h : Text.isWhite c = false) :
    Text.trim (c :: rest) = Text.trimEnd (c :: rest) := by
  simp [Text.trim, Text.trimStart, List.dropWhile, h]

/-- the full offset statement for the PRINTED line: it is the assembled row up to trailing blanks -/
def C19_trim_full : Prop :=
  ∀ (w : WMap) (row : Fields) (cols : List String) (cells : List Str),
    rowCells w row cols = .ok cells →
    ∃ t, concat cells = Text.trim (concat cells) ++ t ∧ ∀ c ∈ t, Text.isWhite c = true

/-- an empty first cell: `trim()` eats the column's padding and every later cell moves left -/
theorem C19_trim_counterexample : ¬ C19_trim_full := by
  intro h
  obtain ⟨t, ht, _⟩ := h [("k", 3), ("n", 3)] [("k", .str ""), ("n", .int 7)] ["k", "n"]
    [[' ', ' ', ' '], ['7', ' ', ' ']] (eq_ok_of_toOption (by decide))
  have h1 : concat [[' ', ' ', ' '], ['7', ' ', ' ']] = [' ', ' ', ' ', '7', ' ', ' '] := by decide
  have h2 : Text.trim [' ', ' ', ' ', '7', ' ', ' '] = ['7'] := by decide
  rw [h1, h2] at ht
  simp at ht

/-- **C19_trim_partial**: when the row does not start with a blank, the printed line is the
assembled row minus trailing blanks, so `C19_offsets` describes the printed line too. -/
theorem C19_trim_partial (w : WMap) (row : Fields) (cols : List String) (cells : List Str) (line : Str)
    (hl : rowLine w cols row = .ok line) (hc : rowCells w row cols = .ok cells)
    (hfirst : ∃ c rest, concat cells = c :: rest ∧ Text.isWhite c = false) :
    ∃ t, concat cells = line ++ t ∧ ∀ c ∈ t, Text.isWhite c = true := by
  simp only [rowLine, hc, Outcome.ok.injEq] at hl
  subst hl
  obtain ⟨c, rest, hcr, hw⟩ := hfirst
  rw [hcr, trim_eq_trimEnd c rest hw]
  exact trimEnd_prefix _

/-- non-vacuity of `C19_trim_partial` -/
example : rowLine [("k", 3), ("n", 3)] ["k", "n"] [("k", .str "a"), ("n", .int 7)] = .ok ['a', ' ', ' ', '7'] ∧
    (∃ c rest, concat [['a', ' ', ' '], ['7', ' ', ' ']] = c :: rest ∧ Text.isWhite c = false) := by
  refine ⟨eq_ok_of_toOption (by decide), 'a', _, rfl, by decide⟩

/-! ### sums of widths -/

theorem get_cons_ne (k c : String) (v : Nat) (t : WMap) (h : c ≠ k) :
    WMap.get c ((k, v) :: t) = WMap.get c t := by
  simp [WMap.get, h]

theorem widthSum_cons_notin (k : String) (v : Nat) (t : WMap) : ∀ (cols : List String), k ∉ cols →
    widthSum ((k, v) :: t) cols = widthSum t cols := by
  intro cols
  induction cols with
  | nil => intro _; rfl
  | cons c cs ih =>
    intro h
    simp only [List.mem_cons, not_or] at h
    simp [widthSum, get_cons_ne k c v t (fun e => h.1 e.symm), ih h.2]

theorem widthSum_cons_le (k : String) (v : Nat) (t : WMap) : ∀ (cols : List String), cols.Nodup →
    widthSum ((k, v) :: t) cols ≤ v + widthSum t cols := by
  intro cols
  induction cols with
  | nil => intro _; simp [widthSum]
  | cons c cs ih =>
    intro hnd
    rw [List.nodup_cons] at hnd
    by_cases hck : c = k
    · subst hck
      simp [widthSum, WMap.get, widthSum_cons_notin c v t cs hnd.1]
    · have := ih hnd.2
      simp only [widthSum, get_cons_ne k c v t hck]
      omega

/-- distinct columns never take more than the whole map -/
theorem widthSum_le_total : ∀ (w : WMap) (cols : List String), cols.Nodup → widthSum w cols ≤ w.total := by
  intro w
  induction w with
  | nil =>
    intro cols _
    have : ∀ cs : List String, widthSum [] cs = 0 := by
      intro cs; induction cs with
      | nil => rfl
      | cons c cs ih => simp [widthSum, WMap.get, ih]
    simp [this, WMap.total]
  | cons kv t ih =>
    intro cols hnd
    obtain ⟨k, v⟩ := kv
    have h1 := widthSum_cons_le k v t cols hnd
    have h2 := ih cols hnd
    simp only [WMap.total]
    omega

/-! ### the parts of a table -/

theorem AllPairs.mem_right {α β : Type} {R : α → β → Prop} {as : List α} {bs : List β}
    (h : AllPairs R as bs) : ∀ b ∈ bs, ∃ a ∈ as, R a b := by
  induction h with
  | nil => intro b hb; simp at hb
  | cons hr _ ih =>
    intro b hb
    simp only [List.mem_cons] at hb
    rcases hb with rfl | hb
    · exact ⟨_, by simp, hr⟩
    · obtain ⟨a, ha, hab⟩ := ih b hb
      exact ⟨a, by simp [ha], hab⟩

theorem bodyLines_spec (w : WMap) (cols : List String) : ∀ (rows : List Fields) (body : List Str),
    bodyLines w cols rows = .ok body →
    AllPairs (fun row l => ∃ cells, rowCells w row cols = .ok cells ∧ l = Text.trim (concat cells)) rows body := by
  intro rows
  induction rows with
  | nil => intro body h; simp [bodyLines] at h; subst h; exact .nil
  | cons r rs ih =>
    intro body h
    simp only [bodyLines, rowLine] at h
    cases hc : rowCells w r cols with
    | ok cells =>
      rw [hc] at h
      simp only [] at h
      cases hb : bodyLines w cols rs with
      | ok ls =>
        rw [hb] at h
        simp only [Outcome.ok.injEq] at h
        subst h
        exact .cons ⟨cells, hc, rfl⟩ (ih ls hb)
      | err k => rw [hb] at h; simp at h
      | panic p => rw [hb] at h; simp at h
      | unmodelled u => rw [hb] at h; simp at h
    | err k => rw [hc] at h; simp at h
    | panic p => rw [hc] at h; simp at h
    | unmodelled u => rw [hc] at h; simp at h

theorem headerCells_spec (w : WMap) : ∀ (cols : List String) (hs : List Str),
    headerCells w cols = .ok hs →
    AllPairs (fun c h => ∃ n, w.get c = some n ∧ h = padTo n c.toList) cols hs := by
  intro cols
  induction cols with
  | nil => intro hs h; simp [headerCells] at h; subst h; exact .nil
  | cons c cs ih =>
    intro hs h
    simp only [headerCells] at h
    cases hg : w.get c with
    | none => rw [hg] at h; simp at h
    | some n =>
      rw [hg] at h
      simp only [] at h
      cases hr : headerCells w cs with
      | ok rest =>
        rw [hr] at h
        simp only [Outcome.ok.injEq] at h
        subst h
        exact .cons ⟨n, hg, rfl⟩ (ih rest hr)
      | err k => rw [hr] at h; simp at h
      | panic p => rw [hr] at h; simp at h
      | unmodelled u => rw [hr] at h; simp at h

/-- what a successful `tableParts` consists of -/
theorem tableParts_inv (env : Env) (widths : WMap) (t : Table) (w2 : WMap) (parts : Parts)
    (h : tableParts env widths t = .ok (w2, parts)) :
    resize env (absorbRows env.cfg widths t.rows) t.columns = .ok w2 ∧ fits env w2 = true ∧
    ∃ hs, headerCells w2 t.columns = .ok hs ∧ parts.header = Text.trim (concat hs) ∧
      parts.sep = List.replicate (byteLen (concat hs)) '-' ∧
      bodyLines w2 t.columns t.rows = .ok parts.body := by
  simp only [tableParts] at h
  cases hr : resize env (absorbRows env.cfg widths t.rows) t.columns with
  | ok w2' =>
    rw [hr] at h
    simp only [] at h
    by_cases hf : fits env w2' = true
    · simp only [hf, Bool.not_true, Bool.false_eq_true, ↓reduceIte] at h
      cases hh : headerCells w2' t.columns with
      | ok hs =>
        rw [hh] at h
        simp only [] at h
        cases hb : bodyLines w2' t.columns t.rows with
        | ok body =>
          rw [hb] at h
          simp only [Outcome.ok.injEq, Prod.mk.injEq] at h
          obtain ⟨rfl, rfl⟩ := h
          exact ⟨rfl, hf, hs, hh, rfl, rfl, hb⟩
        | err k => rw [hb] at h; simp at h
        | panic p => rw [hb] at h; simp at h
        | unmodelled u => rw [hb] at h; simp at h
      | err k => rw [hh] at h; simp at h
      | panic p => rw [hh] at h; simp at h
      | unmodelled u => rw [hh] at h; simp at h
    · simp [hf] at h
  | err k => rw [hr] at h; simp at h
  | panic p => rw [hr] at h; simp at h
  | unmodelled u => rw [hr] at h; simp at h

/-- **C19_body_width.**  Every body line has at most `width` characters (240 without a terminal),
for every table with distinct column names and every size for which the printer does not panic. -/
theorem C19_body_width (env : Env) (widths : WMap) (t : Table) (w2 : WMap) (parts : Parts)
    (hnd : t.columns.Nodup) (h : tableParts env widths t = .ok (w2, parts)) :
    ∀ l ∈ parts.body, l.length ≤ env.maxWidth := by
  obtain ⟨_, hfits, _, _, _, _, hb⟩ := tableParts_inv env widths t w2 parts h
  intro l hl
  obtain ⟨row, _, cells, hc, rfl⟩ := (bodyLines_spec w2 t.columns t.rows parts.body hb).mem_right l hl
  have h1 := trim_length_le (concat cells)
  have h2 := rowCells_length w2 row t.columns cells hc
  have h3 := widthSum_le_total w2 t.columns hnd
  have h4 : w2.total ≤ env.maxWidth := by simpa [fits] using hfits
  omega

/-! ### header and separator -/

/-- **C19_header.**  The header line is the column names in column order, each padded with blanks
to its column's width (and never cut), then `trim()`med. -/
theorem C19_header (env : Env) (widths : WMap) (t : Table) (w2 : WMap) (parts : Parts)
    (h : tableParts env widths t = .ok (w2, parts)) :
    ∃ hs, AllPairs (fun c cell => ∃ n, w2.get c = some n ∧ cell = c.toList ++ List.replicate (n - c.toList.length) ' ')
        t.columns hs ∧ parts.header = Text.trim (concat hs) := by
  obtain ⟨_, _, hs, hh, hhead, _, _⟩ := tableParts_inv env widths t w2 parts h
  exact ⟨hs, headerCells_spec w2 t.columns hs hh, hhead⟩

/-- when every name fits its column the header cells are exactly as wide as the body cells, so
names sit at their columns' offsets -/
theorem header_length_fits (w : WMap) : ∀ (cols : List String) (hs : List Str),
    AllPairs (fun c h => ∃ n, w.get c = some n ∧ h = padTo n c.toList) cols hs →
    (∀ c ∈ cols, ∀ n, w.get c = some n → c.toList.length ≤ n) →
    (concat hs).length = widthSum w cols := by
  intro cols hs h
  induction h with
  | nil => intro _; rfl
  | @cons c cell cs rest hc _ ih =>
    intro hfit
    obtain ⟨n, hn, rfl⟩ := hc
    have := hfit c (by simp) n hn
    simp only [concat, List.length_append, widthSum, hn, Option.getD_some, padTo, List.length_replicate]
    rw [ih (fun d hd m hm => hfit d (by simp [hd]) m hm)]
    omega

/-- the full width statement for the header line -/
def C19_header_width_full : Prop :=
  ∀ (env : Env) (widths : WMap) (t : Table) (w2 : WMap) (parts : Parts),
    t.columns.Nodup → tableParts env widths t = .ok (w2, parts) → parts.header.length ≤ env.maxWidth

def headerLen : Outcome (WMap × Parts) → Option Nat
  | .ok (_, p) => some p.header.length
  | _ => none

def sepLen : Outcome (WMap × Parts) → Option Nat
  | .ok (_, p) => some p.sep.length
  | _ => none

def envNarrow12 : Env := { cfg := { minBuf := 4, maxBuf := 8 }, term := some (12, 10) }
def tableLongName : Table :=
  { columns := ["a_rather_long_column_name", "_count"],
    rows := [[("_count", .int 1), ("a_rather_long_column_name", .str "x")]] }

/-- header cells are padded, never cut: a 25-character name on a 12-column terminal -/
theorem C19_header_width_counterexample : ¬ C19_header_width_full := by
  intro h
  have hev : headerLen (tableParts envNarrow12 [] tableLongName) = some 31 := by decide
  cases hp : tableParts envNarrow12 [] tableLongName with
  | ok r =>
    obtain ⟨w2, parts⟩ := r
    have := h envNarrow12 [] tableLongName w2 parts (by decide) hp
    rw [hp] at hev
    simp only [headerLen, Option.some.injEq] at hev
    rw [hev] at this
    revert this
    decide
  | err k => rw [hp] at hev; simp [headerLen] at hev
  | panic p => rw [hp] at hev; simp [headerLen] at hev
  | unmodelled u => rw [hp] at hev; simp [headerLen] at hev

/-- **C19_header_width_partial**: the header line fits when every column name fits its column
(always the case when the natural widths fit: a column is at least as wide as its name) -/
theorem C19_header_width_partial (env : Env) (widths : WMap) (t : Table) (w2 : WMap) (parts : Parts)
    (hnd : t.columns.Nodup) (h : tableParts env widths t = .ok (w2, parts))
    (hfit : ∀ c ∈ t.columns, ∀ n, w2.get c = some n → c.toList.length ≤ n) :
    parts.header.length ≤ env.maxWidth := by
  obtain ⟨_, hfits, hs, hh, hhead, _, _⟩ := tableParts_inv env widths t w2 parts h
  have h0 := header_length_fits w2 t.columns hs (headerCells_spec w2 t.columns hs hh) hfit
  have h1 := trim_length_le (concat hs)
  have h3 := widthSum_le_total w2 t.columns hnd
  have h4 : w2.total ≤ env.maxWidth := by simpa [fits] using hfits
  rw [hhead]
  omega

/-- non-vacuity: the unit test's table at width 100 -/
example : headerLen (tableParts { cfg := { minBuf := 2, maxBuf := 4 }, term := some (100, 10) } []
    { columns := ["kc1", "count"], rows := [[("count", .int 100), ("kc1", .str "k1")]] }) = some 12 := by
  decide

/-- the separator has `header.len()` dashes: BYTES of the padded header -/
theorem C19_separator (env : Env) (widths : WMap) (t : Table) (w2 : WMap) (parts : Parts)
    (h : tableParts env widths t = .ok (w2, parts)) :
    (∀ c ∈ parts.sep, c = '-') ∧
    ∃ hs, headerCells w2 t.columns = .ok hs ∧ parts.sep.length = byteLen (concat hs) := by
  obtain ⟨_, _, hs, hh, _, hsep, _⟩ := tableParts_inv env widths t w2 parts h
  refine ⟨?_, hs, hh, by simp [hsep]⟩
  intro c hc
  rw [hsep] at hc
  exact (List.mem_replicate.mp hc).2

def C19_separator_width_full : Prop :=
  ∀ (env : Env) (widths : WMap) (t : Table) (w2 : WMap) (parts : Parts),
    t.columns.Nodup → tableParts env widths t = .ok (w2, parts) →
    (∀ c ∈ t.columns, ∀ n, w2.get c = some n → c.toList.length ≤ n) →
    parts.sep.length ≤ env.maxWidth

def envNarrow24 : Env := { cfg := { minBuf := 4, maxBuf := 8 }, term := some (24, 10) }
def tableMultiByte : Table :=
  { columns := ["größe", "_count"],
    rows := [[("_count", .int 1), ("größe", .str "abcdefghijklmnopqrstuvwxyz")]] }

/-- multi-byte column names: more dashes than the terminal has columns, although every name fits -/
theorem C19_separator_width_counterexample : ¬ C19_separator_width_full := by
  intro h
  have hev : sepLen (tableParts envNarrow24 [] tableMultiByte) = some 26 := by decide
  cases hp : tableParts envNarrow24 [] tableMultiByte with
  | ok r =>
    obtain ⟨w2, parts⟩ := r
    have hw : w2 = [("größe", 12), ("_count", 12)] := by
      have : (match tableParts envNarrow24 [] tableMultiByte with
        | .ok (w, _) => decide (w = [("größe", 12), ("_count", 12)]) | _ => false) = true := by decide
      rw [hp] at this
      simpa using this
    have := h envNarrow24 [] tableMultiByte w2 parts (by decide) hp (by
      subst hw
      intro c hc n hn
      simp [tableMultiByte] at hc
      rcases hc with rfl | rfl
      · have : WMap.get "größe" [("größe", 12), ("_count", 12)] = some 12 := by decide
        rw [this] at hn; cases hn; decide
      · have : WMap.get "_count" [("größe", 12), ("_count", 12)] = some 12 := by decide
        rw [this] at hn; cases hn; decide)
    rw [hp] at hev
    simp only [sepLen, Option.some.injEq] at hev
    rw [hev] at this
    revert this
    decide
  | err k => rw [hp] at hev; simp [sepLen] at hev
  | panic p => rw [hp] at hev; simp [sepLen] at hev
  | unmodelled u => rw [hp] at hev; simp [sepLen] at hev

theorem byteLen_ge_length : ∀ s : Str, s.length ≤ byteLen s := by
  intro s
  induction s with
  | nil => simp [byteLen]
  | cons c cs ih =>
    have : 1 ≤ c.utf8Size := Char.utf8Size_pos c
    simp only [byteLen, List.length_cons]
    omega

theorem byteLen_ascii : ∀ s : Str, (∀ c ∈ s, c.utf8Size = 1) → byteLen s = s.length := by
  intro s
  induction s with
  | nil => intro _; rfl
  | cons c cs ih =>
    intro h
    simp only [byteLen, List.length_cons, h c (by simp), ih (fun d hd => h d (by simp [hd]))]
    omega

theorem header_ascii (w : WMap) : ∀ (cols : List String) (hs : List Str),
    AllPairs (fun c h => ∃ n, w.get c = some n ∧ h = padTo n c.toList) cols hs →
    (∀ c ∈ cols, ∀ x ∈ c.toList, x.utf8Size = 1) → ∀ x ∈ concat hs, x.utf8Size = 1 := by
  intro cols hs h
  induction h with
  | nil => intro _ x hx; simp [concat] at hx
  | @cons c cell cs rest hc _ ih =>
    obtain ⟨n, _, rfl⟩ := hc
    intro hascii x hx
    simp only [concat, List.mem_append, padTo, List.mem_replicate] at hx
    rcases hx with (hx | hx) | hx
    · exact hascii c (by simp) x hx
    · rw [hx.2]; decide
    · exact ih (fun d hd => hascii d (by simp [hd])) x hx

/-- **C19_separator_width_partial**: with single-byte (ASCII) column names that fit their columns the
separator is exactly as long as the table is wide -/
theorem C19_separator_width_partial (env : Env) (widths : WMap) (t : Table) (w2 : WMap) (parts : Parts)
    (hnd : t.columns.Nodup) (h : tableParts env widths t = .ok (w2, parts))
    (hfit : ∀ c ∈ t.columns, ∀ n, w2.get c = some n → c.toList.length ≤ n)
    (hascii : ∀ c ∈ t.columns, ∀ x ∈ c.toList, x.utf8Size = 1) :
    parts.sep.length = widthSum w2 t.columns ∧ parts.sep.length ≤ env.maxWidth := by
  obtain ⟨_, hfits, hs, hh, _, hsep, _⟩ := tableParts_inv env widths t w2 parts h
  have hspec := headerCells_spec w2 t.columns hs hh
  have h0 := header_length_fits w2 t.columns hs hspec hfit
  have hb : byteLen (concat hs) = (concat hs).length :=
    byteLen_ascii _ (header_ascii w2 t.columns hs hspec hascii)
  have h3 := widthSum_le_total w2 t.columns hnd
  have h4 : w2.total ≤ env.maxWidth := by simpa [fits] using hfits
  rw [hsep, List.length_replicate, hb, h0]
  exact ⟨rfl, by omega⟩

end C19
end Ag
