/-
C01  Grouped aggregation reports the true per-group statistics.

Model: `Grouper.processRow` / `Grouper.emit` / `AggDef.step` / `AggDef.emit` (AgModel/Agg.lean) for
`MultiGrouper::{process_map, emit}` (src/operator.rs:258-296) and the accumulators in
src/operator/{count,sum,min,max,average,count_distinct}.rs.

The laws of key equality (`Value`'s derived `Eq`: reflexive, symmetric, transitive) are taken
as hypotheses `KeyLaws` here; they are discharged for float-free keys in this file and for
floats through the `OrderedFloat` order lemmas of AgProofs/Props/C09order.lean.
-/
import AgModel.Pipeline
import AgProofs.Lemmas.Basic
import AgProofs.Lemmas.ValueEq

namespace Ag.C01

/-- `Vec<Value>`'s `Eq` restricted to what the proofs need -/
structure KeyLaws : Prop where
  refl : ∀ k, keyEq k k = true
  eucl : ∀ a b c, keyEq a c = true → keyEq b c = true → keyEq a b = true

theorem KeyLaws.symm (h : KeyLaws) (a b : List Value) (hab : keyEq a b = true) : keyEq b a = true :=
  h.eucl b a b (h.refl b) hab

theorem KeyLaws.trans (h : KeyLaws) (a b c : List Value) (hab : keyEq a b = true)
    (hbc : keyEq b c = true) : keyEq a c = true :=
  h.eucl a c b hab (h.symm b c hbc)

/-- the key laws follow from the laws of `OrderedFloat`'s equality -/
theorem keyLaws_of_float (h : Value.FloatEqLaws) : KeyLaws where
  refl := fun k => Value.beqL_refl h k
  eucl := fun a b c hac hbc =>
    Value.beqL_trans h a c b hac (Value.beqL_symm h b c hbc)

/-- the accumulators of the group of `k`, if that group exists -/
def lookup (k : List Value) : GroupState → Option (List (String × Acc))
  | [] => none
  | (k', accs) :: rest => if keyEq k' k then some accs else lookup k rest

/-- fold the rows into the grouper state (what `process` does row by row) -/
def foldRows (ext : Ext) (g : Grouper) : GroupState → List Fields → Outcome GroupState
  | st, [] => .ok st
  | st, r :: rs =>
    match g.processRow ext st r with
    | .ok st' => foldRows ext g st' rs
    | .err k => .err k
    | .panic p => .panic p
    | .unmodelled w => .unmodelled w

/-- the accumulators of one group folded over a list of rows -/
def foldAccs (ext : Ext) (defs : List (String × AggDef)) :
    List (String × Acc) → List Fields → Outcome (List (String × Acc))
  | accs, [] => .ok accs
  | accs, r :: rs =>
    match stepAccs ext defs accs r with
    | .ok accs' => foldAccs ext defs accs' rs
    | .err k => .err k
    | .panic p => .panic p
    | .unmodelled w => .unmodelled w

def empties (g : Grouper) : List (String × Acc) := g.accNames.map (fun nd => (nd.1, nd.2.empty))

/-! ### one step -/

theorem upd_spec (ext : Ext) (g : Grouper) (laws : KeyLaws) (key : List Value) (row : Fields)
    (st st' : GroupState)
    (h : groupUpd ext g.accNames row key st = .ok st') :
    (∀ k, keyEq k key = false → lookup k st' = lookup k st) ∧
    (∃ accs', stepAccs ext g.accNames ((lookup key st).getD (empties g)) row = .ok accs' ∧
      lookup key st' = some accs') := by
  induction st generalizing st' with
  | nil =>
    simp only [groupUpd] at h
    cases hs : stepAccs ext g.accNames (g.accNames.map fun nd => (nd.1, nd.2.empty)) row with
    | ok accs =>
      simp [hs] at h
      subst h
      refine ⟨?_, accs, ?_, ?_⟩
      · intro k hk
        have : keyEq key k = false := by
          cases hkk : keyEq key k with
          | false => rfl
          | true => have := laws.symm key k hkk; simp [this] at hk
        simp [lookup, this]
      · simpa [lookup, empties] using hs
      · simp [lookup, laws.refl]
    | err k => simp [hs] at h
    | panic p => simp [hs] at h
    | unmodelled w => simp [hs] at h
  | cons hd rest ih =>
    obtain ⟨k0, accs0⟩ := hd
    simp only [groupUpd] at h
    by_cases hk0 : keyEq k0 key = true
    · simp only [hk0, if_true] at h
      cases hs : stepAccs ext g.accNames accs0 row with
      | ok accs =>
        simp [hs] at h
        subst h
        refine ⟨?_, accs, ?_, ?_⟩
        · intro k hk
          have : keyEq k0 k = false := by
            cases hkk : keyEq k0 k with
            | false => rfl
            | true =>
              -- k0 ≈ k and k0 ≈ key give k ≈ key
              have := laws.eucl k key k0 (laws.symm k0 k hkk) (laws.symm k0 key hk0)
              simp [this] at hk
          simp [lookup, this]
        · simpa [lookup, hk0] using hs
        · simp [lookup, hk0]
      | err k => simp [hs] at h
      | panic p => simp [hs] at h
      | unmodelled w => simp [hs] at h
    · have hk0' : keyEq k0 key = false := by simpa using hk0
      simp only [hk0', Bool.false_eq_true, if_false] at h
      cases hr : groupUpd ext g.accNames row key rest with
      | ok rest' =>
        simp [hr] at h
        subst h
        obtain ⟨ih1, accs', ih2, ih3⟩ := ih rest' hr
        refine ⟨?_, accs', ?_, ?_⟩
        · intro k hk
          simp only [lookup]
          split
          · rfl
          · exact ih1 k hk
        · simpa [lookup, hk0'] using ih2
        · simpa [lookup, hk0'] using ih3
      | err k => simp [hr] at h
      | panic p => simp [hr] at h
      | unmodelled w => simp [hr] at h

/-! ### all rows -/

/-- rows of the group of `k` -/
def groupRows (ext : Ext) (g : Grouper) (k : List Value) (rows : List Fields) : List Fields :=
  rows.filter (fun r => match g.keyOf ext r with
    | .ok kr => keyEq kr k
    | _ => false)

/-- **C01 (each column holds its function applied to exactly the rows of its group).**
After processing `rows`, the accumulators stored for the group of `k` are the accumulators folded
over exactly the rows whose key equals `k`, in arrival order, starting from the state before
(or from fresh accumulators if the group is new); groups that receive no row are untouched. -/
theorem group_accs (ext : Ext) (g : Grouper) (laws : KeyLaws) (rows : List Fields) :
    ∀ (st st' : GroupState) (k : List Value), foldRows ext g st rows = .ok st' →
      if groupRows ext g k rows = [] then lookup k st' = lookup k st
      else ∃ accs, foldAccs ext g.accNames ((lookup k st).getD (empties g)) (groupRows ext g k rows) = .ok accs
            ∧ lookup k st' = some accs := by
  induction rows with
  | nil =>
    intro st st' k h
    simp [foldRows] at h; subst h
    simp [groupRows]
  | cons r rs ih =>
    intro st st' k h
    simp only [foldRows] at h
    cases hp : g.processRow ext st r with
    | ok st1 =>
      simp only [hp] at h
      have hrec := ih st1 st' k h
      -- unfold one `processRow`
      simp only [Grouper.processRow] at hp
      cases hkey : g.keyOf ext r with
      | ok key =>
        simp only [hkey] at hp
        obtain ⟨hother, accs1, hstep, hsame⟩ := upd_spec ext g laws key r st st1 hp
        by_cases hk : keyEq key k = true
        · -- the row belongs to the group of k
          have hlk : lookup k st1 = some accs1 := by
            -- lookup respects key equality
            have : ∀ (s : GroupState), lookup k s = lookup key s := by
              intro s
              induction s with
              | nil => rfl
              | cons hd tl ihs =>
                obtain ⟨k0, a0⟩ := hd
                simp only [lookup]
                have : keyEq k0 k = keyEq k0 key := by
                  cases h1 : keyEq k0 key with
                  | true => exact laws.trans k0 key k h1 hk
                  | false =>
                    cases h2 : keyEq k0 k with
                    | false => rfl
                    | true =>
                      have := laws.trans k0 k key h2 (laws.symm key k hk)
                      simp [this] at h1
                rw [this, ihs]
            rw [this, hsame]
          have hlk0 : lookup k st = lookup key st := by
            have : ∀ (s : GroupState), lookup k s = lookup key s := by
              intro s
              induction s with
              | nil => rfl
              | cons hd tl ihs =>
                obtain ⟨k0, a0⟩ := hd
                simp only [lookup]
                have : keyEq k0 k = keyEq k0 key := by
                  cases h1 : keyEq k0 key with
                  | true => exact laws.trans k0 key k h1 hk
                  | false =>
                    cases h2 : keyEq k0 k with
                    | false => rfl
                    | true =>
                      have := laws.trans k0 k key h2 (laws.symm key k hk)
                      simp [this] at h1
                rw [this, ihs]
            exact this st
          have hg : groupRows ext g k (r :: rs) = r :: groupRows ext g k rs := by
            simp [groupRows, hkey, hk]
          rw [hg]
          simp only [List.cons_ne_nil, if_false, foldAccs, hlk0, hstep]
          by_cases hrest : groupRows ext g k rs = []
          · simp only [hrest, if_true] at hrec
            simp only [hrest, foldAccs]
            exact ⟨accs1, rfl, by rw [hrec, hlk]⟩
          · simp only [hrest, if_false, hlk, Option.getD_some] at hrec
            exact hrec
        · have hk' : keyEq key k = false := by simpa using hk
          have hkk : keyEq k key = false := by
            cases h1 : keyEq k key with
            | false => rfl
            | true => have := laws.symm k key h1; simp [this] at hk'
          have hg : groupRows ext g k (r :: rs) = groupRows ext g k rs := by
            simp [groupRows, hkey, hk']
          rw [hg, ← hother k hkk]
          exact hrec
      | err e => simp [hkey] at hp
      | panic p => simp [hkey] at hp
      | unmodelled w => simp [hkey] at hp
    | err e => simp [hp] at h
    | panic p => simp [hp] at h
    | unmodelled w => simp [hp] at h

/-- **C01 (one row per distinct key).** A group exists after processing iff it existed before or
some row has that key. -/
theorem group_exists_iff (ext : Ext) (g : Grouper) (laws : KeyLaws) (rows : List Fields)
    (st' : GroupState) (k : List Value) (h : foldRows ext g [] rows = .ok st') :
    (lookup k st').isSome = !(groupRows ext g k rows).isEmpty := by
  have := group_accs ext g laws rows [] st' k h
  by_cases he : groupRows ext g k rows = []
  · simp [he] at this; simp [this, he, lookup]
  · simp only [he, if_false] at this
    obtain ⟨accs, _, h2⟩ := this
    cases hr : groupRows ext g k rows with
    | nil => exact absurd hr he
    | cons a b => simp [h2]

/-! ### the keys in the state are pairwise different: exactly one entry (hence one output row) per key -/

def KeysDistinct : GroupState → Prop
  | [] => True
  | (k, _) :: rest => (∀ e ∈ rest, keyEq k e.1 = false) ∧ KeysDistinct rest

theorem upd_keys_distinct (ext : Ext) (g : Grouper) (laws : KeyLaws) (key : List Value) (row : Fields)
    (st st' : GroupState) (hd : KeysDistinct st)
    (h : groupUpd ext g.accNames row key st = .ok st') :
    KeysDistinct st' ∧ (∀ e ∈ st', (∃ e0 ∈ st, e0.1 = e.1) ∨ e.1 = key) := by
  induction st generalizing st' with
  | nil =>
    simp only [groupUpd] at h
    cases hs : stepAccs ext g.accNames (g.accNames.map fun nd => (nd.1, nd.2.empty)) row with
    | ok accs => simp [hs] at h; subst h; simp [KeysDistinct]
    | err k => simp [hs] at h
    | panic p => simp [hs] at h
    | unmodelled w => simp [hs] at h
  | cons hd0 rest ih =>
    obtain ⟨k0, accs0⟩ := hd0
    obtain ⟨hd1, hd2⟩ := hd
    simp only [groupUpd] at h
    by_cases hk0 : keyEq k0 key = true
    · simp only [hk0, if_true] at h
      cases hs : stepAccs ext g.accNames accs0 row with
      | ok accs =>
        simp [hs] at h; subst h
        refine ⟨⟨hd1, hd2⟩, ?_⟩
        intro e he
        simp at he
        rcases he with he | he
        · subst he; exact Or.inl ⟨(k0, accs0), by simp, rfl⟩
        · exact Or.inl ⟨e, by simp [he], rfl⟩
      | err k => simp [hs] at h
      | panic p => simp [hs] at h
      | unmodelled w => simp [hs] at h
    · have hk0' : keyEq k0 key = false := by simpa using hk0
      simp only [hk0', Bool.false_eq_true, if_false] at h
      cases hr : groupUpd ext g.accNames row key rest with
      | ok rest' =>
        simp [hr] at h; subst h
        obtain ⟨i1, i2⟩ := ih rest' hd2 hr
        refine ⟨⟨?_, i1⟩, ?_⟩
        · intro e he
          rcases i2 e he with ⟨e0, he0, heq⟩ | heq
          · rw [← heq]; exact hd1 e0 he0
          · rw [heq]; exact hk0'
        · intro e he
          simp at he
          rcases he with he | he
          · subst he; exact Or.inl ⟨(k0, accs0), by simp, rfl⟩
          · rcases i2 e he with ⟨e0, he0, heq⟩ | heq
            · exact Or.inl ⟨e0, by simp [he0], heq⟩
            · exact Or.inr heq
      | err k => simp [hr] at h
      | panic p => simp [hr] at h
      | unmodelled w => simp [hr] at h

/-- **C01 (exactly one row per distinct key combination).** -/
theorem keys_distinct (ext : Ext) (g : Grouper) (laws : KeyLaws) (rows : List Fields) :
    ∀ (st st' : GroupState), KeysDistinct st → foldRows ext g st rows = .ok st' → KeysDistinct st' := by
  induction rows with
  | nil => intro st st' hd h; simp [foldRows] at h; subst h; exact hd
  | cons r rs ih =>
    intro st st' hd h
    simp only [foldRows] at h
    cases hp : g.processRow ext st r with
    | ok st1 =>
      simp only [hp] at h
      simp only [Grouper.processRow] at hp
      cases hkey : g.keyOf ext r with
      | ok key =>
        simp only [hkey] at hp
        exact ih st1 st' (upd_keys_distinct ext g laws key r st st1 hd hp).1 h
      | err e => simp [hkey] at hp
      | panic p => simp [hkey] at hp
      | unmodelled w => simp [hkey] at hp
    | err e => simp [hp] at h
    | panic p => simp [hp] at h
    | unmodelled w => simp [hp] at h

/-! ### what each accumulator computes over the rows of its group -/

/-- `count` / `count(cond)`: the number of rows whose condition evaluates to `true` (every row
when there is no condition); rows on which the condition fails to evaluate are not counted -/
def countSpec (ext : Ext) (cond : Option Expr) (rows : List Fields) : Int :=
  (rows.filter (fun r => match cond with
    | none => true
    | some c => match evalBool ext r c with
      | .ok true => true
      | _ => false)).length

def foldStep (ext : Ext) (d : AggDef) : Acc → List Fields → Option Acc
  | a, [] => some a
  | a, r :: rs =>
    match d.step ext a r with
    | .st a' => foldStep ext d a' rs
    | _ => none

theorem count_spec (ext : Ext) (cond : Option Expr) (rows : List Fields) :
    ∀ (n : Int) (a : Acc), foldStep ext (.count cond) (.count n) rows = some a →
      a = .count (n + countSpec ext cond rows) := by
  induction rows with
  | nil => intro n a h; simp [foldStep] at h; simp [← h, countSpec]
  | cons r rs ih =>
    intro n a h
    simp only [foldStep, AggDef.step] at h
    cases cond with
    | none =>
      simp only at h
      have := ih (n + 1) a h
      rw [this]; simp [countSpec]; omega
    | some c =>
      simp only at h
      cases hb : evalBool ext r c with
      | ok b =>
        cases b with
        | true =>
          simp only [hb] at h
          have := ih (n + 1) a h
          rw [this]; simp [countSpec, hb]; omega
        | false =>
          simp only [hb] at h
          have := ih n a h
          rw [this]; simp [countSpec, hb]
      | err e =>
        simp only [hb] at h
        have := ih n a h
        rw [this]; simp [countSpec, hb]
      | panic p => simp [hb] at h
      | unmodelled w => simp [hb] at h

/-- the numeric values of the argument over the rows, in arrival order: rows whose argument is
missing or not numeric are skipped -/
def numeric (ext : Ext) (e : Expr) (rows : List Fields) : List F64 :=
  rows.filterMap (fun r => match evalF64 ext r e with
    | .ok v => some v
    | _ => none)

theorem sum_spec (ext : Ext) (e : Expr) (rows : List Fields) :
    ∀ (t : F64) (a : Acc), foldStep ext (.sum e) (.sum t) rows = some a →
      a = .sum ((numeric ext e rows).foldl F64.add t) := by
  induction rows with
  | nil => intro t a h; simp [foldStep] at h; simp [← h, numeric]
  | cons r rs ih =>
    intro t a h
    simp only [foldStep, AggDef.step] at h
    cases hv : evalF64 ext r e with
    | ok v => simp only [hv] at h; rw [ih _ a h]; simp [numeric, hv]
    | err k => simp only [hv] at h; rw [ih _ a h]; simp [numeric, hv]
    | panic p => simp [hv] at h
    | unmodelled w => simp [hv] at h

theorem min_spec (ext : Ext) (e : Expr) (rows : List Fields) :
    ∀ (m : F64) (a : Acc), foldStep ext (.min e) (.min m) rows = some a →
      a = .min ((numeric ext e rows).foldl (fun m v => if F64.lt v m then v else m) m) := by
  induction rows with
  | nil => intro m a h; simp [foldStep] at h; simp [← h, numeric]
  | cons r rs ih =>
    intro m a h
    simp only [foldStep, AggDef.step] at h
    cases hv : evalF64 ext r e with
    | ok v =>
      simp only [hv] at h
      by_cases hl : F64.lt v m = true
      · simp only [hl, if_true] at h; rw [ih _ a h]; simp [numeric, hv, hl]
      · simp only [hl] at h; rw [ih _ a h]; simp [numeric, hv, hl]
    | err k => simp only [hv] at h; rw [ih _ a h]; simp [numeric, hv]
    | panic p => simp [hv] at h
    | unmodelled w => simp [hv] at h

theorem max_spec (ext : Ext) (e : Expr) (rows : List Fields) :
    ∀ (m : F64) (a : Acc), foldStep ext (.max e) (.max m) rows = some a →
      a = .max ((numeric ext e rows).foldl (fun m v => if F64.gt v m then v else m) m) := by
  induction rows with
  | nil => intro m a h; simp [foldStep] at h; simp [← h, numeric]
  | cons r rs ih =>
    intro m a h
    simp only [foldStep, AggDef.step] at h
    cases hv : evalF64 ext r e with
    | ok v =>
      simp only [hv] at h
      by_cases hl : F64.gt v m = true
      · simp only [hl, if_true] at h; rw [ih _ a h]; simp [numeric, hv, hl]
      · simp only [hl] at h; rw [ih _ a h]; simp [numeric, hv, hl]
    | err k => simp only [hv] at h; rw [ih _ a h]; simp [numeric, hv]
    | panic p => simp [hv] at h
    | unmodelled w => simp [hv] at h

theorem avg_spec (ext : Ext) (e : Expr) (rows : List Fields) :
    ∀ (t : F64) (n : Int) (a : Acc), foldStep ext (.avg e) (.avg t n) rows = some a →
      a = .avg ((numeric ext e rows).foldl F64.add t) (n + (numeric ext e rows).length) := by
  induction rows with
  | nil => intro t n a h; simp [foldStep] at h; simp [← h, numeric]
  | cons r rs ih =>
    intro t n a h
    simp only [foldStep, AggDef.step] at h
    cases hv : evalF64 ext r e with
    | ok v => simp only [hv] at h; rw [ih _ _ a h]; simp [numeric, hv]; omega
    | err k => simp only [hv] at h; rw [ih _ _ a h]; simp [numeric, hv]
    | panic p => simp [hv] at h
    | unmodelled w => simp [hv] at h

/-- a group with no numeric value reports None for min / max -/
theorem min_none_when_no_numeric (d : AggDef) : d.emit (.min F64.posInf) = .ok .none := by
  cases d <;> simp [AggDef.emit, F64.posInf, F64.isFinite]

theorem max_none_when_no_numeric (d : AggDef) : d.emit (.max F64.negInf) = .ok .none := by
  cases d <;> simp [AggDef.emit, F64.negInf, F64.isFinite]

/-- **C01 (still grouped and counted).** A row whose numeric arguments are missing or not numeric
still counts in its group: the unconditional count of a group is the number of its rows. -/
theorem C01_count_all_rows (ext : Ext) (rows : List Fields) (a : Acc)
    (h : foldStep ext (.count none) (.count 0) rows = some a) : a = .count rows.length := by
  have := count_spec ext none rows 0 a h
  have e : (List.filter (fun _ : Fields => true) rows) = rows := List.filter_eq_self.mpr (by simp)
  simpa [countSpec, e] using this

/-! ### two functions under one column name share one accumulator (defect witness) -/

/-- Full statement (every function of the stage has its own column) — false today when two
functions get the same name, e.g. `count(a == 1), count(b == 2)` (both `_count`). -/
def C01_own_column_full : Prop :=
  ∀ g : Grouper, (g.accNames.map Prod.fst) = (g.fns.map Prod.fst)

theorem C01_dup_names_counterexample : ¬ C01_own_column_full := by
  intro h
  have := h { keyCols := [], headers := [],
              fns := [("_count", .count (some (.val (.bool true)))), ("_count", .count none)] }
  simp [Grouper.accNames] at this

/-- with pairwise distinct column names every function keeps its own accumulator, in order -/
theorem accNames_of_nodup (fns : List (String × AggDef)) (hn : (fns.map Prod.fst).Nodup) :
    (fns.foldl (fun acc nd => (acc.filter (fun x => x.1 != nd.1)) ++ [nd]) []) = fns := by
  suffices H : ∀ (done rest : List (String × AggDef)),
      ((done ++ rest).map Prod.fst).Nodup →
      rest.foldl (fun acc nd => (acc.filter (fun x => x.1 != nd.1)) ++ [nd]) done = done ++ rest by
    simpa using H [] fns (by simpa using hn)
  intro done rest
  induction rest generalizing done with
  | nil => intro _; simp
  | cons x xs ih =>
    intro hnd
    simp only [List.foldl_cons]
    have hx : done.filter (fun y => y.1 != x.1) = done := by
      apply List.filter_eq_self.mpr
      intro y hy
      have : y.1 ≠ x.1 := by
        intro e
        simp only [List.map_append, List.map_cons] at hnd
        have := (List.nodup_append.mp hnd).2.2 y.1 (List.mem_map.mpr ⟨y, hy, rfl⟩) x.1 (by simp)
        exact this e
      simpa using this
    rw [hx]
    have := ih (done ++ [x]) (by simpa using hnd)
    simpa using this

end Ag.C01
