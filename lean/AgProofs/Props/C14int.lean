/-
C14 (instantiations)  The hypotheses of `C14_sum_perm` / `C14_min_perm` discharged from the float
lemmas:

* integer-valued data (every summed value is `i as f64`) with Σ|i| ≤ 2^53: the sum accumulator is
  exact — the double of the integer sum — and therefore independent of arrival order
  (`C14_int_sum_exact`, `C14_int_sum_perm`).  `Ag.C14.AddComm` itself quantifies over EVERY
  accumulator value `t`, which no list of floats satisfies (rounding), so the order-independence is
  proved directly from exactness; `C14_int_add_right_comm` is the right-commutativity on the
  accumulators that actually occur.
* NaN-free data on which `Equal` means identical (e.g. canonical doubles without both zeros, or
  integer-valued data): `MinStepComm` holds (`C14_minStepComm`), hence `C14_min_perm` applies.
-/
import AgProofs.Props.C14
import AgProofs.Lemmas.F64Add

namespace Ag.C14
open Ag.C01 Ag.F64

/-- the values summed are doubles of integers whose absolute values add up to at most 2^53 -/
def IntData (vals : List F64) : Prop :=
  (∀ x ∈ vals, IntValued x) ∧ (vals.map (fun x => (toInt x).natAbs)).sum ≤ two53

/-- **exact integer sums**: the accumulator is the double of the integer sum -/
theorem C14_int_sum_exact (ext : Ext) (e : Expr) (rows : List Fields)
    (hd : IntData (numeric ext e rows)) (a : Acc)
    (h : foldStep ext (.sum e) (.sum F64.zero) rows = some a) :
    a = .sum (ofInt ((numeric ext e rows).map toInt).sum) := by
  rw [sum_spec ext e rows _ a h]
  have := foldl_add_intValued (numeric ext e rows) 0 hd.1 (by simpa using hd.2)
  rw [ofInt_zero_eq, Int.zero_add] at this
  rw [this]

/-- **integer sums are order-independent** (no hypothesis on the float arithmetic left) -/
theorem C14_int_sum_perm (ext : Ext) (e : Expr) {rows rows' : List Fields} (hp : rows.Perm rows')
    (hd : IntData (numeric ext e rows)) (a a' : Acc)
    (h : foldStep ext (.sum e) (.sum F64.zero) rows = some a)
    (h' : foldStep ext (.sum e) (.sum F64.zero) rows' = some a') : a = a' := by
  rw [sum_spec ext e rows _ a h, sum_spec ext e rows' _ a' h']
  congr 1
  exact foldl_add_intValued_perm (numeric_perm ext e hp) hd.1 hd.2

/-- right-commutativity of `+` on the accumulators that occur (integers within ±2^53) -/
theorem C14_int_add_right_comm {t x y : Int} (ht : t.natAbs ≤ two53) (hx : x.natAbs ≤ two53)
    (hy : y.natAbs ≤ two53) (htx : (t + x).natAbs ≤ two53) (hty : (t + y).natAbs ≤ two53)
    (htxy : (t + x + y).natAbs ≤ two53) :
    F64.add (F64.add (ofInt t) (ofInt x)) (ofInt y) =
      F64.add (F64.add (ofInt t) (ofInt y)) (ofInt x) :=
  add_right_comm_ofInt ht hx hy htx hty htxy

/-- non-vacuity -/
example : IntData [ofInt 3, ofInt (-5), ofInt 0] := by
  refine ⟨?_, by decide +kernel⟩
  intro x hx
  simp only [List.mem_cons, List.mem_nil_iff, or_false] at hx
  rcases hx with rfl | rfl | rfl <;> (unfold IntValued; decide +kernel)

/-- **`MinStepComm` holds** on NaN-free values among which `Equal` means identical -/
theorem C14_minStepComm (vals : List F64) (hnan : ∀ x ∈ vals, x ≠ nan)
    (hanti : ∀ x ∈ vals, ∀ y ∈ vals, ocmp x y = .eq → x = y) : MinStepComm vals := by
  intro m x hx y hy
  exact minStep_comm (hnan x hx) (hnan y hy) (hanti x hx y hy)

/-- a checkable sufficient condition: canonical doubles (everything `ofBits` produces), no NaN,
and at most one of the two zeros -/
theorem C14_minStepComm_canon (vals : List F64) (hc : ∀ x ∈ vals, Canon x ∧ x ≠ nan)
    (hz : ∀ x ∈ vals, ∀ y ∈ vals, x.isZero = true → y.isZero = true → x = y) :
    MinStepComm vals :=
  C14_minStepComm vals (fun x hx => (hc x hx).2) (fun x hx y hy h => by
    rcases canon_eq_of_ocmp_eq (hc x hx).1 (hc y hy).1 (hc x hx).2 (hc y hy).2 h with h' | h'
    · exact h'
    · exact hz x hx y hy h'.1 h'.2)

/-- in particular on integer-valued data -/
theorem C14_minStepComm_int (vals : List F64)
    (hint : ∀ x ∈ vals, IntValued x ∧ (toInt x).natAbs ≤ two53) : MinStepComm vals :=
  C14_minStepComm vals (fun x hx => intValued_ne_nan (hint x hx).1 (hint x hx).2)
    (fun x hx y hy h =>
      intValued_antisymm (hint x hx).1 (hint y hy).1 (hint x hx).2 (hint y hy).2 h)

/-- **min over integer-valued data is order-independent** (hypothesis-free instance of
`C14_min_perm`) -/
theorem C14_int_min_perm (ext : Ext) (e : Expr) {rows rows' : List Fields} (hp : rows.Perm rows')
    (hint : ∀ x ∈ numeric ext e rows, IntValued x ∧ (toInt x).natAbs ≤ two53) (a a' : Acc)
    (h : foldStep ext (.min e) (.min F64.posInf) rows = some a)
    (h' : foldStep ext (.min e) (.min F64.posInf) rows' = some a') : a = a' :=
  C14_min_perm ext e hp (C14_minStepComm_int _ hint) a a' h h'

/-- the full statement is false: with both zeros present the running minimum keeps whichever came
first (`-0.0` and `+0.0` are `Equal` but distinct bit patterns) -/
theorem C14_minStepComm_zeros_counterexample :
    ¬ MinStepComm [F64.zero, F64.negZero] := by
  intro h
  have := h (fin false two52 (-52)) F64.zero (by simp) F64.negZero (by simp)
  revert this
  decide +kernel

end Ag.C14
