/-
C10 (fuller statements)  `limit N` / `limit -N` for every non-zero N, any chain of limits, and
limits applied to a table.

Builds on C10.lean (`lastN`, `C10_head`, `C10_tail`, `adapt_go_head`) and on the
pipelined = stage-wise theorem of C03stage.lean (`C03.pipelined`, `C03.seqRun`).
Model: `stepOp`/`drainOp`/`RowOp.init` (src/operator/limit.rs), `feed`/`drainLoop`/`runPre`
(src/lib.rs:280-304), `adaptTable` (PreAggAdapter, src/operator.rs:177-192).
-/
import AgModel.Pipeline
import AgProofs.Props.C10
import AgProofs.Props.C03stage

namespace Ag.C10

/-- the property's specification of `limit n` on a complete input: the first `n` rows for a
positive `n`, the last `-n` rows otherwise, in their original order -/
def limSpec {α} (n : Int) (rows : List α) : List α :=
  if 0 < n then rows.take n.toNat else lastN (-n).toNat rows

/-- a chain `limit n₁ | limit n₂ | …` : each limit applied to the complete output of the one
before it -/
def limAll {α} (ns : List Int) (rows : List α) : List α :=
  ns.foldl (fun acc n => limSpec n acc) rows

/-! ### the property's words about `limSpec` -/

/-- a positive limit keeps a contiguous prefix -/
theorem limSpec_prefix {α} (n : Int) (hn : 0 < n) (rows : List α) : limSpec n rows <+: rows := by
  simp only [limSpec, hn, if_true]; exact List.take_prefix _ _

/-- a negative limit keeps a contiguous suffix -/
theorem limSpec_suffix {α} (n : Int) (hn : n < 0) (rows : List α) : limSpec n rows <:+ rows := by
  have : ¬ (0 < n) := by omega
  simp only [limSpec, this, if_false, lastN]; exact List.drop_suffix _ _

/-- in both cases the kept rows are rows of the input in their original order -/
theorem limSpec_sublist {α} (n : Int) (rows : List α) : (limSpec n rows).Sublist rows := by
  unfold limSpec lastN
  split
  · exact List.take_sublist _ _
  · exact List.drop_sublist _ _

/-- exactly `|n|` rows, or all of them when fewer arrived -/
theorem limSpec_length {α} (n : Int) (rows : List α) :
    (limSpec n rows).length = min n.natAbs rows.length := by
  unfold limSpec
  split
  · simp only [List.length_take]; omega
  · rw [lastN_length]; omega

/-- all rows when at most `|n|` arrive -/
theorem limSpec_all {α} (n : Int) (rows : List α) (h : rows.length ≤ n.natAbs) :
    limSpec n rows = rows := by
  unfold limSpec
  split
  · exact List.take_of_length_le (by omega)
  · exact lastN_all _ _ (by omega)

/-- the `i`-th kept row of a positive limit is the `i`-th input row -/
theorem limSpec_head_get {α} (n : Int) (hn : 0 < n) (rows : List α) (i : Nat) (hi : i < n.toNat) :
    (limSpec n rows)[i]? = rows[i]? := by
  simp only [limSpec, hn, if_true, List.getElem?_take, hi, if_true]

/-- the `i`-th kept row of a negative limit is input row `i + (length - |n|)` -/
theorem limSpec_tail_get {α} (n : Int) (hn : n < 0) (rows : List α) (i : Nat) :
    (limSpec n rows)[i]? = rows[rows.length - (-n).toNat + i]? := by
  have : ¬ (0 < n) := by omega
  simp only [limSpec, this, if_false, lastN, List.getElem?_drop]

theorem lastN_map {α β} (f : α → β) (k : Nat) (l : List α) : lastN k (l.map f) = (lastN k l).map f := by
  simp [lastN, List.map_drop]

theorem limSpec_map {α β} (f : α → β) (n : Int) (l : List α) :
    limSpec n (l.map f) = (limSpec n l).map f := by
  unfold limSpec; split
  · simp [List.map_take]
  · exact lastN_map f _ l

/-! ### one limit stage on a complete input -/

theorem runStage_limit (ext : Ext) (n : Int) (hn : n ≠ 0) (rows : List Record) :
    C03.runStage ext (.limit n) rows = .ok (limSpec n rows, 0) := by
  unfold C03.runStage limSpec
  by_cases h : 0 < n
  · rw [C10_head ext n h]; simp [drainOp, h]
  · have h' : n < 0 := by omega
    rw [(C10_tail ext n h' rows).1]; simp [drainOp, h]

theorem seqRun_limits (ext : Ext) (ns : List Int) (h : ∀ n ∈ ns, n ≠ 0) (rows : List Record) :
    C03.seqRun ext (ns.map .limit) rows = .ok (limAll ns rows, 0) := by
  induction ns generalizing rows with
  | nil => simp [C03.seqRun, limAll]
  | cons n ns ih =>
    simp only [List.map_cons, C03.seqRun, runStage_limit ext n (h n (by simp)),
      ih (fun m hm => h m (by simp [hm])), limAll, List.foldl_cons, Nat.add_zero]

/-- the complete run (every record through all stages, then the drain loop) of a chain of limits -/
theorem pipelined_limits (ext : Ext) (ns : List Int) (h : ∀ n ∈ ns, n ≠ 0) (rows : List Record) :
    C03.pipelined ext (ns.map .limit) rows = .ok (limAll ns rows, 0) :=
  C03.C03_pipelined_eq_stagewise ext _ rows _ 0 (seqRun_limits ext ns h rows)

/-- `C03.pipelined` spelled out: the `feed` over all rows, then `drainLoop` from the states reached -/
theorem pipelined_explicit (ext : Ext) (ops : List RowOp) (rows o : List Record)
    (h : C03.pipelined ext ops rows = .ok (o, 0)) :
    ∃ sts outs dr, feed ext ops (ops.map RowOp.init) rows [] 0 = .ok (sts, outs, 0)
      ∧ drainLoop ext ops sts [] 0 = .ok (dr, 0) ∧ outs ++ dr = o := by
  unfold C03.pipelined at h
  cases hf : feed ext ops (ops.map RowOp.init) rows [] 0 with
  | ok t =>
    obtain ⟨sts, outs, e⟩ := t
    simp only [hf] at h
    cases hd : drainLoop ext ops sts [] 0 with
    | ok q =>
      obtain ⟨dr, e'⟩ := q
      simp only [hd, RunR.ok.injEq, Prod.mk.injEq] at h
      obtain ⟨h1, h2⟩ := h
      have e0 : e = 0 := by omega
      have e0' : e' = 0 := by omega
      subst e0 e0'
      exact ⟨sts, outs, dr, rfl, hd, h1⟩
    | panic p => simp [hd] at h
    | unmodelled w => simp [hd] at h
  | panic p => simp [hf] at h
  | unmodelled w => simp [hf] at h

/-- **C10 (any chain of limits).** For every list `ns` of non-zero limits, of any signs, the
complete run of `limit n₁ | limit n₂ | …` — `feed` over all rows, then the drain loop, which
flushes each tail limit's queue THROUGH the stages after it — emits no error line and outputs
(rows emitted while reading, followed by rows emitted while draining) exactly
`limSpec nₖ (… (limSpec n₁ rows))`, in order. -/
theorem C10_chain (ext : Ext) (ns : List Int) (h : ∀ n ∈ ns, n ≠ 0) (rows : List Record) :
    ∃ sts outs dr,
      feed ext (ns.map .limit) ((ns.map .limit).map RowOp.init) rows [] 0 = .ok (sts, outs, 0)
      ∧ drainLoop ext (ns.map .limit) sts [] 0 = .ok (dr, 0)
      ∧ outs ++ dr = limAll ns rows :=
  pipelined_explicit ext _ rows _ (pipelined_limits ext ns h rows)

/-- **C10 (single limit, both signs).** `limit n`, `n ≠ 0`, as the only stage: the rows emitted
while reading followed by the rows emitted at end of input are exactly `limSpec n rows` — the
first `n` rows for `n > 0`, the last `-n` for `n < 0` — in their original order. -/
theorem C10_single (ext : Ext) (n : Int) (hn : n ≠ 0) (rows : List Record) :
    ∃ sts outs dr,
      feed ext [.limit n] [RowOp.init (.limit n)] rows [] 0 = .ok (sts, outs, 0)
      ∧ drainLoop ext [.limit n] sts [] 0 = .ok (dr, 0)
      ∧ outs ++ dr = limSpec n rows := by
  simpa [limAll] using C10_chain ext [n] (by simpa using hn) rows

/-- when the rows come out: a head limit emits while reading and nothing at the end, a tail limit
nothing while reading and everything at the end -/
theorem C10_single_phases (ext : Ext) (n : Int) (hn : n ≠ 0) (rows : List Record) :
    ∃ st,
      feed ext [.limit n] [RowOp.init (.limit n)] rows [] 0 =
        .ok ([st], if 0 < n then limSpec n rows else [], 0)
      ∧ drainLoop ext [.limit n] [st] [] 0 = .ok (if 0 < n then [] else limSpec n rows, 0) := by
  by_cases h : 0 < n
  · refine ⟨.head rows.length, ?_, ?_⟩
    · simp only [h, if_true, limSpec]; exact C10_head ext n h rows
    · simp [h, drainLoop, drainOp, feed]
  · have h' : n < 0 := by omega
    refine ⟨.tail (lastN (-n).toNat rows), ?_, ?_⟩
    · simp only [h, if_false]; exact (C10_tail ext n h' rows).1
    · simp only [h, if_false, limSpec]; exact (C10_tail ext n h' rows).2

/-- **C10 (chained limits compose, all four sign combinations).** `limit a | limit b`,
`a, b ≠ 0`: the complete run outputs `limSpec b (limSpec a rows)`. -/
theorem C10_compose (ext : Ext) (a b : Int) (ha : a ≠ 0) (hb : b ≠ 0) (rows : List Record) :
    ∃ sts outs dr,
      feed ext [.limit a, .limit b] [RowOp.init (.limit a), RowOp.init (.limit b)] rows [] 0 =
        .ok (sts, outs, 0)
      ∧ drainLoop ext [.limit a, .limit b] sts [] 0 = .ok (dr, 0)
      ∧ outs ++ dr = limSpec b (limSpec a rows) := by
  have h : ∀ n ∈ [a, b], n ≠ 0 := by
    intro n hn; simp at hn; rcases hn with rfl | rfl <;> assumption
  simpa [limAll] using C10_chain ext [a, b] h rows

/-- **C10 at the level of `runPre`.** A plan whose row operators are a chain of limits sends
to the channel exactly the chain applied to the records of the lines that pass the filter. -/
theorem C10_runPre (ext : Ext) (p : Plan) (ns : List Int) (hp : p.pre = ns.map .limit)
    (h : ∀ n ∈ ns, n ≠ 0) (lines : List String)
    (hm : lines.all (fun l => Search.modelled p.filter l.toList) = true) :
    runPre ext p lines = .ok { rows := limAll ns (C03.filtered p lines), errors := 0 } := by
  apply C03.C03_runPre_stagewise ext p lines _ 0 hm
  rw [hp]; exact seqRun_limits ext ns h _

/-! ### after an aggregation or sort -/

/-- the column list `PreAggAdapter` computes for the output rows `outs` of a table whose
columns were `cols` (surviving old columns in their old order, then new ones sorted) -/
def adaptColumns (cols : List String) (outs : List Fields) : List String :=
  let keySet := dedupKeys (outs.flatMap Fields.keys)
  let prev := cols.filter (fun c => keySet.contains c)
  prev ++ sortStrings (keySet.filter (fun c => !prev.contains c))

theorem adapt_go_tail (ext : Ext) (n : Int) (hn : n < 0) (recs : List Record) :
    ∀ (seen : List Record) (acc : List Fields),
      adaptTable.go ext (.limit n) (.tail (lastN (-n).toNat seen)) recs acc =
        .ok (.tail (lastN (-n).toNat (seen ++ recs)), acc.reverse) := by
  induction recs with
  | nil => intro seen acc; simp [adaptTable.go]
  | cons r rs ih =>
    intro seen acc
    simp only [adaptTable.go, stepOp]
    have hk : 0 < (-n).toNat := by omega
    rw [← lastN_snoc _ hk, ih]
    simp

/-- **C10 (after a table, both signs).** `PreAggAdapter` runs a fresh limit over the rows of
each table: the result has rows `limSpec n t.rows` — the first `n` / last `-n` rows of the order
the upstream sort produced — and the columns the adapter computes from those rows. -/
theorem C10_after_table (ext : Ext) (n : Int) (hn : n ≠ 0) (t : Table) :
    adaptTable ext (.limit n) t =
      .ok { columns := adaptColumns t.columns (limSpec n t.rows), rows := limSpec n t.rows } := by
  have hmap : (t.rows.map (fun d => ({ data := d, raw := "" } : Record))).map (·.data) = t.rows := by
    simp [List.map_map, Function.comp_def]
  by_cases h : 0 < n
  · have h0 : RowOp.init (.limit n) = .head 0 := by simp [RowOp.init, h]
    have e : limSpec n t.rows =
        (List.take (n.toNat - 0) (t.rows.map (fun d => ({ data := d, raw := "" } : Record)))).map
          (·.data) := by
      simp [limSpec, h, List.map_take, Function.comp_def]
    unfold adaptTable
    simp only [h0, adapt_go_head, e, adaptColumns, drainOp, List.map_nil, List.append_nil,
      List.reverse_nil, List.nil_append]
  · have h' : n < 0 := by omega
    have h0 : RowOp.init (.limit n) = .tail (lastN (-n).toNat ([] : List Record)) := by
      simp [RowOp.init, h, lastN]
    have e : limSpec n t.rows =
        (lastN (-n).toNat (t.rows.map (fun d => ({ data := d, raw := "" } : Record)))).map
          (·.data) := by
      rw [← lastN_map, hmap]; simp [limSpec, h]
    unfold adaptTable
    simp only [h0, adapt_go_tail ext n h', e, adaptColumns, drainOp, List.nil_append,
      List.reverse_nil]

/-! ### non-vacuity -/

example : limSpec (2 : Int) [1, 2, 3, 4] = [1, 2] := by decide
example : limSpec (-2 : Int) [1, 2, 3, 4] = [3, 4] := by decide
example : limSpec (-7 : Int) [1, 2, 3, 4] = [1, 2, 3, 4] := by decide
/-- tail then head: `limit -3 | limit 2` keeps the first two of the last three -/
example : limAll [-3, 2] [1, 2, 3, 4, 5] = [3, 4] := by decide
/-- head then tail -/
example : limAll [4, -2] [1, 2, 3, 4, 5] = [3, 4] := by decide
/-- tail then tail -/
example : limAll [-4, -2] [1, 2, 3, 4, 5] = [4, 5] := by decide
/-- a chain of three with mixed signs -/
example : limAll [-4, 3, -1] [1, 2, 3, 4, 5] = [4] := by decide

/-- the model itself on concrete records: `limit -2 | limit 1` over three rows outputs the
second one, entirely during the drain phase -/
example (ext : Ext) (a b c : Record) :
    ∃ sts, feed ext [.limit (-2), .limit 1] [RowOp.init (.limit (-2)), RowOp.init (.limit 1)]
        [a, b, c] [] 0 = .ok (sts, [], 0)
      ∧ drainLoop ext [.limit (-2), .limit 1] sts [] 0 = .ok ([b], 0) := by
  refine ⟨[.tail [b, c], .head 0], ?_, ?_⟩
  · simp [feed, procPreagg, stepOp, RowOp.init]
  · simp [drainLoop, drainOp, feed, procPreagg, stepOp]

/-- and the general theorem gives the same answer for it -/
example (a b c : Record) : limSpec 1 (limSpec (-2) [a, b, c]) = [b] := by
  simp [limSpec, lastN]

/-- a table with three rows under `limit -2` -/
example (ext : Ext) (x y z : Fields) (cols : List String) :
    ∃ cs, adaptTable ext (.limit (-2)) { columns := cols, rows := [x, y, z] } =
      .ok { columns := cs, rows := [y, z] } :=
  ⟨adaptColumns cols [y, z], by rw [C10_after_table ext (-2) (by decide)]; simp [limSpec, lastN]⟩

end Ag.C10
