/-
C12  Row operators are local: one line in, at most one row out, order kept.

Model: `applyStateless`, `stepOp`, `procPreagg`, `feed` (AgModel/Ops.lean, AgModel/Pipeline.lean)
for src/operator.rs:102-170, src/lib.rs:280-333, src/operator/{parse,split,fields,where_op,timeslice}.rs.
-/
import AgModel.Pipeline
import AgProofs.Lemmas.Fields
import AgProofs.Lemmas.Basic

namespace Ag.C12

/-- every operator of the list is one of the stateless ones (everything but limit and total) -/
def Stateless (ops : List RowOp) : Prop := ∀ op ∈ ops, op.isStateless = true

theorem init_stateless (op : RowOp) (h : op.isStateless = true) : op.init = .stateless := by
  cases op <;> simp_all [RowOp.isStateless, RowOp.init]

theorem step_stateless (ext : Ext) (op : RowOp) (r : Record) :
    stepOp ext op .stateless r = (.stateless, applyStateless ext op r) := by
  cases op <;> simp [stepOp]

/-- the per-line function of a stateless pipeline: the output row (if any) and the number of
`error:` lines, or a panic/unmodelled marker — a function of the line alone -/
def lineFn (ext : Ext) : List RowOp → Record → RunR (Option Record × Nat)
  | [], r => .ok (some r, 0)
  | op :: ops, r =>
    match applyStateless ext op r with
    | .ok (some r') => lineFn ext ops r'
    | .ok none => .ok (none, 0)
    | .err _ => .ok (none, 1)
    | .panic p => .panic p
    | .unmodelled w => .unmodelled w

/-- **C12 (no hidden state).** On a stateless pipeline, `proc_preagg` leaves every operator state
as it was and its result is `lineFn` of the record: the outcome for a line cannot depend on any
other line. -/
theorem proc_stateless (ext : Ext) (ops : List RowOp) (hs : Stateless ops) (r : Record) :
    procPreagg ext ops (ops.map RowOp.init) r =
      match lineFn ext ops r with
      | .ok (o, e) => .ok (ops.map RowOp.init, o, e)
      | .panic p => .panic p
      | .unmodelled w => .unmodelled w := by
  induction ops generalizing r with
  | nil => simp [procPreagg, lineFn]
  | cons op ops ih =>
    have h1 : op.init = .stateless := init_stateless op (hs op (by simp))
    have h2 : Stateless ops := fun o ho => hs o (by simp [ho])
    simp only [List.map_cons, procPreagg, h1, step_stateless, lineFn]
    cases hres : applyStateless ext op r with
    | ok o =>
      cases o with
      | none => simp
      | some r' =>
        simp only [ih h2 r']
        cases lineFn ext ops r' with
        | ok p => obtain ⟨o, e⟩ := p; simp
        | panic p => simp
        | unmodelled w => simp
    | err k => simp
    | panic p => simp
    | unmodelled w => simp

/-- outputs of a list of lines under a stateless pipeline, as a plain fold of `lineFn` -/
def outputs (ext : Ext) (ops : List RowOp) : List Record → RunR (List Record × Nat)
  | [] => .ok ([], 0)
  | r :: rs =>
    match lineFn ext ops r with
    | .ok (o, e) =>
      match outputs ext ops rs with
      | .ok (os, e') => .ok (o.toList ++ os, e + e')
      | x => x
    | .panic p => .panic p
    | .unmodelled w => .unmodelled w

theorem feed_stateless (ext : Ext) (ops : List RowOp) (hs : Stateless ops) (rows : List Record) :
    ∀ (acc : List Record) (e : Nat),
      feed ext ops (ops.map RowOp.init) rows acc e =
        match outputs ext ops rows with
        | .ok (os, e') => .ok (ops.map RowOp.init, acc.reverse ++ os, e + e')
        | .panic p => .panic p
        | .unmodelled w => .unmodelled w := by
  induction rows with
  | nil => intro acc e; simp [feed, outputs]
  | cons r rs ih =>
    intro acc e
    simp only [feed, proc_stateless ext ops hs r, outputs]
    cases hl : lineFn ext ops r with
    | ok p =>
      obtain ⟨o, e1⟩ := p
      cases o with
      | none =>
        simp only [ih]
        cases outputs ext ops rs with
        | ok q => obtain ⟨os, e2⟩ := q; simp [Nat.add_assoc]
        | panic p => simp
        | unmodelled w => simp
      | some r' =>
        simp only [ih]
        cases outputs ext ops rs with
        | ok q => obtain ⟨os, e2⟩ := q; simp [Nat.add_assoc]
        | panic p => simp
        | unmodelled w => simp
    | panic p => simp
    | unmodelled w => simp

theorem outputs_append (ext : Ext) (ops : List RowOp) (A B : List Record)
    (oa ob : List Record) (ea eb : Nat)
    (ha : outputs ext ops A = .ok (oa, ea)) (hb : outputs ext ops B = .ok (ob, eb)) :
    outputs ext ops (A ++ B) = .ok (oa ++ ob, ea + eb) := by
  induction A generalizing oa ea with
  | nil => simp [outputs] at ha; obtain ⟨h1, h2⟩ := ha; subst h1 h2; simpa using hb
  | cons r rs ih =>
    simp only [List.cons_append, outputs] at ha ⊢
    cases hl : lineFn ext ops r with
    | ok p =>
      obtain ⟨o, e1⟩ := p
      simp only [hl] at ha
      cases hr : outputs ext ops rs with
      | ok q =>
        obtain ⟨os, e2⟩ := q
        simp only [hr] at ha
        injection ha with ha
        injection ha with h1 h2
        subst h1 h2
        simp [ih os e2 hr, Nat.add_assoc]
      | panic p => simp [hr] at ha
      | unmodelled w => simp [hr] at ha
    | panic p => simp [hl] at ha
    | unmodelled w => simp [hl] at ha

/-- **C12 (concatenation).** For a pipeline of stateless row operators, the rows (and the number
of error lines) produced for `A ++ B` are those for `A` followed by those for `B`; the operator
states are untouched, so this holds for every position of a line in every history. -/
theorem C12_concat (ext : Ext) (ops : List RowOp) (hs : Stateless ops) (A B oa ob : List Record)
    (ea eb : Nat)
    (ha : feed ext ops (ops.map RowOp.init) A [] 0 = .ok (ops.map RowOp.init, oa, ea))
    (hb : feed ext ops (ops.map RowOp.init) B [] 0 = .ok (ops.map RowOp.init, ob, eb)) :
    feed ext ops (ops.map RowOp.init) (A ++ B) [] 0 =
      .ok (ops.map RowOp.init, oa ++ ob, ea + eb) := by
  rw [feed_stateless ext ops hs] at ha hb ⊢
  cases h1 : outputs ext ops A with
  | ok p =>
    obtain ⟨o1, e1⟩ := p
    cases h2 : outputs ext ops B with
    | ok q =>
      obtain ⟨o2, e2⟩ := q
      simp only [h1, h2] at ha hb
      injection ha with ha; injection hb with hb
      simp only [Prod.mk.injEq, List.reverse_nil, List.nil_append, Nat.zero_add, true_and] at ha hb
      obtain ⟨a1, a2⟩ := ha; obtain ⟨b1, b2⟩ := hb
      subst a1 a2 b1 b2
      simp [outputs_append ext ops A B o1 o2 e1 e2 h1 h2]
    | panic p => simp [h2] at hb
    | unmodelled w => simp [h2] at hb
  | panic p => simp [h1] at ha
  | unmodelled w => simp [h1] at ha

/-- each input line yields at most one output row, in input order: the output list is the
concatenation of per-line results of length ≤ 1 -/
theorem C12_at_most_one (ext : Ext) (ops : List RowOp) (rows os : List Record) (e : Nat)
    (h : outputs ext ops rows = .ok (os, e)) : os.length ≤ rows.length := by
  induction rows generalizing os e with
  | nil => simp [outputs] at h; simp [h.1]
  | cons r rs ih =>
    simp only [outputs] at h
    cases hl : lineFn ext ops r with
    | ok p =>
      obtain ⟨o, e1⟩ := p
      simp only [hl] at h
      cases hr : outputs ext ops rs with
      | ok q =>
        obtain ⟨os', e2⟩ := q
        simp only [hr] at h
        injection h with h; injection h with h1 h2
        subst h1
        have := ih os' e2 hr
        cases o <;> simp <;> omega
      | panic p => simp [hr] at h
      | unmodelled w => simp [hr] at h
    | panic p => simp [hl] at h
    | unmodelled w => simp [hl] at h

/-! ### frame: an operator touches only the fields it names -/

/-- `where` passes the record through unchanged or drops it -/
theorem C12_where_frame (ext : Ext) (e : Expr) (r r' : Record)
    (h : applyStateless ext (.whereE e) r = .ok (some r')) : r' = r := by
  simp only [applyStateless, bind, Outcome.bind] at h
  cases hb : evalBool ext r.data e with
  | ok b => cases b <;> simp_all
  | err k => simp [hb] at h
  | panic p => simp [hb] at h
  | unmodelled w => simp [hb] at h

/-- a field expression `e as name` only adds/overwrites `name`; raw line untouched -/
theorem C12_field_expr_frame (ext : Ext) (e : Expr) (name : String) (r r' : Record)
    (h : applyStateless ext (.fieldExpr e name) r = .ok (some r')) :
    r'.raw = r.raw ∧ ∀ k, k ≠ name → Fields.get k r'.data = Fields.get k r.data := by
  simp only [applyStateless, bind, Outcome.bind] at h
  cases hv : evalValue ext r.data e with
  | ok v =>
    simp [hv] at h
    subst h
    exact ⟨rfl, fun k hk => Fields.get_put_ne k name v r.data hk⟩
  | err k => simp [hv] at h
  | panic p => simp [hv] at h
  | unmodelled w => simp [hv] at h

/-- `fields` only removes fields: whatever is in the output was in the input with the same value -/
theorem C12_fields_only_removes (ext : Ext) (mode : FieldMode) (names : List String) (r r' : Record)
    (h : applyStateless ext (.fields mode names) r = .ok (some r')) :
    r'.raw = r.raw ∧ ∀ k v, Fields.get k r'.data = some v → Fields.get k r.data = some v := by
  cases mode with
  | only =>
    simp only [applyStateless] at h
    split at h
    · simp at h
    · simp only [Outcome.ok.injEq, Option.some.injEq] at h
      subst h
      refine ⟨rfl, fun k v hk => ?_⟩
      have := Fields.get_filter k (fun x => names.contains x) r.data
      simp only at hk this
      rw [this] at hk
      split at hk
      · exact hk
      · simp at hk
  | except =>
    simp only [applyStateless] at h
    split at h
    · simp at h
    · simp only [Outcome.ok.injEq, Option.some.injEq] at h
      subst h
      refine ⟨rfl, fun k v hk => ?_⟩
      have := Fields.get_filter k (fun x => !names.contains x) r.data
      simp only at hk this
      rw [this] at hk
      split at hk
      · exact hk
      · simp at hk

/-- `timeslice` only writes its output column -/
theorem C12_timeslice_frame (ext : Ext) (src : Expr) (d : Int) (dst : Option String) (r r' : Record)
    (h : applyStateless ext (.timeslice src d dst) r = .ok (some r')) :
    r'.raw = r.raw ∧ ∀ k, k ≠ dst.getD "_timeslice" → Fields.get k r'.data = Fields.get k r.data := by
  simp only [applyStateless, bind, Outcome.bind] at h
  cases hv : evalValue ext r.data src with
  | ok v =>
    simp only [hv] at h
    cases v <;> simp at h
    rename_i ns
    cases ht : durationTrunc ns d with
    | ok t =>
      simp [ht] at h
      subst h
      exact ⟨rfl, fun k hk => Fields.get_put_ne k _ _ r.data hk⟩
    | err k => simp [ht] at h
    | panic p => simp [ht] at h
    | unmodelled w => simp [ht] at h
  | err k => simp [hv] at h
  | panic p => simp [hv] at h
  | unmodelled w => simp [hv] at h

/-- `parse … as f1,…` binds only the named fields (and nothing else changes), whether it matches
or runs under `nodrop` -/
theorem C12_parse_frame (ext : Ext) (pat : Keyword) (fs : List String) (src : Option Expr)
    (drop nc : Bool) (r r' : Record)
    (h : applyStateless ext (.parse pat fs src drop nc) r = .ok (some r')) :
    r'.raw = r.raw ∧ ∀ k, k ∉ fs → Fields.get k r'.data = Fields.get k r.data := by
  simp only [applyStateless, bind, Outcome.bind] at h
  cases hi : getInput ext r src with
  | ok inp =>
    simp only [hi] at h
    split at h
    · simp at h
    · cases hc : Kw.captures pat (Text.trim inp.toList) with
      | none =>
        simp only [hc] at h
        split at h
        · simp at h
        · simp only [Outcome.pure_eq, Outcome.ok.injEq, Option.some.injEq] at h
          subst h
          refine ⟨rfl, fun k hk => ?_⟩
          simp only
          -- fold of conditional puts over `fs`: none of them is `k`
          have : ∀ (l : List String) (d : Fields), (∀ f ∈ l, f ≠ k) →
              Fields.get k (l.foldl (fun d f => if Fields.contains f r.data then d else Fields.put f .none d) d)
                = Fields.get k d := by
            intro l
            induction l with
            | nil => intro d _; rfl
            | cons f rest ih =>
              intro d hne
              simp only [List.foldl_cons]
              rw [ih _ (fun g hg => hne g (by simp [hg]))]
              split
              · rfl
              · exact Fields.get_put_ne k f _ d (fun e => hne f (by simp) e.symm)
          exact this fs r.data (fun f hf e => hk (e ▸ hf))
      | some caps =>
        simp only [hc, Outcome.pure_eq, Outcome.ok.injEq, Option.some.injEq] at h
        subst h
        refine ⟨rfl, fun k hk => ?_⟩
        simp only
        apply Fields.get_foldl_put_ne
        intro kv hkv e
        have := List.of_mem_zip hkv
        exact hk (e ▸ this.1)
  | err k => simp [hi] at h
  | panic p => simp [hi] at h
  | unmodelled w => simp [hi] at h

/-- limit and total are the only row operators with state (by the model's types) -/
theorem C12_only_limit_total_stateful (op : RowOp) :
    op.isStateless = false ↔ (∃ n, op = .limit n) ∨ (∃ s d, op = .total s d) := by
  cases op <;> simp [RowOp.isStateless]

/-- non-vacuity: a concrete stateless pipeline -/
example : Stateless [.json none, .whereConst true, .fields .only ["a"]] := by
  intro op h; simp at h; rcases h with h | h | h <;> subst h <;> rfl

end Ag.C12
