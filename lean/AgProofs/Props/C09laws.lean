/-
C09 (comparator laws)  The hypotheses of the sort-level theorems, discharged.

`C09_sort_sorted` / `C09_tiebreak_deterministic` (C09.lean) need the comparator `Sorter::emit`
hands to `sort_by` to be transitive and total (`CmpLaws`) and, for determinism, antisymmetric on
the rows at hand.  Here:

* `C09_cmpLaws_of_keysTotal` — when no sort key panics / leaves the modelled fragment on any row
  (`KeysTotal`), the comparator is a lexicographic product of total preorders (each key: values by
  `Value.cmp`, a row without a value after every row with one, two such rows tied; then every
  column through `cmpOpt`), with `desc` exchanging the rows on the primary part only: oriented and
  transitive, hence `CmpLaws`;
* `keysTotal_of_columns` / `keysTotal_of_refs` — plain (and nested) column references are such keys;
* `C09_sort_sorted_columns`, `C09_implicit_sort_sorted` — sortedness, unconditionally;
* `C09_anti_of_table` — on the rows of a table (same columns, in the same order, without
  duplicates; numbers normalised, doubles in canonical representation) two rows that compare
  `Equal` are identical;
* `C09_table_sort_deterministic` — so the sorted table does not depend on the arrival order.
-/
import AgProofs.Props.C09
import AgProofs.Props.C09order
import AgProofs.Lemmas.ValueOrder
import AgProofs.Lemmas.F64Add

namespace Ag.C09
open Ag.Value

/-! ### three-way comparisons: orientation + transitivity, closed under `then` and exchange -/

theorem _root_.Ag.Value.TransOK.flip {cb ba ca : Ordering} (h : TransOK cb ba ca) : TransOK ba cb ca :=
  ⟨fun a b => h.ll b a, fun a b => h.el b a, fun a b => h.le b a, fun a b => h.ee b a⟩

theorem ne_gt_iff_isLE (o : Ordering) : (o != .gt) = o.isLE := by cases o <;> rfl

/-! ### one sort key: the order on evaluation outcomes -/

/-- the order `Record::ordering` puts on the outcomes of one key: values by `Value.cmp`, every
value before every failure, failures tied -/
def keyOrd : Outcome Value → Outcome Value → Ordering
  | .ok a, .ok b => cmp a b
  | .ok _, _ => .lt
  | _, .ok _ => .gt
  | _, _ => .eq

theorem keyOrd_swap (a b : Outcome Value) : (keyOrd a b).swap = keyOrd b a := by
  cases a <;> cases b <;> simp [keyOrd, cmp_swap]

theorem keyOrd_transOK (a b c : Outcome Value) :
    TransOK (keyOrd a b) (keyOrd b c) (keyOrd a c) := by
  cases a <;> cases b <;> cases c <;>
    first
      | exact cmp_transOK_all _ _ _
      | (constructor <;> simp [keyOrd])

/-- the primary part: the keys one after the other -/
def primOrd (ext : Ext) : List Expr → Fields → Fields → Ordering
  | [], _, _ => .eq
  | c :: cs, l, r => (keyOrd (evalValue ext l c) (evalValue ext r c)).then (primOrd ext cs l r)

theorem primOrd_swap (ext : Ext) (cols : List Expr) (l r : Fields) :
    (primOrd ext cols l r).swap = primOrd ext cols r l := by
  induction cols with
  | nil => rfl
  | cons c cs ih => simp only [primOrd, Ordering.swap_then, keyOrd_swap, ih]

theorem primOrd_transOK (ext : Ext) (cols : List Expr) (a b c : Fields) :
    TransOK (primOrd ext cols a b) (primOrd ext cols b c) (primOrd ext cols a c) := by
  induction cols with
  | nil => constructor <;> simp [primOrd]
  | cons k ks ih =>
    simp only [primOrd]
    exact (keyOrd_transOK _ _ _).then ih

/-- every sort key evaluates to a value or a row error on every row: no panic, nothing outside
the modelled fragment -/
def KeysTotal (ext : Ext) (cols : List Expr) : Prop :=
  ∀ (r : Fields) (c : Expr), c ∈ cols →
    (∃ v, evalValue ext r c = .ok v) ∨ (∃ e, evalValue ext r c = .err e)

theorem KeysTotal.tail {ext : Ext} {c : Expr} {cs : List Expr} (h : KeysTotal ext (c :: cs)) :
    KeysTotal ext cs := fun r k hk => h r k (List.mem_cons_of_mem _ hk)

/-- under `KeysTotal`, `Record::ordering` never fails and is the lexicographic product -/
theorem orderingBy_eq_primOrd (ext : Ext) (cols : List Expr) (h : KeysTotal ext cols)
    (l r : Fields) : orderingBy ext cols l r = .ok (primOrd ext cols l r) := by
  induction cols with
  | nil => rfl
  | cons c cs ih =>
    have ih' := ih h.tail
    rcases h l c (List.mem_cons_self) with ⟨lv, hl⟩ | ⟨le, hl⟩ <;>
      rcases h r c (List.mem_cons_self) with ⟨rv, hr⟩ | ⟨re, hr⟩
    · simp only [orderingBy, primOrd, hl, hr, keyOrd, ih']
      cases cmp lv rv <;> rfl
    · simp [orderingBy, primOrd, hl, hr, keyOrd]
    · simp [orderingBy, primOrd, hl, hr, keyOrd]
    · simp [orderingBy, primOrd, hl, hr, keyOrd, ih']

/-! ### the tie-break: every column through `cmpOpt` -/

theorem cmpOpt_swap (a b : Option Value) : (cmpOpt a b).swap = cmpOpt b a := by
  cases a <;> cases b <;> simp [cmpOpt, cmp_swap]

theorem cmpOpt_transOK (a b c : Option Value) :
    TransOK (cmpOpt a b) (cmpOpt b c) (cmpOpt a c) := by
  cases a <;> cases b <;> cases c <;>
    first
      | exact cmp_transOK_all _ _ _
      | (constructor <;> simp [cmpOpt])

theorem orderingRef_cons (c : String) (cs : List String) (l r : Fields) :
    orderingRef (c :: cs) l r =
      (cmpOpt (Fields.get c l) (Fields.get c r)).then (orderingRef cs l r) := by
  rw [orderingRef]; cases cmpOpt (Fields.get c l) (Fields.get c r) <;> rfl

theorem orderingRef_swap (cols : List String) (l r : Fields) :
    (orderingRef cols l r).swap = orderingRef cols r l := by
  induction cols with
  | nil => rfl
  | cons c cs ih => simp only [orderingRef_cons, Ordering.swap_then, cmpOpt_swap, ih]

theorem orderingRef_transOK (cols : List String) (a b c : Fields) :
    TransOK (orderingRef cols a b) (orderingRef cols b c) (orderingRef cols a c) := by
  induction cols with
  | nil => constructor <;> simp [orderingRef]
  | cons k ks ih =>
    simp only [orderingRef_cons]
    exact (cmpOpt_transOK _ _ _).then ih

/-- `Record::ordering_ref` is an oriented, transitive comparison on all rows -/
theorem C09_orderingRef_total_preorder (cols : List String) :
    Std.TransCmp (orderingRef cols) where
  eq_swap := by intro a b; rw [← orderingRef_swap cols b a]
  isLE_trans := fun h1 h2 => (orderingRef_transOK cols _ _ _).isLE h1 h2

/-! ### the comparator of `sort` -/

/-- under `KeysTotal` the comparator is: primary keys (rows exchanged when descending), then all
columns ascending -/
theorem sortCmp_eq (ext : Ext) (cols : List Expr) (dir : SortDir) (columns : List String)
    (h : KeysTotal ext cols) (l r : Fields) :
    sortCmp ext cols dir columns l r =
      (match dir with
        | .asc => primOrd ext cols l r
        | .desc => primOrd ext cols r l).then (orderingRef columns l r) := by
  cases dir <;> simp only [sortCmp, orderingBy_eq_primOrd ext cols h]
  · cases primOrd ext cols l r <;> rfl
  · cases primOrd ext cols r l <;> rfl

theorem sortCmp_swap (ext : Ext) (cols : List Expr) (dir : SortDir) (columns : List String)
    (h : KeysTotal ext cols) (l r : Fields) :
    (sortCmp ext cols dir columns l r).swap = sortCmp ext cols dir columns r l := by
  rw [sortCmp_eq ext cols dir columns h, sortCmp_eq ext cols dir columns h, Ordering.swap_then,
    orderingRef_swap]
  cases dir <;> simp only [primOrd_swap]

theorem sortCmp_transOK (ext : Ext) (cols : List Expr) (dir : SortDir) (columns : List String)
    (h : KeysTotal ext cols) (a b c : Fields) :
    TransOK (sortCmp ext cols dir columns a b) (sortCmp ext cols dir columns b c)
      (sortCmp ext cols dir columns a c) := by
  rw [sortCmp_eq ext cols dir columns h, sortCmp_eq ext cols dir columns h,
    sortCmp_eq ext cols dir columns h]
  cases dir
  · exact (primOrd_transOK ext cols a b c).then (orderingRef_transOK columns a b c)
  · exact (primOrd_transOK ext cols c b a).flip.then (orderingRef_transOK columns a b c)

/-- the comparator of `sort` is an oriented, transitive comparison (a total preorder) on all rows,
in both directions -/
theorem C09_sortCmp_total_preorder (ext : Ext) (cols : List Expr) (dir : SortDir)
    (columns : List String) (h : KeysTotal ext cols) :
    Std.TransCmp (sortCmp ext cols dir columns) where
  eq_swap := by intro a b; rw [← sortCmp_swap ext cols dir columns h b a]
  isLE_trans := fun h1 h2 => (sortCmp_transOK ext cols dir columns h _ _ _).isLE h1 h2

theorem le_eq_isLE (ext : Ext) (cols : List Expr) (dir : SortDir) (columns : List String)
    (a b : Fields) : le ext cols dir columns a b = (sortCmp ext cols dir columns a b).isLE := by
  unfold le; exact ne_gt_iff_isLE _

/-- **C09 (the comparator is lawful).** When every sort key evaluates to a value or a row error
on every row, the "≤" that `sort_by` sees is transitive and total. -/
theorem C09_cmpLaws_of_keysTotal (ext : Ext) (cols : List Expr) (dir : SortDir)
    (columns : List String) (h : KeysTotal ext cols) : CmpLaws ext cols dir columns where
  trans := by
    intro a b c h1 h2
    rw [le_eq_isLE] at h1 h2 ⊢
    exact (sortCmp_transOK ext cols dir columns h a b c).isLE h1 h2
  total := by
    intro a b
    rw [le_eq_isLE, le_eq_isLE, ← sortCmp_swap ext cols dir columns h a b]
    cases sortCmp ext cols dir columns a b <;> rfl

/-! ### column references are total keys -/

/-- nested access (`.key`, `[i]`) yields a value or a row error -/
theorem access_ok_or_err (rest : List Ref) : ∀ v : Value,
    (∃ w, access v rest = .ok w) ∨ (∃ e, access v rest = .err e) := by
  induction rest with
  | nil => intro v; exact .inl ⟨v, rfl⟩
  | cons r rs ih =>
    intro v
    cases r with
    | field k =>
      cases v <;> simp only [access] <;> try (exact .inr ⟨_, rfl⟩)
      split
      · exact ih _
      · exact .inr ⟨_, rfl⟩
    | idx i =>
      cases v <;> simp only [access] <;> try (exact .inr ⟨_, rfl⟩)
      repeat' split
      all_goals first | exact ih _ | exact .inr ⟨_, rfl⟩

theorem evalValue_col_ok_or_err (ext : Ext) (r : Fields) (head : String) (rest : List Ref) :
    (∃ v, evalValue ext r (.col head rest) = .ok v) ∨
      (∃ e, evalValue ext r (.col head rest) = .err e) := by
  rw [evalValue]
  split
  · exact access_ok_or_err rest _
  · exact .inr ⟨_, rfl⟩

/-- column references — nested ones (`a.b[0]`) included — never panic and stay inside the model -/
theorem keysTotal_of_refs (ext : Ext) (cols : List Expr)
    (h : ∀ c ∈ cols, ∃ head rest, c = Expr.col head rest) : KeysTotal ext cols := by
  intro r c hc
  obtain ⟨head, rest, rfl⟩ := h c hc
  exact evalValue_col_ok_or_err ext r head rest

/-- plain column references: what `sort by a, b` and the implicit sort use -/
theorem keysTotal_of_columns (ext : Ext) (names : List String) :
    KeysTotal ext (names.map (fun n => Expr.col n [])) := by
  apply keysTotal_of_refs
  intro c hc
  obtain ⟨n, -, rfl⟩ := List.mem_map.1 hc
  exact ⟨n, [], rfl⟩

theorem keysTotal_implicitSort (ext : Ext) (m : MultiAgg) : KeysTotal ext (implicitSort m).1 := by
  apply keysTotal_of_refs
  intro c hc
  unfold implicitSort at hc
  split at hc
  · rcases List.mem_cons.1 hc with rfl | hc
    · exact ⟨_, _, rfl⟩
    · obtain ⟨n, -, rfl⟩ := List.mem_map.1 hc
      exact ⟨_, _, rfl⟩
  · obtain ⟨n, -, rfl⟩ := List.mem_map.1 hc
    exact ⟨_, _, rfl⟩

/-! ### sortedness without hypotheses on the comparator -/

/-- **C09 (ordered), for keys that cannot panic.** -/
theorem C09_sort_sorted_of_keysTotal (ext : Ext) (cols : List Expr) (dir : SortDir)
    (columns : List String) (h : KeysTotal ext cols) (rows : List Fields) :
    (sortRows ext cols dir columns rows).Pairwise
      (fun a b => le ext cols dir columns a b = true) :=
  C09_sort_sorted ext cols dir columns (C09_cmpLaws_of_keysTotal ext cols dir columns h) rows

/-- **C09 (ordered), `sort by <columns>`.** Unconditional: whatever the rows hold. -/
theorem C09_sort_sorted_columns (ext : Ext) (names : List String) (dir : SortDir)
    (columns : List String) (rows : List Fields) :
    (sortRows ext (names.map (fun n => Expr.col n [])) dir columns rows).Pairwise
      (fun a b => le ext (names.map (fun n => Expr.col n [])) dir columns a b = true) :=
  C09_sort_sorted_of_keysTotal ext _ dir columns (keysTotal_of_columns ext names) rows

/-- **C09 (ordered), the implicit sort after an aggregation.** Unconditional. -/
theorem C09_implicit_sort_sorted (ext : Ext) (m : MultiAgg) (columns : List String)
    (rows : List Fields) :
    (sortRows ext (implicitSort m).1 (implicitSort m).2 columns rows).Pairwise
      (fun a b => le ext (implicitSort m).1 (implicitSort m).2 columns a b = true) :=
  C09_sort_sorted_of_keysTotal ext _ _ columns (keysTotal_implicitSort ext m) rows

/-! ### `==` is identity on normalised values with canonical doubles -/

mutual
/-- every double inside the value is in canonical representation (`F64.Canon`: the model's datum
`±m·2^e` has the mantissa / exponent an IEEE double has; the model's arithmetic only produces
such data) -/
def inC : Value → Bool
  | .none => true
  | .bool _ => true
  | .int _ => true
  | .float f => decide (F64.Canon f)
  | .str _ => true
  | .date _ => true
  | .dur _ => true
  | .arr vs => inCL vs
  | .obj kvs => inCKV kvs
def inCL : List Value → Bool
  | [] => true
  | x :: xs => inC x && inCL xs
def inCKV : List (String × Value) → Bool
  | [] => true
  | (_, x) :: xs => inC x && inCKV xs
end

theorem normFloat_not_zero {f : F64} (hz : f.isZero = true) : normFloat f = false := by
  cases f with
  | nan => simp [F64.isZero] at hz
  | inf _ => simp [F64.isZero] at hz
  | fin s m e =>
    cases m with
    | succ n => simp [F64.isZero] at hz
    | zero =>
      by_cases he : e ≥ 0 <;>
        simp [normFloat, F64.fractNonzero, F64.truncInt, F64.smant_zero, he, inI64, F64.i64Min,
          F64.i64Max]

/-- two canonical, `from_float`-normalised doubles that are `Equal` are the same datum -/
theorem float_eq_of_oeq {f g : F64} (nf : normFloat f = true) (cf : F64.Canon f)
    (cg : F64.Canon g) (h : F64.oeq f g = true) : f = g := by
  rw [F64.oeq_iff] at h
  by_cases hf : f = F64.nan
  · subst hf
    cases g <;> simp [F64.ocmp, F64.pcmp, F64.isNaN] at h ⊢
  by_cases hg : g = F64.nan
  · subst hg
    cases f <;> simp [F64.ocmp, F64.pcmp, F64.isNaN] at h hf
  rcases F64.canon_eq_of_ocmp_eq cf cg hf hg h with h' | ⟨hz, -⟩
  · exact h'
  · rw [normFloat_not_zero hz] at nf
    exact absurd nf (by decide)

mutual
theorem eq_of_beq : ∀ a b : Value, inS a = true → inS b = true → inC a = true → inC b = true →
    beq a b = true → a = b
  | .none, b, _, _, _, _, h => by cases b <;> simp [beq] at h ⊢
  | .bool _, b, _, _, _, _, h => by cases b <;> simp [beq] at h ⊢; exact h
  | .int _, b, _, _, _, _, h => by cases b <;> simp [beq] at h ⊢; exact h
  | .str _, b, _, _, _, _, h => by cases b <;> simp [beq] at h ⊢; exact h
  | .date _, b, _, _, _, _, h => by cases b <;> simp [beq] at h ⊢; exact h
  | .dur _, b, _, _, _, _, h => by cases b <;> simp [beq] at h ⊢; exact h
  | .float f, b, sa, _, ca, cb, h => by
    cases b <;> simp only [beq, reduceCtorEq] at h
    simp only [inS] at sa
    simp only [inC, decide_eq_true_eq] at ca cb
    rw [float_eq_of_oeq sa ca cb h]
  | .arr xs, b, sa, sb, ca, cb, h => by
    cases b <;> simp only [beq, reduceCtorEq] at h
    simp only [inS] at sa sb
    simp only [inC] at ca cb
    rw [eqL_of_beqL xs _ sa sb ca cb h]
  | .obj xs, b, sa, sb, ca, cb, h => by
    cases b <;> simp only [beq, reduceCtorEq] at h
    simp only [inS] at sa sb
    simp only [inC] at ca cb
    rw [eqKV_of_beqKV xs _ sa sb ca cb h]
theorem eqL_of_beqL : ∀ a b : List Value, inSL a = true → inSL b = true → inCL a = true →
    inCL b = true → beqL a b = true → a = b
  | [], b, _, _, _, _, h => by cases b <;> simp [beqL] at h ⊢
  | x :: xs, b, sa, sb, ca, cb, h => by
    cases b with
    | nil => simp [beqL] at h
    | cons y ys =>
      simp only [inSL, Bool.and_eq_true] at sa sb
      simp only [inCL, Bool.and_eq_true] at ca cb
      simp only [beqL, Bool.and_eq_true] at h
      rw [eq_of_beq x y sa.1 sb.1 ca.1 cb.1 h.1, eqL_of_beqL xs ys sa.2 sb.2 ca.2 cb.2 h.2]
theorem eqKV_of_beqKV : ∀ a b : List (String × Value), inSKV a = true → inSKV b = true →
    inCKV a = true → inCKV b = true → beqKV a b = true → a = b
  | [], b, _, _, _, _, h => by cases b <;> simp [beqKV] at h ⊢
  | (k, x) :: xs, b, sa, sb, ca, cb, h => by
    cases b with
    | nil => simp [beqKV] at h
    | cons y ys =>
      obtain ⟨l, y⟩ := y
      simp only [inSKV, Bool.and_eq_true] at sa sb
      simp only [inCKV, Bool.and_eq_true] at ca cb
      simp only [beqKV, Bool.and_eq_true, beq_iff_eq] at h
      rw [h.1.1, eq_of_beq x y sa.1 sb.1 ca.1 cb.1 h.1.2,
        eqKV_of_beqKV xs ys sa.2 sb.2 ca.2 cb.2 h.2]
end

/-- on normalised values with canonical doubles, `Equal` under `Value.cmp` is identity -/
theorem eq_of_cmp_eq {a b : Value} (sa : inS a = true) (sb : inS b = true) (ca : inC a = true)
    (cb : inC b = true) (h : cmp a b = .eq) : a = b :=
  eq_of_beq a b sa sb ca cb ((beq_iff_cmp_eq a b sa sb).2 h)

/-! ### antisymmetry on the rows of a table -/

/-- a row's values: numbers normalised as `from_float` leaves them (`inS`) and doubles in
canonical representation (`inC`) -/
def RowNormal (r : Fields) : Prop := ∀ kv ∈ r, inS kv.2 = true ∧ inC kv.2 = true

/-- a row of a table with the given columns: it lists exactly the table's columns, in the table's
order, and its values are normalised.  (`inC` is needed on top of `inS`: the model's datum for a
double is `±m·2^e`, and e.g. `3·2^-1` and `6·2^-2` are different data that are `==`; real doubles
have one representation each.  `inS` excludes the other `==`-but-different pair, `-0.0`/`+0.0`,
because `from_float` turns both into `Int 0`.) -/
def TableRow (columns : List String) (r : Fields) : Prop :=
  r.map Prod.fst = columns ∧ RowNormal r

theorem rowNormal_nil : RowNormal [] := by intro kv h; simp at h

theorem rowNormal_cons (k : String) (v : Value) (r : Fields) :
    RowNormal ((k, v) :: r) ↔ (inS v = true ∧ inC v = true) ∧ RowNormal r := by
  simp [RowNormal]

theorem orderingRef_eq_get {columns : List String} {l r : Fields}
    (h : orderingRef columns l r = .eq) :
    ∀ c ∈ columns, cmpOpt (Fields.get c l) (Fields.get c r) = .eq := by
  induction columns with
  | nil => intro c hc; simp at hc
  | cons k ks ih =>
    rw [orderingRef_cons, Ordering.then_eq_eq] at h
    intro c hc
    rcases List.mem_cons.1 hc with rfl | hc
    · exact h.1
    · exact ih h.2 c hc

/-- two rows with the same key list (no key twice) and normalised values that agree — up to
`Equal` — on each of their keys are the same row -/
theorem rows_eq_of_get (keys : List String) (hnd : keys.Nodup) : ∀ a b : Fields,
    a.map Prod.fst = keys → b.map Prod.fst = keys → RowNormal a → RowNormal b →
    (∀ k ∈ keys, cmpOpt (Fields.get k a) (Fields.get k b) = .eq) → a = b := by
  induction keys with
  | nil =>
    intro a b ha hb _ _ _
    rw [List.map_eq_nil_iff.1 ha, List.map_eq_nil_iff.1 hb]
  | cons k ks ih =>
    intro a b ha hb na nb H
    obtain ⟨hk, hks⟩ := List.nodup_cons.1 hnd
    cases a with
    | nil => simp at ha
    | cons x a' =>
    cases b with
    | nil => simp at hb
    | cons y b' =>
    obtain ⟨kx, v⟩ := x
    obtain ⟨ky, w⟩ := y
    simp only [List.map_cons, List.cons.injEq] at ha hb
    obtain ⟨hkx, ha'⟩ := ha
    obtain ⟨hky, hb'⟩ := hb
    have hkx := hkx.symm
    have hky := hky.symm
    subst hkx hky
    have hv := H k List.mem_cons_self
    simp only [Fields.get, beq_self_eq_true, if_true, cmpOpt] at hv
    have nv := na (k, v) List.mem_cons_self
    have nw := nb (k, w) List.mem_cons_self
    have hvw : v = w := eq_of_cmp_eq nv.1 nw.1 nv.2 nw.2 hv
    have hrest : a' = b' := by
      apply ih hks a' b' ha' hb' (fun kv h => na kv (List.mem_cons_of_mem _ h))
        (fun kv h => nb kv (List.mem_cons_of_mem _ h))
      intro c hc
      have hne : (c == k) = false := by
        rw [beq_eq_false_iff_ne]; rintro rfl; exact hk hc
      have := H c (List.mem_cons_of_mem _ hc)
      simpa only [Fields.get, hne, Bool.false_eq_true, if_false] using this
    rw [hvw, hrest]

/-- if both `a ≤ b` and `b ≤ a` for the comparator of `sort`, the rows are `Equal` under the
tie-break on all columns -/
theorem orderingRef_eq_of_le_le (ext : Ext) (cols : List Expr) (dir : SortDir)
    (columns : List String) (hk : KeysTotal ext cols) (a b : Fields)
    (hab : le ext cols dir columns a b = true) (hba : le ext cols dir columns b a = true) :
    orderingRef columns a b = .eq := by
  rw [le_eq_isLE] at hab hba
  rw [← sortCmp_swap ext cols dir columns hk a b] at hba
  have he : sortCmp ext cols dir columns a b = .eq := by
    cases h : sortCmp ext cols dir columns a b <;> rw [h] at hab hba <;> simp at hab hba ⊢
  rw [sortCmp_eq ext cols dir columns hk, Ordering.then_eq_eq] at he
  exact he.2

/-- **C09 (antisymmetry), general form.** Rows that store the same keys in the same order (as the
key-sorted rows of the model do), each key once, all of them among the table's columns, with
normalised values: if neither sorts strictly before the other, they are the same row. -/
theorem C09_anti_of_rows (ext : Ext) (cols : List Expr) (dir : SortDir) (columns keys : List String)
    (hnd : keys.Nodup) (hsub : ∀ k ∈ keys, k ∈ columns) (a b : Fields)
    (ha : a.map Prod.fst = keys ∧ RowNormal a) (hb : b.map Prod.fst = keys ∧ RowNormal b)
    (hab : le ext cols dir columns a b = true) (hba : le ext cols dir columns b a = true)
    (hk : KeysTotal ext cols) : a = b := by
  have he := orderingRef_eq_of_le_le ext cols dir columns hk a b hab hba
  exact rows_eq_of_get keys hnd a b ha.1 hb.1 ha.2 hb.2
    (fun k hkk => orderingRef_eq_get he k (hsub k hkk))

/-- **C09 (antisymmetry on a table).** Two rows of the same table (columns without duplicates)
that the comparator of `sort` does not separate are identical: the tie-break on all columns is
complete. -/
theorem C09_anti_of_table (ext : Ext) (cols : List Expr) (dir : SortDir) (columns : List String)
    (hnd : columns.Nodup) (a b : Fields) (ha : TableRow columns a) (hb : TableRow columns b)
    (hab : le ext cols dir columns a b = true) (hba : le ext cols dir columns b a = true)
    (hk : KeysTotal ext cols) : a = b :=
  C09_anti_of_rows ext cols dir columns columns hnd (fun _ h => h) a b ha hb hab hba hk

/-- without `Nodup` the statement fails: with the column `a` listed twice, two different rows
tie -/
theorem C09_anti_needs_nodup_counterexample (ext : Ext) :
    let a : Fields := [("a", .int 1), ("a", .int 2)]
    let b : Fields := [("a", .int 1), ("a", .int 3)]
    TableRow ["a", "a"] a ∧ TableRow ["a", "a"] b ∧
      le ext [] .asc ["a", "a"] a b = true ∧ le ext [] .asc ["a", "a"] b a = true ∧ a ≠ b := by
  simp [TableRow, rowNormal_cons, rowNormal_nil, inS, inC, inI64, F64.i64Min, F64.i64Max, le,
    sortCmp, orderingBy, orderingRef, Fields.get, cmpOpt, cmp]

/-! ### determinism: the sorted table does not depend on the arrival order -/

/-- **C09/C13 (deterministic sort), any keys that cannot panic.** -/
theorem C09_table_sort_deterministic_of_keysTotal (ext : Ext) (cols : List Expr) (dir : SortDir)
    (columns : List String) (hnd : columns.Nodup) (hk : KeysTotal ext cols)
    (rows rows' : List Fields) (hp : rows.Perm rows') (ht : ∀ r ∈ rows, TableRow columns r) :
    sortRows ext cols dir columns rows = sortRows ext cols dir columns rows' :=
  C09_tiebreak_deterministic ext cols dir columns (C09_cmpLaws_of_keysTotal ext cols dir columns hk)
    rows rows' hp
    (fun a b ha hb hab hba =>
      C09_anti_of_table ext cols dir columns hnd a b (ht a ha) (ht b hb) hab hba hk)

/-- … with rows that store their keys in an order of their own (`keys`, e.g. sorted), shared by
all rows -/
theorem C09_rows_sort_deterministic_of_keysTotal (ext : Ext) (cols : List Expr) (dir : SortDir)
    (columns keys : List String) (hnd : keys.Nodup) (hsub : ∀ k ∈ keys, k ∈ columns)
    (hk : KeysTotal ext cols) (rows rows' : List Fields) (hp : rows.Perm rows')
    (ht : ∀ r ∈ rows, r.map Prod.fst = keys ∧ RowNormal r) :
    sortRows ext cols dir columns rows = sortRows ext cols dir columns rows' :=
  C09_tiebreak_deterministic ext cols dir columns (C09_cmpLaws_of_keysTotal ext cols dir columns hk)
    rows rows' hp
    (fun a b ha hb hab hba =>
      C09_anti_of_rows ext cols dir columns keys hnd hsub a b (ht a ha) (ht b hb) hab hba hk)

/-- **C09/C13 (deterministic sort).** A table sorted by columns — in either direction — is the
same whatever order its rows arrived in (e.g. the iteration order of a hash map): no hypothesis
on the comparator is left. -/
theorem C09_table_sort_deterministic (ext : Ext) (names : List String) (dir : SortDir)
    (columns : List String) (hnd : columns.Nodup) (rows rows' : List Fields)
    (hp : rows.Perm rows') (ht : ∀ r ∈ rows, TableRow columns r) :
    sortRows ext (names.map (fun n => Expr.col n [])) dir columns rows =
      sortRows ext (names.map (fun n => Expr.col n [])) dir columns rows' :=
  C09_table_sort_deterministic_of_keysTotal ext _ dir columns hnd (keysTotal_of_columns ext names)
    rows rows' hp ht

/-- the same for the implicit sort after an aggregation -/
theorem C09_implicit_sort_deterministic (ext : Ext) (m : MultiAgg) (columns : List String)
    (hnd : columns.Nodup) (rows rows' : List Fields) (hp : rows.Perm rows')
    (ht : ∀ r ∈ rows, TableRow columns r) :
    sortRows ext (implicitSort m).1 (implicitSort m).2 columns rows =
      sortRows ext (implicitSort m).1 (implicitSort m).2 columns rows' :=
  C09_table_sort_deterministic_of_keysTotal ext _ _ columns hnd (keysTotal_implicitSort ext m)
    rows rows' hp ht

/-! ### non-vacuity -/

/-- the double 1.5 = 6755399441055744·2^-52 -/
def f1_5 : F64 := .fin false 6755399441055744 (-52)

theorem f1_5_ok : normFloat f1_5 = true ∧ F64.Canon f1_5 := by decide

def exRows : List Fields :=
  [[("a", .int 1), ("b", .str "x")],
   [("a", .float f1_5), ("b", .none)],
   [("a", .int 1), ("b", .bool true)]]

/-- a two-column table with three rows — an `Int`, a `Float`, two rows tied on the sort key `a`,
values of five types — satisfies `TableRow`; its columns are distinct -/
example : (∀ r ∈ exRows, TableRow ["a", "b"] r) ∧ ["a", "b"].Nodup := by
  refine ⟨?_, by simp⟩
  simp [exRows, TableRow, rowNormal_cons, rowNormal_nil, inS, inC, inI64, F64.i64Min, F64.i64Max,
    f1_5_ok]

example (ext : Ext) : KeysTotal ext [Expr.col "a" [], Expr.col "b" []] :=
  keysTotal_of_columns ext ["a", "b"]

/-- so its sort by `a` (either direction) does not depend on the arrival order -/
example (ext : Ext) (dir : SortDir) (rows' : List Fields) (hp : exRows.Perm rows') :
    sortRows ext [Expr.col "a" []] dir ["a", "b"] exRows =
      sortRows ext [Expr.col "a" []] dir ["a", "b"] rows' :=
  C09_table_sort_deterministic ext ["a"] dir ["a", "b"] (by simp) exRows rows' hp (by
    simp [exRows, TableRow, rowNormal_cons, rowNormal_nil, inS, inC, inI64, F64.i64Min,
      F64.i64Max, f1_5_ok])

/-- the two rows tied on `a` are separated by the tie-break on `b` (`Bool` before `Str`) -/
example (ext : Ext) :
    sortCmp ext [Expr.col "a" []] .asc ["a", "b"]
      [("a", .int 1), ("b", .str "x")] [("a", .int 1), ("b", .bool true)] = .gt := by
  simp [sortCmp, orderingBy, evalValue, access, Fields.get, orderingRef, cmpOpt, cmp, rank]
  decide

/-- `inC` is not redundant: two data for the double 1.5 are `==` and `inS` but not identical -/
theorem C09_beq_not_identity_counterexample :
    inS (.float (.fin false 3 (-1))) = true ∧ inS (.float (.fin false 6 (-2))) = true ∧
      beq (.float (.fin false 3 (-1))) (.float (.fin false 6 (-2))) = true ∧
      Value.float (.fin false 3 (-1)) ≠ .float (.fin false 6 (-2)) := by
  refine ⟨?_, ?_, ?_, by simp⟩
  · simp only [inS]; decide
  · simp only [inS]; decide
  · simp only [beq]; decide

end Ag.C09

#print axioms Ag.C09.C09_cmpLaws_of_keysTotal
#print axioms Ag.C09.C09_sortCmp_total_preorder
#print axioms Ag.C09.C09_orderingRef_total_preorder
#print axioms Ag.C09.keysTotal_of_columns
#print axioms Ag.C09.keysTotal_of_refs
#print axioms Ag.C09.C09_sort_sorted_of_keysTotal
#print axioms Ag.C09.C09_sort_sorted_columns
#print axioms Ag.C09.C09_implicit_sort_sorted
#print axioms Ag.C09.eq_of_beq
#print axioms Ag.C09.C09_anti_of_rows
#print axioms Ag.C09.C09_anti_of_table
#print axioms Ag.C09.C09_anti_needs_nodup_counterexample
#print axioms Ag.C09.C09_table_sort_deterministic_of_keysTotal
#print axioms Ag.C09.C09_rows_sort_deterministic_of_keysTotal
#print axioms Ag.C09.C09_table_sort_deterministic
#print axioms Ag.C09.C09_implicit_sort_deterministic
#print axioms Ag.C09.C09_beq_not_identity_counterexample
