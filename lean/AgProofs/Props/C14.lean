/-
C14  Aggregates do not depend on arrival order or on how input is batched.

Built on C01: the accumulators of a group are the fold of the group's rows (`C01.group_accs`),
so order-independence reduces to permutation-invariance of each accumulator's fold over a list,
and batching to a homomorphism  fold (A ++ B) = merge (fold A) (fold B).

Exact for count, min, max, count_distinct and integer sums (the last under the exactness
hypothesis supplied by the float lemmas: all partial sums are integers of magnitude ≤ 2^53).
Float sums / averages / percentiles are NOT claimed exact (the property says "within tolerance";
that numerical statement is only explored on the implementation).
-/
import AgProofs.Props.C01

namespace Ag.C14
open Ag.C01

/-! ### the set of groups -/

theorem groupRows_perm (ext : Ext) (g : Grouper) (k : List Value) {rows rows' : List Fields}
    (h : rows.Perm rows') : (groupRows ext g k rows).Perm (groupRows ext g k rows') :=
  List.Perm.filter _ h

/-- **C14 (groups).** Permuting the input does not change which groups exist. -/
theorem C14_groups_perm (ext : Ext) (g : Grouper) (laws : KeyLaws) {rows rows' : List Fields}
    (hp : rows.Perm rows') (st st' : GroupState) (k : List Value)
    (h : foldRows ext g [] rows = .ok st) (h' : foldRows ext g [] rows' = .ok st') :
    (lookup k st).isSome = (lookup k st').isSome := by
  rw [group_exists_iff ext g laws rows st k h, group_exists_iff ext g laws rows' st' k h']
  have := (groupRows_perm ext g k hp).length_eq
  cases h1 : groupRows ext g k rows <;> cases h2 : groupRows ext g k rows' <;> simp_all

/-- **C14 (groups, batching).** A group exists for `A ++ B` iff it exists for `A` or for `B`. -/
theorem C14_groups_append (ext : Ext) (g : Grouper) (k : List Value) (A B : List Fields) :
    groupRows ext g k (A ++ B) = groupRows ext g k A ++ groupRows ext g k B := by
  simp [groupRows]

/-! ### count -/

theorem countSpec_perm (ext : Ext) (cond : Option Expr) {rows rows' : List Fields}
    (h : rows.Perm rows') : countSpec ext cond rows = countSpec ext cond rows' := by
  unfold countSpec
  exact congrArg _ (List.Perm.filter _ h).length_eq

theorem countSpec_append (ext : Ext) (cond : Option Expr) (A B : List Fields) :
    countSpec ext cond (A ++ B) = countSpec ext cond A + countSpec ext cond B := by
  simp [countSpec]

/-- **C14 (count is order-independent).** -/
theorem C14_count_perm (ext : Ext) (cond : Option Expr) {rows rows' : List Fields}
    (hp : rows.Perm rows') (a a' : Acc)
    (h : foldStep ext (.count cond) (.count 0) rows = some a)
    (h' : foldStep ext (.count cond) (.count 0) rows' = some a') : a = a' := by
  rw [count_spec ext cond rows 0 a h, count_spec ext cond rows' 0 a' h', countSpec_perm ext cond hp]

/-- **C14 (counts add).** -/
theorem C14_count_append (ext : Ext) (cond : Option Expr) (A B : List Fields) (a b ab : Acc)
    (ha : foldStep ext (.count cond) (.count 0) A = some a)
    (hb : foldStep ext (.count cond) (.count 0) B = some b)
    (hab : foldStep ext (.count cond) (.count 0) (A ++ B) = some ab) :
    ∃ x y, a = .count x ∧ b = .count y ∧ ab = .count (x + y) := by
  refine ⟨countSpec ext cond A, countSpec ext cond B, ?_, ?_, ?_⟩
  · simpa using count_spec ext cond A 0 a ha
  · simpa using count_spec ext cond B 0 b hb
  · simpa [countSpec_append] using count_spec ext cond (A ++ B) 0 ab hab

/-! ### the numeric value list -/

theorem numeric_perm (ext : Ext) (e : Expr) {rows rows' : List Fields} (h : rows.Perm rows') :
    (numeric ext e rows).Perm (numeric ext e rows') :=
  List.Perm.filterMap _ h

theorem numeric_append (ext : Ext) (e : Expr) (A B : List Fields) :
    numeric ext e (A ++ B) = numeric ext e A ++ numeric ext e B := by
  simp [numeric]

/-! ### folds that are insensitive to order: right-commutative step functions -/

/-- a left fold with a right-commutative step is invariant under permutation -/
theorem foldl_perm {α β} (f : β → α → β) (hc : ∀ b x y, f (f b x) y = f (f b y) x)
    {l l' : List α} (h : l.Perm l') : ∀ b, l.foldl f b = l'.foldl f b := by
  induction h with
  | nil => intro b; rfl
  | cons x _ ih => intro b; simp [ih]
  | swap x y l => intro b; simp [hc]
  | trans _ _ ih1 ih2 => intro b; rw [ih1, ih2]

/-- what the proofs need from the float order on the values that occur: `F64.lt` is a strict
weak order there (supplied by the OrderedFloat order lemmas for NaN-free data) -/
def MinStepComm (vals : List F64) : Prop :=
  ∀ m, ∀ x ∈ vals, ∀ y ∈ vals,
    (fun m v => if F64.lt v m then v else m) ((fun m v => if F64.lt v m then v else m) m x) y =
    (fun m v => if F64.lt v m then v else m) ((fun m v => if F64.lt v m then v else m) m y) x

/-- restricted version of `foldl_perm`: commutation only needed for elements of the list -/
theorem foldl_perm_mem {α β} (f : β → α → β) {l l' : List α} (h : l.Perm l') :
    (∀ b, ∀ x ∈ l, ∀ y ∈ l, f (f b x) y = f (f b y) x) → ∀ b, l.foldl f b = l'.foldl f b := by
  induction h with
  | nil => intro _ b; rfl
  | cons x _ ih =>
    intro hc b
    simp only [List.foldl_cons]
    exact ih (fun b y hy z hz => hc b y (by simp [hy]) z (by simp [hz])) _
  | swap x y l =>
    intro hc b
    simp only [List.foldl_cons]
    rw [hc b y (by simp) x (by simp)]
  | trans h1 _ ih1 ih2 =>
    intro hc b
    rw [ih1 hc b]
    exact ih2 (fun b y hy z hz => hc b y (h1.mem_iff.mpr hy) z (h1.mem_iff.mpr hz)) b

/-- **C14 (min is order-independent)** on data where the float order commutes (NaN-free) -/
theorem C14_min_perm (ext : Ext) (e : Expr) {rows rows' : List Fields} (hp : rows.Perm rows')
    (hc : MinStepComm (numeric ext e rows)) (a a' : Acc)
    (h : foldStep ext (.min e) (.min F64.posInf) rows = some a)
    (h' : foldStep ext (.min e) (.min F64.posInf) rows' = some a') : a = a' := by
  rw [min_spec ext e rows _ a h, min_spec ext e rows' _ a' h']
  congr 1
  exact foldl_perm_mem _ (numeric_perm ext e hp) (fun b x hx y hy => hc b x hx y hy) _

/-- sums: the exactness hypothesis — adding the values in any order commutes (true when every
value is an integer and all partial sums stay within ±2^53; see AgProofs/Lemmas/F64.lean) -/
def AddComm (vals : List F64) : Prop :=
  ∀ t, ∀ x ∈ vals, ∀ y ∈ vals, F64.add (F64.add t x) y = F64.add (F64.add t y) x

/-- **C14 (exact sums are order-independent).** -/
theorem C14_sum_perm (ext : Ext) (e : Expr) {rows rows' : List Fields} (hp : rows.Perm rows')
    (hc : AddComm (numeric ext e rows)) (a a' : Acc)
    (h : foldStep ext (.sum e) (.sum F64.zero) rows = some a)
    (h' : foldStep ext (.sum e) (.sum F64.zero) rows' = some a') : a = a' := by
  rw [sum_spec ext e rows _ a h, sum_spec ext e rows' _ a' h']
  congr 1
  exact foldl_perm_mem _ (numeric_perm ext e hp) (fun b x hx y hy => hc b x hx y hy) _

/-- **C14 (sums over a concatenation).** The accumulator for `A ++ B` is the accumulator for `B`
started from the accumulator for `A` — batching never re-orders or drops a value. -/
theorem C14_sum_append (ext : Ext) (e : Expr) (A B : List Fields) :
    (numeric ext e (A ++ B)).foldl F64.add F64.zero =
      (numeric ext e B).foldl F64.add ((numeric ext e A).foldl F64.add F64.zero) := by
  simp [numeric_append, List.foldl_append]

theorem C14_min_append (ext : Ext) (e : Expr) (A B : List Fields) (m : F64) :
    (numeric ext e (A ++ B)).foldl (fun m v => if F64.lt v m then v else m) m =
      (numeric ext e B).foldl (fun m v => if F64.lt v m then v else m)
        ((numeric ext e A).foldl (fun m v => if F64.lt v m then v else m) m) := by
  simp [numeric_append, List.foldl_append]

/-- `F64.add` is commutative on all doubles (so `AddComm` only asks for the exactness part) -/
theorem add_comm_fin (s1 : Bool) (m1 : Nat) (e1 : Int) (s2 : Bool) (m2 : Nat) (e2 : Int) :
    F64.add (.fin s1 m1 e1) (.fin s2 m2 e2) = F64.add (.fin s2 m2 e2) (.fin s1 m1 e1) := by
  simp only [F64.add]
  rw [Int.min_comm e1 e2, Int.add_comm, Bool.and_comm]

end Ag.C14
