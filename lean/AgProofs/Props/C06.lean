/-
C06  json and logfmt extraction is faithful to the input data.

Model: AgModel/Json.lean (`Json.parse` = serde_json::from_str + json_to_value), AgModel/Logfmt.lean
(the logfmt crate's state machine), AgModel/Ops.lean (`applyStateless` for `.json` / `.logfmt`,
`getInput`), AgModel/Eval.lean (`access`, `evalStr`) for src/operator/parse.rs:102-177,
src/operator/expr.rs:163-200, src/operator.rs:107-113.
-/
import AgModel.Ops
import AgProofs.Lemmas.Fields

namespace Ag.C06
open Ag

/-! ### members become fields -/

/-- the value of the LAST member named `k` -/
def lastVal (k : String) : List (String × Value) → Option Value
  | [] => none
  | (k', v) :: rest =>
    match lastVal k rest with
    | some w => some w
    | none => if k == k' then some v else none

theorem get_foldl_put (k : String) (kvs : List (String × Value)) :
    ∀ (d : Fields), Fields.get k (kvs.foldl (fun d kv => Fields.put kv.1 kv.2 d) d) =
      match lastVal k kvs with
      | some v => some v
      | none => Fields.get k d := by
  induction kvs with
  | nil => intro d; simp [lastVal]
  | cons kv rest ih =>
    intro d
    obtain ⟨k', v⟩ := kv
    simp only [List.foldl_cons, lastVal]
    rw [ih]
    cases hl : lastVal k rest with
    | some w => simp
    | none =>
      simp only
      by_cases hk : k = k'
      · subst hk; simp [Fields.get_put_eq]
      · have : (k == k') = false := by simpa using hk
        simp [this, Fields.get_put_ne k k' v d hk]

/-- for a finite map (no key twice) the last member named `k` is the only one -/
theorem lastVal_eq_get (k : String) (kvs : List (String × Value))
    (h : kvs.Pairwise (fun a b => a.1 ≠ b.1)) : lastVal k kvs = Fields.get k kvs := by
  induction kvs with
  | nil => rfl
  | cons kv rest ih =>
    obtain ⟨k', v⟩ := kv
    have hr := ih (List.pairwise_cons.1 h).2
    have hne : ∀ x ∈ rest, k' ≠ x.1 := (List.pairwise_cons.1 h).1
    simp only [lastVal, Fields.get, hr]
    by_cases hk : k = k'
    · subst hk
      have : Fields.get k rest = none := by
        clear hr ih h
        induction rest with
        | nil => rfl
        | cons x t iht =>
          have h1 : k ≠ x.1 := hne x (by simp)
          have : (k == x.1) = false := by simpa using h1
          simp only [Fields.get, this]
          exact iht (fun y hy => hne y (by simp [hy]))
      simp [this]
    · have : (k == k') = false := by simpa using hk
      simp only [this]
      cases Fields.get k rest <;> rfl

/-- **C06 (members become fields).**  `json` on a row whose text is a JSON object: every member
becomes a field of the same name (the last one when a name repeats — the parsed object is a finite
map), every other field of the row is untouched, the raw line is kept.  A text whose root is not an
object leaves the row exactly as it was; a text that is not JSON makes the operator fail with
`ExpectedJson`, i.e. this row alone is dropped (`procPreagg` turns the error into one `error:` line
and no row; C12 shows no other row is affected). -/
theorem C06_members_become_fields (ext : Ext) (rec : Record) :
    (Json.parse rec.raw = none → applyStateless ext (.json none) rec = .err "ExpectedJson") ∧
    (∀ kvs, Json.parse rec.raw = some (.obj kvs) →
      ∃ rec', applyStateless ext (.json none) rec = .ok (some rec') ∧ rec'.raw = rec.raw ∧
        ∀ k, Fields.get k rec'.data =
          match lastVal k kvs with
          | some v => some v
          | none => Fields.get k rec.data) ∧
    (∀ v, Json.parse rec.raw = some v → (∀ kvs, v ≠ .obj kvs) →
      applyStateless ext (.json none) rec = .ok (some rec)) := by
  refine ⟨?_, ?_, ?_⟩
  · intro h
    simp [applyStateless, getInput, h, bind, Outcome.bind]
  · intro kvs h
    refine ⟨{ rec with data := kvs.foldl (fun d kv => Fields.put kv.1 kv.2 d) rec.data }, ?_, rfl, ?_⟩
    · simp [applyStateless, getInput, h, bind, Outcome.bind, pure]
    · intro k; exact get_foldl_put k kvs rec.data
  · intro v h hno
    cases v with
    | obj kvs => exact absurd rfl (hno kvs)
    | _ => simp [applyStateless, getInput, h, bind, Outcome.bind, pure]

/-- `json from f` / `logfmt from f` read exactly the string value of the expression: the operator's
input is `eval_str(f)`; any evaluation error (field absent: `NoValueForKey`, `None`:
`UnexpectedNone`, not a string: `ExpectedString`) fails this row only; otherwise the row is treated
exactly as in `C06_members_become_fields` with the field's text in place of the raw line (the raw
line itself is kept). -/
theorem C06_from_field (ext : Ext) (rec : Record) (e : Expr) :
    getInput ext rec (some e) = evalStr ext rec.data e ∧
    getInput ext rec none = .ok rec.raw ∧
    (∀ k, evalStr ext rec.data e = .err k → applyStateless ext (.json (some e)) rec = .err k) ∧
    (∀ s, evalStr ext rec.data e = .ok s →
      applyStateless ext (.json (some e)) rec =
        match Json.parse s with
        | none => .err "ExpectedJson"
        | some (.obj kvs) =>
          .ok (some { rec with data := kvs.foldl (fun d kv => Fields.put kv.1 kv.2 d) rec.data })
        | some _ => .ok (some rec)) := by
  refine ⟨rfl, rfl, ?_, ?_⟩
  · intro k h
    simp [applyStateless, getInput, h, bind, Outcome.bind]
  · intro s h
    simp only [applyStateless, getInput, h, bind, Outcome.bind]
    cases hp : Json.parse s with
    | none => rfl
    | some v => cases v <;> rfl

/-- what `eval_str` of a plain column is -/
theorem C06_from_column (ext : Ext) (data : Fields) (f : String) :
    evalStr ext data (.col f []) =
      match Fields.get f data with
      | none => .err "NoValueForKey"
      | some .none => .err "UnexpectedNone"
      | some (.str s) => .ok s
      | some _ => .err "ExpectedString" := by
  simp only [evalStr, evalValue]
  cases hg : Fields.get f data with
  | none => rfl
  | some v => cases v <;> simp [access]

/-! ### nested access -/

/-- **C06 (path access).** `.k` is the lookup of `k` in an object, `[i]` (`i ≥ 0`) the `i`-th
element of an array, `[-k]` the element `len − k`; an index outside `−len ≤ i < len` is
`IndexOutOfRange`, a missing key `NoValueForKey`, a step of the wrong kind `ExpectedXYZ`. -/
theorem C06_path_access (v : Value) (rest : List Ref) :
    access v [] = .ok v ∧
    (∀ kvs k, v = .obj kvs → access v (.field k :: rest) =
      match Fields.get k kvs with
      | some v' => access v' rest
      | none => .err "NoValueForKey") ∧
    (∀ vs (i : Int), v = .arr vs → 0 ≤ i → i < vs.length →
      ∃ v', vs[i.toNat]? = some v' ∧ access v (.idx i :: rest) = access v' rest) ∧
    (∀ vs (i : Int), v = .arr vs → i < 0 → -(vs.length : Int) ≤ i →
      ∃ v', vs[(vs.length + i).toNat]? = some v' ∧ access v (.idx i :: rest) = access v' rest) ∧
    (∀ vs (i : Int), v = .arr vs → (i ≥ vs.length ∨ i < -(vs.length : Int)) →
      access v (.idx i :: rest) = .err "IndexOutOfRange") := by
  refine ⟨by simp [access], ?_, ?_, ?_, ?_⟩
  · intro kvs k h; subst h; simp only [access]; cases Fields.get k kvs <;> rfl
  · intro vs i h h0 h1; subst h
    have hlt : i.toNat < vs.length := by omega
    refine ⟨vs[i.toNat], by simp [hlt], ?_⟩
    have hneg : ¬ i < 0 := by omega
    have hr : ¬ (i < 0 ∨ (vs.length : Int) ≤ i) := by omega
    simp [access, hneg, hlt]
    intro hc; omega
  · intro vs i h h0 h1; subst h
    have hlt : ((vs.length : Int) + i).toNat < vs.length := by omega
    refine ⟨vs[((vs.length : Int) + i).toNat], by simp [hlt], ?_⟩
    have hr : ¬ (i + (vs.length : Int) < 0 ∨ (vs.length : Int) ≤ i + (vs.length : Int)) := by omega
    have e : i + (vs.length : Int) = (vs.length : Int) + i := by omega
    simp [access, h0, e, hlt]
    intro hc; omega
  · intro vs i h hor; subst h
    by_cases hneg : i < 0
    · have hr : (i + (vs.length : Int) < 0 ∨ (vs.length : Int) ≤ i + (vs.length : Int)) := by omega
      simp [access, hneg, hr]
    · have hr : (i < 0 ∨ (vs.length : Int) ≤ i) := by omega
      simp [access, hneg]
      intro hc; omega

example : access (.arr [.int 1, .int 2, .int 3]) [.idx (-1)] = .ok (.int 3) := by simp [access]
example : access (.obj [("a", .arr [.obj [("b", .str "x")]])]) [.field "a", .idx 0, .field "b"] = .ok (.str "x") := by
  simp [access, Fields.get]
example : access (.arr [.int 1]) [.idx 1] = .err "IndexOutOfRange" := by simp [access]
example : access (.arr [.int 1]) [.idx (-2)] = .err "IndexOutOfRange" := by simp [access]

end Ag.C06
