/-
C06  json and logfmt extraction is faithful to the input data.

Model: AgModel/Json.lean (`Json.parse` = serde_json::from_str + json_to_value), AgModel/Logfmt.lean
(the logfmt crate's state machine), AgModel/Ops.lean (`applyStateless` for `.json` / `.logfmt`,
`getInput`), AgModel/Eval.lean (`access`, `evalStr`) for src/operator/parse.rs:102-177,
src/operator/expr.rs:163-200, src/operator.rs:107-113.
-/
import AgModel.Ops
import AgProofs.Lemmas.Fields
import AgProofs.Lemmas.C06Json
import AgProofs.Lemmas.C06Logfmt
import AgProofs.Lemmas.FromFloat

namespace Ag.C06
open Ag

/-! ### members become fields -/

/-- the value of the LAST member named `k` -/
def lastVal (k : String) : List (String × Value) → Option Value
  | [] => none
  | (k', v) :: rest =>
    match lastVal k rest with
    | some w => some w
    | none => if k == k' then some v else none

theorem get_foldl_put (k : String) (kvs : List (String × Value)) :
    ∀ (d : Fields), Fields.get k (kvs.foldl (fun d kv => Fields.put kv.1 kv.2 d) d) =
      match lastVal k kvs with
      | some v => some v
      | none => Fields.get k d := by
  induction kvs with
  | nil => intro d; simp [lastVal]
  | cons kv rest ih =>
    intro d
    obtain ⟨k', v⟩ := kv
    simp only [List.foldl_cons, lastVal]
    rw [ih]
    cases hl : lastVal k rest with
    | some w => simp
    | none =>
      simp only
      by_cases hk : k = k'
      · subst hk; simp [Fields.get_put_eq]
      · have : (k == k') = false := by simpa using hk
        simp [this, Fields.get_put_ne k k' v d hk]

/-- for a finite map (no key twice) the last member named `k` is the only one -/
theorem lastVal_eq_get (k : String) (kvs : List (String × Value))
    (h : kvs.Pairwise (fun a b => a.1 ≠ b.1)) : lastVal k kvs = Fields.get k kvs := by
  induction kvs with
  | nil => rfl
  | cons kv rest ih =>
    obtain ⟨k', v⟩ := kv
    have hr := ih (List.pairwise_cons.1 h).2
    have hne : ∀ x ∈ rest, k' ≠ x.1 := (List.pairwise_cons.1 h).1
    simp only [lastVal, Fields.get, hr]
    by_cases hk : k = k'
    · subst hk
      have : Fields.get k rest = none := by
        clear hr ih h
        induction rest with
        | nil => rfl
        | cons x t iht =>
          have h1 : k ≠ x.1 := hne x (by simp)
          have : (k == x.1) = false := by simpa using h1
          simp only [Fields.get, this]
          exact iht (fun y hy => hne y (by simp [hy]))
      simp [this]
    · have : (k == k') = false := by simpa using hk
      simp only [this]
      cases Fields.get k rest <;> rfl

/-- **C06 (members become fields).**  `json` on a row whose text is a JSON object: every member
becomes a field of the same name (the last one when a name repeats — the parsed object is a finite
map), every other field of the row is untouched, the raw line is kept.  A text whose root is not an
object leaves the row exactly as it was; a text that is not JSON makes the operator fail with
`ExpectedJson`, i.e. this row alone is dropped (`procPreagg` turns the error into one `error:` line
and no row; C12 shows no other row is affected). -/
theorem C06_members_become_fields (ext : Ext) (rec : Record) :
    (Json.parse rec.raw = none → applyStateless ext (.json none) rec = .err "ExpectedJson") ∧
    (∀ kvs, Json.parse rec.raw = some (.obj kvs) →
      ∃ rec', applyStateless ext (.json none) rec = .ok (some rec') ∧ rec'.raw = rec.raw ∧
        ∀ k, Fields.get k rec'.data =
          match lastVal k kvs with
          | some v => some v
          | none => Fields.get k rec.data) ∧
    (∀ v, Json.parse rec.raw = some v → (∀ kvs, v ≠ .obj kvs) →
      applyStateless ext (.json none) rec = .ok (some rec)) := by
  refine ⟨?_, ?_, ?_⟩
  · intro h
    simp [applyStateless, getInput, h, bind, Outcome.bind]
  · intro kvs h
    refine ⟨{ rec with data := kvs.foldl (fun d kv => Fields.put kv.1 kv.2 d) rec.data }, ?_, rfl, ?_⟩
    · simp [applyStateless, getInput, h, bind, Outcome.bind, pure]
    · intro k; exact get_foldl_put k kvs rec.data
  · intro v h hno
    cases v with
    | obj kvs => exact absurd rfl (hno kvs)
    | _ => simp [applyStateless, getInput, h, bind, Outcome.bind, pure]

/-- `json from f` / `logfmt from f` read exactly the string value of the expression: the operator's
input is `eval_str(f)`; any evaluation error (field absent: `NoValueForKey`, `None`:
`UnexpectedNone`, not a string: `ExpectedString`) fails this row only; otherwise the row is treated
exactly as in `C06_members_become_fields` with the field's text in place of the raw line (the raw
line itself is kept). -/
theorem C06_from_field (ext : Ext) (rec : Record) (e : Expr) :
    getInput ext rec (some e) = evalStr ext rec.data e ∧
    getInput ext rec none = .ok rec.raw ∧
    (∀ k, evalStr ext rec.data e = .err k → applyStateless ext (.json (some e)) rec = .err k) ∧
    (∀ s, evalStr ext rec.data e = .ok s →
      applyStateless ext (.json (some e)) rec =
        match Json.parse s with
        | none => .err "ExpectedJson"
        | some (.obj kvs) =>
          .ok (some { rec with data := kvs.foldl (fun d kv => Fields.put kv.1 kv.2 d) rec.data })
        | some _ => .ok (some rec)) := by
  refine ⟨rfl, rfl, ?_, ?_⟩
  · intro k h
    simp [applyStateless, getInput, h, bind, Outcome.bind]
  · intro s h
    simp only [applyStateless, getInput, h, bind, Outcome.bind]
    cases hp : Json.parse s with
    | none => rfl
    | some v => cases v <;> rfl

/-- what `eval_str` of a plain column is -/
theorem C06_from_column (ext : Ext) (data : Fields) (f : String) :
    evalStr ext data (.col f []) =
      match Fields.get f data with
      | none => .err "NoValueForKey"
      | some .none => .err "UnexpectedNone"
      | some (.str s) => .ok s
      | some _ => .err "ExpectedString" := by
  simp only [evalStr, evalValue]
  cases hg : Fields.get f data with
  | none => rfl
  | some v => cases v <;> simp [access]

/-! ### nested access -/

/-- **C06 (path access).** `.k` is the lookup of `k` in an object, `[i]` (`i ≥ 0`) the `i`-th
element of an array, `[-k]` the element `len − k`; an index outside `−len ≤ i < len` is
`IndexOutOfRange`, a missing key `NoValueForKey`, a step of the wrong kind `ExpectedXYZ`. -/
theorem C06_path_access (v : Value) (rest : List Ref) :
    access v [] = .ok v ∧
    (∀ kvs k, v = .obj kvs → access v (.field k :: rest) =
      match Fields.get k kvs with
      | some v' => access v' rest
      | none => .err "NoValueForKey") ∧
    (∀ vs (i : Int), v = .arr vs → 0 ≤ i → i < vs.length →
      ∃ v', vs[i.toNat]? = some v' ∧ access v (.idx i :: rest) = access v' rest) ∧
    (∀ vs (i : Int), v = .arr vs → i < 0 → -(vs.length : Int) ≤ i →
      ∃ v', vs[(vs.length + i).toNat]? = some v' ∧ access v (.idx i :: rest) = access v' rest) ∧
    (∀ vs (i : Int), v = .arr vs → (i ≥ vs.length ∨ i < -(vs.length : Int)) →
      access v (.idx i :: rest) = .err "IndexOutOfRange") := by
  refine ⟨by simp [access], ?_, ?_, ?_, ?_⟩
  · intro kvs k h; subst h; simp only [access]; cases Fields.get k kvs <;> rfl
  · intro vs i h h0 h1; subst h
    have hlt : i.toNat < vs.length := by omega
    refine ⟨vs[i.toNat], by simp [hlt], ?_⟩
    have hneg : ¬ i < 0 := by omega
    have hr : ¬ (i < 0 ∨ (vs.length : Int) ≤ i) := by omega
    simp [access, hneg, hlt]
    intro hc; omega
  · intro vs i h h0 h1; subst h
    have hlt : ((vs.length : Int) + i).toNat < vs.length := by omega
    refine ⟨vs[((vs.length : Int) + i).toNat], by simp [hlt], ?_⟩
    have hr : ¬ (i + (vs.length : Int) < 0 ∨ (vs.length : Int) ≤ i + (vs.length : Int)) := by omega
    have e : i + (vs.length : Int) = (vs.length : Int) + i := by omega
    simp [access, h0, e, hlt]
    intro hc; omega
  · intro vs i h hor; subst h
    by_cases hneg : i < 0
    · have hr : (i + (vs.length : Int) < 0 ∨ (vs.length : Int) ≤ i + (vs.length : Int)) := by omega
      simp [access, hneg, hr]
    · have hr : (i < 0 ∨ (vs.length : Int) ≤ i) := by omega
      simp [access, hneg]
      intro hc; omega

example : access (.arr [.int 1, .int 2, .int 3]) [.idx (-1)] = .ok (.int 3) := by simp [access]
example : access (.obj [("a", .arr [.obj [("b", .str "x")]])]) [.field "a", .idx 0, .field "b"] = .ok (.str "x") := by
  simp [access, Fields.get]
example : access (.arr [.int 1]) [.idx 1] = .err "IndexOutOfRange" := by simp [access]
example : access (.arr [.int 1]) [.idx (-2)] = .err "IndexOutOfRange" := by simp [access]

/-! ### the JSON reader loses nothing -/

section
variable (P : F64 → List Char)

mutual
theorem need_le : ∀ (d : JDoc), NumsOK P d → ∀ k, need d + k.length ≤ (printK P d k).length
  | .null, _, k => by simp [need, printK]; omega
  | .bool true, _, k => by simp [need, printK]; omega
  | .bool false, _, k => by simp [need, printK]; omega
  | .int i, _, k => by
    obtain ⟨c, t, h1, _⟩ := intText_head i
    rw [printK, h1]; simp [need]; omega
  | .num f, hn, k => by
    obtain ⟨_, c, t, h1, _⟩ := hn
    rw [printK, h1]; simp [need]; omega
  | .str s, _, k => by
    have := escK_length s ('"' :: k)
    simp [need, printK] at this ⊢; omega
  | .arr [], _, k => by simp [need, needElems, printK]; omega
  | .arr (d :: ds), hn, k => by
    have hnl : NumsOKs P (d :: ds) := hn
    have h1 := need_le d hnl.1 (printElemsK P ds (']' :: k))
    have h2 := needElems_le ds hnl.2 (']' :: k)
    simp [need, needElems, printK] at h1 h2 ⊢; omega
  | .obj [], _, k => by simp [need, needMembers, printK]; omega
  | .obj ((key, d) :: rest), hn, k => by
    have hnl : NumsOKm P ((key, d) :: rest) := hn
    have h1 := need_le d hnl.1 (printMembersK P rest ('}' :: k))
    have h2 := needMembers_le rest hnl.2 ('}' :: k)
    have h3 := escK_length key ('"' :: ':' :: printK P d (printMembersK P rest ('}' :: k)))
    simp [need, needMembers, printK] at h1 h2 h3 ⊢; omega
theorem needElems_le : ∀ (l : List JDoc), NumsOKs P l → ∀ k, needElems l + k.length ≤ (printElemsK P l k).length
  | [], _, k => by simp [needElems, printElemsK]
  | d :: ds, hn, k => by
    have h1 := need_le d hn.1 (printElemsK P ds k)
    have h2 := needElems_le ds hn.2 k
    simp [needElems, printElemsK] at h1 h2 ⊢; omega
theorem needMembers_le : ∀ (l : List (List Char × JDoc)), NumsOKm P l →
    ∀ k, needMembers l + k.length ≤ (printMembersK P l k).length
  | [], _, k => by simp [needMembers, printMembersK]
  | (key, d) :: rest, hn, k => by
    have h1 := need_le d hn.1 (printMembersK P rest k)
    have h2 := needMembers_le rest hn.2 k
    have h3 := escK_length key ('"' :: ':' :: printK P d (printMembersK P rest k))
    simp [needMembers, printMembersK] at h1 h2 h3 ⊢; omega
end

/-- **C06 (the reader is correct and loses nothing).** For every JSON document `d` — any nesting up to
serde_json's limit of 127, any strings (written with serde_json's escapes `\"` `\\` `\b` `\f` `\n`
`\r` `\t` `\u00XX`, everything else raw), duplicate and empty member names, integer literals inside
i64, and other numbers printed by any printer `P` that the number reader inverts (`NumsOK`: external
ryu / float parsing) — reading its canonical compact text gives exactly the direct structural
translation `toValue d`: integers as themselves, strings character by character, arrays in order,
objects as the finite map of their members (the last one when a name repeats), nothing dropped. -/
theorem C06_json_roundtrip (d : JDoc) (hn : NumsOK P d) (hdepth : depthOf d ≤ 127) :
    Json.parse (String.ofList (printK P d [])) = some (toValue d) := by
  have hneed := need_le P d hn []
  have := parseValue_print P d ((printK P d []).length + 2) 127 []
    (by simp at hneed; omega) hdepth (Or.inl rfl) hn
  simp [Json.parse, this, Json.skipWs]

end

/-- the LAST member named `k` of a document's member list -/
def lastMember (k : String) : List (List Char × JDoc) → Option JDoc
  | [] => none
  | (k', d) :: rest =>
    match lastMember k rest with
    | some w => some w
    | none => if k == String.ofList k' then some d else none

theorem get_toFields (k : String) (kvs : List (List Char × JDoc)) :
    ∀ acc, Fields.get k (toFields kvs acc) =
      match lastMember k kvs with
      | some d => some (toValue d)
      | none => Fields.get k acc := by
  induction kvs with
  | nil => intro acc; simp [toFields, lastMember]
  | cons kd rest ih =>
    intro acc
    obtain ⟨k', d⟩ := kd
    simp only [toFields, lastMember]
    rw [ih]
    cases hl : lastMember k rest with
    | some w => simp
    | none =>
      simp only
      by_cases hk : k = String.ofList k'
      · subst hk; simp [Fields.get_put_eq]
      · have : (k == String.ofList k') = false := by simpa using hk
        simp [this, Fields.get_put_ne k _ (toValue d) acc hk]

/-! ### from the text to the row -/

theorem sorted_tail {kv : String × Value} {t : Fields} (h : Fields.Sorted (kv :: t)) : Fields.Sorted t := by
  cases t with
  | nil => trivial
  | cons kv' t' => obtain ⟨k, v⟩ := kv; obtain ⟨k', v'⟩ := kv'; exact h.2

theorem sorted_head_lt {k : String} {v : Value} {t : Fields} (h : Fields.Sorted ((k, v) :: t)) :
    ∀ x ∈ t, k < x.1 := by
  induction t generalizing k v with
  | nil => intro x hx; cases hx
  | cons kv' t' ih =>
    obtain ⟨k', v'⟩ := kv'
    intro x hx
    rcases List.mem_cons.1 hx with rfl | hx
    · exact h.1
    · exact String.lt_trans h.1 (ih h.2 x hx)

theorem sorted_cons {k : String} {v : Value} {t : Fields} (ht : Fields.Sorted t)
    (hlt : ∀ x ∈ t, k < x.1) : Fields.Sorted ((k, v) :: t) := by
  cases t with
  | nil => trivial
  | cons kv' t' => obtain ⟨k', v'⟩ := kv'; exact ⟨hlt (k', v') (by simp), ht⟩

theorem mem_put {k : String} {v : Value} {f : Fields} {x : String × Value} (hx : x ∈ Fields.put k v f) :
    x = (k, v) ∨ x ∈ f := by
  induction f with
  | nil => simp [Fields.put] at hx; exact Or.inl hx
  | cons kv t ih =>
    obtain ⟨k', v'⟩ := kv
    simp only [Fields.put] at hx
    split at hx
    · rcases List.mem_cons.1 hx with h | h
      · exact Or.inl h
      · exact Or.inr h
    · split at hx
      · rcases List.mem_cons.1 hx with h | h
        · exact Or.inl h
        · exact Or.inr (by simp [h])
      · rcases List.mem_cons.1 hx with h | h
        · exact Or.inr (by simp [h])
        · rcases ih h with h | h
          · exact Or.inl h
          · exact Or.inr (by simp [h])

/-- `HashMap::insert` on the key-sorted representation keeps it a finite map -/
theorem put_sorted (k : String) (v : Value) (f : Fields) (h : Fields.Sorted f) :
    Fields.Sorted (Fields.put k v f) := by
  induction f with
  | nil => trivial
  | cons kv t ih =>
    obtain ⟨k', v'⟩ := kv
    simp only [Fields.put]
    split
    · rename_i hlt; exact ⟨hlt, h⟩
    · split
      · rename_i _ heq
        have e : k = k' := by simpa using heq
        subst e
        exact sorted_cons (sorted_tail h) (sorted_head_lt h)
      · rename_i hnlt hne
        have hne' : k ≠ k' := by simpa using hne
        have hgt : k' < k := by
          have hle : k' ≤ k := hnlt
          apply String.not_le.1
          intro hle'
          exact hne' (String.le_antisymm hle' hle)
        refine sorted_cons (ih (sorted_tail h)) ?_
        intro x hx
        rcases mem_put hx with rfl | hx
        · exact hgt
        · exact sorted_head_lt h x hx

theorem toFields_sorted (kvs : List (List Char × JDoc)) :
    ∀ acc, Fields.Sorted acc → Fields.Sorted (toFields kvs acc) := by
  induction kvs with
  | nil => intro acc h; exact h
  | cons kd rest ih => intro acc h; obtain ⟨k, d⟩ := kd; exact ih _ (put_sorted _ _ _ h)

theorem sorted_distinct (f : Fields) (h : Fields.Sorted f) : f.Pairwise (fun a b => a.1 ≠ b.1) := by
  induction f with
  | nil => exact List.Pairwise.nil
  | cons kv t ih =>
    obtain ⟨k, v⟩ := kv
    refine List.pairwise_cons.2 ⟨?_, ih (sorted_tail h)⟩
    intro x hx
    exact String.ne_of_lt (sorted_head_lt h x hx)

/-- **C06 (the row carries the document).** A line that is the text of a JSON object `d`, put
through `json`: the row gets, for every name `k`, the translation of the document's (last) member
`k`; every field the row had under another name stays; nothing else appears. -/
theorem C06_json_fields (P : F64 → List Char) (ext : Ext) (rec : Record) (kvs : List (List Char × JDoc))
    (hraw : rec.raw = String.ofList (printK P (.obj kvs) []))
    (hn : NumsOK P (.obj kvs)) (hdepth : depthOf (.obj kvs) ≤ 127) :
    ∃ rec', applyStateless ext (.json none) rec = .ok (some rec') ∧ rec'.raw = rec.raw ∧
      ∀ k, Fields.get k rec'.data =
        match lastMember k kvs with
        | some d => some (toValue d)
        | none => Fields.get k rec.data := by
  have hp := C06_json_roundtrip P (.obj kvs) hn hdepth
  rw [← hraw] at hp
  simp only [toValue] at hp
  obtain ⟨rec', h1, h2, h3⟩ := (C06_members_become_fields ext rec).2.1 _ hp
  refine ⟨rec', h1, h2, ?_⟩
  intro k
  rw [h3 k, lastVal_eq_get k _ (sorted_distinct _ (toFields_sorted kvs [] trivial)), get_toFields]
  cases lastMember k kvs <;> simp [Fields.get]

/-- **C06 (numbers).** An integer literal inside i64 is that `Int` (`toValue (.int i) = .int i`); any
other number goes through `from_float`, which never changes the numeric value: it returns the double
itself unless the double is an integer of the i64 range, and then that integer (`x.0 ↔ x`).  (Before
the repair 6cfc8ab `from_float` sent every `0 < x < 2.2e-16` to 0 and every `|x| ≥ 2^63` to
i64::MAX/MIN: class C06/float-to-int-corruption.) -/
theorem C06_number_faithful (f : F64) (i : Int) :
    toValue (.int i) = .int i ∧
    Value.num (toValue (.num f)) = Value.num (.float f) ∧
    (Value.isI64Valued f = false → toValue (.num f) = .float f) :=
  ⟨rfl, Value.num_fromFloat f, fun h => Value.fromFloat_of_not_isI64Valued h⟩

/-! ### non-vacuity: a document with escapes, nesting, a duplicate and an empty name -/

def sampleDoc : JDoc :=
  .obj [("a".toList, .arr [.int 1, .int (-2), .str "x\ny\"z".toList, .null]),
        ("".toList, .obj [("c".toList, .bool true), ("é".toList, .int 9223372036854775807)]),
        ("a".toList, .int 3)]

example (P : F64 → List Char) : NumsOK P sampleDoc ∧ depthOf sampleDoc ≤ 127 := by
  simp [sampleDoc, NumsOK, NumsOKs, NumsOKm, depthOf, depthElems, depthMembers, Value.inI64, F64.i64Min, F64.i64Max]

example : String.ofList (printK (fun _ => []) sampleDoc []) =
    "{\"a\":[1,-2,\"x\\ny\\\"z\",null],\"\":{\"c\":true,\"é\":9223372036854775807},\"a\":3}" := by
  decide

/-- non-vacuity of the hypothesis on other numbers: `2.5` printed as `2.5` -/
example : NumsOK (fun _ => "2.5".toList) (.num (F64.ofDecimal false 25 (-1))) := by
  have fin25 : (F64.ofDecimal false 25 (-1)).isFinite = true := by decide
  refine ⟨?_, '2', ['.', '5'], rfl, Or.inr (by decide)⟩
  intro rest hs
  have htw := takeWhile_append_stop Char.isDigit [] rest (by simp) hs.not_digit
  simp only [List.nil_append] at htw
  have e : "2.5".toList ++ rest = '2' :: '.' :: '5' :: rest := rfl
  rw [e]
  unfold Json.parseNum
  simp only [splitSign_of_ne '2' _ (by decide)]
  simp [Json.fracPart, htw.1, htw.2, expPart_stop rest hs, Value.digitsToNat, Value.digitVal, fin25]

/-- the duplicate name keeps its last value -/
example : lastMember "a" (match sampleDoc with | .obj kvs => kvs | _ => []) = some (.int 3) := by
  simp [sampleDoc, lastMember]

end Ag.C06
