/-
C16  The live terminal view converges to the true result for any refresh schedule.

Model: AgModel/Term.lean (terminal emulator, `Renderer::render`'s tty logic, the live loop over
stateful downstream operators, the timing of `render_aggregate`'s loop).

* `C16_screen`                 FULL (since the repair 4c642ce of the reset sequence): after ANY sequence of
                               frames (each ≤ room lines, each line ≤ w printable characters), from any
                               cursor start row and any content above it (no scrolling: the frames fit
                               below the start row), the rows above are untouched, the last frame's lines
                               follow, everything else is blank.  Before the repair this held only when
                               the first line never got shorter (the frame's first row was never erased).
* `C16_screen_full` / `C16_screen_full_holds`   the blank `w × h` terminal instance.
* `C16_table_frame_fits`       `C16_screen`'s hypothesis "at most `room` lines per frame" follows from C19
                               (`C19_frame_shape`) for every table, multi-line cells included.
* `C16_row_modes`              `-o logfmt` / `--format` on a terminal of any width (placeholder frames: since
                               96fd541 complete lines, since db52f75 cut to the terminal width): after any
                               number of refreshes only the final rows are on screen.
* `C16_reentrant`              a downstream operator's output for a frame is a function of the
                               incoming table only, whatever state earlier frames left
                               (`liveStage` vs the stateless `applyStage`).
* `C16_final_frame`            hence the final frame's table is `runPlan`'s table for all rows,
                               for every refresh schedule and every operator state.
* `C16_not_tty`                not a terminal: exactly one write, the final table, nothing else.
* `C16_catch_up`               after two consecutive `Timeout` iterations the frame on display
                               covers everything received (one step, from any consistent state).
* `C16_idle_catch_up`          the clause for every arrival pattern: any sequence of row / timeout
                               iterations from the start of the loop, followed by two idle poll intervals,
                               leaves the table of ALL rows received on display (induction over the events).
-/
import AgModel.Term
import AgProofs.Props.C19

namespace Ag
namespace C16
open Ag.Term

/-! ### statement vocabulary -/

/-- a line a terminal can show on one row: at most `w` printable characters -/
def LineOK (w : Nat) (l : Str) : Prop := l.length ≤ w ∧ ∀ c ∈ l, isPrintable c = true

/-- a frame as C19 guarantees it: at least one line, at most `room` lines, every line fits -/
def FrameOK (w room : Nat) (ls : List Str) : Prop :=
  ls ≠ [] ∧ ls.length ≤ room ∧ ∀ l ∈ ls, LineOK w l

/-- the text of a frame: every line followed by `\n` (`lines.join("\n") + "\n"`) -/
def frameText (ls : List Str) : Str := Pretty.unlines ls

/-- the full-strength screen property (blank `w × h` terminal, `h − 1` lines per frame) -/
def C16_screen_full : Prop :=
  ∀ (w h : Nat) (frames : List (List Str)) (last : List Str),
    (∀ f ∈ frames ++ [last], FrameOK w (h - 1) f) →
    ∃ s, screenAfter w h ((frames ++ [last]).map frameText) = some s ∧
      s.rows = expectedRows w h last

/-! ### helper lemmas about the emulator -/

theorem pr_ne_nl {c : Char} (h : isPrintable c = true) : c ≠ '\n' := by
  intro e; subst e; revert h; decide
theorem pr_ne_cr {c : Char} (h : isPrintable c = true) : c ≠ '\r' := by
  intro e; subst e; revert h; decide
theorem pr_ne_esc {c : Char} (h : isPrintable c = true) : c ≠ esc := by
  intro e; subst e; revert h; decide

theorem step_printable (s : Screen) {c : Char} (h : isPrintable c = true) :
    step s .ground c = some (putChar s c, .ground) := by
  simp [step, pr_ne_nl h, pr_ne_cr h, pr_ne_esc h, h]

/-- `onlcr` leaves printable text alone -/
theorem onlcr_printable (l x : Str) (h : ∀ c ∈ l, isPrintable c = true) :
    onlcr (l ++ x) = l ++ onlcr x := by
  induction l with
  | nil => rfl
  | cons c cs ih =>
    have hc := h c (by simp)
    simp [onlcr, pr_ne_nl hc, ih (fun d hd => h d (by simp [hd]))]

theorem onlcr_append (a b : Str) : onlcr (a ++ b) = onlcr a ++ onlcr b := by
  induction a with
  | nil => rfl
  | cons c cs ih => by_cases hc : c = '\n' <;> simp [onlcr, hc, ih]

theorem onlcr_resetSeq (n : Nat) : onlcr (resetSeq n) = resetSeq n := by
  induction n with
  | zero => rfl
  | succ n ih =>
    have : onlcr eraseUp = eraseUp := by decide
    simp [resetSeq, onlcr_append, ih, this]

theorem onlcr_resetBytes (st : Option Nat) : onlcr (resetBytes st) = resetBytes st := by
  cases st with
  | none => rfl
  | some n =>
    have : onlcr eraseOnly = eraseOnly := by decide
    simp [resetBytes, onlcr_append, onlcr_resetSeq, this]

/-- the text of a frame as the terminal receives it -/
theorem onlcr_unlines (ls : List Str) (rest : Str) (h : ∀ l ∈ ls, ∀ c ∈ l, isPrintable c = true) :
    onlcr (Pretty.unlines ls ++ rest) =
      match ls with
      | [] => onlcr rest
      | l :: ls' => l ++ '\r' :: '\n' :: onlcr (Pretty.unlines ls' ++ rest) := by
  cases ls with
  | nil => rfl
  | cons l ls' =>
    simp only [Pretty.unlines, List.append_assoc, List.cons_append]
    rw [onlcr_printable l _ (h l (by simp))]
    simp [onlcr]

theorem countNl_printable (l : Str) (h : ∀ c ∈ l, isPrintable c = true) (x : Str) :
    countNl (l ++ x) = countNl x := by
  induction l with
  | nil => rfl
  | cons c cs ih =>
    have hc := h c (by simp)
    simp [countNl, pr_ne_nl hc, ih (fun d hd => h d (by simp [hd]))]

theorem countNl_unlines (ls : List Str) (h : ∀ l ∈ ls, ∀ c ∈ l, isPrintable c = true) :
    countNl (Pretty.unlines ls) = ls.length := by
  induction ls with
  | nil => rfl
  | cons l ls' ih =>
    simp only [Pretty.unlines]
    rw [countNl_printable l (h l (by simp))]
    simp [countNl, ih (fun l' hl' => h l' (by simp [hl']))]
    omega

/-- overwrite the start of a row -/
def overwrite (row l : Str) : Str := l ++ row.drop l.length

/-- writing printable text that fits the row, from column `pre.length` -/
theorem feed_text (l : Str) : ∀ (s : Screen) (pre post rest : Str),
    (∀ c ∈ l, isPrintable c = true) → s.cur = pre ++ post → s.cc = pre.length →
    pre.length + l.length ≤ s.w → s.cur.length = s.w →
    feedM s .ground (l ++ rest) =
      feedM { s with cur := pre ++ l ++ post.drop l.length, cc := pre.length + l.length } .ground rest := by
  induction l with
  | nil =>
    intro s pre post rest _ hcur hcc _ _
    simp
    congr
    cases s; simp_all
  | cons c cs ih =>
    intro s pre post rest hp hcur hcc hfit hlen
    have hc := hp c (by simp)
    have hlt : s.cc < s.w := by simp at hfit; omega
    have hpost : post ≠ [] := by
      intro e; subst e; simp at hcur; rw [hcur] at hlen; simp at hfit; omega
    obtain ⟨x, post', rfl⟩ := List.exists_cons_of_ne_nil hpost
    simp only [List.cons_append, feedM, step_printable s hc]
    have hge : ¬ (s.w ≤ pre.length) := by omega
    have hput : putChar s c = { s with cur := (pre ++ [c]) ++ post', cc := (pre ++ [c]).length } := by
      simp [putChar, hcur, hcc, hge]
    rw [hput]
    rw [ih { s with cur := (pre ++ [c]) ++ post', cc := (pre ++ [c]).length } (pre ++ [c]) post' rest
      (fun d hd => hp d (by simp [hd])) rfl rfl (by simp at hfit ⊢; omega)
      (by simp; rw [hcur] at hlen; simp at hlen; omega)]
    congr 1
    simp [Nat.add_assoc, Nat.add_comm 1]

/-- one frame line followed by `\r\n`, with a row below to move to -/
theorem feed_line (w : Nat) (l : Str) (A : List Str) (cur0 b : Str) (B : List Str) (rest : Str)
    (hl : LineOK w l) (hcur : cur0.length = w) :
    feedM { w := w, aboveRev := A, cur := cur0, below := b :: B, cc := 0 } .ground
        (l ++ '\r' :: '\n' :: rest) =
      feedM { w := w, aboveRev := overwrite cur0 l :: A, cur := b, below := B, cc := 0 } .ground rest := by
  rw [feed_text l _ [] cur0 _ hl.2 rfl rfl (by simpa using hl.1) hcur]
  simp [feedM, step, carriageReturn, lineFeed, overwrite]

/-- overwriting a blank row pads the line -/
theorem overwrite_blank (w : Nat) (l : Str) : overwrite (blankRow w) l = padRow w l := by
  simp [overwrite, blankRow, padRow, List.drop_replicate]

theorem padRow_length (w : Nat) (l : Str) (h : l.length ≤ w) : (padRow w l).length = w := by
  simp [padRow]; omega

/-- all lines of a frame, onto a cursor row `cur0` and blank rows below -/
theorem feed_lines (w : Nat) : ∀ (ls : List Str) (l : Str) (A : List Str) (cur0 : Str) (m : Nat) (rest : Str),
    (∀ x ∈ l :: ls, LineOK w x) → ls.length + 1 ≤ m → cur0.length = w →
    feedM { w := w, aboveRev := A, cur := cur0, below := List.replicate m (blankRow w), cc := 0 } .ground
        (onlcr (Pretty.unlines (l :: ls) ++ rest)) =
      feedM { w := w, aboveRev := (ls.map (padRow w)).reverse ++ overwrite cur0 l :: A, cur := blankRow w,
              below := List.replicate (m - (ls.length + 1)) (blankRow w), cc := 0 } .ground (onlcr rest) := by
  intro ls
  induction ls with
  | nil =>
    intro l A cur0 m rest hok hm hcur
    obtain ⟨m', rfl⟩ : ∃ m', m = m' + 1 := ⟨m - 1, by simp at hm; omega⟩
    rw [onlcr_unlines _ _ (fun x hx => (hok x hx).2)]
    simp only [List.replicate_succ]
    rw [feed_line w l A cur0 _ _ _ (hok l (by simp)) hcur]
    simp [Pretty.unlines]
  | cons l' ls' ih =>
    intro l A cur0 m rest hok hm hcur
    obtain ⟨m', rfl⟩ : ∃ m', m = m' + 1 := ⟨m - 1, by simp at hm; omega⟩
    rw [onlcr_unlines _ _ (fun x hx => (hok x hx).2)]
    simp only [List.replicate_succ]
    rw [feed_line w l A cur0 _ _ _ (hok l (by simp)) hcur]
    rw [ih l' (overwrite cur0 l :: A) (blankRow w) m' rest
      (fun x hx => hok x (by simp at hx ⊢; right; exact hx)) (by simp at hm ⊢; omega) (by simp [blankRow])]
    simp [overwrite_blank, Nat.add_sub_add_right]

/-- the reset sequence walks up over the previous frame's rows, erasing all but the topmost -/
theorem feed_reset (w : Nat) : ∀ (Y : List Str) (r0 c : Str) (A B : List Str) (rest : Str),
    feedM { w := w, aboveRev := Y ++ r0 :: A, cur := c, below := B, cc := 0 } .ground
        (resetSeq (Y.length + 1) ++ rest) =
      feedM { w := w, aboveRev := A, cur := r0, below := List.replicate (Y.length + 1) (blankRow w) ++ B, cc := 0 }
        .ground rest := by
  intro Y
  induction Y with
  | nil =>
    intro r0 c A B rest
    simp [resetSeq, eraseUp, feedM, step, esc, eraseLine, cursorUp]
  | cons y Y' ih =>
    intro r0 c A B rest
    have : resetSeq ((y :: Y').length + 1) ++ rest = eraseUp ++ (resetSeq (Y'.length + 1) ++ rest) := by
      simp [resetSeq]
    rw [this]
    have hstep : feedM { w := w, aboveRev := (y :: Y') ++ r0 :: A, cur := c, below := B, cc := 0 } .ground
        (eraseUp ++ (resetSeq (Y'.length + 1) ++ rest)) =
        feedM { w := w, aboveRev := Y' ++ r0 :: A, cur := y, below := blankRow w :: B, cc := 0 } .ground
          (resetSeq (Y'.length + 1) ++ rest) := by
      simp [eraseUp, feedM, step, esc, eraseLine, cursorUp]
    rw [hstep, ih r0 y A (blankRow w :: B) rest]
    congr 2
    simp [List.replicate_succ' (n := Y'.length + 1)]

/-! ### the invariant between frames -/

/-- the screen after frame `prev` was drawn below `above` (`prev = []`: nothing drawn yet) -/
def after (w : Nat) (above : List Str) (room : Nat) (prev : List Str) : Screen :=
  { w := w, aboveRev := (prev.map (padRow w)).reverse ++ above.reverse, cur := blankRow w,
    below := List.replicate (room - prev.length) (blankRow w), cc := 0 }

/-- the renderer's reset state matches the frame on screen: nothing printed yet, or the previous
frame's line count -/
def Synced (st : Option Nat) (prev : List Str) : Prop :=
  (st = none ∧ prev = []) ∨ st = some prev.length

/-- the whole reset sequence (walk up erasing, then erase the first row) leaves every row from the
frame's first row on blank, with the cursor on that row -/
theorem feed_resetBytes (w : Nat) (above : List Str) (room : Nat) (prev : List Str) (st : Option Nat)
    (rest : Str) (hsync : Synced st prev) (hprev : prev.length ≤ room) :
    feedM (after w above room prev) .ground (resetBytes st ++ rest) =
      feedM { w := w, aboveRev := above.reverse, cur := blankRow w,
              below := List.replicate room (blankRow w), cc := 0 } .ground rest := by
  rcases hsync with ⟨rfl, rfl⟩ | rfl
  · simp [resetBytes, after]
  · cases prev with
    | nil =>
      simp [resetBytes, resetSeq, eraseOnly, after, feedM, step, esc, eraseLine]
    | cons p ps =>
      have hrev : ((p :: ps).map (padRow w)).reverse ++ above.reverse =
          (ps.map (padRow w)).reverse ++ padRow w p :: above.reverse := by simp
      have hl : (p :: ps).length = (ps.map (padRow w)).reverse.length + 1 := by simp
      simp only [resetBytes, after, hrev, List.append_assoc]
      rw [hl, feed_reset w _ (padRow w p) (blankRow w) above.reverse _ _]
      simp only [eraseOnly, List.cons_append, List.nil_append, feedM, step, esc, eraseLine]
      simp only [List.length_reverse, List.length_map, List.replicate_append_replicate]
      have : ps.length + 1 + (room - (ps.length + 1)) = room := by simp at hprev; omega
      simp [this]

/-- drawing one more frame -/
theorem feed_frame (w : Nat) (above : List Str) (room : Nat) (prev f : List Str) (st : Option Nat) (rest : Str)
    (hsync : Synced st prev) (hprev : prev.length ≤ room) (hf : FrameOK w room f) :
    feedM (after w above room prev) .ground (onlcr (resetBytes st ++ frameText f ++ rest)) =
      feedM (after w above room f) .ground (onlcr rest) := by
  obtain ⟨hne, hlen, hok⟩ := hf
  obtain ⟨l, ls, rfl⟩ := List.exists_cons_of_ne_nil hne
  rw [List.append_assoc, onlcr_append, onlcr_resetBytes]
  rw [feed_resetBytes w above room prev st _ hsync hprev]
  rw [show frameText (l :: ls) = Pretty.unlines (l :: ls) from rfl]
  rw [feed_lines w ls l above.reverse (blankRow w) room rest hok (by simpa using hlen) (by simp [blankRow])]
  rw [overwrite_blank]
  simp [after]

/-- any number of frames -/
theorem feed_frames (w : Nat) (above : List Str) (room : Nat) : ∀ (frames : List (List Str)) (prev : List Str)
    (st : Option Nat), Synced st prev → prev.length ≤ room → (∀ f ∈ frames, FrameOK w room f) →
    feedM (after w above room prev) .ground
        (onlcr (ttyBytes { resetLines := st } (frames.map frameText))) =
      some (after w above room ((prev :: frames).getLast (by simp))) := by
  intro frames
  induction frames with
  | nil =>
    intro prev st _ _ _
    simp [ttyBytes, onlcr, feedM]
  | cons f fs ih =>
    intro prev st hsync hprev hfs
    have hf := hfs f (by simp)
    simp only [List.map_cons, ttyBytes, renderTty]
    have hcount : countNl (frameText f) = f.length := countNl_unlines f (fun l hl => (hf.2.2 l hl).2)
    rw [hcount]
    rw [feed_frame w above room prev f st _ hsync hprev hf]
    rw [ih f (some f.length) (Or.inr rfl) hf.2.1 (fun g hg => hfs g (by simp [hg]))]
    simp [List.getLast_cons]

/-! ### the screen theorem -/

/-- **C16_screen.**  Start with the cursor at the beginning of a row, any content `above` it and
`room + 1` blank rows from there on.  For EVERY sequence of frames that fit (`FrameOK w room`),
after the last write the rows above are untouched, the last frame's lines follow, everything else
is blank, and the cursor is at the start of the row after the frame: no residue of earlier
frames, whatever they were. -/
theorem C16_screen (w : Nat) (above : List Str) (room : Nat)
    (frames : List (List Str)) (last : List Str)
    (hok : ∀ f ∈ frames ++ [last], FrameOK w room f) :
    ∃ s, display (Screen.startAt w above room) (ttyBytes {} ((frames ++ [last]).map frameText)) = some s ∧
      s.rows = above ++ last.map (padRow w) ++ List.replicate (room + 1 - last.length) (blankRow w) ∧
      s.cr = above.length + last.length ∧ s.cc = 0 := by
  have hstart : Screen.startAt w above room = after w above room [] := by
    simp [Screen.startAt, after]
  have := feed_frames w above room (frames ++ [last]) [] none (Or.inl ⟨rfl, rfl⟩) (by simp) hok
  have hl : ([] :: (frames ++ [last])).getLast (by simp) = last := by
    rw [List.getLast_cons (by simp)]; simp
  rw [hl] at this
  have hlast := (hok last (by simp)).2.1
  refine ⟨after w above room last, ?_, ?_, ?_, ?_⟩
  · simpa [display, Term.feed, hstart] using this
  · simp only [after, Screen.rows, List.reverse_append, List.reverse_reverse]
    simp only [List.append_assoc]
    congr 2
    rw [show blankRow w :: List.replicate (room - last.length) (blankRow w) =
      List.replicate (room - last.length + 1) (blankRow w) from rfl]
    congr 1
    omega
  · simp [after, Screen.cr]; omega
  · simp [after]

/-- **C16_screen_full_holds**: the blank `w × h` terminal -/
theorem C16_screen_full_holds : C16_screen_full := by
  intro w h frames last hok
  have h1 : 1 ≤ h := by
    have := (hok last (by simp))
    have h2 := this.2.1
    have h3 : last.length ≠ 0 := by
      intro e; exact this.1 (List.length_eq_zero_iff.mp e)
    omega
  obtain ⟨s, hs, hrows, _, _⟩ := C16_screen w [] (h - 1) frames last hok
  refine ⟨s, ?_, ?_⟩
  · simpa [screenAfter, Screen.startAt, Screen.blank] using hs
  · rw [hrows]
    simp [expectedRows]
    congr 1
    omega

/-- the former counterexample (`ab`, then `c`, on a 2 × 2 screen left `cb`) is now clean -/
example : (screenAfter 2 2 ([[['a', 'b']], [['c']]].map frameText)).map Screen.rows =
    some [['c', ' '], [' ', ' ']] := by decide

/-- a table, then `No data`: frames whose first line shrinks are covered -/
example : ∀ f ∈ [[['k', ' ', 'n'], ['-', '-', '-'], ['a', ' ', '1']]] ++ [[['N', 'o']]], FrameOK 4 3 f := by
  intro f hf
  simp at hf
  rcases hf with rfl | rfl <;>
    (refine ⟨by simp, by simp, ?_⟩; intro l hl; simp at hl;
     first
      | (subst hl; exact ⟨by simp, by decide⟩)
      | (rcases hl with rfl | rfl | rfl <;> exact ⟨by simp, by decide⟩))

/-! ### the frames of the table printer fit (from C19) -/

/-- **C16_table_frame_fits.**  The hypothesis "the frame fits below the cursor" of `C16_screen` is a
consequence of C19 for the frames the table printer produces, for EVERY table (cells may contain
newlines: a row may take several lines, the printer clips the text by lines): on a terminal of
height `h ≥ 2`, a frame is `frameText ls` for a non-empty `ls` of at most `h − 1` lines.  What
remains an assumption of `C16_screen` is `LineOK` for each of these lines (at most `w` printable
characters, one cell each: the emulator does not model wide or control characters; C19_width bounds
the lines in display cells). -/
theorem C16_table_frame_fits (env : Pretty.Env) (st st' : Pretty.St) (t : Table) (w h : Nat) (out : Str)
    (hterm : env.term = some (w, h)) (h2 : 2 ≤ h) (hf : Pretty.formatAggregate env st t = .ok (out, st'))
    : ∃ ls : List Str, out = frameText ls ∧ ls ≠ [] ∧ ls.length ≤ h - 1 ∧
        ((∀ l ∈ ls, LineOK w l) → FrameOK w (h - 1) ls) := by
  obtain ⟨ls, hout, hne, hlen, _⟩ := C19.C19_frame_shape env st st' t w h out hterm h2 hf
  exact ⟨ls, hout, hne, hlen, fun hl => ⟨hne, hlen, hl⟩⟩

/-! ### row-oriented output modes (`-o logfmt`, `--format`) on a terminal -/

theorem placeholder_ok (w room : Nat) (hr : 1 ≤ room) : FrameOK w room [placeholderLine w] := by
  refine ⟨by simp, by simpa using hr, ?_⟩
  intro l hl
  simp only [List.mem_singleton] at hl
  subst hl
  refine ⟨by simp [placeholderLine, List.length_take]; omega, ?_⟩
  intro c hc
  have hall : ∀ c ∈ placeholder, isPrintable c = true := by decide
  exact hall c (List.mem_of_mem_take hc)

/-- **C16_row_modes.**  In the row-oriented modes every intermediate refresh draws the placeholder
line, cut to the terminal width; after any number `k` of them, on a terminal of ANY width, the
final rows (`last`, fitting the terminal) are all that is on screen. -/
theorem C16_row_modes (w : Nat) (above : List Str) (room k : Nat) (last : List Str)
    (hlast : FrameOK w room last) :
    ∃ s, display (Screen.startAt w above room) (ttyBytes {} (rowModeFrames w k (frameText last))) = some s ∧
      s.rows = above ++ last.map (padRow w) ++ List.replicate (room + 1 - last.length) (blankRow w) ∧
      s.cr = above.length + last.length ∧ s.cc = 0 := by
  have hr : 1 ≤ room := by
    have h3 : last.length ≠ 0 := fun e => hlast.1 (List.length_eq_zero_iff.mp e)
    have := hlast.2.1
    omega
  have hframes : rowModeFrames w k (frameText last) =
      ((List.replicate k [placeholderLine w]) ++ [last]).map frameText := by
    simp [rowModeFrames, frameText, placeholderFrame, Pretty.unlines]
  rw [hframes]
  apply C16_screen
  intro f hf
  simp only [List.mem_append, List.mem_replicate, List.mem_singleton] at hf
  rcases hf with ⟨_, rfl⟩ | rfl
  · exact placeholder_ok w room hr
  · exact hlast

/-- the former witness: a 30-column terminal shows `data will be output once the c` (30 characters) -/
example : (placeholderLine 30).length = 30 := by decide

/-- what the unrepaired placeholder (no `\n`) did, on the same emulator: the text of a frame without
a final newline is erased by the next reset, but the cursor stays in its column, so the next frame
starts mid-line (`ab`, then `c⏎`, on a 4 × 2 screen: `c` lands in column 2) -/
example : (display (Screen.blank 4 2) (ttyBytes {} [['a', 'b'], ['c', '\n']])).map Screen.rows =
    some [[' ', ' ', 'c', ' '], [' ', ' ', ' ', ' ']] := by decide

/-! ### re-entrancy of the downstream operators -/

/-- forget the operator state -/
def sndR {α β : Type} : RunR (α × β) → RunR β
  | .ok (_, b) => .ok b
  | .panic p => .panic p
  | .unmodelled w => .unmodelled w

/-- **C16_reentrant.**  `agg.process(Row::Aggregate(t)); agg.emit()` yields the same table
whatever state `old` the operator was left in by earlier frames: MultiGrouper clears, Sorter
replaces, PreAggAdapter rebuilds.  (`applyStage` is the stateless stage of `runPlan`.) -/
theorem C16_reentrant (ext : Ext) (s : AggStage) (old : LiveState) (t : Table) :
    sndR (liveStage ext s old t) = applyStage ext s t := by
  cases s with
  | group g =>
    simp only [liveStage, applyStage]
    cases applyStage.go ext g [] t.rows with
    | ok st => simp only []; cases g.emit st <;> simp [sndR]
    | err k => simp [sndR]
    | panic p => simp [sndR]
    | unmodelled w => simp [sndR]
  | sort cols dir =>
    simp only [liveStage]
    cases applyStage ext (.sort cols dir) t <;> simp [sndR]
  | adapt op =>
    simp only [liveStage, applyStage]
    cases adaptTable ext op t <;> simp [sndR]

/-- the whole downstream pipeline is independent of the operators' states -/
theorem liveRest_eq (ext : Ext) : ∀ (ss : List AggStage) (sts : List LiveState) (t : Table),
    sndR (liveRest ext ss sts t) = pureRest ext ss t := by
  intro ss
  induction ss with
  | nil => intro sts t; rfl
  | cons s ss ih =>
    intro sts t
    have h := C16_reentrant ext s (sts.headD .fresh) t
    simp only [liveRest, pureRest]
    cases hl : liveStage ext s (sts.headD .fresh) t with
    | ok p =>
      obtain ⟨st', t'⟩ := p
      rw [hl] at h
      simp only [sndR] at h
      rw [← h]
      simp only []
      have := ih (sts.drop 1) t'
      cases hr : liveRest ext ss (sts.drop 1) t' with
      | ok q => obtain ⟨a, b⟩ := q; rw [hr] at this; simpa [sndR] using this
      | panic p => rw [hr] at this; simpa [sndR] using this
      | unmodelled w => rw [hr] at this; simpa [sndR] using this
    | panic p => rw [hl] at h; simp only [sndR] at h; rw [← h]; rfl
    | unmodelled w => rw [hl] at h; simp only [sndR] at h; rw [← h]; rfl

/-- `pureRest` is the loop of `runPlan` -/
theorem pureRest_eq_runPlan_go (ext : Ext) : ∀ (ss : List AggStage) (t : Table),
    pureRest ext ss t = runPlan.go ext ss t := by
  intro ss
  induction ss with
  | nil => intro t; rfl
  | cons s ss ih =>
    intro t
    simp only [pureRest, runPlan.go]
    cases applyStage ext s t <;> simp [ih]

/-- **C16_final_frame.**  Whatever refreshes happened before (any `schedule` of prefix lengths,
any operator states `sts`), when the loop draws its final frame after all rows the table is the
one the stateless pipeline computes from all rows — the table a non-terminal run prints. -/
theorem C16_final_frame (ext : Ext) (head : AggStage) (rest : List AggStage) (rows : List Record) :
    ∀ (schedule : List Nat) (sts sts' : List LiveState) (tables : List Table),
    liveFrames ext head rest rows sts (schedule ++ [rows.length]) = some (sts', tables) →
    ∃ t0 t, headStage ext head rows = .ok t0 ∧ runPlan.go ext rest t0 = .ok t ∧
      tables.getLast? = some t := by
  intro schedule
  induction schedule with
  | nil =>
    intro sts sts' tables h
    simp only [List.nil_append, liveFrames, List.take_length] at h
    cases h0 : headStage ext head rows with
    | ok t0 =>
      rw [h0] at h
      simp only [] at h
      have hp := liveRest_eq ext rest sts t0
      cases hr : liveRest ext rest sts t0 with
      | ok q =>
        obtain ⟨a, t⟩ := q
        rw [hr] at h hp
        simp only [sndR] at hp
        simp only [Option.some.injEq, Prod.mk.injEq] at h
        refine ⟨t0, t, rfl, ?_, ?_⟩
        · rw [← pureRest_eq_runPlan_go, ← hp]
        · rw [← h.2]; rfl
      | panic p => rw [hr] at h; simp at h
      | unmodelled w => rw [hr] at h; simp at h
    | panic p => rw [h0] at h; simp at h
    | unmodelled w => rw [h0] at h; simp at h
  | cons n ns ih =>
    intro sts sts' tables h
    simp only [List.cons_append, liveFrames] at h
    cases h0 : headStage ext head (rows.take n) with
    | ok t0 =>
      rw [h0] at h
      simp only [] at h
      cases hr : liveRest ext rest sts t0 with
      | ok q =>
        obtain ⟨a, t⟩ := q
        rw [hr] at h
        simp only [] at h
        cases hf : liveFrames ext head rest rows a (ns ++ [rows.length]) with
        | some r =>
          obtain ⟨sts'', ts⟩ := r
          rw [hf] at h
          simp only [Option.some.injEq, Prod.mk.injEq] at h
          obtain ⟨t0', t', h1, h2, h3⟩ := ih a sts'' ts hf
          refine ⟨t0', t', h1, h2, ?_⟩
          rw [← h.2]
          cases ts with
          | nil => simp at h3
          | cons x xs => simpa [List.getLast?_cons_cons] using h3
        | none => rw [hf] at h; simp at h
      | panic p => rw [hr] at h; simp at h
      | unmodelled w => rw [hr] at h; simp at h
    | panic p => rw [h0] at h; simp at h
    | unmodelled w => rw [h0] at h; simp at h

/-! ### not a terminal -/

/-- **C16_not_tty.**  When stdout is not a terminal the renderer writes exactly once, at the end
of input, exactly the final table's text (so no control sequence that the table does not itself
contain), whatever the refresh decisions would have been. -/
theorem C16_not_tty : ∀ (inter : List (Bool × Str)) (st : RState) (final : Str),
    renderRun false st inter final = [final] := by
  intro inter
  induction inter with
  | nil => intro st final; rfl
  | cons x xs ih =>
    intro st final
    obtain ⟨sp, f⟩ := x
    simp [renderRun, renderStep, ih]

theorem C16_not_tty_no_esc (inter : List (Bool × Str)) (st : RState) (final : Str)
    (h : esc ∉ final) : ∀ wr ∈ renderRun false st inter final, esc ∉ wr := by
  rw [C16_not_tty]; intro wr hw; simp at hw; subst hw; exact h

/-- on a terminal, when every refresh decision is "print", the writes are the frames of
`ttyBytes` (which `C16_screen_*` speak about) -/
theorem renderRun_tty_all : ∀ (inter : List Str) (st : RState) (final : Str),
    (renderRun true st (inter.map (fun f => (true, f))) final).flatten = ttyBytes st (inter ++ [final]) := by
  intro inter
  induction inter with
  | nil => intro st final; simp [renderRun, renderStep, ttyBytes]
  | cons f fs ih =>
    intro st final
    simp [renderRun, renderStep, ttyBytes, ih]

/-! ### catching up while the input is idle -/

/-- `last_print` is never in the future -/
def LoopInv (l : Loop) : Prop := ∀ t, l.lastPrint = some t → t ≤ l.now

theorem loopInv_init : LoopInv {} := by intro t h; simp at h

theorem loopInv_step (l : Loop) (k : Tick) (hi : LoopInv l) (hk : k.ok l) : LoopInv (l.step k) := by
  intro t ht
  by_cases hp : shouldPrint l.lastPrint k.tCheck = true
  · simp [Loop.step, hp] at ht ⊢
    omega
  · simp [Loop.step, hp] at ht ⊢
    have := hi t ht
    have := hk.1
    omega

/-- **C16_catch_up.**  Two consecutive iterations in which `recv_timeout` timed out (input idle for
two poll intervals): afterwards the frame on display covers every row received.  Holds from any
loop state reachable with a consistent clock (`LoopInv`). -/
theorem C16_catch_up (l : Loop) (k1 k2 : Tick) (hi : LoopInv l)
    (h1 : k1.ok l) (h2 : k2.ok (l.step k1)) (t1 : k1.isRow = false) (t2 : k2.isRow = false) :
    ((l.step k1).step k2).shown = some ((l.step k1).step k2).received := by
  obtain ⟨h1a, h1b, h1c⟩ := h1
  have h1c := h1c t1
  by_cases hp : shouldPrint l.lastPrint k1.tCheck = true
  · -- printed at the first timeout: nothing was received since
    have hl1 : l.step k1 =
        { received := l.received, shown := some l.received, lastPrint := some k1.tPrinted, now := k1.tPrinted } := by
      simp [Loop.step, hp, t1]
    rw [hl1]
    by_cases hp2 : shouldPrint (some k1.tPrinted) k2.tCheck = true <;> simp [Loop.step, hp2, t2]
  · -- not printed: `last_print` is at most 50 ms old at the first timeout, so ≥ 100 ms at the second
    have hl1 : l.step k1 = { l with received := l.received, now := k1.tCheck } := by
      simp [Loop.step, hp, t1]
    obtain ⟨L, hL⟩ : ∃ L, l.lastPrint = some L := by
      cases hlp : l.lastPrint with
      | none => simp [shouldPrint, hlp] at hp
      | some L => exact ⟨L, rfl⟩
    have hLnow := hi L hL
    obtain ⟨h2a, h2b, h2c⟩ := h2
    have h2c := h2c t2
    rw [hl1] at h2c ⊢
    simp at h2c
    have hsp : shouldPrint l.lastPrint k2.tCheck = true := by
      simp [shouldPrint, hL, updateInterval] at *
      omega
    simp [Loop.step, hsp, t2]

theorem loopInv_run : ∀ (ks : List Tick) (l : Loop), LoopInv l → TicksOk l ks → LoopInv (l.run ks) := by
  intro ks
  induction ks with
  | nil => intro l hi _; exact hi
  | cons k ks ih =>
    intro l hi hok
    exact ih (l.step k) (loopInv_step l k hi hok.1) hok.2

theorem ticksOk_append : ∀ (ks : List Tick) (l : Loop) (js : List Tick),
    TicksOk l (ks ++ js) ↔ TicksOk l ks ∧ TicksOk (l.run ks) js := by
  intro ks
  induction ks with
  | nil => intro l js; simp [TicksOk, Loop.run]
  | cons k ks ih =>
    intro l js
    simp only [List.cons_append, TicksOk, Loop.run, ih (l.step k) js]
    constructor
    · rintro ⟨h1, h2, h3⟩; exact ⟨⟨h1, h2⟩, h3⟩
    · rintro ⟨⟨h1, h2⟩, h3⟩; exact ⟨h1, h2, h3⟩

theorem run_append : ∀ (ks : List Tick) (l : Loop) (js : List Tick),
    l.run (ks ++ js) = (l.run ks).run js := by
  intro ks
  induction ks with
  | nil => intro l js; rfl
  | cons k ks ih => intro l js; simp [Loop.run, ih]

theorem step_received (l : Loop) (k : Tick) :
    (l.step k).received = l.received + (if k.isRow then 1 else 0) := by
  by_cases hp : shouldPrint l.lastPrint k.tCheck = true <;> cases hr : k.isRow <;> simp [Loop.step, hp, hr]

theorem run_received : ∀ (ks : List Tick) (l : Loop), (l.run ks).received = l.received + rowCount ks := by
  intro ks
  induction ks with
  | nil => intro l; simp [Loop.run, rowCount]
  | cons k ks ih =>
    intro l
    simp only [Loop.run, ih, step_received, rowCount]
    omega

/-- **C16_idle_catch_up.**  The clause "while input is idle the display catches up with everything
received so far within a bounded delay", for EVERY arrival pattern: start the loop, let any
sequence of iterations happen (rows arriving at any pace — inside or outside the 50 ms throttle
window — and timeouts, in any order, with a consistent clock), then let the input be idle for two
poll intervals (two `Timeout` iterations).  The frame on display then covers every row that has
arrived.  By induction over the event list (`loopInv_run`), then `C16_catch_up`. -/
theorem C16_idle_catch_up (arrivals : List Tick) (k1 k2 : Tick)
    (hok : TicksOk {} (arrivals ++ [k1, k2])) (t1 : k1.isRow = false) (t2 : k2.isRow = false) :
    (Loop.run {} (arrivals ++ [k1, k2])).shown = some (rowCount arrivals) ∧
    (Loop.run {} (arrivals ++ [k1, k2])).received = rowCount arrivals := by
  obtain ⟨hok1, hok2⟩ := (ticksOk_append arrivals {} [k1, k2]).mp hok
  have hinv := loopInv_run arrivals {} loopInv_init hok1
  simp only [TicksOk, and_true] at hok2
  have hc := C16_catch_up (Loop.run {} arrivals) k1 k2 hinv hok2.1 hok2.2 t1 t2
  have hr : (((Loop.run {} arrivals).step k1).step k2).received = rowCount arrivals := by
    rw [step_received, step_received, run_received]
    simp [t1, t2]
  rw [run_append]
  simp only [Loop.run]
  exact ⟨by rw [hc, hr], hr⟩

/-- the seeded change "a `Timeout` iteration does not redraw" breaks exactly this: a burst of five
rows inside one throttle window, then idle — the unchanged loop shows 5 -/
example : (Loop.run {} [⟨true, 0, 0⟩, ⟨true, 1, 1⟩, ⟨true, 2, 2⟩, ⟨true, 3, 3⟩, ⟨true, 4, 4⟩,
    ⟨false, 54, 55⟩, ⟨false, 105, 106⟩]).shown = some 5 := by decide

/-- non-vacuity of `C16_catch_up`: a loop that printed at time 10, two timeouts at 60 and 110 -/
example : LoopInv { received := 3, shown := some 1, lastPrint := some 10, now := 10 } ∧
    Tick.ok { received := 3, shown := some 1, lastPrint := some 10, now := 10 }
      { isRow := false, tCheck := 60, tPrinted := 60 } ∧
    Tick.ok (Loop.step { received := 3, shown := some 1, lastPrint := some 10, now := 10 }
      { isRow := false, tCheck := 60, tPrinted := 60 }) { isRow := false, tCheck := 110, tPrinted := 111 } := by
  refine ⟨?_, ?_, ?_⟩
  · intro t h; simp at h; simp [← h]
  · simp [Tick.ok, updateInterval]
  · simp [Tick.ok, Loop.step, shouldPrint, updateInterval]

end C16
end Ag
