/-
C15  Rows stream through without loss, duplication, reordering or buffering delay.

Theorems about the transition system of AgModel/Sched.lean (reader thread, `bounded(1000)`
channel, renderer thread; src/lib.rs:217-334).  All statements quantify over *every* schedule
(list of labels, no bound on its length) and every configuration `c` (per-line operator function,
row printer, channel capacity); safety needs no fairness assumption.

Fairness assumed for termination: a thread whose next step is enabled eventually takes it (the OS
schedules both threads).  Formally: `C15_internal_wf` (every sequence of thread steps is finite),
`C15_progress` (unless the run is over or the reader waits for input, some thread step is enabled),
`C15_terminates` / `C15_complete_run_correct` (so every maximal run on a finite input ends with the
sequential output).  `timeout` (the 50 ms poll expiring) and the environment's `feed`/`eof` are not
thread steps; `timeout` changes nothing in the state.
-/
import AgProofs.Lemmas.Sched

namespace Ag.C15
open Ag.Sched

variable {σ ρ : Type}

/-- rows handed over by the reader and not yet written (`cur`: in the renderer's hands) -/
def inFlight (s : State σ ρ) : List ρ := s.cur.toList ++ s.chan ++ s.outq

/-- rows the reader will still produce if the rest of the input is `more` (then EOF):
the partial line `carry`, the unread bytes and `more` are split into lines and run sequentially -/
def futureRows (c : Cfg σ ρ) (s : State σ ρ) (more : Bytes) : List ρ :=
  if s.reader = .running then
    (c.runLines s.st (lines (s.carry ++ s.inbuf ++ more))).2 ++
      c.drain (c.runLines s.st (lines (s.carry ++ s.inbuf ++ more))).1
  else []

theorem seqRows_split (c : Cfg σ ρ) (s : State σ ρ) (hr : RdInv c s) (hg : Good c s)
    (more : Bytes) (hm : s.eof = true → more = []) :
    c.seqRows (lines (s.fed ++ more)) = produced c s ++ futureRows c s more := by
  rw [hr.bytes more hm]
  by_cases hrun : s.reader = .running
  · simp [Cfg.seqRows, runLines_append, produced, futureRows, hrun, ← hr.stEq]
  · obtain ⟨he, hi, hc⟩ := hg.rdEnd hrun
    have : more = [] := hm he
    simp [Cfg.seqRows, produced, futureRows, hrun, hi, hc, this, lines]

/-- **C15 (conservation, record pipelines).**  In every state reachable without faults, whatever
the rest of the input is: bytes written ++ rows in flight ++ rows still to come = the sequential
output of the whole input.  Nothing is lost, duplicated or reordered at any point of any schedule. -/
theorem C15_invariant (c : Cfg σ ρ) (s : State σ ρ) (h : ReachableFF c s) (hagg : c.agg = false)
    (more : Bytes) (hm : s.eof = true → more = []) :
    s.written ++ c.renderAll (inFlight s) ++ c.renderAll (futureRows c s more) =
      c.seqOut (s.fed ++ more) := by
  obtain ⟨_, hr, hg⟩ := reachFF_good h
  simp only [Cfg.seqOut, hagg, seqRows_split c s hr hg more hm, renderAll_append]
  rw [← hg.consNoagg hagg]
  simp [inFlight]

/-- **C15 (conservation, aggregate pipelines on a non-terminal).**  Nothing is written before the
end of the input; rows received ++ in flight ++ still to come = all rows. -/
theorem C15_invariant_agg (c : Cfg σ ρ) (s : State σ ρ) (h : ReachableFF c s) (hagg : c.agg = true)
    (hnd : s.rend ≠ .done) (more : Bytes) (hm : s.eof = true → more = []) :
    s.written = [] ∧
      s.acc ++ s.chan ++ s.outq ++ futureRows c s more = c.seqRows (lines (s.fed ++ more)) := by
  obtain ⟨_, hr, hg⟩ := reachFF_good h
  obtain ⟨hw, he⟩ := (hg.consAgg hagg).1 hnd
  exact ⟨hw, by rw [seqRows_split c s hr hg more hm, ← he]⟩

theorem produced_done (c : Cfg σ ρ) (s : State σ ρ) (hr : RdInv c s) (hg : Good c s)
    (hrun : s.reader ≠ .running) : produced c s = c.seqRows (lines s.fed) := by
  have := seqRows_split c s hr hg [] (fun _ => rfl)
  simp only [List.append_nil] at this
  simp [this, futureRows, hrun]

/-- **C15 (no loss, no duplication, no reordering).**  When `process` returns, the bytes written
are exactly the sequential output of the bytes supplied — for both renderer variants, every
chunking, every interleaving, every number of lines. -/
theorem C15_final (c : Cfg σ ρ) (s : State σ ρ) (h : ReachableFF c s) (hd : s.reader = .done) :
    s.written = c.seqOut s.fed := by
  obtain ⟨hb, hr, hg⟩ := reachFF_good h
  obtain ⟨htx, hrn⟩ := hb.doneJoin hd
  have hrd : s.rend = .done := by
    rcases hrn with h | h
    · exact h
    · exact absurd h hg.rnOk
  obtain ⟨_, hch, hcur⟩ := hg.rendDone (by simp [hrd])
  have hq := (hb.txOut htx).1
  have hp := produced_done c s hr hg (by simp [hd])
  cases hagg : c.agg with
  | false =>
    have := hg.consNoagg hagg
    simp only [hch, hcur, hq, Option.toList_none, List.append_nil, renderAll_nil] at this
    simp [Cfg.seqOut, hagg, this, hp]
  | true =>
    have := (hg.consAgg hagg).2 hrd
    simp [Cfg.seqOut, hagg, this, hp]

/-- record pipelines: every row that passes appears exactly once, in input order -/
theorem C15_no_loss_dup_reorder (c : Cfg σ ρ) (s : State σ ρ) (h : ReachableFF c s)
    (hagg : c.agg = false) (hd : s.reader = .done) :
    s.written = c.renderAll (c.seqRows (lines s.fed)) := by
  simp [C15_final c s h hd, Cfg.seqOut, hagg]

/-- **C15 (chunking and pacing independence).**  Two complete fault-free runs — any two schedules,
any two ways of cutting the same byte string into chunks (inside a line, inside a UTF-8 sequence:
lines are assembled from bytes before decoding) — write the same bytes. -/
theorem C15_chunking_independent (c : Cfg σ ρ) (ls₁ ls₂ : List Label) (s₁ s₂ : State σ ρ)
    (hf₁ : ∀ l ∈ ls₁, l.fault = false) (hf₂ : ∀ l ∈ ls₂, l.fault = false)
    (h₁ : run c ls₁ (init c) = some s₁) (h₂ : run c ls₂ (init c) = some s₂)
    (hd₁ : s₁.reader = .done) (hd₂ : s₂.reader = .done)
    (hbytes : (ls₁.map chunkOf).flatten = (ls₂.map chunkOf).flatten) :
    s₁.written = s₂.written := by
  rw [C15_final c s₁ ⟨ls₁, hf₁, h₁⟩ hd₁, C15_final c s₂ ⟨ls₂, hf₂, h₂⟩ hd₂,
    fed_run ls₁ _ _ h₁, fed_run ls₂ _ _ h₂, hbytes]

/-- the channel never holds more than its capacity (any schedule, faults included) -/
theorem C15_chan_bounded (c : Cfg σ ρ) (s : State σ ρ) (h : Reachable c s) :
    s.chan.length ≤ c.cap :=
  (reach_basic h).chanBound

/-- back-pressure: while the reader is in its loop, at most `capacity + 2` rows are in flight
(channel, one in the renderer's hands, one in the reader's) — a stalled consumer stalls the reader
instead of growing a buffer or dropping rows -/
theorem C15_inflight_bounded (c : Cfg σ ρ) (s : State σ ρ) (h : Reachable c s)
    (hrun : s.reader = .running) : (inFlight s).length ≤ c.cap + 2 := by
  have h1 := (reach_basic h).chanBound
  have h2 := reach_outq h hrun
  have h3 := toList_length_le s.cur
  simp only [inFlight, List.length_append]
  omega

theorem getLast_ne_of_not_mem {l : List Nat} (h : 10 ∉ l) : l.getLast? ≠ some 10 := by
  intro e
  exact h (List.mem_of_getLast? e)

theorem completeLines_eq (c : Cfg σ ρ) (s : State σ ρ) (hr : RdInv c s) (he : s.eof = false)
    (hnl : 10 ∉ s.inbuf) : completeLines s.fed = s.consumed := by
  have hb := hr.bytes [] (by simp [he])
  simp only [List.append_nil] at hb
  have hno : 10 ∉ s.carry ++ s.inbuf := by
    simp only [List.mem_append, not_or]; exact ⟨hr.carryNl, hnl⟩
  have hc : (s.consumed.filter (fun l => l.getLast? == some 10)) = s.consumed :=
    List.filter_eq_self.mpr (fun l hl => by simp [hr.term he l hl])
  unfold completeLines
  rw [hb, List.filter_append, hc]
  generalize s.carry ++ s.inbuf = x at hno
  by_cases hnil : x = []
  · simp [hnil, lines]
  · rw [lines_nonl _ hno hnil]
    have := getLast_ne_of_not_mem hno
    simp [this]

/-- **C15 (no buffering delay), state form.**  More input may still come (`eof = false`).  If the
channel is empty, the renderer has written what it received, and the reader has processed every
complete line it was given, then `written` already contains the output of *every* line whose
newline has been supplied.  Nothing waits for further input or for EOF. -/
theorem C15_no_buffering_delay (c : Cfg σ ρ) (s : State σ ρ) (h : ReachableFF c s)
    (hagg : c.agg = false) (he : s.eof = false)
    (hch : s.chan = []) (hcur : s.cur = none) (hq : s.outq = []) (hnl : 10 ∉ s.inbuf) :
    s.written = c.renderAll (c.runLines c.init (completeLines s.fed)).2 := by
  obtain ⟨_, hr, hg⟩ := reachFF_good h
  have hrun : s.reader = .running := by
    cases hrd : s.reader with
    | running => rfl
    | _ => have := (hg.rdEnd (by simp [hrd])).1; simp [he] at this
  have := hg.consNoagg hagg
  simp only [hch, hcur, hq, Option.toList_none, List.append_nil, renderAll_nil] at this
  rw [this, completeLines_eq c s hr he hnl]
  simp [produced, hrun]

/-- **C15 (no buffering delay), quiescent form.**  If no thread can take a step (both are blocked:
the reader in `read_until`, the renderer in `recv_timeout`) while the input is still open, then the
output of every newline-terminated line supplied so far has been written. -/
theorem C15_no_delay_quiescent (c : Cfg σ ρ) (hcap : 0 < c.cap) (s : State σ ρ)
    (h : ReachableFF c s) (hagg : c.agg = false) (he : s.eof = false) (hq : ¬ Enabled c s) :
    s.written = c.renderAll (c.runLines c.init (completeLines s.fed)).2 := by
  obtain ⟨hb, hr, hg⟩ := reachFF_good h
  have hrun : s.reader = .running := by
    cases hrd : s.reader with
    | running => rfl
    | _ => have := (hg.rdEnd (by simp [hrd])).1; simp [he] at this
  rcases progress hcap hb with h1 | h1 | h1 | ⟨_, h2, _, h4⟩
  · simp [hrun] at h1
  · simp [hrun] at h1
  · exact absurd h1 hq
  · have hrend : s.rend = .running := by
      cases hrn : s.rend with
      | running => rfl
      | _ => exact absurd hrun (hb.txOut (hg.rendDone (by simp [hrn])).1).2
    have hch : s.chan = [] := by
      cases hc : s.chan with
      | nil => rfl
      | cons a b => exact absurd (rend_progress hb hrend (Or.inl (by simp [hc]))) hq
    have hcur : s.cur = none := by
      cases hc : s.cur with
      | none => rfl
      | some a => exact absurd (rend_progress hb hrend (Or.inr (Or.inr (by simp [hc])))) hq
    exact C15_no_buffering_delay c s h hagg he hch hcur h2 (by simp [h4])

/-- the line structure used above is the model's `read_until(b'\n')` splitting (AgModel/Utf8.lean,
the one `runPlan` is fed with); decoding (`Utf8.lossy`) happens per assembled line inside
`Cfg.step`, so a chunk boundary inside a UTF-8 sequence cannot be observed -/
theorem C15_lines_are_read_until (bs : Bytes) : lines bs = Utf8.splitLines bs :=
  lines_eq_splitLines bs

/-! ### termination -/

/-- every thread step strictly decreases the lexicographic measure
`(reader still in the read loop?, 8·|unread| + 4·[carry] + 3·|outq| + 2·|chan| + [cur] + phases)` -/
theorem C15_measure_decreases (c : Cfg σ ρ) (s s' : State σ ρ) (l : Label)
    (hl : l.internal = true) (h : next c s l = some s') :
    Prod.Lex (· < ·) (· < ·) s'.measure s.measure := by
  rcases measure_step s l s' hl h with h | ⟨h1, h2⟩
  · exact Prod.Lex.left _ _ h
  · show Prod.Lex _ _ (rdRank1 s'.reader, s'.weight) (rdRank1 s.reader, s.weight)
    rw [h1]; exact Prod.Lex.right _ h2

/-- hence no infinite sequence of thread steps (between two environment/clock steps) -/
theorem C15_internal_wf (c : Cfg σ ρ) : WellFounded (InternalStep c) := internal_wf c

/-- deadlock freedom: the run is over, or a thread step is enabled, or the reader is waiting for
the environment with nothing buffered -/
theorem C15_progress (c : Cfg σ ρ) (hcap : 0 < c.cap) (s : State σ ρ) (h : Reachable c s) :
    s.reader = .done ∨ s.reader = .panicked ∨ Enabled c s ∨
      (s.reader = .running ∧ s.outq = [] ∧ s.eof = false ∧ s.inbuf = []) :=
  progress hcap (reach_basic h)

/-- finite input: finitely many thread steps reach the end of `process` -/
theorem C15_terminates (c : Cfg σ ρ) (hcap : 0 < c.cap) (s : State σ ρ) (h : Reachable c s)
    (he : s.eof = true) :
    ∃ ls s', (∀ l ∈ ls, l.internal = true) ∧ run c ls s = some s' ∧
      (s'.reader = .done ∨ s'.reader = .panicked) :=
  terminates hcap s h (Or.inl he)

theorem eof_run {c : Cfg σ ρ} : ∀ (ls : List Label) (s s' : State σ ρ), s.eof = true →
    run c ls s = some s' → s'.eof = true :=
  fun ls s s' he h => inv_run (P := fun s => s.eof = true) (fun s l s' hp hn => eof_step s l s' hp hn) ls s s' he h

/-- **C15 (every complete run is correct).**  From a fault-free state with the input exhausted, any
fault-free continuation that cannot be extended by a thread step has returned from `process` and has
written exactly the sequential output. Together with `C15_internal_wf` (such continuations are
finite) this is termination with the right result under the fairness assumption above. -/
theorem C15_complete_run_correct (c : Cfg σ ρ) (hcap : 0 < c.cap) (s s' : State σ ρ)
    (h : ReachableFF c s) (he : s.eof = true) (ls : List Label) (hf : ∀ l ∈ ls, l.fault = false)
    (hrun : run c ls s = some s') (hstuck : ¬ Enabled c s') :
    s'.reader = .done ∧ s'.written = c.seqOut s'.fed := by
  obtain ⟨ls0, hf0, h0⟩ := h
  have h' : ReachableFF c s' := ⟨ls0 ++ ls, by
    intro l hl; rcases List.mem_append.mp hl with e | e
    · exact hf0 l e
    · exact hf l e, by simp [run_append, h0, hrun]⟩
  obtain ⟨hb, _, hg⟩ := reachFF_good h'
  have he' := eof_run ls s s' he hrun
  have hd : s'.reader = .done := by
    rcases progress hcap hb with h1 | h1 | h1 | ⟨_, _, h3, _⟩
    · exact h1
    · exact absurd h1 hg.rdOk
    · exact absurd h1 hstuck
    · simp [he'] at h3
  exact ⟨hd, C15_final c s' h' hd⟩

/-! ### non-vacuity: a concrete run (chunks split inside a line, a dropped line, no final newline) -/

/-- three lines `x\n`, `y\n`, `z` (no final newline); the 1st yields row "a", the 2nd nothing,
the 3rd row "b"; channel capacity 2 -/
def exCfg : Cfg Nat Bytes := tableCfg [some [97], none, some [98]] [] false 2

def exSched : List Label :=
  [.feed [120, 10, 121], .readLine, .send, .absorb 1, .recv, .feed [10, 122], .write, .readLine,
   .timeout, .eof, .absorb 1, .readLine, .send, .readEof, .recv, .dropTx, .write, .disconnect, .join]

def exFinal : Option (RdPhase × Bytes × Bytes × Nat) :=
  (run exCfg exSched (init exCfg)).map (fun s => (s.reader, s.written, s.fed, s.errs))

example : exFinal = some (.done, [97, 10, 98, 10], [120, 10, 121, 10, 122], 0) := by decide

example : exCfg.seqOut [120, 10, 121, 10, 122] = [97, 10, 98, 10] := by decide

example : ∀ l ∈ exSched, l.fault = false := by decide

/-- the hypotheses of `C15_no_buffering_delay` are satisfiable in a state that has written a row:
after `x\n` + `y` have arrived and the first row is out, everything is quiet and "a\n" is written -/
def exQuietState : Option (State Nat Bytes) :=
  run exCfg [.feed [120, 10, 121], .readLine, .send, .absorb 1, .recv, .write] (init exCfg)

example : exQuietState.map (fun s => (s.eof, s.chan.length, s.cur.isNone, s.outq.length)) =
    some (false, 0, true, 0) := by decide

example : exQuietState.map (fun s => (s.inbuf, s.written, completeLines s.fed)) =
    some ([], [97, 10], [[120, 10]]) := by decide

/-- the same state written out; no thread step is enabled in it (the hypothesis of
`C15_no_delay_quiescent`): reader blocked in `read_until` with the partial line `y`, renderer
blocked in `recv_timeout` -/
def exQuiet : State Nat Bytes :=
  { st := 1, fed := [120, 10, 121], carry := [121], consumed := [[120, 10]], written := [97, 10] }

example : exQuietState = some exQuiet := rfl

example : ¬ Enabled exCfg exQuiet := by
  rintro ⟨l, hl, hn⟩
  cases l <;> simp [next, payload, exQuiet, Label.internal, splitNl] at hn hl
  omega

end Ag.C15
