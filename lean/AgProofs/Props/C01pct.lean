/-
C01 / C14 (percentiles)  What a `pNN(...)` column holds, for groups of fewer than 500 samples.

Model: `pctQuery` (AgModel/Agg.lean) = `CKMS::<f64>::new(0.001)` … `query(q)` of the `quantiles`
crate while no compression has run (every entry has g = 1, delta = 0): the samples are kept in an
ascending list (`insertSorted`, comparison `F64.le` = IEEE `<=`) and `query` scans the ranks.

COMPARISON.  `F64.le` is the IEEE partial comparison (`pcmp`), NOT `OrderedFloat`'s `ocmp` that the
C09 lemmas are about.  The two agree on NaN-free arguments (`pcmp_eq_ocmp`), and `pctQuery` answers
`.unmodelled` as soon as a NaN is among the samples, so all order facts used here (`le_refl`,
`le_total`, `le_trans`) are the C09 total-preorder lemmas (`ocmp_self`, `ocmp_swap`,
`ocmp_isLE_trans`) transported along that agreement.

WHAT IS PROVED (for `0 < vals.length < 500`, no NaN, any `q`; nothing is assumed about `q`):
* `pct_observed`   the answer is `.ok (some v)` with `v ∈ vals`: an observed value, never an
                   interpolation, never `none`.
* `sorted_perm`, `sorted_sorted`, `sorted_length`   the sample store is the sorted permutation.
* `pct_rank`       the rank rule: the answer is `sorted[k]` (0-based) where `k + 1` is the least
                   `i ∈ 1..n-1` with `(i+1) as f64 > q·n + 1/2` (all in binary64), or `k = n-1` if
                   there is none (`IsRank`, unique by `isRank_unique`); `pct_rank_least` /
                   `pct_rank_last` are the two clauses separately; `pct_rank_count` restates the
                   position order-independently (`#{y < v} ≤ k < #{y ≤ v}`: rank tolerance 0).
* `pct_perm`       permuting the samples changes the answer at most within `F64.feq` (IEEE `==`);
                   `pct_perm_all` is the same for every pair of permuted lists (all outcomes).
                   The exact form is FALSE (`pct_perm_exact_counterexample`: `[+0.0, -0.0]` against
                   `[-0.0, +0.0]` at q = 0.5 answers `-0.0` against `+0.0`) and holds when `==`
                   samples are identical (`pct_perm_exact_partial`, `pct_perm_exact_canon_partial`).
* `pct_empty`, `pct_unmodelled_500`, `pct_unmodelled_nan`   the rest of the domain: the theorems
                   above say NOTHING about the compressed sketch (≥ 500 samples); the model itself
                   declines to answer there.
* corollaries      q = 0.5 on 1, 2, 3, 4 samples (lower median), q = 0.99 / 0.5 / 0.01 on 100
                   samples (`sorted[98]`, `sorted[49]`, `sorted[0]`), and literal lists.
-/
import AgModel.Agg
import AgProofs.Lemmas.F64Add

namespace Ag.C01pct
open Ag.F64

/-! ### `F64.le` on NaN-free values is `OrderedFloat`'s total preorder -/

theorem pcmp_eq_ocmp {a b : F64} (ha : a.isNaN = false) (hb : b.isNaN = false) :
    pcmp a b = some (ocmp a b) := by
  cases a <;> cases b <;> simp_all [ocmp, pcmp, isNaN]

theorem le_eq_isLE {a b : F64} (ha : a.isNaN = false) (hb : b.isNaN = false) :
    F64.le a b = (ocmp a b).isLE := by
  simp only [F64.le, pcmp_eq_ocmp ha hb]
  cases ocmp a b <;> decide

theorem lt_eq_not_le {a b : F64} (ha : a.isNaN = false) (hb : b.isNaN = false) :
    F64.lt a b = !F64.le b a := by
  rw [le_eq_isLE hb ha, ← ocmp_swap a b]
  simp only [F64.lt, pcmp_eq_ocmp ha hb]
  cases ocmp a b <;> decide

theorem feq_eq_le_and_le {a b : F64} (ha : a.isNaN = false) (hb : b.isNaN = false) :
    F64.feq a b = (F64.le a b && F64.le b a) := by
  rw [le_eq_isLE hb ha, le_eq_isLE ha hb, ← ocmp_swap a b]
  simp only [F64.feq, pcmp_eq_ocmp ha hb]
  cases ocmp a b <;> decide

theorem feq_eq_ocmp {a b : F64} (ha : a.isNaN = false) (hb : b.isNaN = false) :
    F64.feq a b = true ↔ ocmp a b = .eq := by
  simp only [F64.feq, pcmp_eq_ocmp ha hb]
  cases ocmp a b <;> decide

theorem le_refl {a : F64} (ha : a.isNaN = false) : F64.le a a = true := by
  rw [le_eq_isLE ha ha, ocmp_self]; rfl

theorem le_total {a b : F64} (ha : a.isNaN = false) (hb : b.isNaN = false) :
    F64.le a b = true ∨ F64.le b a = true := by
  rw [le_eq_isLE ha hb, le_eq_isLE hb ha, ← ocmp_swap a b]
  cases ocmp a b <;> simp

theorem le_trans {a b c : F64} (ha : a.isNaN = false) (hb : b.isNaN = false)
    (hc : c.isNaN = false) (h1 : F64.le a b = true) (h2 : F64.le b c = true) :
    F64.le a c = true := by
  rw [le_eq_isLE ha hb] at h1
  rw [le_eq_isLE hb hc] at h2
  rw [le_eq_isLE ha hc]
  exact ocmp_isLE_trans h1 h2

/-- no NaN in the list, in the form `pctQuery` tests it and in the form the proofs use it -/
theorem noNaN_of_any {l : List F64} (h : l.any F64.isNaN = false) :
    ∀ x ∈ l, x.isNaN = false := by
  intro x hx
  rw [List.any_eq_false] at h
  simpa using h x hx

theorem any_of_noNaN {l : List F64} (h : ∀ x ∈ l, x.isNaN = false) :
    l.any F64.isNaN = false := by
  rw [List.any_eq_false]
  intro x hx
  simp [h x hx]

/-! ### the sample store: insertion sort -/

/-- the sample store `pctQuery` builds -/
def sortF (vals : List F64) : List F64 := vals.foldl (fun acc v => insertSorted v acc) []

/-- ascending under `F64.le` -/
abbrev Sorted (l : List F64) : Prop := l.Pairwise (fun a b => F64.le a b = true)

theorem insertSorted_perm (x : F64) (l : List F64) : (insertSorted x l).Perm (x :: l) := by
  induction l with
  | nil => exact List.Perm.refl _
  | cons y ys ih =>
    simp only [insertSorted]
    split
    · exact List.Perm.refl _
    · exact (List.Perm.cons y ih).trans (List.Perm.swap x y ys)

theorem foldl_insertSorted_perm (vals acc : List F64) :
    (vals.foldl (fun acc v => insertSorted v acc) acc).Perm (vals ++ acc) := by
  induction vals generalizing acc with
  | nil => exact List.Perm.refl _
  | cons v vs ih =>
    simp only [List.foldl_cons, List.cons_append]
    exact (ih _).trans
      ((List.Perm.append_left vs (insertSorted_perm v acc)).trans List.perm_middle)

theorem insertSorted_sorted {x : F64} {l : List F64} (hx : x.isNaN = false)
    (hl : ∀ y ∈ l, y.isNaN = false) (hs : Sorted l) : Sorted (insertSorted x l) := by
  induction l with
  | nil => simp [insertSorted]
  | cons y ys ih =>
    have hy := hl y List.mem_cons_self
    have hys : ∀ z ∈ ys, z.isNaN = false := fun z hz => hl z (List.mem_cons_of_mem _ hz)
    rw [Sorted, List.pairwise_cons] at hs
    simp only [insertSorted]
    split
    · rename_i hxy
      refine List.Pairwise.cons ?_ (List.Pairwise.cons hs.1 hs.2)
      intro z hz
      rcases List.mem_cons.1 hz with rfl | hz
      · exact hxy
      · exact le_trans hx hy (hys z hz) hxy (hs.1 z hz)
    · rename_i hxy
      refine List.Pairwise.cons ?_ (ih hys hs.2)
      intro z hz
      rcases List.mem_cons.1 ((insertSorted_perm x ys).mem_iff.1 hz) with rfl | hz
      · exact (le_total hy hx).resolve_right hxy
      · exact hs.1 z hz

theorem foldl_insertSorted_sorted (vals acc : List F64) (hv : ∀ x ∈ vals, x.isNaN = false)
    (ha : ∀ x ∈ acc, x.isNaN = false) (hs : Sorted acc) :
    Sorted (vals.foldl (fun acc v => insertSorted v acc) acc) := by
  induction vals generalizing acc with
  | nil => exact hs
  | cons v vs ih =>
    simp only [List.foldl_cons]
    have hvn := hv v List.mem_cons_self
    refine ih _ (fun x hx => hv x (List.mem_cons_of_mem _ hx)) ?_ (insertSorted_sorted hvn ha hs)
    intro x hx
    rcases List.mem_cons.1 ((insertSorted_perm v acc).mem_iff.1 hx) with rfl | hx
    · exact hvn
    · exact ha x hx

/-- **the store is a permutation of the samples** (any samples, NaN included) -/
theorem sorted_perm (vals : List F64) : (sortF vals).Perm vals := by
  have := foldl_insertSorted_perm vals []
  rwa [List.append_nil] at this

theorem sorted_length (vals : List F64) : (sortF vals).length = vals.length :=
  (sorted_perm vals).length_eq

theorem sorted_mem (vals : List F64) (x : F64) : x ∈ sortF vals ↔ x ∈ vals :=
  (sorted_perm vals).mem_iff

/-- **the store is ascending** under IEEE `<=` (NaN-free samples) -/
theorem sorted_sorted (vals : List F64) (hnan : vals.any F64.isNaN = false) :
    (sortF vals).Pairwise (fun a b => F64.le a b = true) :=
  foldl_insertSorted_sorted vals [] (noNaN_of_any hnan) (by simp) List.Pairwise.nil

theorem sorted_noNaN (vals : List F64) (hnan : vals.any F64.isNaN = false) :
    ∀ x ∈ sortF vals, x.isNaN = false :=
  fun x hx => noNaN_of_any hnan x ((sorted_mem vals x).1 hx)

/-- non-vacuity: a store with a tie of two different zeros, an infinity, a subnormal -/
example : sortF [ofInt 3, zero, inf false, negZero, fin false 1 eMin, ofInt (-2)] =
    [ofInt (-2), negZero, zero, fin false 1 eMin, ofInt 3, inf false] := by decide +kernel

/-! ### position in an ascending list, by counting -/

/-- in an ascending NaN-free list the element at (0-based) position `i` has at most `i` elements
strictly below it and more than `i` elements at or below it -/
theorem sorted_count (l : List F64) (hn : ∀ x ∈ l, x.isNaN = false) (hs : Sorted l)
    (i : Nat) (hi : i < l.length) :
    l.countP (fun y => F64.lt y l[i]) ≤ i ∧ i < l.countP (fun y => F64.le y l[i]) := by
  induction l generalizing i with
  | nil => simp at hi
  | cons a t ih =>
    have ha := hn a List.mem_cons_self
    have ht : ∀ z ∈ t, z.isNaN = false := fun z hz => hn z (List.mem_cons_of_mem _ hz)
    rw [Sorted, List.pairwise_cons] at hs
    cases i with
    | zero =>
      simp only [List.getElem_cons_zero]
      constructor
      · have : (a :: t).countP (fun y => F64.lt y a) = 0 := by
          rw [List.countP_eq_zero]
          intro y hy
          rcases List.mem_cons.1 hy with rfl | hy
          · rw [lt_eq_not_le ha ha, le_refl ha]; simp
          · rw [lt_eq_not_le (ht y hy) ha, hs.1 y hy]; simp
        omega
      · rw [List.countP_cons_of_pos (by exact le_refl ha)]
        omega
    | succ i =>
      have hi' : i < t.length := by simpa using hi
      simp only [List.getElem_cons_succ]
      have := ih ht hs.2 i hi'
      constructor
      · rw [List.countP_cons]
        split <;> omega
      · rw [List.countP_cons_of_pos (by exact hs.1 _ (List.getElem_mem hi'))]
        omega

/-- two ascending arrangements of the same NaN-free samples agree position by position up to `<=` -/
theorem sorted_getElem_le {l₁ l₂ : List F64} (hp : l₁.Perm l₂) (hn : ∀ x ∈ l₁, x.isNaN = false)
    (hs₁ : Sorted l₁) (hs₂ : Sorted l₂) (i : Nat) (h₁ : i < l₁.length) (h₂ : i < l₂.length) :
    F64.le l₁[i] l₂[i] = true := by
  have hn₂ : ∀ x ∈ l₂, x.isNaN = false := fun x hx => hn x (hp.mem_iff.2 hx)
  have hx := hn _ (List.getElem_mem h₁)
  have hx' := hn₂ _ (List.getElem_mem h₂)
  cases hle : F64.le l₁[i] l₂[i] with
  | true => rfl
  | false =>
    exfalso
    have hlt : F64.lt l₂[i] l₁[i] = true := by rw [lt_eq_not_le hx' hx, hle]; rfl
    have c₁ := (sorted_count l₁ hn hs₁ i h₁).1
    have c₂ := (sorted_count l₂ hn₂ hs₂ i h₂).2
    rw [hp.countP_eq] at c₁
    have hmono : l₂.countP (fun y => F64.le y l₂[i]) ≤ l₂.countP (fun y => F64.lt y l₁[i]) := by
      apply List.countP_mono_left
      intro y hy hyle
      have hyn := hn₂ y hy
      have hyle : F64.le y l₂[i] = true := hyle
      show F64.lt y l₁[i] = true
      rw [lt_eq_not_le hyn hx]
      cases hc : F64.le l₁[i] y with
      | false => rfl
      | true =>
        have := le_trans hx hyn hx' hc hyle
        rw [hle] at this
        exact absurd this (by decide)
    omega

/-- … hence up to IEEE `==` -/
theorem sorted_getElem_feq {l₁ l₂ : List F64} (hp : l₁.Perm l₂) (hn : ∀ x ∈ l₁, x.isNaN = false)
    (hs₁ : Sorted l₁) (hs₂ : Sorted l₂) (i : Nat) (h₁ : i < l₁.length) (h₂ : i < l₂.length) :
    F64.feq l₁[i] l₂[i] = true := by
  have hn₂ : ∀ x ∈ l₂, x.isNaN = false := fun x hx => hn x (hp.mem_iff.2 hx)
  rw [feq_eq_le_and_le (hn _ (List.getElem_mem h₁)) (hn₂ _ (List.getElem_mem h₂)),
    sorted_getElem_le hp hn hs₁ hs₂ i h₁ h₂, sorted_getElem_le hp.symm hn₂ hs₂ hs₁ i h₂ h₁]
  rfl

/-! ### the rank scan -/

/-- `q·n + 1/2` in binary64: the `rhs` of `Store::query` (quantiles-0.7.1 src/ckms/store.rs),
`nphi + invariant(nphi, error) / 2.0` with `nphi = q * n`.  `invariant(nphi, 0.001)` is
`max(1, ⌊0.002·nphi⌋)`, i.e. 1 as long as `nphi < 500` — true for `n < 500` and `q < 1`
(`typecheckAgg` rejects `q ≥ 1`); the model `pctQuery` hard-wires that 1 for every `q`, and so do
the theorems here.  The `lhs` of the crate, `r + cur.g + cur.delta`, is `i + 1` while every entry
has `g = 1`, `delta = 0`. -/
def pctRhs (n : Nat) (q : F64) : F64 :=
  F64.add (F64.mul q (F64.ofInt n)) (F64.div (F64.ofInt 1) (F64.ofInt 2))

/-- the scan's test at `i`: `(i + 1) as f64 > rhs` -/
def Crosses (rhs : F64) (i : Nat) : Prop := F64.gt (F64.ofInt ((i : Int) + 1)) rhs = true

instance (rhs : F64) (i : Nat) : Decidable (Crosses rhs i) := by unfold Crosses; exact inferInstance

/-- **the rank rule**: `k` is the 0-based position `query` returns among `n` ascending samples —
`k + 1` is the least `i ∈ 1..n-1` whose test succeeds, or `k = n - 1` (the last sample) if no test
succeeds -/
def IsRank (n : Nat) (rhs : F64) (k : Nat) : Prop :=
  (k + 1 < n ∧ Crosses rhs (k + 1) ∧ ∀ j, 1 ≤ j → j ≤ k → ¬ Crosses rhs j) ∨
  (k + 1 = n ∧ ∀ j, 1 ≤ j → j < n → ¬ Crosses rhs j)

theorem isRank_unique {n : Nat} {rhs : F64} {k k' : Nat} (h : IsRank n rhs k)
    (h' : IsRank n rhs k') : k = k' := by
  rcases h with ⟨h1, h2, h3⟩ | ⟨h1, h3⟩ <;> rcases h' with ⟨h1', h2', h3'⟩ | ⟨h1', h3'⟩
  · rcases Nat.lt_trichotomy k k' with hlt | heq | hgt
    · exact absurd h2 (h3' (k + 1) (by omega) (by omega))
    · exact heq
    · exact absurd h2' (h3 (k' + 1) (by omega) (by omega))
  · exact absurd h2 (h3' (k + 1) (by omega) (by omega))
  · exact absurd h2' (h3 (k' + 1) (by omega) (by omega))
  · omega

/-- the scan of `pctQuery.go`, returning the position instead of the element -/
def scan (n : Nat) (rhs : F64) : Nat → Nat → Nat
  | _, 0 => n - 1
  | i, fuel + 1 =>
    if i ≥ n then n - 1
    else if F64.gt (F64.ofInt ((i : Int) + 1)) rhs then i - 1
    else scan n rhs (i + 1) fuel

/-- the position `pctQuery` returns for `n` samples at quantile `q` (depends on nothing else) -/
def pctIdx (n : Nat) (q : F64) : Nat := scan n (pctRhs n q) 1 n

theorem go_eq_scan (n : Nat) (sorted : List F64) (rhs : F64) (hlen : sorted.length = n)
    (i fuel : Nat) : pctQuery.go n sorted rhs i fuel = sorted[scan n rhs i fuel]? := by
  induction fuel generalizing i with
  | zero => simp only [pctQuery.go, scan, List.getLast?_eq_getElem?, hlen]
  | succ fuel ih =>
    simp only [pctQuery.go, scan]
    split
    · simp only [List.getLast?_eq_getElem?, hlen]
    · split
      · rfl
      · exact ih (i + 1)

theorem scan_lt (n : Nat) (rhs : F64) (hn : 0 < n) (i fuel : Nat) : scan n rhs i fuel < n := by
  induction fuel generalizing i with
  | zero => simp only [scan]; omega
  | succ fuel ih =>
    simp only [scan]
    split
    · omega
    · split
      · omega
      · exact ih (i + 1)

theorem scan_isRank (n : Nat) (rhs : F64) (hn : 0 < n) (i fuel : Nat) (hi : 1 ≤ i)
    (hfuel : n ≤ i + fuel) (hbelow : ∀ j, 1 ≤ j → j < i → ¬ Crosses rhs j) :
    IsRank n rhs (scan n rhs i fuel) := by
  induction fuel generalizing i with
  | zero =>
    simp only [scan]
    exact Or.inr ⟨by omega, fun j h1 h2 => hbelow j h1 (by omega)⟩
  | succ fuel ih =>
    simp only [scan]
    split
    · exact Or.inr ⟨by omega, fun j h1 h2 => hbelow j h1 (by omega)⟩
    · split
      · rename_i hlt hc
        refine Or.inl ⟨by omega, ?_, fun j h1 h2 => hbelow j h1 (by omega)⟩
        have : i - 1 + 1 = i := by omega
        rw [this]; exact hc
      · rename_i hlt hc
        refine ih (i + 1) (by omega) (by omega) ?_
        intro j h1 h2
        by_cases hj : j = i
        · subst hj; exact hc
        · exact hbelow j h1 (by omega)

theorem pctIdx_lt (n : Nat) (q : F64) (hn : 0 < n) : pctIdx n q < n := scan_lt n _ hn 1 n

theorem pctIdx_isRank (n : Nat) (q : F64) (hn : 0 < n) : IsRank n (pctRhs n q) (pctIdx n q) :=
  scan_isRank n _ hn 1 n (by omega) (by omega) (fun j h1 h2 => by omega)

/-! ### `pctQuery` -/

/-- `pctQuery` unfolded: the element of the sample store at position `pctIdx` -/
theorem pctQuery_eq (vals : List F64) (q : F64) (hpos : 0 < vals.length)
    (hlt : vals.length < 500) (hnan : vals.any F64.isNaN = false) :
    pctQuery vals q = .ok (sortF vals)[pctIdx vals.length q]? := by
  unfold pctQuery
  simp only []
  rw [if_neg (by omega), if_neg (by omega), hnan, if_neg (by decide)]
  exact congrArg Outcome.ok (go_eq_scan vals.length (sortF vals) _ (sorted_length vals) 1 _)

/-- **no samples, no percentile** -/
theorem pct_empty (q : F64) : pctQuery [] q = .ok none := rfl

/-- **from 500 samples on the model declines to answer**: the CKMS compression has run, entries
carry `g > 1` / `delta > 0`, and the answer is only within the sketch's rank tolerance.  None of
the theorems of this file covers that case. -/
theorem pct_unmodelled_500 (vals : List F64) (q : F64) (h : 500 ≤ vals.length) :
    pctQuery vals q = .unmodelled "percentile over ≥ 500 samples (CKMS compression)" := by
  unfold pctQuery
  simp only []
  rw [if_neg (by omega), if_pos (by omega)]

/-- a NaN among fewer than 500 samples: outside the modelled fragment as well -/
theorem pct_unmodelled_nan (vals : List F64) (q : F64) (h : vals.length < 500)
    (hnan : vals.any F64.isNaN = true) :
    pctQuery vals q = .unmodelled "percentile over NaN" := by
  unfold pctQuery
  simp only []
  have : vals ≠ [] := by rintro rfl; simp at hnan
  have : vals.length ≠ 0 := by simpa using this
  rw [if_neg this, if_neg (by omega), if_pos hnan]

/-- **the rank rule** (C01): the percentile is the element of the ascending sample store at the
position `k` singled out by `IsRank` — nothing else about `vals` or `q` matters -/
theorem pct_rank (vals : List F64) (q : F64) (hpos : 0 < vals.length) (hlt : vals.length < 500)
    (hnan : vals.any F64.isNaN = false) :
    ∃ k, ∃ hk : k < (sortF vals).length,
      pctQuery vals q = .ok (some (sortF vals)[k]) ∧
      IsRank vals.length (pctRhs vals.length q) k := by
  have hk : pctIdx vals.length q < (sortF vals).length := by
    rw [sorted_length]; exact pctIdx_lt _ _ hpos
  refine ⟨pctIdx vals.length q, hk, ?_, pctIdx_isRank _ _ hpos⟩
  rw [pctQuery_eq vals q hpos hlt hnan, List.getElem?_eq_getElem hk]

/-- first clause of the rule: the least `i ∈ 1..n-1` with `(i+1) as f64 > q·n + 1/2` gives
`sorted[i-1]` -/
theorem pct_rank_least (vals : List F64) (q : F64) (hlt : vals.length < 500)
    (hnan : vals.any F64.isNaN = false) (i : Nat) (h1 : 1 ≤ i) (hi : i < vals.length)
    (hc : Crosses (pctRhs vals.length q) i)
    (hleast : ∀ j, 1 ≤ j → j < i → ¬ Crosses (pctRhs vals.length q) j) :
    pctQuery vals q = .ok (sortF vals)[i - 1]? := by
  have hpos : 0 < vals.length := by omega
  have hr : IsRank vals.length (pctRhs vals.length q) (i - 1) := by
    refine Or.inl ⟨by omega, ?_, fun j hj1 hj2 => hleast j hj1 (by omega)⟩
    have : i - 1 + 1 = i := by omega
    rw [this]; exact hc
  rw [pctQuery_eq vals q hpos hlt hnan, isRank_unique (pctIdx_isRank _ q hpos) hr]

/-- second clause: no such `i` gives the last (greatest) sample -/
theorem pct_rank_last (vals : List F64) (q : F64) (hpos : 0 < vals.length)
    (hlt : vals.length < 500) (hnan : vals.any F64.isNaN = false)
    (hnone : ∀ j, 1 ≤ j → j < vals.length → ¬ Crosses (pctRhs vals.length q) j) :
    pctQuery vals q = .ok (sortF vals).getLast? := by
  have hr : IsRank vals.length (pctRhs vals.length q) (vals.length - 1) :=
    Or.inr ⟨by omega, hnone⟩
  rw [pctQuery_eq vals q hpos hlt hnan, isRank_unique (pctIdx_isRank _ q hpos) hr,
    List.getLast?_eq_getElem?, sorted_length]

/-- **the percentile is one of the observed values** (C01) — never an interpolation between two
samples, never `none` -/
theorem pct_observed (vals : List F64) (q : F64) (hpos : 0 < vals.length)
    (hlt : vals.length < 500) (hnan : vals.any F64.isNaN = false) :
    ∃ v, v ∈ vals ∧ pctQuery vals q = .ok (some v) := by
  obtain ⟨k, hk, he, _⟩ := pct_rank vals q hpos hlt hnan
  exact ⟨_, (sorted_mem vals _).1 (List.getElem_mem hk), he⟩

/-- **rank tolerance 0** (C01), independent of any arrangement: if `k` is the position of the rank
rule, the answer `v` has at most `k` samples strictly below it and more than `k` samples at or
below it — `v` is a sample of rank exactly `k + 1` -/
theorem pct_rank_count (vals : List F64) (q : F64) (hpos : 0 < vals.length)
    (hlt : vals.length < 500) (hnan : vals.any F64.isNaN = false) :
    ∃ k v, IsRank vals.length (pctRhs vals.length q) k ∧ pctQuery vals q = .ok (some v) ∧
      v ∈ vals ∧ vals.countP (fun y => F64.lt y v) ≤ k ∧ k < vals.countP (fun y => F64.le y v) := by
  obtain ⟨k, hk, he, hr⟩ := pct_rank vals q hpos hlt hnan
  have hc := sorted_count (sortF vals) (sorted_noNaN vals hnan) (sorted_sorted vals hnan) k hk
  rw [(sorted_perm vals).countP_eq, (sorted_perm vals).countP_eq] at hc
  exact ⟨k, _, hr, he, (sorted_mem vals _).1 (List.getElem_mem hk), hc⟩

/-! ### C14: permuting the samples -/

/-- **order-independence up to IEEE `==`** (C14; tolerance 0 below 500 samples): both arrangements
answer with an observed value, and the two answers compare equal.  They need not be the same
datum: see `pct_perm_exact_counterexample`. -/
theorem pct_perm {vals₁ vals₂ : List F64} (q : F64) (hp : vals₁.Perm vals₂)
    (hpos : 0 < vals₁.length) (hlt : vals₁.length < 500) (hnan : vals₁.any F64.isNaN = false) :
    ∃ v₁ v₂, pctQuery vals₁ q = .ok (some v₁) ∧ pctQuery vals₂ q = .ok (some v₂) ∧
      v₁ ∈ vals₁ ∧ v₂ ∈ vals₁ ∧ F64.feq v₁ v₂ = true := by
  have hn₁ := noNaN_of_any hnan
  have hnan₂ : vals₂.any F64.isNaN = false :=
    any_of_noNaN (fun x hx => hn₁ x (hp.mem_iff.2 hx))
  have hlen := hp.length_eq
  have hk₁ : pctIdx vals₁.length q < (sortF vals₁).length := by
    rw [sorted_length]; exact pctIdx_lt _ _ hpos
  have hk₂ : pctIdx vals₁.length q < (sortF vals₂).length := by
    rw [sorted_length, ← hlen]; exact pctIdx_lt _ _ hpos
  refine ⟨(sortF vals₁)[pctIdx vals₁.length q], (sortF vals₂)[pctIdx vals₁.length q], ?_, ?_,
    (sorted_mem _ _).1 (List.getElem_mem hk₁),
    hp.mem_iff.2 ((sorted_mem _ _).1 (List.getElem_mem hk₂)), ?_⟩
  · rw [pctQuery_eq vals₁ q hpos hlt hnan, List.getElem?_eq_getElem hk₁]
  · rw [pctQuery_eq vals₂ q (by omega) (by omega) hnan₂, ← hlen, List.getElem?_eq_getElem hk₂]
  · exact sorted_getElem_feq (((sorted_perm vals₁).trans hp).trans (sorted_perm vals₂).symm)
      (sorted_noNaN vals₁ hnan) (sorted_sorted vals₁ hnan) (sorted_sorted vals₂ hnan₂) _ hk₁ hk₂

/-- two outcomes of `pctQuery` agree: the same outcome, or two values that compare `==` -/
def PctAgree : Outcome (Option F64) → Outcome (Option F64) → Prop
  | .ok (some a), .ok (some b) => F64.feq a b = true
  | .ok none, .ok none => True
  | .unmodelled w, .unmodelled w' => w = w'
  | _, _ => False

/-- the same without any side condition: every outcome of the model (no samples, ≥ 500 samples,
NaN among the samples, or a value) is order-independent in the sense of `PctAgree` -/
theorem pct_perm_all {vals₁ vals₂ : List F64} (q : F64) (hp : vals₁.Perm vals₂) :
    PctAgree (pctQuery vals₁ q) (pctQuery vals₂ q) := by
  have hlen := hp.length_eq
  by_cases h0 : vals₁.length = 0
  · have e1 : vals₁ = [] := List.eq_nil_of_length_eq_zero h0
    have e2 : vals₂ = [] := List.eq_nil_of_length_eq_zero (by omega)
    subst e1 e2; simp [pct_empty, PctAgree]
  by_cases h5 : 500 ≤ vals₁.length
  · rw [pct_unmodelled_500 vals₁ q h5, pct_unmodelled_500 vals₂ q (by omega)]; simp [PctAgree]
  cases hnan : vals₁.any F64.isNaN with
  | true =>
    have hnan₂ : vals₂.any F64.isNaN = true := by
      rw [List.any_eq_true] at hnan ⊢
      obtain ⟨x, hx, h⟩ := hnan
      exact ⟨x, hp.mem_iff.1 hx, h⟩
    rw [pct_unmodelled_nan vals₁ q (by omega) hnan, pct_unmodelled_nan vals₂ q (by omega) hnan₂]
    simp [PctAgree]
  | false =>
    obtain ⟨v₁, v₂, e₁, e₂, _, _, hf⟩ := pct_perm q hp (by omega) (by omega) hnan
    rw [e₁, e₂]; exact hf

/-- **the exact form, where it holds**: if samples that compare `==` are identical (no `+0.0`
together with `-0.0`, no two representations of one value), permuting the samples does not change
the outcome at all — any length, NaN or not.
`_partial`: the hypothesis `hanti` cannot be dropped (`pct_perm_exact_counterexample`). -/
theorem pct_perm_exact_partial {vals₁ vals₂ : List F64} (q : F64) (hp : vals₁.Perm vals₂)
    (hanti : ∀ x ∈ vals₁, ∀ y ∈ vals₁, F64.feq x y = true → x = y) :
    pctQuery vals₁ q = pctQuery vals₂ q := by
  have hlen := hp.length_eq
  by_cases h0 : vals₁.length = 0
  · have e1 : vals₁ = [] := List.eq_nil_of_length_eq_zero h0
    have e2 : vals₂ = [] := List.eq_nil_of_length_eq_zero (by omega)
    subst e1 e2; rfl
  by_cases h5 : 500 ≤ vals₁.length
  · rw [pct_unmodelled_500 vals₁ q h5, pct_unmodelled_500 vals₂ q (by omega)]
  cases hnan : vals₁.any F64.isNaN with
  | true =>
    have hnan₂ : vals₂.any F64.isNaN = true := by
      rw [List.any_eq_true] at hnan ⊢
      obtain ⟨x, hx, h⟩ := hnan
      exact ⟨x, hp.mem_iff.1 hx, h⟩
    rw [pct_unmodelled_nan vals₁ q (by omega) hnan, pct_unmodelled_nan vals₂ q (by omega) hnan₂]
  | false =>
    obtain ⟨v₁, v₂, e₁, e₂, m₁, m₂, hf⟩ := pct_perm q hp (by omega) (by omega) hnan
    rw [e₁, e₂, hanti v₁ m₁ v₂ m₂ hf]

/-- a checkable sufficient condition for `hanti`: canonical doubles (everything `ofBits`
produces) and at most one of the two zeros.
`_partial`: same reason. -/
theorem pct_perm_exact_canon_partial {vals₁ vals₂ : List F64} (q : F64) (hp : vals₁.Perm vals₂)
    (hc : ∀ x ∈ vals₁, Canon x)
    (hz : ∀ x ∈ vals₁, ∀ y ∈ vals₁, x.isZero = true → y.isZero = true → x = y) :
    pctQuery vals₁ q = pctQuery vals₂ q := by
  cases hnan : vals₁.any F64.isNaN with
  | true =>
    -- with a NaN both sides are `.unmodelled` (or ≥ 500): no order fact needed
    have hlen := hp.length_eq
    have hnan₂ : vals₂.any F64.isNaN = true := by
      rw [List.any_eq_true] at hnan ⊢
      obtain ⟨x, hx, h⟩ := hnan
      exact ⟨x, hp.mem_iff.1 hx, h⟩
    by_cases h5 : 500 ≤ vals₁.length
    · rw [pct_unmodelled_500 vals₁ q h5, pct_unmodelled_500 vals₂ q (by omega)]
    · rw [pct_unmodelled_nan vals₁ q (by omega) hnan, pct_unmodelled_nan vals₂ q (by omega) hnan₂]
  | false =>
    have hn := noNaN_of_any hnan
    have ne_nan : ∀ x ∈ vals₁, x ≠ nan := by
      intro x hx h; have := hn x hx; rw [h] at this; exact absurd this (by decide)
    refine pct_perm_exact_partial q hp (fun x hx y hy h => ?_)
    rw [feq_eq_ocmp (hn x hx) (hn y hy)] at h
    rcases canon_eq_of_ocmp_eq (hc x hx) (hc y hy) (ne_nan x hx) (ne_nan y hy) h with h' | h'
    · exact h'
    · exact hz x hx y hy h'.1 h'.2

/-! ### concrete quantiles -/

/-- 0.5, 0.99, 0.01 as the doubles the literals denote -/
def qHalf : F64 := ofDecimal false 5 (-1)
def q99 : F64 := ofDecimal false 99 (-2)
def q01 : F64 := ofDecimal false 1 (-2)

example : qHalf = fin false two52 (-53) ∧ q99 = fin false 8917127262193582 (-53) ∧
    q01 = fin false 5764607523034235 (-59) := by decide +kernel

/-- the position for a given sample count and quantile, as a rewriting rule -/
theorem pct_at (vals : List F64) (q : F64) (n k : Nat) (hlen : vals.length = n)
    (hpos : 0 < n) (hlt : n < 500) (hnan : vals.any F64.isNaN = false) (hk : pctIdx n q = k) :
    pctQuery vals q = .ok (sortF vals)[k]? := by
  subst hlen hk
  exact pctQuery_eq vals q hpos hlt hnan

/-- the median of 1, 2, 3, 4 samples is the 1st, 1st, 2nd, 2nd smallest (the LOWER median) -/
theorem pct_median_1 (vals : List F64) (h : vals.length = 1) (hnan : vals.any F64.isNaN = false) :
    pctQuery vals qHalf = .ok (sortF vals)[0]? :=
  pct_at vals qHalf 1 0 h (by decide) (by decide) hnan (by decide +kernel)

theorem pct_median_2 (vals : List F64) (h : vals.length = 2) (hnan : vals.any F64.isNaN = false) :
    pctQuery vals qHalf = .ok (sortF vals)[0]? :=
  pct_at vals qHalf 2 0 h (by decide) (by decide) hnan (by decide +kernel)

theorem pct_median_3 (vals : List F64) (h : vals.length = 3) (hnan : vals.any F64.isNaN = false) :
    pctQuery vals qHalf = .ok (sortF vals)[1]? :=
  pct_at vals qHalf 3 1 h (by decide) (by decide) hnan (by decide +kernel)

theorem pct_median_4 (vals : List F64) (h : vals.length = 4) (hnan : vals.any F64.isNaN = false) :
    pctQuery vals qHalf = .ok (sortF vals)[1]? :=
  pct_at vals qHalf 4 1 h (by decide) (by decide) hnan (by decide +kernel)

/-- on 100 samples: p99 is the 99th smallest, p50 the 50th, p01 the 1st -/
theorem pct_p99_100 (vals : List F64) (h : vals.length = 100) (hnan : vals.any F64.isNaN = false) :
    pctQuery vals q99 = .ok (sortF vals)[98]? :=
  pct_at vals q99 100 98 h (by decide) (by decide) hnan (by decide +kernel)

theorem pct_p50_100 (vals : List F64) (h : vals.length = 100) (hnan : vals.any F64.isNaN = false) :
    pctQuery vals qHalf = .ok (sortF vals)[49]? :=
  pct_at vals qHalf 100 49 h (by decide) (by decide) hnan (by decide +kernel)

theorem pct_p01_100 (vals : List F64) (h : vals.length = 100) (hnan : vals.any F64.isNaN = false) :
    pctQuery vals q01 = .ok (sortF vals)[0]? :=
  pct_at vals q01 100 0 h (by decide) (by decide) hnan (by decide +kernel)

/-- the right-hand sides of the scan in those cases: 1, 1.5, 2, 2.5 and 99.5 / 50.5 / 1.5 -/
example : pctRhs 1 qHalf = ofInt 1 ∧ pctRhs 2 qHalf = fin false 6755399441055744 (-52) ∧
    pctRhs 3 qHalf = ofInt 2 ∧ pctRhs 4 qHalf = fin false 5629499534213120 (-51) ∧
    pctRhs 100 q99 = fin false 7001690045677568 (-46) ∧
    pctRhs 100 qHalf = fin false 7107243161944064 (-47) ∧
    pctRhs 100 q01 = fin false 6755399441055744 (-52) := by decide +kernel

/-- literal lists -/
theorem pct_median_examples :
    pctQuery [ofInt 7] qHalf = .ok (some (ofInt 7)) ∧
    pctQuery [ofInt 7, ofInt 3] qHalf = .ok (some (ofInt 3)) ∧
    pctQuery [ofInt 7, ofInt 3, ofInt 5] qHalf = .ok (some (ofInt 5)) ∧
    pctQuery [ofInt 7, ofInt 3, ofInt 9, ofInt 5] qHalf = .ok (some (ofInt 5)) ∧
    pctQuery [inf false, ofInt 3, inf true] qHalf = .ok (some (ofInt 3)) := by
  refine ⟨?_, ?_, ?_, ?_, ?_⟩
  · rw [pct_median_1 _ rfl (by decide)]; exact congrArg Outcome.ok (by decide +kernel)
  · rw [pct_median_2 _ rfl (by decide)]; exact congrArg Outcome.ok (by decide +kernel)
  · rw [pct_median_3 _ rfl (by decide)]; exact congrArg Outcome.ok (by decide +kernel)
  · rw [pct_median_4 _ rfl (by decide)]; exact congrArg Outcome.ok (by decide +kernel)
  · rw [pct_median_3 _ rfl (by decide)]; exact congrArg Outcome.ok (by decide +kernel)

/-- 0, 37, 74, 11, … : the residues `37·i mod 100`, a shuffled `0..99` -/
def shuffled100 : List F64 := (List.range 100).map (fun i => ofInt ((37 * i % 100 : Nat) : Int))

theorem pct_100_examples :
    pctQuery shuffled100 q99 = .ok (some (ofInt 98)) ∧
    pctQuery shuffled100 qHalf = .ok (some (ofInt 49)) ∧
    pctQuery shuffled100 q01 = .ok (some (ofInt 0)) := by
  have hl : shuffled100.length = 100 := by decide +kernel
  have hn : shuffled100.any F64.isNaN = false := by decide +kernel
  refine ⟨?_, ?_, ?_⟩
  · rw [pct_p99_100 _ hl hn]; exact congrArg Outcome.ok (by decide +kernel)
  · rw [pct_p50_100 _ hl hn]; exact congrArg Outcome.ok (by decide +kernel)
  · rw [pct_p01_100 _ hl hn]; exact congrArg Outcome.ok (by decide +kernel)

/-! ### the exact form of C14 fails on the two zeros -/

/-- `[+0.0, -0.0]` and `[-0.0, +0.0]` are permutations of each other, NaN-free, of length 2, and
their medians are `-0.0` and `+0.0`: equal under `==`, different data (and different text once
printed).  `insertSorted` puts a new sample BEFORE the stored samples it is `<=` to, so the zero
that arrived last comes first. -/
theorem pct_perm_exact_counterexample :
    [zero, negZero].Perm [negZero, zero] ∧
    pctQuery [zero, negZero] qHalf = .ok (some negZero) ∧
    pctQuery [negZero, zero] qHalf = .ok (some zero) ∧
    pctQuery [zero, negZero] qHalf ≠ pctQuery [negZero, zero] qHalf ∧
    F64.feq negZero zero = true := by
  have e1 : pctQuery [zero, negZero] qHalf = .ok (some negZero) := by
    rw [pct_median_2 _ rfl (by decide)]; exact congrArg Outcome.ok (by decide +kernel)
  have e2 : pctQuery [negZero, zero] qHalf = .ok (some zero) := by
    rw [pct_median_2 _ rfl (by decide)]; exact congrArg Outcome.ok (by decide +kernel)
  refine ⟨List.Perm.swap _ _ _, e1, e2, ?_, by decide +kernel⟩
  rw [e1, e2]
  intro h
  injection h with h
  injection h with h
  exact absurd h (by decide)

/-! ### non-vacuity of the hypotheses -/

/-- the general theorems apply to a list with ties, both zeros, infinities and a subnormal … -/
example : let vals := [ofInt 3, zero, inf false, negZero, fin false 1 eMin, ofInt 3, inf true]
    0 < vals.length ∧ vals.length < 500 ∧ vals.any F64.isNaN = false := by decide

/-- … `pct_perm_exact_canon_partial` to canonical samples with one kind of zero … -/
example : let vals := [ofInt 3, zero, inf false, zero, fin false 1 eMin, ofInt 3]
    (∀ x ∈ vals, Canon x) ∧
    (∀ x ∈ vals, ∀ y ∈ vals, x.isZero = true → y.isZero = true → x = y) := by decide +kernel

/-- … and `IsRank` has both kinds of witnesses: a crossing (q = 0.5, n = 4: position 1) and the
fall-through to the last sample (q = +inf: nothing crosses) -/
example : IsRank 4 (pctRhs 4 qHalf) 1 ∧ IsRank 4 (pctRhs 4 (inf false)) 3 := by
  have h1 := pctIdx_isRank 4 qHalf (by decide)
  have h2 := pctIdx_isRank 4 (inf false) (by decide)
  rw [show pctIdx 4 qHalf = 1 by decide +kernel] at h1
  rw [show pctIdx 4 (inf false) = 3 by decide +kernel] at h2
  exact ⟨h1, h2⟩

end Ag.C01pct
