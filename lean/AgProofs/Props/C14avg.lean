/-
C14 (averages combine weighted by count)

The accumulator of `avg` is the pair (running sum, number of numeric values); the printed average
is `sum / count`.  C14more.lean already has the two facts (`C14_avg_append`: the count of `A ++ B`
is exactly `cntA + cntB` for all data and the sum is the running sum continued;
`C14_avg_append_int`: for integer data the sum is exactly `sumA + sumB`).  Here they are restated
under the names of the property's clause, with the one thing that was not said:

* `C14_avg_count_merge` — the counts add, for all data;
* `C14_avg_merge_int` — integer data (`IntData`: Σ|i| ≤ 2^53): the printed average of `A ++ B` is
  `(sumA + sumB) / (cntA + cntB)`.  This IS "the two averages combined weighted by their counts",
  computed from the exact sums; it is NOT `(avgA·cntA + avgB·cntB) / (cntA + cntB)` computed from
  the two PRINTED averages, because `avgA·cntA` re-rounds:
* `C14_avg_merge_float_counterexample` — `A`: 47 numeric values summing to 6, `B`: one value 1.
  The average of `A ++ B` is `7/48`; recombining the two printed averages gives a different double.
  So a merge of printed averages is correct only within floating-point tolerance, as the property
  says; the merge of (sum, count) pairs is exact on integer data.
-/
import AgProofs.Props.C14more

namespace Ag.C14
open Ag.C01 Ag.F64

/-- **the counts add** — for all data, exactly -/
theorem C14_avg_count_merge (ext : Ext) (e : Expr) (A B : List Fields) (a b ab : Acc)
    (ha : foldStep ext (.avg e) (.avg F64.zero 0) A = some a)
    (hb : foldStep ext (.avg e) (.avg F64.zero 0) B = some b)
    (hab : foldStep ext (.avg e) (.avg F64.zero 0) (A ++ B) = some ab) :
    ∃ sA nA sB nB sAB, a = .avg sA nA ∧ b = .avg sB nB ∧ ab = .avg sAB (nA + nB) ∧
      nA = (numeric ext e A).length ∧ nB = (numeric ext e B).length := by
  obtain ⟨sA, nA, sB, nB, h1, h2, h3, h4, _, h6⟩ := C14_avg_append ext e A B a b ab ha hb hab
  exact ⟨sA, nA, sB, nB, _, h1, h2, h6, h3, h4⟩

/-- **C14 (averages combine weighted by count), integer data.**  With `(sumA, cntA)` and
`(sumB, cntB)` the accumulators of the two parts: the accumulator of `A ++ B` is
`(sumA + sumB, cntA + cntB)` — the double addition is exact — and the printed average is
`(sumA + sumB) / (cntA + cntB)`, one division, no other rounding.  (Same statement as
`C14_avg_append_int`.) -/
theorem C14_avg_merge_int (ext : Ext) (e : Expr) (A B : List Fields) (a b ab : Acc)
    (hd : IntData (numeric ext e (A ++ B)))
    (ha : foldStep ext (.avg e) (.avg F64.zero 0) A = some a)
    (hb : foldStep ext (.avg e) (.avg F64.zero 0) B = some b)
    (hab : foldStep ext (.avg e) (.avg F64.zero 0) (A ++ B) = some ab) :
    ∃ sA nA sB nB, a = .avg sA nA ∧ b = .avg sB nB ∧ ab = .avg (F64.add sA sB) (nA + nB) ∧
      (AggDef.avg e).emit ab =
        .ok (Value.fromFloat (F64.div (F64.add sA sB) (F64.ofInt (nA + nB)))) :=
  C14_avg_append_int ext e A B a b ab hd ha hb hab

/-- the average of `A ++ B` from the exact sums -/
def mergedAvg (sA nA sB nB : Int) : F64 := F64.div (F64.add (ofInt sA) (ofInt sB)) (ofInt (nA + nB))

/-- … and recombined from the two printed averages, weighted by the counts -/
def weightedAvg (sA nA sB nB : Int) : F64 :=
  F64.div (F64.add (F64.mul (F64.div (ofInt sA) (ofInt nA)) (ofInt nA))
                   (F64.mul (F64.div (ofInt sB) (ofInt nB)) (ofInt nB))) (ofInt (nA + nB))

/-- **recombining printed averages is not exact**, even on integer data: sums 6 and 1, counts 47
and 1 — `(6/47)·47` is not 6 in double arithmetic -/
theorem C14_avg_merge_float_counterexample :
    mergedAvg 6 47 1 1 ≠ weightedAvg 6 47 1 1 ∧
    F64.mul (F64.div (ofInt 6) (ofInt 47)) (ofInt 47) ≠ ofInt 6 := by
  decide +kernel

end Ag.C14

#print axioms Ag.C14.C14_avg_count_merge
#print axioms Ag.C14.C14_avg_merge_int
#print axioms Ag.C14.C14_avg_merge_float_counterexample
