/-
C03 (execution order)  Pipelined execution equals stage-by-stage execution.

`Pipeline::process` (src/lib.rs:280-333) threads every record through ALL row operators at once
(`proc_preagg`) and, at end of input, drains each operator's buffered rows through the operators
after it.  The theorems below show that this is the same as running the operators one after the
other, each on the COMPLETE output of its predecessor: no stage is hoisted, skipped or applied
twice.  Model: `procPreagg`, `feed`, `drainLoop`, `runPre` (AgModel/Pipeline.lean), `stepOp`,
`drainOp`, `RowOp.init` (AgModel/Ops.lean).
-/
import AgModel.Pipeline

namespace Ag.C03

/-- one operator applied to a COMPLETE list of rows: what it emits while reading, then its drain -/
def runStage (ext : Ext) (op : RowOp) (rows : List Record) : RunR (List Record × Nat) :=
  match feed ext [op] [op.init] rows [] 0 with
  | .ok ([st], outs, e) => .ok (outs ++ drainOp st, e)
  | .ok _ => .panic "state shape"
  | .panic p => .panic p
  | .unmodelled w => .unmodelled w

/-- stage by stage: each operator consumes the complete output of the previous one -/
def seqRun (ext : Ext) : List RowOp → List Record → RunR (List Record × Nat)
  | [], rows => .ok (rows, 0)
  | op :: ops, rows =>
    match runStage ext op rows with
    | .ok (mid, e1) => (match seqRun ext ops mid with
        | .ok (outs, e2) => .ok (outs, e1 + e2)
        | x => x)
    | .panic p => .panic p
    | .unmodelled w => .unmodelled w

/-- what the reader loop does: feed everything through all operators at once, then the drain loop -/
def pipelined (ext : Ext) (ops : List RowOp) (rows : List Record) : RunR (List Record × Nat) :=
  match feed ext ops (ops.map RowOp.init) rows [] 0 with
  | .ok (sts, outs, e) => (match drainLoop ext ops sts [] 0 with
      | .ok (dr, e') => .ok (outs ++ dr, e + e')
      | .panic p => .panic p
      | .unmodelled w => .unmodelled w)
  | .panic p => .panic p
  | .unmodelled w => .unmodelled w

/-! ### helpers: results shifted by a prefix of outputs and a number of error lines -/

/-- prepend outputs `pfx` and add `e` error lines to a `feed` result -/
def pre (pfx : List Record) (e : Nat) :
    RunR (List OpState × List Record × Nat) → RunR (List OpState × List Record × Nat)
  | .ok (s, o, e') => .ok (s, pfx ++ o, e + e')
  | .panic p => .panic p
  | .unmodelled w => .unmodelled w

/-- same for a `drainLoop` result -/
def preD (pfx : List Record) (e : Nat) : RunR (List Record × Nat) → RunR (List Record × Nat)
  | .ok (o, e') => .ok (pfx ++ o, e + e')
  | .panic p => .panic p
  | .unmodelled w => .unmodelled w

/-- put the head operator's final state in front and add its error lines -/
def lift1 (st : OpState) (e : Nat) :
    RunR (List OpState × List Record × Nat) → RunR (List OpState × List Record × Nat)
  | .ok (s, o, e') => .ok (st :: s, o, e + e')
  | .panic p => .panic p
  | .unmodelled w => .unmodelled w

/-- (L0) the accumulators of `feed` are a prefix of the outputs / an offset of the error count -/
theorem feed_acc (ext : Ext) (ops : List RowOp) (rows : List Record) :
    ∀ (sts : List OpState) (acc : List Record) (e : Nat),
      feed ext ops sts rows acc e = pre acc.reverse e (feed ext ops sts rows [] 0) := by
  induction rows with
  | nil => intro sts acc e; simp [feed, pre]
  | cons r rs ih =>
    intro sts acc e
    simp only [feed]
    cases hp : procPreagg ext ops sts r with
    | ok t =>
      obtain ⟨sts', o, e'⟩ := t
      cases o with
      | none =>
        simp only []
        rw [ih sts' acc (e + e'), ih sts' [] (0 + e')]
        cases feed ext ops sts' rs [] 0 with
        | ok q => obtain ⟨s, o, e2⟩ := q; simp [pre, Nat.add_assoc]
        | panic p => simp [pre]
        | unmodelled w => simp [pre]
      | some out =>
        simp only []
        rw [ih sts' (out :: acc) (e + e'), ih sts' [out] (0 + e')]
        cases feed ext ops sts' rs [] 0 with
        | ok q => obtain ⟨s, o, e2⟩ := q; simp [pre, Nat.add_assoc]
        | panic p => simp [pre]
        | unmodelled w => simp [pre]
    | panic p => simp [pre]
    | unmodelled w => simp [pre]

/-- one step of `feed`, without accumulators -/
theorem feed_cons (ext : Ext) (ops : List RowOp) (sts : List OpState) (r : Record)
    (rs : List Record) :
    feed ext ops sts (r :: rs) [] 0 =
      match procPreagg ext ops sts r with
      | .ok (sts', o, e') => pre o.toList e' (feed ext ops sts' rs [] 0)
      | .panic p => .panic p
      | .unmodelled w => .unmodelled w := by
  simp only [feed]
  cases hp : procPreagg ext ops sts r with
  | ok t =>
    obtain ⟨sts', o, e'⟩ := t
    cases o with
    | none => simp only []; rw [feed_acc]; simp
    | some out => simp only []; rw [feed_acc]; simp
  | panic p => rfl
  | unmodelled w => rfl

theorem feed_nil (ext : Ext) (ops : List RowOp) (sts : List OpState) :
    feed ext ops sts [] [] 0 = .ok (sts, [], 0) := by
  simp [feed]

/-- (L2) feeding `A ++ B` = feeding `A`, then `B` from the states reached -/
theorem feed_append (ext : Ext) (ops : List RowOp) (A B : List Record) :
    ∀ (sts : List OpState),
      feed ext ops sts (A ++ B) [] 0 =
        match feed ext ops sts A [] 0 with
        | .ok (sts1, o1, e1) => pre o1 e1 (feed ext ops sts1 B [] 0)
        | .panic p => .panic p
        | .unmodelled w => .unmodelled w := by
  induction A with
  | nil =>
    intro sts
    simp only [List.nil_append, feed_nil]
    cases feed ext ops sts B [] 0 with
    | ok q => obtain ⟨s, o, e⟩ := q; simp [pre]
    | panic p => simp [pre]
    | unmodelled w => simp [pre]
  | cons r rs ih =>
    intro sts
    simp only [List.cons_append, feed_cons]
    cases hp : procPreagg ext ops sts r with
    | ok t =>
      obtain ⟨sts', o, e'⟩ := t
      simp only []
      rw [ih sts']
      cases feed ext ops sts' rs [] 0 with
      | ok q =>
        obtain ⟨s1, o1, e1⟩ := q
        simp only [pre]
        cases feed ext ops s1 B [] 0 with
        | ok q2 => obtain ⟨s2, o2, e2⟩ := q2; simp [Nat.add_assoc]
        | panic p => simp
        | unmodelled w => simp
      | panic p => simp [pre]
      | unmodelled w => simp [pre]
    | panic p => rfl
    | unmodelled w => rfl

/-- the accumulators of `drainLoop` are a prefix / an offset -/
theorem drainLoop_acc (ext : Ext) (ops : List RowOp) :
    ∀ (sts : List OpState) (acc : List Record) (e : Nat),
      drainLoop ext ops sts acc e = preD acc e (drainLoop ext ops sts [] 0) := by
  induction ops with
  | nil => intro sts acc e; simp [drainLoop, preD]
  | cons op ops ih =>
    intro sts acc e
    cases sts with
    | nil => simp [drainLoop, preD]
    | cons st sts =>
      simp only [drainLoop]
      cases feed ext ops sts (drainOp st) [] 0 with
      | ok t =>
        obtain ⟨sts', outs, e'⟩ := t
        simp only []
        rw [ih sts' (acc ++ outs) (e + e'), ih sts' ([] ++ outs) (0 + e')]
        cases drainLoop ext ops sts' [] 0 with
        | ok q => obtain ⟨o, e2⟩ := q; simp [preD, Nat.add_assoc]
        | panic p => simp [preD]
        | unmodelled w => simp [preD]
      | panic p => simp [preD]
      | unmodelled w => simp [preD]

/-- (L3) the drain loop at the head operator: its buffered rows go through the operators after
it (and only those), then the rest of the pipeline is drained -/
theorem drainLoop_cons (ext : Ext) (op : RowOp) (ops : List RowOp) (st : OpState)
    (sts : List OpState) :
    drainLoop ext (op :: ops) (st :: sts) [] 0 =
      match feed ext ops sts (drainOp st) [] 0 with
      | .ok (sts', outs, e') => preD outs e' (drainLoop ext ops sts' [] 0)
      | .panic p => .panic p
      | .unmodelled w => .unmodelled w := by
  simp only [drainLoop]
  cases feed ext ops sts (drainOp st) [] 0 with
  | ok t => obtain ⟨sts', outs, e'⟩ := t; simp only []; rw [drainLoop_acc]; simp
  | panic p => rfl
  | unmodelled w => rfl

/-! ### (L1) splitting off the head operator -/

/-- **(L1)** if the head operator alone processes `rows` (from state `st`) without a panic,
emitting `mids`, then the whole pipeline on `rows` does what the remaining operators do on `mids`
— same outputs, same failure if any — with the head's final state and error lines added. -/
theorem feed_split (ext : Ext) (op : RowOp) (ops : List RowOp) (rows : List Record) :
    ∀ (st : OpState) (sts : List OpState) (st' : OpState) (mids : List Record) (e1 : Nat),
      feed ext [op] [st] rows [] 0 = .ok ([st'], mids, e1) →
      feed ext (op :: ops) (st :: sts) rows [] 0 = lift1 st' e1 (feed ext ops sts mids [] 0) := by
  induction rows with
  | nil =>
    intro st sts st' mids e1 h
    simp only [feed_nil] at h ⊢
    injection h with h
    simp only [Prod.mk.injEq, List.cons.injEq, and_true] at h
    obtain ⟨rfl, rfl, rfl⟩ := h
    simp [feed_nil, lift1]
  | cons r rs ih =>
    intro st sts st' mids e1 h
    rw [feed_cons] at h ⊢
    rcases hs : stepOp ext op st r with ⟨st1, res⟩
    simp only [procPreagg, hs] at h ⊢
    cases res with
    | ok o =>
      cases o with
      | none =>
        simp only [] at h ⊢
        cases hf : feed ext [op] [st1] rs [] 0 with
        | ok t =>
          obtain ⟨S, m0, e10⟩ := t
          simp only [hf, pre, Option.toList, List.nil_append, RunR.ok.injEq, Prod.mk.injEq] at h
          obtain ⟨rfl, rfl, rfl⟩ := h
          rw [ih st1 sts st' m0 e10 hf]
          cases feed ext ops sts m0 [] 0 with
          | ok q => obtain ⟨s, o, e2⟩ := q; simp [pre, lift1]
          | panic p => simp [pre, lift1]
          | unmodelled w => simp [pre, lift1]
        | panic p => simp [hf, pre] at h
        | unmodelled w => simp [hf, pre] at h
      | some r' =>
        simp only [] at h ⊢
        cases hf : feed ext [op] [st1] rs [] 0 with
        | ok t =>
          obtain ⟨S, m0, e10⟩ := t
          simp only [hf, pre, Option.toList, RunR.ok.injEq, Prod.mk.injEq] at h
          obtain ⟨rfl, rfl, rfl⟩ := h
          simp only [List.cons_append, List.nil_append]
          rw [feed_cons ext ops sts r']
          cases hp : procPreagg ext ops sts r' with
          | ok t2 =>
            obtain ⟨sts1, o, ea⟩ := t2
            simp only []
            rw [ih st1 sts1 st' m0 e10 hf]
            cases feed ext ops sts1 m0 [] 0 with
            | ok q =>
              obtain ⟨s, o2, e2⟩ := q
              simp only [pre, lift1, RunR.ok.injEq, Prod.mk.injEq, true_and]
              omega
            | panic p => simp [pre, lift1]
            | unmodelled w => simp [pre, lift1]
          | panic p => simp [lift1]
          | unmodelled w => simp [lift1]
        | panic p => simp [hf, pre] at h
        | unmodelled w => simp [hf, pre] at h
    | err k =>
      simp only [] at h ⊢
      cases hf : feed ext [op] [st1] rs [] 0 with
      | ok t =>
        obtain ⟨S, m0, e10⟩ := t
        simp only [hf, pre, Option.toList, List.nil_append, RunR.ok.injEq, Prod.mk.injEq] at h
        obtain ⟨rfl, rfl, rfl⟩ := h
        rw [ih st1 sts st' m0 e10 hf]
        cases feed ext ops sts m0 [] 0 with
        | ok q => obtain ⟨s, o, e2⟩ := q; simp [pre, lift1, Nat.add_assoc]
        | panic p => simp [pre, lift1]
        | unmodelled w => simp [pre, lift1]
      | panic p => simp [hf, pre] at h
      | unmodelled w => simp [hf, pre] at h
    | panic p => simp at h
    | unmodelled w => simp at h

/-- (L1, converse part) if the whole pipeline gets through `rows`, so does its head operator
alone, and it ends in a single state -/
theorem feed_head_ok (ext : Ext) (op : RowOp) (ops : List RowOp) (rows : List Record) :
    ∀ (st : OpState) (sts : List OpState) (R : List OpState × List Record × Nat),
      feed ext (op :: ops) (st :: sts) rows [] 0 = .ok R →
      ∃ st' mids e1, feed ext [op] [st] rows [] 0 = .ok ([st'], mids, e1) := by
  induction rows with
  | nil => intro st sts R _; exact ⟨st, [], 0, feed_nil ext [op] [st]⟩
  | cons r rs ih =>
    intro st sts R h
    rw [feed_cons] at h ⊢
    rcases hs : stepOp ext op st r with ⟨st1, res⟩
    simp only [procPreagg, hs] at h ⊢
    cases res with
    | ok o =>
      cases o with
      | none =>
        simp only [] at h ⊢
        cases hf : feed ext (op :: ops) (st1 :: sts) rs [] 0 with
        | ok t =>
          obtain ⟨st', m, e1, hm⟩ := ih st1 sts t hf
          exact ⟨st', m, 0 + e1, by simp [hm, pre]⟩
        | panic p => simp [hf, pre] at h
        | unmodelled w => simp [hf, pre] at h
      | some r' =>
        simp only [] at h ⊢
        cases hp : procPreagg ext ops sts r' with
        | ok t2 =>
          obtain ⟨sts1, o, ea⟩ := t2
          simp only [hp] at h
          cases hf : feed ext (op :: ops) (st1 :: sts1) rs [] 0 with
          | ok t =>
            obtain ⟨st', m, e1, hm⟩ := ih st1 sts1 t hf
            exact ⟨st', r' :: m, 0 + e1, by simp [hm, pre]⟩
          | panic p => simp [hf, pre] at h
          | unmodelled w => simp [hf, pre] at h
        | panic p => simp [hp] at h
        | unmodelled w => simp [hp] at h
    | err k =>
      simp only [] at h ⊢
      cases hf : feed ext (op :: ops) (st1 :: sts) rs [] 0 with
      | ok t =>
        obtain ⟨st', m, e1, hm⟩ := ih st1 sts t hf
        exact ⟨st', m, 1 + e1, by simp [hm, pre]⟩
      | panic p => simp [hf, pre] at h
      | unmodelled w => simp [hf, pre] at h
    | panic p => simp at h
    | unmodelled w => simp at h

/-! ### the main step: peel the first stage off a pipelined run -/

/-- when the first operator alone gets through `rows` (emitting `mids`, ending in state `st'`),
the pipelined run of `op :: ops` on `rows` IS the pipelined run of `ops` on the first stage's
complete output `mids ++ drainOp st'` — including which failure is hit, if any. During the read
phase the later operators see `mids`, during the drain phase `drainOp st'`: by `feed_append`
that is the same as seeing both as one list. -/
theorem pipelined_cons (ext : Ext) (op : RowOp) (ops : List RowOp) (rows mids : List Record)
    (st' : OpState) (e1 : Nat)
    (h : feed ext [op] [op.init] rows [] 0 = .ok ([st'], mids, e1)) :
    pipelined ext (op :: ops) rows = preD [] e1 (pipelined ext ops (mids ++ drainOp st')) := by
  unfold pipelined
  rw [List.map_cons, feed_split ext op ops rows op.init (ops.map RowOp.init) st' mids e1 h,
    feed_append]
  cases feed ext ops (ops.map RowOp.init) mids [] 0 with
  | ok t =>
    obtain ⟨sts1, o1, ea1⟩ := t
    simp only [lift1]
    rw [drainLoop_cons]
    cases feed ext ops sts1 (drainOp st') [] 0 with
    | ok t2 =>
      obtain ⟨sts2, o2, ea2⟩ := t2
      simp only [pre]
      cases drainLoop ext ops sts2 [] 0 with
      | ok q => obtain ⟨dr, eb⟩ := q; simp [preD, Nat.add_assoc]
      | panic p => simp [preD]
      | unmodelled w => simp [preD]
    | panic p => simp [pre, preD]
    | unmodelled w => simp [pre, preD]
  | panic p => simp [lift1, preD]
  | unmodelled w => simp [lift1, preD]

theorem seqRun_cons (ext : Ext) (op : RowOp) (ops : List RowOp) (rows mids : List Record)
    (st' : OpState) (e1 : Nat)
    (h : feed ext [op] [op.init] rows [] 0 = .ok ([st'], mids, e1)) :
    seqRun ext (op :: ops) rows = preD [] e1 (seqRun ext ops (mids ++ drainOp st')) := by
  simp only [seqRun, runStage, h]
  cases seqRun ext ops (mids ++ drainOp st') with
  | ok q => obtain ⟨o, e2⟩ := q; simp [preD]
  | panic p => simp [preD]
  | unmodelled w => simp [preD]

/-- a successful stage is a successful single-operator `feed` ending in one state -/
theorem runStage_ok (ext : Ext) (op : RowOp) (rows mid : List Record) (e1 : Nat)
    (h : runStage ext op rows = .ok (mid, e1)) :
    ∃ st' mids, feed ext [op] [op.init] rows [] 0 = .ok ([st'], mids, e1)
      ∧ mid = mids ++ drainOp st' := by
  unfold runStage at h
  split at h
  · rename_i st outs e heq
    injection h with h
    simp only [Prod.mk.injEq] at h
    obtain ⟨rfl, rfl⟩ := h
    exact ⟨st, outs, heq, rfl⟩
  · simp at h
  · simp at h
  · simp at h

/-! ### C03: pipelined = stage-wise -/

/-- **C03 (execution order).** If running the row operators one after the other — each on the
complete output (emitted rows, then drained rows) of the one before — succeeds with rows `outs`
and `e` error lines, then the reader loop of `Pipeline::process` (every record through all
operators at once, then the drain loop) produces exactly `outs` and `e`. -/
theorem C03_pipelined_eq_stagewise (ext : Ext) (ops : List RowOp) (rows outs : List Record)
    (e : Nat) (h : seqRun ext ops rows = .ok (outs, e)) : pipelined ext ops rows = .ok (outs, e) := by
  induction ops generalizing rows outs e with
  | nil =>
    simp only [seqRun, RunR.ok.injEq, Prod.mk.injEq] at h
    obtain ⟨rfl, rfl⟩ := h
    have key : ∀ (l : List Record) (sts : List OpState),
        ∃ s, feed ext [] sts l [] 0 = .ok (s, l, 0) := by
      intro l
      induction l with
      | nil => intro sts; exact ⟨sts, feed_nil ext [] sts⟩
      | cons x xs ih =>
        intro sts
        obtain ⟨s, hs⟩ := ih []
        exact ⟨s, by rw [feed_cons]; simp [procPreagg, hs, pre]⟩
    obtain ⟨s, hs⟩ := key rows []
    simp [pipelined, hs, drainLoop]
  | cons op ops ih =>
    cases hr : runStage ext op rows with
    | ok t =>
      obtain ⟨mid, e1⟩ := t
      obtain ⟨st', mids, hf, rfl⟩ := runStage_ok ext op rows mid e1 hr
      rw [seqRun_cons ext op ops rows mids st' e1 hf] at h
      rw [pipelined_cons ext op ops rows mids st' e1 hf]
      cases hq : seqRun ext ops (mids ++ drainOp st') with
      | ok q =>
        obtain ⟨o, e2⟩ := q
        rw [hq] at h
        rw [ih _ _ _ hq]
        exact h
      | panic p => simp [hq, preD] at h
      | unmodelled w => simp [hq, preD] at h
    | panic p => simp [seqRun, hr] at h
    | unmodelled w => simp [seqRun, hr] at h

/-- **C03, converse.** Whatever the reader loop produces successfully is what stage-by-stage
execution produces. -/
theorem C03_stagewise_of_pipelined (ext : Ext) (ops : List RowOp) (rows outs : List Record)
    (e : Nat) (h : pipelined ext ops rows = .ok (outs, e)) : seqRun ext ops rows = .ok (outs, e) := by
  induction ops generalizing rows outs e with
  | nil =>
    rw [← h]
    exact (C03_pipelined_eq_stagewise ext [] rows rows 0 (by simp [seqRun])).symm
  | cons op ops ih =>
    cases hf0 : feed ext (op :: ops) (op.init :: ops.map RowOp.init) rows [] 0 with
    | ok R =>
      obtain ⟨st', mids, e1, hf⟩ := feed_head_ok ext op ops rows op.init (ops.map RowOp.init) R hf0
      rw [pipelined_cons ext op ops rows mids st' e1 hf] at h
      rw [seqRun_cons ext op ops rows mids st' e1 hf]
      cases hq : pipelined ext ops (mids ++ drainOp st') with
      | ok q =>
        obtain ⟨o, e2⟩ := q
        rw [hq] at h
        rw [ih _ _ _ hq]
        exact h
      | panic p => simp [hq, preD] at h
      | unmodelled w => simp [hq, preD] at h
    | panic p => simp [pipelined, hf0] at h
    | unmodelled w => simp [pipelined, hf0] at h

/-- **C03 (both directions).** Successful results of the two execution orders coincide. (With a
`panic`/`unmodelled` result they may differ in WHICH failure is reported: the pipelined loop can
hit a later stage's failure on an early row before an earlier stage's failure on a later row.) -/
theorem C03_pipelined_iff_stagewise (ext : Ext) (ops : List RowOp) (rows : List Record)
    (r : List Record × Nat) : pipelined ext ops rows = .ok r ↔ seqRun ext ops rows = .ok r :=
  ⟨fun h => C03_stagewise_of_pipelined ext ops rows r.1 r.2 h,
   fun h => C03_pipelined_eq_stagewise ext ops rows r.1 r.2 h⟩

/-! ### `runPre` = filter, then stage-wise -/

/-- the records the reader builds from the lines passing the filter -/
def filtered (p : Plan) (lines : List String) : List Record :=
  (lines.filter (fun l => Search.sem p.filter l.toList)).map
    (fun l => ({ data := [], raw := l } : Record))

/-- `runPre` is `pipelined` on the filtered lines -/
theorem runPre_eq_pipelined (ext : Ext) (p : Plan) (lines : List String)
    (hm : lines.all (fun l => Search.modelled p.filter l.toList) = true) :
    runPre ext p lines =
      match pipelined ext p.pre (filtered p lines) with
      | .ok (rows, e) => .ok { rows := rows, errors := e }
      | .panic s => .panic s
      | .unmodelled w => .unmodelled w := by
  simp only [runPre, hm, pipelined, filtered, Bool.not_true, Bool.false_eq_true, if_false]
  cases feed ext p.pre (p.pre.map RowOp.init) _ [] 0 with
  | ok t =>
    obtain ⟨sts, outs, e⟩ := t
    simp only []
    cases drainLoop ext p.pre sts [] 0 with
    | ok q => obtain ⟨dr, e'⟩ := q; rfl
    | panic s => rfl
    | unmodelled w => rfl
  | panic s => rfl
  | unmodelled w => rfl

/-- **C03 (reader side of `process`).** The rows reaching the channel are: the lines that pass
the filter, put through the row operators stage by stage, in query order. -/
theorem C03_runPre_stagewise (ext : Ext) (p : Plan) (lines : List String) (outs : List Record)
    (e : Nat) (hm : lines.all (fun l => Search.modelled p.filter l.toList) = true)
    (h : seqRun ext p.pre (filtered p lines) = .ok (outs, e)) :
    runPre ext p lines = .ok { rows := outs, errors := e } := by
  rw [runPre_eq_pipelined ext p lines hm, C03_pipelined_eq_stagewise ext p.pre _ outs e h]

/-- converse: a successful `runPre` is the stage-wise result on the filtered lines -/
theorem C03_runPre_stagewise_conv (ext : Ext) (p : Plan) (lines : List String) (out : PreOut)
    (h : runPre ext p lines = .ok out) :
    seqRun ext p.pre (filtered p lines) = .ok (out.rows, out.errors) := by
  by_cases hm : lines.all (fun l => Search.modelled p.filter l.toList) = true
  · rw [runPre_eq_pipelined ext p lines hm] at h
    cases hq : pipelined ext p.pre (filtered p lines) with
    | ok q =>
      obtain ⟨o, e⟩ := q
      simp only [hq, RunR.ok.injEq] at h
      subst h
      exact C03_stagewise_of_pipelined ext p.pre _ o e hq
    | panic s => simp [hq] at h
    | unmodelled w => simp [hq] at h
  · simp [runPre, hm] at h

/-! ### non-vacuity -/

/-- a tail limit followed by a head limit: stage-wise, `limit 1` sees the two drained rows
`[b, c]` as its complete input and passes `b`; pipelined, it sees nothing while reading and the
two rows during the drain phase -/
example (ext : Ext) (a b c : Record) :
    seqRun ext [.limit (-2), .limit 1] [a, b, c] = .ok ([b], 0) := by
  simp [seqRun, runStage, feed, procPreagg, stepOp, RowOp.init, drainOp]

example (ext : Ext) (a b c : Record) :
    pipelined ext [.limit (-2), .limit 1] [a, b, c] = .ok ([b], 0) :=
  C03_pipelined_eq_stagewise ext _ _ _ _
    (by simp [seqRun, runStage, feed, procPreagg, stepOp, RowOp.init, drainOp])

/-- `limit -2 | total(src) as t` on three rows: the running total is taken over the LAST TWO rows
only (it starts at `b`, the first row never reaches `total`) — the tail limit is not hoisted behind
`total`, although `total` sees its input only during the drain phase -/
example (ext : Ext) (src : Expr) (a b c : Record) (x y : F64)
    (hb : evalF64 ext b.data src = .ok x) (hc : evalF64 ext c.data src = .ok y) :
    pipelined ext [.limit (-2), .total src "t"] [a, b, c] =
      .ok ([{ b with data := Fields.put "t" (Value.fromFloat (F64.add F64.zero x)) b.data },
            { c with data :=
                Fields.put "t" (Value.fromFloat (F64.add (F64.add F64.zero x) y)) c.data }], 0) :=
  C03_pipelined_eq_stagewise ext _ _ _ _
    (by simp [seqRun, runStage, feed, procPreagg, stepOp, RowOp.init, drainOp, hb, hc])

end Ag.C03
