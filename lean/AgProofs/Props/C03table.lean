/-
C03 (stages after an aggregation or a sort)  Every post-aggregate stage acts on the complete table
its predecessor returned; a row operator written after an aggregation acts on that table's rows.

Model: `runPlan`, `headStage`, `applyStage`, `adaptTable` (AgModel/Pipeline.lean; `PreAggAdapter`,
src/operator.rs:177-192, and the aggregate chain of `Pipeline::process`, src/lib.rs).

* `C03_post_is_fold` — `runPlan` is: the reader side, the head aggregate on the record stream, then
  the left fold of `applyStage` over the remaining stages (`foldStages`): each stage receives
  exactly the table the one before it returned, once, in the order written;
* `C03_adapt_rows` — for a stateless row operator the adapted table's rows are the `filterMap` of
  the per-row step over the input rows: every output row comes from its own input row, in order;
  a row on which the operator fails, or that it drops, disappears on its own
  (`C05_post_agg_failure_is_local`, `C03_adapt_append`, `C03_adapt_preserves_order`);
* `C03_adapt_columns` — the old columns that still occur keep their order, new ones follow, sorted;
* `C03_limit_after_table`, `C03_tail_limit_after_table`, `C03_total_after_table`,
  `C03_limit_after_sort_sees_sorted` — the stateful operators see the table's row order.
-/
import AgModel.Pipeline
import AgProofs.Props.C10more
import AgProofs.Props.C12
import AgProofs.Props.C09laws

namespace Ag.C03

/-! ### the post-aggregate chain is a left fold -/

def _root_.Ag.RunR.bind {α β} (x : RunR α) (f : α → RunR β) : RunR β :=
  match x with
  | .ok a => f a
  | .panic p => .panic p
  | .unmodelled w => .unmodelled w

def _root_.Ag.RunR.map {α β} (f : α → β) (x : RunR α) : RunR β := x.bind (fun a => .ok (f a))

/-- the stages after the head aggregate, applied left to right: each one to the complete table
returned by the one before it -/
def foldStages (ext : Ext) : List AggStage → Table → RunR Table
  | [], t => .ok t
  | s :: ss, t => (applyStage ext s t).bind (foldStages ext ss)

theorem foldStages_nil (ext : Ext) (t : Table) : foldStages ext [] t = .ok t := rfl

theorem foldStages_cons (ext : Ext) (s : AggStage) (ss : List AggStage) (t : Table) :
    foldStages ext (s :: ss) t = (applyStage ext s t).bind (foldStages ext ss) := rfl

theorem foldStages_single (ext : Ext) (s : AggStage) (t : Table) :
    foldStages ext [s] t = applyStage ext s t := by
  simp only [foldStages]
  cases applyStage ext s t <;> rfl

theorem foldStages_append (ext : Ext) (a b : List AggStage) : ∀ t : Table,
    foldStages ext (a ++ b) t = (foldStages ext a t).bind (foldStages ext b) := by
  induction a with
  | nil => intro t; rfl
  | cons s ss ih =>
    intro t
    simp only [List.cons_append, foldStages]
    cases applyStage ext s t <;> simp [RunR.bind, ih]

/-- a chain ends well exactly when its last stage ends well on the table the stages before it
returned -/
theorem foldStages_snoc_ok (ext : Ext) (ss : List AggStage) (s : AggStage) (t t2 : Table) :
    foldStages ext (ss ++ [s]) t = .ok t2 ↔
      ∃ t1, foldStages ext ss t = .ok t1 ∧ applyStage ext s t1 = .ok t2 := by
  rw [foldStages_append]
  cases h : foldStages ext ss t <;> simp [RunR.bind, foldStages_single]

theorem foldStages_eq_go (ext : Ext) : ∀ (ss : List AggStage) (t : Table),
    foldStages ext ss t = runPlan.go ext ss t := by
  intro ss
  induction ss with
  | nil => intro t; rfl
  | cons s ss ih =>
    intro t
    simp only [foldStages, runPlan.go]
    cases applyStage ext s t <;> simp [RunR.bind, ih]

/-- **C03 (no stage is hoisted, skipped or applied twice).**  A run is: the reader side
(`runPre`: filter, row operators, drain), then — if there are aggregate stages — the head stage on
the record stream, then the remaining stages folded left to right over complete tables. -/
theorem C03_post_is_fold (ext : Ext) (p : Plan) (lines : List String) :
    runPlan ext p lines =
      (runPre ext p lines).bind (fun pre =>
        match p.post with
        | [] => .ok (.records pre.rows pre.errors)
        | head :: rest =>
          ((headStage ext head pre.rows).bind (foldStages ext rest)).map
            (fun t => Output.table t pre.errors)) := by
  unfold runPlan
  cases runPre ext p lines with
  | ok pre =>
    simp only [RunR.bind]
    cases p.post with
    | nil => rfl
    | cons head rest =>
      simp only
      cases headStage ext head pre.rows with
      | ok t0 =>
        simp only [RunR.bind, RunR.map, foldStages_eq_go]
        cases runPlan.go ext rest t0 <;> rfl
      | panic _ => rfl
      | unmodelled _ => rfl
  | panic _ => rfl
  | unmodelled _ => rfl

/-! ### stateless row operators -/

/-- the record `PreAggAdapter` makes of a table row -/
abbrev mkRec (d : Fields) : Record := { data := d, raw := "" }

/-- an operator that keeps nothing between rows: a step leaves the state as it was and nothing is
buffered for the end of the input -/
def Stateless (ext : Ext) (op : RowOp) : Prop :=
  (∀ r, (stepOp ext op op.init r).1 = op.init) ∧ drainOp op.init = []

/-- everything but `limit` and `total` -/
theorem stateless_of_isStateless (ext : Ext) (op : RowOp) (h : op.isStateless = true) :
    Stateless ext op := by
  unfold Stateless
  rw [C12.init_stateless op h]
  exact ⟨fun r => by rw [C12.step_stateless], rfl⟩

theorem stateless_json (ext : Ext) (src : Option Expr) : Stateless ext (.json src) :=
  stateless_of_isStateless ext _ rfl
theorem stateless_logfmt (ext : Ext) (src : Option Expr) : Stateless ext (.logfmt src) :=
  stateless_of_isStateless ext _ rfl
theorem stateless_parse (ext : Ext) (pat : Keyword) (fs : List String) (src : Option Expr)
    (drop noConvert : Bool) : Stateless ext (.parse pat fs src drop noConvert) :=
  stateless_of_isStateless ext _ rfl
theorem stateless_fields (ext : Ext) (mode : FieldMode) (names : List String) :
    Stateless ext (.fields mode names) := stateless_of_isStateless ext _ rfl
theorem stateless_where (ext : Ext) (e : Expr) : Stateless ext (.whereE e) :=
  stateless_of_isStateless ext _ rfl
theorem stateless_whereConst (ext : Ext) (b : Bool) : Stateless ext (.whereConst b) :=
  stateless_of_isStateless ext _ rfl
theorem stateless_fieldExpr (ext : Ext) (e : Expr) (name : String) :
    Stateless ext (.fieldExpr e name) := stateless_of_isStateless ext _ rfl
theorem stateless_split (ext : Ext) (sep : String) (src dst : Option Expr) :
    Stateless ext (.split sep src dst) := stateless_of_isStateless ext _ rfl
theorem stateless_timeslice (ext : Ext) (src : Expr) (dur : Int) (dst : Option String) :
    Stateless ext (.timeslice src dur dst) := stateless_of_isStateless ext _ rfl

/-- `limit` is not: it counts (head form) or buffers (tail form) -/
theorem not_stateless_limit (ext : Ext) (n : Int) : ¬ Stateless ext (.limit n) := by
  intro ⟨h, _⟩
  have := h default
  by_cases hn : 0 < n <;> simp [RowOp.init, stepOp, hn] at this

/-- what the operator makes of one table row, on its own: the new row, or nothing when the row is
dropped, the operator fails on it (`EvalError`), panics or leaves the model -/
def rowOut (ext : Ext) (op : RowOp) (d : Fields) : Option Fields :=
  match (stepOp ext op op.init (mkRec d)).2 with
  | .ok (some r') => some r'.data
  | _ => none

/-- the step on this row neither panics nor leaves the modelled fragment -/
def RowFine (ext : Ext) (op : RowOp) (d : Fields) : Prop :=
  (∀ p, (stepOp ext op op.init (mkRec d)).2 ≠ .panic p) ∧
  (∀ w, (stepOp ext op op.init (mkRec d)).2 ≠ .unmodelled w)

/-- row by row: the outputs in order; the first panic / unmodelled step ends the run -/
def adaptSpec (ext : Ext) (op : RowOp) : List Fields → RunR (List Fields)
  | [] => .ok []
  | d :: ds =>
    match (stepOp ext op op.init (mkRec d)).2 with
    | .ok (some r') => (adaptSpec ext op ds).map (r'.data :: ·)
    | .ok none => adaptSpec ext op ds
    | .err _ => adaptSpec ext op ds
    | .panic p => .panic p
    | .unmodelled w => .unmodelled w

theorem go_stateless (ext : Ext) (op : RowOp) (hs : Stateless ext op) :
    ∀ (ds : List Fields) (acc : List Fields),
      adaptTable.go ext op op.init (ds.map mkRec) acc =
        (adaptSpec ext op ds).map (fun o => (op.init, acc.reverse ++ o)) := by
  intro ds
  induction ds with
  | nil => intro acc; simp [adaptTable.go, adaptSpec, RunR.map, RunR.bind]
  | cons d ds ih =>
    intro acc
    have h1 := hs.1 (mkRec d)
    simp only [List.map_cons, adaptTable.go, adaptSpec]
    generalize stepOp ext op op.init (mkRec d) = sr at h1 ⊢
    obtain ⟨st', res⟩ := sr
    simp only at h1
    subst h1
    cases res with
    | ok o =>
      cases o with
      | none => simp only [ih]
      | some r' =>
        simp only [ih]
        cases adaptSpec ext op ds <;> simp [RunR.map, RunR.bind]
    | err k => simp only [ih]
    | panic p => simp [RunR.map, RunR.bind]
    | unmodelled w => simp [RunR.map, RunR.bind]

/-- **the adapter around a stateless operator is the row-by-row run**, with the columns computed
from the output rows -/
theorem adaptTable_stateless (ext : Ext) (op : RowOp) (hs : Stateless ext op) (t : Table) :
    adaptTable ext op t =
      (adaptSpec ext op t.rows).map
        (fun outs => { columns := C10.adaptColumns t.columns outs, rows := outs }) := by
  unfold adaptTable
  simp only
  rw [show (t.rows.map fun d => ({ data := d, raw := "" } : Record)) = t.rows.map mkRec from rfl,
    go_stateless ext op hs]
  cases adaptSpec ext op t.rows <;> simp [RunR.map, RunR.bind, hs.2, C10.adaptColumns]

theorem adaptSpec_of_fine (ext : Ext) (op : RowOp) : ∀ (ds : List Fields),
    (∀ d ∈ ds, RowFine ext op d) → adaptSpec ext op ds = .ok (ds.filterMap (rowOut ext op)) := by
  intro ds
  induction ds with
  | nil => intro _; rfl
  | cons d ds ih =>
    intro h
    have hd := h d List.mem_cons_self
    have ih' := ih (fun x hx => h x (List.mem_cons_of_mem _ hx))
    simp only [adaptSpec, List.filterMap_cons, rowOut, ih']
    unfold RowFine at hd
    generalize (stepOp ext op op.init (mkRec d)).2 = res at hd ⊢
    cases res with
    | ok o => cases o <;> simp [RunR.map, RunR.bind]
    | err k => simp
    | panic p => exact absurd rfl (hd.1 p)
    | unmodelled w => exact absurd rfl (hd.2 w)

theorem adaptSpec_ok (ext : Ext) (op : RowOp) : ∀ (ds outs : List Fields),
    adaptSpec ext op ds = .ok outs →
      (∀ d ∈ ds, RowFine ext op d) ∧ outs = ds.filterMap (rowOut ext op) := by
  intro ds
  induction ds with
  | nil => intro outs h; simp [adaptSpec] at h; simp [h]
  | cons d ds ih =>
    intro outs h
    simp only [adaptSpec] at h
    simp only [List.filterMap_cons, rowOut, List.mem_cons, forall_eq_or_imp, RowFine]
    generalize (stepOp ext op op.init (mkRec d)).2 = res at h ⊢
    cases res with
    | ok o =>
      cases o with
      | none => simpa [RowFine] using ih outs h
      | some r' =>
        cases hsp : adaptSpec ext op ds <;> simp [hsp, RunR.map, RunR.bind] at h
        rename_i o'
        obtain ⟨f, e⟩ := ih o' hsp
        subst h e
        simpa [RowFine] using f
    | err k => simpa [RowFine] using ih outs h
    | panic p => simp at h
    | unmodelled w => simp at h

/-- **C03 (row operator after an aggregation: rows).**  Every output row comes from its own input
row, in the input order; a row that the operator drops or fails on contributes nothing, and
nothing else. -/
theorem C03_adapt_rows (ext : Ext) (op : RowOp) (hs : Stateless ext op) (t t' : Table)
    (h : adaptTable ext op t = .ok t') :
    t'.rows = t.rows.filterMap (rowOut ext op) ∧
      t'.columns = C10.adaptColumns t.columns t'.rows := by
  rw [adaptTable_stateless ext op hs] at h
  cases hsp : adaptSpec ext op t.rows <;> simp [hsp, RunR.map, RunR.bind] at h
  subst h
  exact ⟨(adaptSpec_ok ext op _ _ hsp).2, rfl⟩

/-- **when it ends well**: exactly when no step panics or leaves the model (`RunR` has no error
outcome: an `EvalError` on a row is not an outcome of the adapter, the row is dropped) -/
theorem adaptTable_ok_iff (ext : Ext) (op : RowOp) (hs : Stateless ext op) (t : Table) :
    (∃ t', adaptTable ext op t = .ok t') ↔ ∀ d ∈ t.rows, RowFine ext op d := by
  rw [adaptTable_stateless ext op hs]
  constructor
  · rintro ⟨t', h⟩
    cases hsp : adaptSpec ext op t.rows <;> simp [hsp, RunR.map, RunR.bind] at h
    exact (adaptSpec_ok ext op _ _ hsp).1
  · intro hf
    rw [adaptSpec_of_fine ext op _ hf]
    exact ⟨_, rfl⟩

theorem adaptTable_of_fine (ext : Ext) (op : RowOp) (hs : Stateless ext op) (t : Table)
    (hf : ∀ d ∈ t.rows, RowFine ext op d) :
    adaptTable ext op t =
      .ok { columns := C10.adaptColumns t.columns (t.rows.filterMap (rowOut ext op)),
            rows := t.rows.filterMap (rowOut ext op) } := by
  rw [adaptTable_stateless ext op hs, adaptSpec_of_fine ext op _ hf]
  rfl

/-! ### locality: rows do not influence one another -/

theorem adaptSpec_append (ext : Ext) (op : RowOp) : ∀ (A B : List Fields),
    adaptSpec ext op (A ++ B) =
      (adaptSpec ext op A).bind (fun oa => (adaptSpec ext op B).map (oa ++ ·)) := by
  intro A
  induction A with
  | nil => intro B; cases h : adaptSpec ext op B <;> simp [adaptSpec, RunR.bind, RunR.map, h]
  | cons d ds ih =>
    intro B
    simp only [List.cons_append, adaptSpec, ih]
    generalize (stepOp ext op op.init (mkRec d)).2 = res
    cases res with
    | ok o =>
      cases o with
      | none => rfl
      | some r' =>
        cases adaptSpec ext op ds <;> simp [RunR.bind, RunR.map]
        cases adaptSpec ext op B <;> simp
    | err k => rfl
    | panic p => rfl
    | unmodelled w => rfl

/-- **C03 (rows A ++ B ↦ out A ++ out B).**  The adapted table of a concatenation is the
concatenation of the adapted parts — also as far as ending well is concerned. -/
theorem C03_adapt_append (ext : Ext) (op : RowOp) (hs : Stateless ext op) (c : List String)
    (A B : List Fields) (t' : Table) :
    adaptTable ext op { columns := c, rows := A ++ B } = .ok t' ↔
      ∃ tA tB, adaptTable ext op { columns := c, rows := A } = .ok tA ∧
        adaptTable ext op { columns := c, rows := B } = .ok tB ∧
        t' = { columns := C10.adaptColumns c (tA.rows ++ tB.rows), rows := tA.rows ++ tB.rows } := by
  simp only [adaptTable_stateless ext op hs, adaptSpec_append]
  cases adaptSpec ext op A <;> cases adaptSpec ext op B <;> simp [RunR.bind, RunR.map]
  constructor
  · intro h; exact h.symm
  · intro h; exact h.symm

/-- **C05 (a row on which the expression fails is dropped on its own), after an aggregation.**
If the operator fails on row `d` (`EvalError`) — or drops it — the result for `A ++ [d] ++ B` is
the result for `A ++ B`: the rows before and after it are treated as if it had not been there. -/
theorem C05_post_agg_failure_is_local (ext : Ext) (op : RowOp) (hs : Stateless ext op)
    (c : List String) (A B : List Fields) (d : Fields)
    (hd : (∃ k, (stepOp ext op op.init (mkRec d)).2 = .err k) ∨
      (stepOp ext op op.init (mkRec d)).2 = .ok none) :
    adaptTable ext op { columns := c, rows := A ++ d :: B } =
      adaptTable ext op { columns := c, rows := A ++ B } := by
  have hdB : adaptSpec ext op (d :: B) = adaptSpec ext op B := by
    rcases hd with ⟨k, hk⟩ | hk <;> simp [adaptSpec, hk]
  simp only [adaptTable_stateless ext op hs, adaptSpec_append, hdB]

theorem filter_map_filterMap {α β} (f : α → Option β) (l : List α) :
    (l.filter (fun a => (f a).isSome)).map f = (l.filterMap f).map some := by
  induction l with
  | nil => rfl
  | cons a as ih =>
    cases h : f a <;> simp [h, ih]

/-- **C03 (order is kept).**  The output rows are the outputs of a sublist of the input rows, in
that order: nothing is re-ordered, duplicated or invented. -/
theorem C03_adapt_preserves_order (ext : Ext) (op : RowOp) (hs : Stateless ext op) (t t' : Table)
    (h : adaptTable ext op t = .ok t') :
    ∃ src : List Fields, src.Sublist t.rows ∧ src.map (rowOut ext op) = t'.rows.map some :=
  ⟨t.rows.filter (fun d => (rowOut ext op d).isSome), List.filter_sublist,
    by rw [(C03_adapt_rows ext op hs t t' h).1]; exact filter_map_filterMap _ _⟩

/-! ### `where` after an aggregation: the output rows are input rows -/

/-- the rows `where e` keeps -/
def whereKeeps (ext : Ext) (e : Expr) (d : Fields) : Bool :=
  match evalBool ext d e with
  | .ok true => true
  | _ => false

theorem rowOut_where (ext : Ext) (e : Expr) (d : Fields) :
    rowOut ext (.whereE e) d = if whereKeeps ext e d then some d else none := by
  have key : ∀ x : Outcome Bool,
      (match (x >>= fun b => pure (if b then some (mkRec d) else none) :
          Outcome (Option Record)) with
        | .ok (some r') => some r'.data
        | _ => none) =
      if (match x with
          | .ok true => true
          | _ => false) then some d else none := by
    intro x
    rcases x with b | _ | _ | _
    · cases b <;> rfl
    all_goals rfl
  exact key (evalBool ext d e)

theorem filterMap_ite {α} (p : α → Bool) (l : List α) :
    l.filterMap (fun a => if p a then some a else none) = l.filter p := by
  induction l with
  | nil => rfl
  | cons a as ih => by_cases h : p a <;> simp [h, ih]

/-- `where` after an aggregation keeps exactly the table rows on which the condition evaluates
to `true` — rows on which it is `false` or fails to evaluate are dropped — in the table's order -/
theorem C03_where_after_table (ext : Ext) (e : Expr) (t t' : Table)
    (h : adaptTable ext (.whereE e) t = .ok t') :
    t'.rows = t.rows.filter (whereKeeps ext e) ∧ t'.rows.Sublist t.rows := by
  have hr := (C03_adapt_rows ext _ (stateless_where ext e) t t' h).1
  have : t'.rows = t.rows.filter (whereKeeps ext e) := by
    rw [hr, ← filterMap_ite]
    congr 1
    funext d
    exact rowOut_where ext e d
  exact ⟨this, this ▸ List.filter_sublist⟩

/-! ### columns -/

theorem mem_foldl_dedup (ks : List String) : ∀ (acc : List String) (x : String),
    x ∈ ks.foldl (fun acc k => if acc.contains k then acc else acc ++ [k]) acc ↔
      x ∈ acc ∨ x ∈ ks := by
  induction ks with
  | nil => intro acc x; simp
  | cons k ks ih =>
    intro acc x
    simp only [List.foldl_cons, ih, List.mem_cons]
    by_cases hc : acc.contains k = true
    · simp only [hc, if_true]
      have hk : k ∈ acc := by simpa using hc
      constructor
      · rintro (h | h)
        · exact .inl h
        · exact .inr (.inr h)
      · rintro (h | h | h)
        · exact .inl h
        · exact .inl (h ▸ hk)
        · exact .inr h
    · simp only [hc, Bool.false_eq_true, if_false, List.mem_append, List.mem_singleton]
      constructor
      · rintro ((h | h) | h)
        · exact .inl h
        · exact .inr (.inl h)
        · exact .inr (.inr h)
      · rintro (h | h | h)
        · exact .inl (.inl h)
        · exact .inl (.inr h)
        · exact .inr h

theorem mem_dedupKeys (ks : List String) (x : String) : x ∈ dedupKeys ks ↔ x ∈ ks := by
  unfold dedupKeys
  rw [mem_foldl_dedup]
  simp

theorem nodup_foldl_dedup (ks : List String) : ∀ (acc : List String), acc.Nodup →
    (ks.foldl (fun acc k => if acc.contains k then acc else acc ++ [k]) acc).Nodup := by
  induction ks with
  | nil => intro acc h; exact h
  | cons k ks ih =>
    intro acc h
    simp only [List.foldl_cons]
    apply ih
    by_cases hc : acc.contains k = true
    · simp only [hc, if_true]; exact h
    · simp only [hc, Bool.false_eq_true, if_false]
      have hk : k ∉ acc := by simpa using hc
      rw [List.nodup_append]
      refine ⟨h, by simp, ?_⟩
      intro a ha b hb
      simp only [List.mem_singleton] at hb
      subst hb
      rintro rfl
      exact hk ha

theorem nodup_dedupKeys (ks : List String) : (dedupKeys ks).Nodup :=
  nodup_foldl_dedup ks [] List.nodup_nil

theorem mem_sortStrings (l : List String) (x : String) : x ∈ sortStrings l ↔ x ∈ l :=
  (List.mergeSort_perm _ _).mem_iff

theorem sortStrings_sorted (l : List String) : (sortStrings l).Pairwise (fun a b => a ≤ b) := by
  unfold sortStrings
  have tr : ∀ a b c : String, decide (a ≤ b) = true → decide (b ≤ c) = true →
      decide (a ≤ c) = true := by
    intro a b c h1 h2
    simp only [decide_eq_true_eq] at *
    exact String.le_trans h1 h2
  have tot : ∀ a b : String, (decide (a ≤ b) || decide (b ≤ a)) = true := by
    intro a b
    rcases String.le_total a b with h | h <;> simp [h]
  exact (List.pairwise_mergeSort tr tot l).imp (fun h => by simpa using h)

/-- whatever the operator: the adapter computes the columns from the rows it returns -/
theorem adaptTable_shape (ext : Ext) (op : RowOp) (t t' : Table)
    (h : adaptTable ext op t = .ok t') : t'.columns = C10.adaptColumns t.columns t'.rows := by
  unfold adaptTable at h
  simp only at h
  split at h
  · simp only [RunR.ok.injEq] at h
    subst h
    rfl
  · cases h
  · cases h

/-- what `adaptColumns` computes, in words -/
theorem adaptColumns_spec (cols : List String) (outs : List Fields) :
    ∃ prev fresh, C10.adaptColumns cols outs = prev ++ fresh ∧
      prev = cols.filter (fun c => outs.any (fun r => (Fields.keys r).contains c)) ∧
      fresh.Pairwise (fun a b => a ≤ b) ∧ fresh.Nodup ∧
      (∀ c, c ∈ fresh ↔ c ∉ cols ∧ ∃ r ∈ outs, c ∈ Fields.keys r) := by
  have hks : ∀ c, c ∈ dedupKeys (outs.flatMap Fields.keys) ↔ ∃ r ∈ outs, c ∈ Fields.keys r := by
    intro c; rw [mem_dedupKeys, List.mem_flatMap]
  have hprev : cols.filter (fun c => (dedupKeys (outs.flatMap Fields.keys)).contains c) =
      cols.filter (fun c => outs.any (fun r => (Fields.keys r).contains c)) := by
    apply List.filter_congr
    intro c _
    rw [Bool.eq_iff_iff]
    simp only [List.contains_iff_mem, hks, List.any_eq_true]
  refine ⟨_, _, rfl, hprev, sortStrings_sorted _, ?_, ?_⟩
  · exact (List.mergeSort_perm _ _).nodup_iff.2 ((nodup_dedupKeys _).filter _)
  · intro c
    rw [mem_sortStrings, List.mem_filter, hks]
    simp only [Bool.not_eq_true', List.contains_eq_mem, List.mem_filter, decide_eq_false_iff_not,
      not_and, decide_eq_true_eq]
    constructor
    · rintro ⟨hex, hn⟩
      refine ⟨fun hc => hn hc ?_, hex⟩
      exact (hks c).2 hex
    · rintro ⟨hc, hex⟩
      exact ⟨hex, fun hc' => absurd hc' hc⟩

/-- **C03 (row operator after an aggregation: columns).**  For every row operator: the new column
list is `prev ++ fresh` where `prev` is the old column list without the columns that no longer
occur in any row (so the old columns keep their order), and `fresh` — the columns the operator
added — is sorted, duplicate-free and disjoint from the old columns; every field of every output
row is a column; if every old column still occurs somewhere, `prev` is the old column list. -/
theorem C03_adapt_columns (ext : Ext) (op : RowOp) (t t' : Table)
    (h : adaptTable ext op t = .ok t') :
    ∃ prev fresh, t'.columns = prev ++ fresh ∧ prev.Sublist t.columns ∧
      (∀ c, c ∈ prev ↔ c ∈ t.columns ∧ ∃ r ∈ t'.rows, c ∈ Fields.keys r) ∧
      fresh.Pairwise (fun a b => a ≤ b) ∧ fresh.Nodup ∧
      (∀ c, c ∈ fresh ↔ c ∉ t.columns ∧ ∃ r ∈ t'.rows, c ∈ Fields.keys r) ∧
      (∀ r ∈ t'.rows, ∀ k ∈ Fields.keys r, k ∈ t'.columns) ∧
      ((∀ c ∈ t.columns, ∃ r ∈ t'.rows, c ∈ Fields.keys r) → prev = t.columns) := by
  obtain ⟨prev, fresh, hcols, hprev, hsorted, hnd, hfresh⟩ :=
    adaptColumns_spec t.columns t'.rows
  have hpm : ∀ c, c ∈ prev ↔ c ∈ t.columns ∧ ∃ r ∈ t'.rows, c ∈ Fields.keys r := by
    intro c
    rw [hprev, List.mem_filter]
    simp only [List.any_eq_true, List.contains_iff_mem]
  refine ⟨prev, fresh, (adaptTable_shape ext op t t' h).trans hcols, ?_, hpm, hsorted, hnd, hfresh,
    ?_, ?_⟩
  · rw [hprev]; exact List.filter_sublist
  · intro r hr k hk
    rw [adaptTable_shape ext op t t' h, hcols, List.mem_append]
    by_cases hc : k ∈ t.columns
    · exact .inl ((hpm k).2 ⟨hc, r, hr, hk⟩)
    · exact .inr ((hfresh k).2 ⟨hc, r, hr, hk⟩)
  · intro hall
    rw [hprev, List.filter_eq_self]
    intro c hc
    obtain ⟨r, hr, hk⟩ := hall c hc
    simp only [List.any_eq_true, List.contains_iff_mem]
    exact ⟨r, hr, hk⟩

/-- distinct columns stay distinct (so the table can be sorted deterministically afterwards:
`C09.C09_table_sort_deterministic`) -/
theorem C03_adapt_columns_nodup (ext : Ext) (op : RowOp) (t t' : Table)
    (h : adaptTable ext op t = .ok t') (hnd : t.columns.Nodup) : t'.columns.Nodup := by
  obtain ⟨prev, fresh, hc, hsub, -, -, hfn, hfresh, -, -⟩ := C03_adapt_columns ext op t t' h
  rw [hc, List.nodup_append]
  refine ⟨hsub.nodup hnd, hfn, ?_⟩
  intro a ha b hb hab
  subst hab
  exact ((hfresh a).1 hb).1 (hsub.subset ha)

/-! ### the stateful operators see the table's row order -/

/-- **C03 (limit after a table).**  `limit n` (n > 0) after an aggregation or sort returns the
first `n` rows of that table, in the table's order. -/
theorem C03_limit_after_table (ext : Ext) (n : Int) (hn : 0 < n) (t : Table) :
    adaptTable ext (.limit n) t =
      .ok { columns := C10.adaptColumns t.columns (t.rows.take n.toNat),
            rows := t.rows.take n.toNat } := by
  rw [C10.C10_after_table ext n (by omega)]
  simp [C10.limSpec, hn]

/-- **C03 (tail limit after a table).**  `limit -k` returns the last `k` rows of that table, in
the table's order (they are buffered and come out of `drain`). -/
theorem C03_tail_limit_after_table (ext : Ext) (n : Int) (hn : n < 0) (t : Table) :
    adaptTable ext (.limit n) t =
      .ok { columns := C10.adaptColumns t.columns (t.rows.drop (t.rows.length - (-n).toNat)),
            rows := t.rows.drop (t.rows.length - (-n).toNat) } := by
  rw [C10.C10_after_table ext n (by omega)]
  have : ¬ 0 < n := by omega
  simp [C10.limSpec, this, C10.lastN]

/-- the number `total` adds for a row: the value of the expression, 0 when it cannot be
evaluated as a number -/
def totalVal (ext : Ext) (src : Expr) (d : Fields) : F64 :=
  match evalF64 ext d src with
  | .ok f => f
  | _ => F64.zero

/-- running sums: `acc + v₁`, `acc + v₁ + v₂`, … (left to right, in double arithmetic) -/
def runSums : F64 → List F64 → List F64
  | _, [] => []
  | acc, v :: vs => F64.add acc v :: runSums (F64.add acc v) vs

theorem runSums_length (acc : F64) (vs : List F64) : (runSums acc vs).length = vs.length := by
  induction vs generalizing acc with
  | nil => rfl
  | cons v vs ih => simp [runSums, ih]

/-- the k-th running sum is the left fold of `+` over the first k+1 values -/
theorem runSums_getElem? (vs : List F64) : ∀ (acc : F64) (k : Nat), k < vs.length →
    (runSums acc vs)[k]? = some ((vs.take (k + 1)).foldl F64.add acc) := by
  induction vs with
  | nil => intro acc k h; simp at h
  | cons v vs ih =>
    intro acc k h
    cases k with
    | zero => simp [runSums]
    | succ k =>
      simp only [runSums, List.getElem?_cons_succ, List.take_succ_cons, List.foldl_cons]
      exact ih _ k (by simpa using h)

/-- the rows `total(src) as dst` writes: each table row with the running sum put under `dst` -/
def totalRows (ext : Ext) (src : Expr) (dst : String) (acc : F64) (ds : List Fields) : List Fields :=
  List.zipWith (fun d s => Fields.put dst (Value.fromFloat s) d) ds
    (runSums acc (ds.map (totalVal ext src)))

theorem go_total (ext : Ext) (src : Expr) (dst : String) : ∀ (ds : List Fields) (acc : F64)
    (out : List Fields), (∀ d ∈ ds, ∀ w, evalF64 ext d src ≠ .unmodelled w) →
    ∃ acc', adaptTable.go ext (.total src dst) (.total acc) (ds.map mkRec) out =
      .ok (.total acc', out.reverse ++ totalRows ext src dst acc ds) := by
  intro ds
  induction ds with
  | nil => intro acc out _; exact ⟨acc, by simp [adaptTable.go, totalRows, runSums]⟩
  | cons d ds ih =>
    intro acc out hm
    have hd := hm d List.mem_cons_self
    obtain ⟨acc', h'⟩ := ih (F64.add acc (totalVal ext src d))
      (Fields.put dst (Value.fromFloat (F64.add acc (totalVal ext src d))) d :: out)
      (fun x hx => hm x (List.mem_cons_of_mem _ hx))
    refine ⟨acc', ?_⟩
    simp only [List.map_cons, adaptTable.go, stepOp]
    unfold totalVal at h'
    rcases hev : evalF64 ext d src with f | k | p | w
    · simp only [hev] at h' ⊢
      rw [h']; simp [totalRows, runSums, totalVal, hev]
    · simp only [hev] at h' ⊢
      rw [h']; simp [totalRows, runSums, totalVal, hev]
    · simp only [hev] at h' ⊢
      rw [h']; simp [totalRows, runSums, totalVal, hev]
    · exact absurd hev (hd w)

/-- **C03 (total after a table).**  `total(src) as dst` after an aggregation or sort writes, on
each row of that table in the table's order, the running sum of `src` over the rows up to and
including it (a row on which `src` is not a number counts as 0 and still gets the sum). -/
theorem C03_total_after_table (ext : Ext) (src : Expr) (dst : String) (t : Table)
    (hm : ∀ d ∈ t.rows, ∀ w, evalF64 ext d src ≠ .unmodelled w) :
    adaptTable ext (.total src dst) t =
      .ok { columns := C10.adaptColumns t.columns (totalRows ext src dst F64.zero t.rows),
            rows := totalRows ext src dst F64.zero t.rows } := by
  obtain ⟨acc', h⟩ := go_total ext src dst t.rows F64.zero [] hm
  unfold adaptTable
  simp only
  rw [show (t.rows.map fun d => ({ data := d, raw := "" } : Record)) = t.rows.map mkRec from rfl,
    show RowOp.init (.total src dst) = .total F64.zero from rfl, h]
  simp [drainOp, C10.adaptColumns]

/-- … so the k-th output row is the k-th table row with `dst` set to the sum of the first k+1
values -/
theorem C03_total_row (ext : Ext) (src : Expr) (dst : String) (ds : List Fields) (k : Nat)
    (hk : k < ds.length) :
    (totalRows ext src dst F64.zero ds)[k]? =
      some (Fields.put dst
        (Value.fromFloat (((ds.take (k + 1)).map (totalVal ext src)).foldl F64.add F64.zero))
        (ds[k]'hk)) := by
  unfold totalRows
  rw [List.getElem?_zipWith, List.getElem?_eq_getElem hk,
    runSums_getElem? _ _ k (by simpa using hk)]
  simp [List.map_take]

/-! ### after a sort; a second aggregation -/

/-- a row operator written after a sort is applied to the sorted table -/
theorem foldStages_sort_then (ext : Ext) (cols : List Expr) (dir : SortDir) (op : RowOp)
    (t : Table) (hk : sortKeysOk ext cols t.rows = true) :
    foldStages ext [.sort cols dir, .adapt op] t =
      adaptTable ext op { t with rows := sortRows ext cols dir t.columns t.rows } := by
  simp only [foldStages, applyStage, hk]
  simp only [Bool.not_true, Bool.false_eq_true, if_false, RunR.bind]
  cases adaptTable ext op { t with rows := sortRows ext cols dir t.columns t.rows } <;> rfl

/-- **C03 (limit after a sort sees the sorted order).**  `sort … | limit n`: the first `n` rows
(last `-n` for a negative `n`) of the sorted table. -/
theorem C03_limit_after_sort_sees_sorted (ext : Ext) (cols : List Expr) (dir : SortDir) (n : Int)
    (hn : n ≠ 0) (t : Table) (hk : sortKeysOk ext cols t.rows = true) :
    foldStages ext [.sort cols dir, .adapt (.limit n)] t =
      .ok { columns := C10.adaptColumns t.columns
              (C10.limSpec n (sortRows ext cols dir t.columns t.rows)),
            rows := C10.limSpec n (sortRows ext cols dir t.columns t.rows) } := by
  rw [foldStages_sort_then ext cols dir _ t hk, C10.C10_after_table ext n hn]

/-- the same for whatever outcome: if the two stages end well, the rows are those -/
theorem C03_limit_after_sort_rows (ext : Ext) (cols : List Expr) (dir : SortDir) (n : Int)
    (hn : n ≠ 0) (t t2 : Table)
    (h : foldStages ext [.sort cols dir, .adapt (.limit n)] t = .ok t2) :
    t2.rows = C10.limSpec n (sortRows ext cols dir t.columns t.rows) := by
  by_cases hk : sortKeysOk ext cols t.rows = true
  · rw [C03_limit_after_sort_sees_sorted ext cols dir n hn t hk] at h
    simp only [RunR.ok.injEq] at h
    rw [← h]
  · simp [foldStages, applyStage, hk, RunR.bind] at h

/-- `total` after a sort accumulates in the sorted order -/
theorem C03_total_after_sort_sees_sorted (ext : Ext) (cols : List Expr) (dir : SortDir)
    (src : Expr) (dst : String) (t : Table) (hk : sortKeysOk ext cols t.rows = true)
    (hm : ∀ d ∈ t.rows, ∀ w, evalF64 ext d src ≠ .unmodelled w) :
    ∃ cs, foldStages ext [.sort cols dir, .adapt (.total src dst)] t =
      .ok { columns := cs,
            rows := totalRows ext src dst F64.zero (sortRows ext cols dir t.columns t.rows) } := by
  rw [foldStages_sort_then ext cols dir _ t hk, C03_total_after_table]
  · exact ⟨_, rfl⟩
  · intro d hd
    exact hm d ((C09.C09_sort_perm ext cols dir t.columns t.rows).mem_iff.1 hd)

/-- **C03 (a second aggregation aggregates the first one's rows).**  An aggregation applied to a
table is the same aggregation run over the table's rows as a record stream: it sees the rows of
its predecessor and nothing else (not its column list, not the original records). -/
theorem C03_second_agg_aggregates_rows (ext : Ext) (g : Grouper) (t : Table) :
    applyStage ext (.group g) t = headStage ext (.group g) (t.rows.map mkRec) := by
  simp only [headStage, applyStage, List.map_map]
  have : t.rows.map ((fun r : Record => r.data) ∘ mkRec) = t.rows := by simp [Function.comp_def]
  rw [this]

theorem C03_two_aggs (ext : Ext) (g1 g2 : Grouper) (rows : List Record) (t1 : Table)
    (h1 : headStage ext (.group g1) rows = .ok t1) :
    (headStage ext (.group g1) rows).bind (foldStages ext [.group g2]) =
      headStage ext (.group g2) (t1.rows.map mkRec) := by
  rw [h1]
  simp only [RunR.bind, foldStages_single, C03_second_agg_aggregates_rows]

/-! ### non-vacuity -/

/-- a table with one column and three rows; the middle one has no `k` -/
def exT : Table :=
  { columns := ["k"], rows := [[("k", .int 2)], [("j", .int 5)], [("k", .int 3)]] }

/-- `k > 1` -/
def exWhere : RowOp := .whereE (.cmp .gt (.col "k" []) (.val (.int 1)))

/-- on the middle row the condition cannot be evaluated (`NoValueForKey`) -/
example (ext : Ext) : (stepOp ext exWhere exWhere.init (mkRec [("j", .int 5)])).2 =
    .err "NoValueForKey" := by
  simp [exWhere, RowOp.init, stepOp, applyStateless, evalBool, evalValue, Fields.get]

/-- `where k > 1` after the table: the row on which the condition fails disappears on its own,
the other two stay, in order; the column list is the old one -/
example (ext : Ext) : ∃ cs, adaptTable ext exWhere exT =
    .ok { columns := cs, rows := [[("k", .int 2)], [("k", .int 3)]] } := by
  refine ⟨C10.adaptColumns ["k"] [[("k", .int 2)], [("k", .int 3)]], ?_⟩
  have h1 : rowOut ext exWhere [("k", .int 2)] = some [("k", .int 2)] := by
    simp [exWhere, rowOut_where, whereKeeps, evalBool, evalValue, Fields.get, access,
      cmpResult, Value.cmp, asBool]
    decide
  have h2 : rowOut ext exWhere [("j", .int 5)] = none := by
    simp [exWhere, rowOut_where, whereKeeps, evalBool, evalValue, Fields.get]
  have h3 : rowOut ext exWhere [("k", .int 3)] = some [("k", .int 3)] := by
    simp [exWhere, rowOut_where, whereKeeps, evalBool, evalValue, Fields.get, access,
      cmpResult, Value.cmp, asBool]
    decide
  have hr : exT.rows.filterMap (rowOut ext exWhere) = [[("k", .int 2)], [("k", .int 3)]] := by
    simp only [exT, List.filterMap_cons, h1, h2, h3, List.filterMap_nil]
  rw [adaptTable_of_fine ext exWhere (stateless_where ext _), hr]
  · rfl
  · intro d hd
    simp only [exT, List.mem_cons, List.not_mem_nil, or_false] at hd
    rcases hd with rfl | rfl | rfl <;>
      simp [RowFine, exWhere, RowOp.init, stepOp, applyStateless, evalBool, evalValue, Fields.get,
        access, asBool]

/-- the same through the locality theorem: with and without the failing row -/
example (ext : Ext) :
    adaptTable ext exWhere { columns := ["k"], rows := [[("k", .int 2)]] ++ [("j", .int 5)] :: [[("k", .int 3)]] } =
      adaptTable ext exWhere { columns := ["k"], rows := [[("k", .int 2)]] ++ [[("k", .int 3)]] } :=
  C05_post_agg_failure_is_local ext exWhere (stateless_where ext _) ["k"] _ _ _
    (.inl ⟨"NoValueForKey", by
      simp [exWhere, RowOp.init, stepOp, applyStateless, evalBool, evalValue, Fields.get]⟩)

/-- `limit 2` and `limit -2` after the table -/
example (ext : Ext) : ∃ cs, adaptTable ext (.limit 2) exT =
    .ok { columns := cs, rows := [[("k", .int 2)], [("j", .int 5)]] } :=
  ⟨C10.adaptColumns ["k"] [[("k", .int 2)], [("j", .int 5)]], by
    rw [C03_limit_after_table ext 2 (by decide)]; simp [exT]⟩

example (ext : Ext) : ∃ cs, adaptTable ext (.limit (-2)) exT =
    .ok { columns := cs, rows := [[("j", .int 5)], [("k", .int 3)]] } :=
  ⟨C10.adaptColumns ["k"] [[("j", .int 5)], [("k", .int 3)]], by
    rw [C03_tail_limit_after_table ext (-2) (by decide)]; simp [exT]⟩

/-- a field expression `true as z` appends the column `z` after the old column -/
example (ext : Ext) :
    adaptTable ext (.fieldExpr (.val (.bool true)) "z")
        { columns := ["k"], rows := [[("k", .int 2)], [("k", .int 3)]] } =
      .ok { columns := ["k", "z"],
            rows := [[("k", .int 2), ("z", .bool true)], [("k", .int 3), ("z", .bool true)]] } := by
  have hlt : ("z" < "k") = False := by decide
  rw [adaptTable_of_fine ext _ (stateless_fieldExpr ext _ _)]
  · simp [rowOut, RowOp.init, stepOp, applyStateless, evalValue, Fields.put, hlt,
      C10.adaptColumns, dedupKeys, Fields.keys, sortStrings]
  · intro d _
    simp [RowFine, RowOp.init, stepOp, applyStateless, evalValue]

end Ag.C03

#print axioms Ag.C03.foldStages_append
#print axioms Ag.C03.foldStages_single
#print axioms Ag.C03.foldStages_snoc_ok
#print axioms Ag.C03.C03_post_is_fold
#print axioms Ag.C03.stateless_of_isStateless
#print axioms Ag.C03.not_stateless_limit
#print axioms Ag.C03.adaptTable_stateless
#print axioms Ag.C03.C03_adapt_rows
#print axioms Ag.C03.adaptTable_ok_iff
#print axioms Ag.C03.adaptTable_of_fine
#print axioms Ag.C03.C03_adapt_append
#print axioms Ag.C03.C05_post_agg_failure_is_local
#print axioms Ag.C03.C03_adapt_preserves_order
#print axioms Ag.C03.C03_where_after_table
#print axioms Ag.C03.adaptTable_shape
#print axioms Ag.C03.C03_adapt_columns
#print axioms Ag.C03.C03_adapt_columns_nodup
#print axioms Ag.C03.C03_limit_after_table
#print axioms Ag.C03.C03_tail_limit_after_table
#print axioms Ag.C03.C03_total_after_table
#print axioms Ag.C03.C03_total_row
#print axioms Ag.C03.C03_limit_after_sort_sees_sorted
#print axioms Ag.C03.C03_limit_after_sort_rows
#print axioms Ag.C03.C03_total_after_sort_sees_sorted
#print axioms Ag.C03.C03_second_agg_aggregates_rows
#print axioms Ag.C03.C03_two_aggs
