/-
C20  Equivalent spellings of a query mean the same thing.

Theorems over the parser model (AgModel/Lang/Parser.lean, tied to src/lang.rs by the PARSE
correspondence) and the type checker model (AgModel/Pipeline.lean):

* synonym families parse to the same AST node FOR ALL CONTINUATIONS (`rest` arbitrary): sort
  directions, comparison operators, `fields` modes, percentile spellings;
* the ordered-choice hazard `tag("asc")` before `tag("ascending")` (src/lang.rs `sort_mode`): the
  theorem holds for the repaired code (repo commit 96a22d2) and the COUNTEREXAMPLE is proved for
  the previous order (`sortModeOld`);
* blanks (blank, tab, CR, LF) around the `|` separators of `parse_operators` never reach the
  operator parser;
* spellings that differ in the AST but not in meaning are equal after type checking: `limit` vs
  `limit 10`, `from` before or after `as`, explicit `as <default name>`;
* every documented synonym pair, and every built-in alias against its expansion, evaluated on
  concrete queries through the whole parser.

* keywords end at a word boundary (repo commit 0324001): `C20_sort_direction_glued`,
  `C20_fields_mode_glued`, `C20_keyword_prefix_instances` (bare name ≡ `["name"]` for names that
  start with a keyword).

Open (known_findings.json): C20/by-header-depends-on-spelling — `by_header_counterexample`.
-/
import AgModel.Lang.Parser
import AgModel.Pipeline
import AgProofs.Lemmas.LangEq

set_option linter.unusedSimpArgs false

namespace Ag.C20
open Ag Ag.Lang Ag.LangEq

/-! ### sort directions -/

/-- the value and the remaining input of a successful parse -/
def outcome {α} : Res α → Option (α × List Char × Nat)
  | .ok v r e => some (v, r, e)
  | _ => none

/-- `sort_mode` as it was before repo commit 96a22d2: short tags first -/
def sortModeOld : P SortDir :=
  altL [pmap (fun _ => SortDir.asc) (tag "asc"), pmap (fun _ => SortDir.asc) (tag "ascending"),
        pmap (fun _ => SortDir.desc) (tag "desc"), pmap (fun _ => SortDir.desc) (tag "dsc"),
        pmap (fun _ => SortDir.desc) (tag "descending")]

theorem sortMode_ascending (rest : List Char) (e : Nat) (h : Boundary rest) :
    sortMode (q!"ascending" ++ rest) e = .ok .asc rest e := by
  have hk := kw_boundary "ascending" q!"ascending" rest rfl e h
  simp only [List.cons_append, List.nil_append] at hk
  simp [sortMode, altL, alt, pmap, Res.castErr, hk]

theorem sortMode_asc (rest : List Char) (e : Nat) (h : Boundary rest) :
    sortMode (q!"asc" ++ rest) e = .ok .asc rest e := by
  have h1 : kw "ascending" (q!"asc" ++ rest) e = .fail (q!"asc" ++ rest) e := by
    apply kw_mismatch
    show Text.stripPrefix? q!"ascending" (q!"asc" ++ rest) = none
    cases rest with
    | nil => simp [Text.stripPrefix?]
    | cons c r =>
      have hc := h c r rfl
      by_cases he : c = 'e'
      · subst he; simp [isIdentCh, isAlnum8, isAlpha8] at hc
      · simp [Text.stripPrefix?, Ne.symm he]
  have hk := kw_boundary "asc" q!"asc" rest rfl e h
  simp only [List.cons_append, List.nil_append] at hk h1
  simp [sortMode, altL, alt, pmap, Res.castErr, hk, h1]

theorem sortMode_descending (rest : List Char) (e : Nat) (h : Boundary rest) :
    sortMode (q!"descending" ++ rest) e = .ok .desc rest e := by
  have h1 : kw "ascending" (q!"descending" ++ rest) e = .fail (q!"descending" ++ rest) e :=
    kw_mismatch _ _ _ (by show Text.stripPrefix? q!"ascending" _ = none; simp [Text.stripPrefix?])
  have h2 : kw "asc" (q!"descending" ++ rest) e = .fail (q!"descending" ++ rest) e :=
    kw_mismatch _ _ _ (by show Text.stripPrefix? q!"asc" _ = none; simp [Text.stripPrefix?])
  have hk := kw_boundary "descending" q!"descending" rest rfl e h
  simp only [List.cons_append, List.nil_append] at hk h1 h2
  simp [sortMode, altL, alt, pmap, Res.castErr, hk, h1, h2]

theorem sortMode_desc (rest : List Char) (e : Nat) (h : Boundary rest) :
    sortMode (q!"desc" ++ rest) e = .ok .desc rest e := by
  have h1 : kw "ascending" (q!"desc" ++ rest) e = .fail (q!"desc" ++ rest) e :=
    kw_mismatch _ _ _ (by show Text.stripPrefix? q!"ascending" _ = none; simp [Text.stripPrefix?])
  have h2 : kw "asc" (q!"desc" ++ rest) e = .fail (q!"desc" ++ rest) e :=
    kw_mismatch _ _ _ (by show Text.stripPrefix? q!"asc" _ = none; simp [Text.stripPrefix?])
  have h3 : kw "descending" (q!"desc" ++ rest) e = .fail (q!"desc" ++ rest) e := by
    apply kw_mismatch
    show Text.stripPrefix? q!"descending" (q!"desc" ++ rest) = none
    cases rest with
    | nil => simp [Text.stripPrefix?]
    | cons c r =>
      have hc := h c r rfl
      by_cases he : c = 'e'
      · subst he; simp [isIdentCh, isAlnum8, isAlpha8] at hc
      · simp [Text.stripPrefix?, Ne.symm he]
  have hk := kw_boundary "desc" q!"desc" rest rfl e h
  simp only [List.cons_append, List.nil_append] at hk h1 h2 h3
  simp [sortMode, altL, alt, pmap, Res.castErr, hk, h1, h2, h3]

theorem sortMode_dsc (rest : List Char) (e : Nat) (h : Boundary rest) :
    sortMode (q!"dsc" ++ rest) e = .ok .desc rest e := by
  have h1 : kw "ascending" (q!"dsc" ++ rest) e = .fail (q!"dsc" ++ rest) e :=
    kw_mismatch _ _ _ (by show Text.stripPrefix? q!"ascending" _ = none; simp [Text.stripPrefix?])
  have h2 : kw "asc" (q!"dsc" ++ rest) e = .fail (q!"dsc" ++ rest) e :=
    kw_mismatch _ _ _ (by show Text.stripPrefix? q!"asc" _ = none; simp [Text.stripPrefix?])
  have h3 : kw "descending" (q!"dsc" ++ rest) e = .fail (q!"dsc" ++ rest) e :=
    kw_mismatch _ _ _ (by show Text.stripPrefix? q!"descending" _ = none; simp [Text.stripPrefix?])
  have h4 : kw "desc" (q!"dsc" ++ rest) e = .fail (q!"dsc" ++ rest) e :=
    kw_mismatch _ _ _ (by show Text.stripPrefix? q!"desc" _ = none; simp [Text.stripPrefix?])
  have hk := kw_boundary "dsc" q!"dsc" rest rfl e h
  simp only [List.cons_append, List.nil_append] at hk h1 h2 h3 h4
  simp [sortMode, altL, alt, pmap, Res.castErr, hk, h1, h2, h3, h4]

/-- **C20 (sort directions).** `asc` ≡ `ascending` and `desc` ≡ `dsc` ≡ `descending`, for every
continuation that starts at a word boundary (blank, `|`, end of the query …); each spelling consumes
exactly the word. -/
theorem C20_sort_direction_synonyms (rest : List Char) (e : Nat) (h : Boundary rest) :
    sortMode (q!"ascending" ++ rest) e = sortMode (q!"asc" ++ rest) e ∧
    sortMode (q!"descending" ++ rest) e = sortMode (q!"desc" ++ rest) e ∧
    sortMode (q!"dsc" ++ rest) e = sortMode (q!"desc" ++ rest) e := by
  rw [sortMode_ascending rest e h, sortMode_descending rest e h, sortMode_dsc rest e h,
    sortMode_asc rest e h, sortMode_desc rest e h]
  exact ⟨rfl, rfl, rfl⟩

/-- a direction word glued to more identifier characters is no direction at all -/
theorem C20_sort_direction_glued (c : Char) (rest : List Char) (e : Nat) (hc : isIdentCh c = true)
    (hne : c ≠ 'e') : sortMode (q!"desc" ++ c :: rest) e = .fail (q!"desc" ++ c :: rest) e := by
  have h1 : kw "ascending" (q!"desc" ++ c :: rest) e = .fail (q!"desc" ++ c :: rest) e :=
    kw_mismatch _ _ _ (by show Text.stripPrefix? q!"ascending" _ = none; simp [Text.stripPrefix?])
  have h2 : kw "asc" (q!"desc" ++ c :: rest) e = .fail (q!"desc" ++ c :: rest) e :=
    kw_mismatch _ _ _ (by show Text.stripPrefix? q!"asc" _ = none; simp [Text.stripPrefix?])
  have h3 : kw "descending" (q!"desc" ++ c :: rest) e = .fail (q!"desc" ++ c :: rest) e :=
    kw_mismatch _ _ _ (by show Text.stripPrefix? q!"descending" _ = none; simp [Text.stripPrefix?, Ne.symm hne])
  have h4 := kw_glued "desc" q!"desc" rfl c rest e hc
  have h5 : kw "dsc" (q!"desc" ++ c :: rest) e = .fail (q!"desc" ++ c :: rest) e :=
    kw_mismatch _ _ _ (by show Text.stripPrefix? q!"dsc" _ = none; simp [Text.stripPrefix?])
  simp only [List.cons_append, List.nil_append] at h1 h2 h3 h4 h5
  simp only [sortMode, altL, alt, pmap, h1, h2, h3, h4, h5, Res.castErr, List.cons_append, List.nil_append]

/-- non-vacuity of `Boundary`: the end of the query, a blank, a bar -/
example : Boundary [] ∧ Boundary q!" | limit 1" ∧ Boundary q!"|count" := by
  refine ⟨?_, ?_, ?_⟩ <;> intro c r h <;> simp at h <;> (try (obtain ⟨rfl, _⟩ := h; decide))

/-- **Counterexample for the code before 96a22d2**: the long spellings were cut short after
`asc` / `desc`, leaving `ending…` unparsed, for EVERY continuation. -/
theorem C20_descending_counterexample (rest : List Char) (e : Nat) :
    sortModeOld (q!"descending" ++ rest) e = .ok .desc (q!"ending" ++ rest) e ∧
    sortModeOld (q!"ascending" ++ rest) e = .ok .asc (q!"ending" ++ rest) e := by
  constructor <;> simp [sortModeOld, altL, alt, pmap, tag, Text.stripPrefix?, Res.castErr]

/-! ### comparison operators, `fields` modes, percentile spellings -/

/-- **C20 (`!=` ≡ `<>`)** for every continuation -/
theorem C20_neq_synonyms (rest : List Char) (e : Nat) :
    compOp (q!"!=" ++ rest) e = .ok .neq rest e ∧
    compOp (q!"<>" ++ rest) e = .ok .neq rest e := by
  constructor <;> simp [compOp, altL, alt, pmap, tag, Text.stripPrefix?, Res.castErr]

/-- a keyword whose first letter differs from the text's first character does not match -/
theorem kw_first (w : String) (a : Char) (as : List Char) (c : Char) (rest : List Char) (e : Nat)
    (hw : w.toList = a :: as) (hne : a ≠ c) : kw w (c :: rest) e = .fail (c :: rest) e :=
  kw_mismatch _ _ _ (by rw [hw]; simp [Text.stripPrefix?, hne])

/-- **C20 (`fields` modes)**: `+` ≡ `only` ≡ `include`, `-` ≡ `except` ≡ `drop`; the symbols for
every continuation, the words for every continuation at a word boundary -/
theorem C20_fields_mode_synonyms (rest : List Char) (e : Nat) (h : Boundary rest) :
    fieldsMode ('+' :: rest) e = .ok .only rest e ∧
    fieldsMode (q!"only" ++ rest) e = .ok .only rest e ∧
    fieldsMode (q!"include" ++ rest) e = .ok .only rest e ∧
    fieldsMode ('-' :: rest) e = .ok .except rest e ∧
    fieldsMode (q!"except" ++ rest) e = .ok .except rest e ∧
    fieldsMode (q!"drop" ++ rest) e = .ok .except rest e := by
  have k1 := kw_boundary "only" q!"only" rest rfl e h
  have k2 := kw_boundary "include" q!"include" rest rfl e h
  have k3 := kw_boundary "except" q!"except" rest rfl e h
  have k4 := kw_boundary "drop" q!"drop" rest rfl e h
  simp only [List.cons_append, List.nil_append] at k1 k2 k3 k4
  have m (w : String) (a : Char) (as : List Char) (c : Char) (r : List Char) (hw : w.toList = a :: as)
      (hne : a ≠ c) := kw_first w a as c r e hw hne
  refine ⟨?_, ?_, ?_, ?_, ?_, ?_⟩
  · simp [fieldsMode, altL, alt, pmap, tag, Text.stripPrefix?, Res.castErr]
  · simp [fieldsMode, altL, alt, pmap, tag, Text.stripPrefix?, Res.castErr, k1]
  · simp [fieldsMode, altL, alt, pmap, tag, Text.stripPrefix?, Res.castErr, k2,
      m "only" 'o' q!"nly" 'i' _ rfl (by decide)]
  · simp [fieldsMode, altL, alt, pmap, tag, Text.stripPrefix?, Res.castErr,
      m "only" 'o' q!"nly" '-' _ rfl (by decide), m "include" 'i' q!"nclude" '-' _ rfl (by decide)]
  · simp [fieldsMode, altL, alt, pmap, tag, Text.stripPrefix?, Res.castErr, k3,
      m "only" 'o' q!"nly" 'e' _ rfl (by decide), m "include" 'i' q!"nclude" 'e' _ rfl (by decide)]
  · simp [fieldsMode, altL, alt, pmap, tag, Text.stripPrefix?, Res.castErr, k4,
      m "only" 'o' q!"nly" 'd' _ rfl (by decide), m "include" 'i' q!"nclude" 'd' _ rfl (by decide),
      m "except" 'e' q!"xcept" 'd' _ rfl (by decide)]

/-- **C20 (`fields onlyx`)**: a mode word glued to more identifier characters is not a mode — the
optional mode is absent and the word is a field name -/
theorem C20_fields_mode_glued (c : Char) (rest : List Char) (e : Nat) (hc : isIdentCh c = true) :
    fieldsMode (q!"only" ++ c :: rest) e = .fail (q!"only" ++ c :: rest) e := by
  have g := kw_glued "only" q!"only" rfl c rest e hc
  simp only [List.cons_append, List.nil_append] at g
  simp [fieldsMode, altL, alt, pmap, tag, Text.stripPrefix?, Res.castErr, g,
    kw_first "include" 'i' q!"nclude" 'o' _ e rfl (by decide),
    kw_first "except" 'e' q!"xcept" 'o' _ e rfl (by decide),
    kw_first "drop" 'd' q!"rop" 'o' _ e rfl (by decide)]

/-- **C20 (`pNN` ≡ `pctNN` ≡ `percentileNN`)**: the three function-name spellings consume exactly
the name when a digit follows -/
theorem C20_pct_tag_synonyms (d : Char) (hd : d.isDigit = true) (rest : List Char) (e : Nat) :
    pctTag (q!"pct" ++ d :: rest) e = .ok () (d :: rest) e ∧
    pctTag (q!"percentile" ++ d :: rest) e = .ok () (d :: rest) e ∧
    pctTag ('p' :: d :: rest) e = .ok () (d :: rest) e := by
  have hc : ¬ ('c' = d) := by intro h; subst h; simp at hd
  have he : ¬ ('e' = d) := by intro h; subst h; simp at hd
  refine ⟨?_, ?_, ?_⟩ <;> simp [pctTag, altL, alt, tag, Text.stripPrefix?, hc, he]

example : ∃ d : Char, d.isDigit = true := ⟨'7', by decide⟩

/-- the value of a percentile literal does not depend on leading zeros (`p099` ≡ `p99`) -/
theorem C20_pct_leading_zero (ds : List Char) : pctValue ('0' :: ds) = pctValue ds := by
  have h : Value.digitsToNat ('0' :: ds) = Value.digitsToNat ds := by
    simp [Value.digitsToNat, Value.digitVal]
  unfold pctValue
  rw [h]

/-! ### blanks around the `|` separators -/

def AllWs (w : List Char) : Prop := ∀ c ∈ w, Text.isMultispace c = true

theorem dropWhile_ws_append (w i : List Char) (h : AllWs w) :
    (w ++ i).dropWhile Text.isMultispace = i.dropWhile Text.isMultispace := by
  induction w with
  | nil => rfl
  | cons c cs ih =>
    have hc : Text.isMultispace c = true := h c (by simp)
    have hcs : AllWs cs := fun x hx => h x (by simp [hx])
    simp [List.dropWhile, hc, ih hcs]

theorem ws0_append (w i : List Char) (e : Nat) (h : AllWs w) : ws0 (w ++ i) e = ws0 i e := by
  simp [ws0, dropWhile_ws_append w i h]

/-- **C20 (blanks after `|`).** An operator (any parser `p`) wrapped as in `parse_operators`
(`p.delimited_by(multispace0)`) gives the same result with any run of blanks/tabs/CR/LF put in
front of it. -/
theorem C20_blanks_before_operator {α} (p : P α) (w i : List Char) (e : Nat) (h : AllWs w) :
    (ws0 *> p <* ws0) (w ++ i) e = (ws0 *> p <* ws0) i e := by
  show (P.bind' (P.bind' ws0 fun _ => p) fun a => P.bind' ws0 fun _ => P.pure' a) (w ++ i) e = _
  show _ = (P.bind' (P.bind' ws0 fun _ => p) fun a => P.bind' ws0 fun _ => P.pure' a) i e
  simp only [P.bind', ws0_append w i e h]

/-- **C20 (blanks before `|`).** Blanks that follow an operator are consumed by its wrapper: what
`separated_list1(tag("|"), …)` sees next does not depend on them. -/
theorem C20_blanks_after_operator {α} (p : P α) (i w r : List Char) (e e1 : Nat) (v : α)
    (h : AllWs w) (hp : p i e = .ok v (w ++ r) e1) :
    (p <* ws0) i e = .ok v (r.dropWhile Text.isMultispace) e1 := by
  show (P.bind' p fun a => P.bind' ws0 fun _ => P.pure' a) i e = _
  simp [P.bind', hp, ws0, P.pure', dropWhile_ws_append w r h]

example : AllWs q!" \t\r\n " := by unfold AllWs; decide

/-! ### spellings that differ in the AST but not after type checking -/

/-- **C20 (`limit` ≡ `limit 10`)**: any double that is the integer 10 type-checks to the operator
the bare `limit` gives -/
theorem C20_limit_default (f : F64)
    (h1 : (F64.feq (F64.trunc f) F64.zero || F64.fractNonzero f) = false) (h2 : F64.toI64 f = 10) :
    typecheckInline (.limit (some f)) = typecheckInline (.limit none) := by
  simp [typecheckInline, h1, h2]

/-- non-vacuity: 10 = 5·2¹ -/
example : (F64.feq (F64.trunc (F64.fin false 5 1)) F64.zero || F64.fractNonzero (F64.fin false 5 1)) = false ∧
    F64.toI64 (F64.fin false 5 1) = 10 := by
  decide +kernel

/-- **C20 (`from` before or after `as`)**: the two positions are the two `Option` slots of the
AST; the type checker produces the same operator -/
theorem C20_from_position (pat : Keyword) (fs : List String) (src : Expr) (nd nc : Bool) :
    typecheckInline (.parse pat fs (some src) none nd nc) =
    typecheckInline (.parse pat fs none (some src) nd nc) := by
  simp [typecheckInline]

/-- **C20 (explicit `as <default name>`)**: the column name is `n.getD (defaultName f)` -/
theorem C20_explicit_default_name (f : AggFn) :
    (some (defaultName f)).getD (defaultName f) = (none : Option String).getD (defaultName f) := rfl

/-! ### every documented synonym, evaluated through the whole parser -/

def synonymPairs : List (List Char × List Char) :=
  [(q!"* | json | avg(x)", q!"* | json | average(x)"),
   (q!"* | json | avg(x) by k", q!"* | json | average(x) as _average by k"),
   (q!"* | json | p50(n)", q!"* | json | pct50(n)"),
   (q!"* | json | p50(n)", q!"* | json | percentile50(n)"),
   (q!"* | json | p50(n)", q!"* | json | p50(n) as p50"),
   (q!"* | json | p50(n)", q!"* | json | p050(n)"),
   (q!"* | json | where n != 3", q!"* | json | where n <> 3"),
   (q!"* | json | where n > 1 and x > 1", q!"* | json | where n > 1 && x > 1"),
   (q!"* | json | where n > 1 and x > 1", q!"* | json | where n>1&&x>1"),
   (q!"* | json | where n > 5 or k == 'a'", q!"* | json | where n > 5 || k == \"a\""),
   (q!"* | json | count by k | sort by k", q!"* | json | count by k | sort by k asc"),
   (q!"* | json | count by k | sort by k", q!"* | json | count by k | sort by k ascending"),
   (q!"* | json | count by k | sort by k desc", q!"* | json | count by k | sort by k dsc"),
   (q!"* | json | count by k | sort by k desc | limit 1", q!"* | json | count by k | sort by k descending | limit 1"),
   (q!"* | json | fields k, n", q!"* | json | fields + k, n"),
   (q!"* | json | fields k, n", q!"* | json | fields only k, n"),
   (q!"* | json | fields k, n", q!"* | json | fields include k, n"),
   (q!"* | json | fields k, n", q!"* | json | fields +k,n"),
   (q!"* | json | fields k, n", q!"* | json | fields k , n"),
   (q!"* | json | fields - k, n", q!"* | json | fields except k, n"),
   (q!"* | json | fields - k, n", q!"* | json | fields drop k, n"),
   (q!"* | json | fields k, n", q!"* | json | fields [\"k\"], ['n']"),
   (q!"* | json | n + 1 as m", q!"* | json | [\"n\"] + 1 as [\"m\"]"),
   (q!"* | json | count", q!"* | json | count as _count"),
   (q!"* | json | sum(n)", q!"* | json | sum(n) as _sum"),
   (q!"* | json | sum(n)", q!"* | json | sum( n )"),
   (q!"* | json | count_distinct(k)", q!"* | json | count_distinct(k) as _countDistinct"),
   (q!"* | json | total(n)", q!"* | json | total(n) as _total"),
   (q!"* | json | where s == \"it's\"", q!"* | json | where s == 'it\\'s'"),
   (q!"* | json | where s == \"say \\\"hi\\\"\"", q!"* | json | where s == 'say \"hi\"'"),
   (q!"\"GET\" | json", q!"'GET' | json"),
   (q!"* | json | where (n > 1)", q!"* | json | where n > 1"),
   (q!"* | json | where ((n) > (1 ))", q!"* | json | where n > 1"),
   (q!"* | json | (n + 1) * 2 as m", q!"* | json | ((n + 1)) * (2) as m"),
   (q!"* | json | where n > 1", q!"*|json|where n>1"),
   (q!"* | json | where n > 1", q!"  *\n|\tjson\r\n|  where\n n\t>  1  "),
   (q!"* | json | count, sum(n) by k, b", q!"* | json | count ,sum( n )\nby k ,b"),
   (q!"* | json | if(n > 1, \"a\", \"b\") as r", q!"* | json | if( n > 1 ,'a' , 'b' ) as r"),
   (q!"NOT (GET OR alpha)", q!"NOT ( GET  OR  alpha )"),
   (q!"* | json | timeslice(parseDate(t)) 1h", q!"* | json | timeslice(parseDate(t)) 60m"),
   (q!"* | json | split(s) on \" \"", q!"* | json | split(s) on ' ' as s")]

/-! one evaluation per pair (kept separate: a single `decide` over the whole list needs tens of GB) -/
theorem syn_01 : sameAst q!"* | json | avg(x)" q!"* | json | average(x)" = true := by decide
theorem syn_02 : sameAst q!"* | json | avg(x) by k" q!"* | json | average(x) as _average by k" = true := by decide
theorem syn_03 : sameAst q!"* | json | p50(n)" q!"* | json | pct50(n)" = true := by decide
theorem syn_04 : sameAst q!"* | json | p50(n)" q!"* | json | percentile50(n)" = true := by decide
theorem syn_05 : sameAst q!"* | json | p50(n)" q!"* | json | p50(n) as p50" = true := by decide
theorem syn_06 : sameAst q!"* | json | p50(n)" q!"* | json | p050(n)" = true := by decide
theorem syn_07 : sameAst q!"* | json | where n != 3" q!"* | json | where n <> 3" = true := by decide
theorem syn_08 : sameAst q!"* | json | where n > 1 and x > 1" q!"* | json | where n > 1 && x > 1" = true := by decide
theorem syn_09 : sameAst q!"* | json | where n > 1 and x > 1" q!"* | json | where n>1&&x>1" = true := by decide
theorem syn_10 : sameAst q!"* | json | where n > 5 or k == 'a'" q!"* | json | where n > 5 || k == \"a\"" = true := by decide
theorem syn_11 : sameAst q!"* | json | count by k | sort by k" q!"* | json | count by k | sort by k asc" = true := by decide
theorem syn_12 : sameAst q!"* | json | count by k | sort by k" q!"* | json | count by k | sort by k ascending" = true := by decide
theorem syn_13 : sameAst q!"* | json | count by k | sort by k desc" q!"* | json | count by k | sort by k dsc" = true := by decide
theorem syn_14 : sameAst q!"* | json | count by k | sort by k desc | limit 1" q!"* | json | count by k | sort by k descending | limit 1" = true := by decide
theorem syn_15 : sameAst q!"* | json | fields k, n" q!"* | json | fields + k, n" = true := by decide
theorem syn_16 : sameAst q!"* | json | fields k, n" q!"* | json | fields only k, n" = true := by decide
theorem syn_17 : sameAst q!"* | json | fields k, n" q!"* | json | fields include k, n" = true := by decide
theorem syn_18 : sameAst q!"* | json | fields k, n" q!"* | json | fields +k,n" = true := by decide
theorem syn_19 : sameAst q!"* | json | fields k, n" q!"* | json | fields k , n" = true := by decide
theorem syn_20 : sameAst q!"* | json | fields - k, n" q!"* | json | fields except k, n" = true := by decide
theorem syn_21 : sameAst q!"* | json | fields - k, n" q!"* | json | fields drop k, n" = true := by decide
theorem syn_22 : sameAst q!"* | json | fields k, n" q!"* | json | fields [\"k\"], ['n']" = true := by decide
theorem syn_23 : sameAst q!"* | json | n + 1 as m" q!"* | json | [\"n\"] + 1 as [\"m\"]" = true := by decide
theorem syn_24 : sameAst q!"* | json | count" q!"* | json | count as _count" = true := by decide
theorem syn_25 : sameAst q!"* | json | sum(n)" q!"* | json | sum(n) as _sum" = true := by decide
theorem syn_26 : sameAst q!"* | json | sum(n)" q!"* | json | sum( n )" = true := by decide
theorem syn_27 : sameAst q!"* | json | count_distinct(k)" q!"* | json | count_distinct(k) as _countDistinct" = true := by decide
theorem syn_28 : sameAst q!"* | json | total(n)" q!"* | json | total(n) as _total" = true := by decide
theorem syn_29 : sameAst q!"* | json | where s == \"it's\"" q!"* | json | where s == 'it\\'s'" = true := by decide
theorem syn_30 : sameAst q!"* | json | where s == \"say \\\"hi\\\"\"" q!"* | json | where s == 'say \"hi\"'" = true := by decide
theorem syn_31 : sameAst q!"\"GET\" | json" q!"'GET' | json" = true := by decide
theorem syn_32 : sameAst q!"* | json | where (n > 1)" q!"* | json | where n > 1" = true := by decide
theorem syn_33 : sameAst q!"* | json | where ((n) > (1 ))" q!"* | json | where n > 1" = true := by decide
theorem syn_34 : sameAst q!"* | json | (n + 1) * 2 as m" q!"* | json | ((n + 1)) * (2) as m" = true := by decide
theorem syn_35 : sameAst q!"* | json | where n > 1" q!"*|json|where n>1" = true := by decide
theorem syn_36 : sameAst q!"* | json | where n > 1" q!"  *\n|\tjson\r\n|  where\n n\t>  1  " = true := by decide
theorem syn_37 : sameAst q!"* | json | count, sum(n) by k, b" q!"* | json | count ,sum( n )\nby k ,b" = true := by decide
theorem syn_38 : sameAst q!"* | json | if(n > 1, \"a\", \"b\") as r" q!"* | json | if( n > 1 ,'a' , 'b' ) as r" = true := by decide
theorem syn_39 : sameAst q!"NOT (GET OR alpha)" q!"NOT ( GET  OR  alpha )" = true := by decide
theorem syn_40 : sameAst q!"* | json | timeslice(parseDate(t)) 1h" q!"* | json | timeslice(parseDate(t)) 60m" = true := by decide
theorem syn_41 : sameAst q!"* | json | split(s) on \" \"" q!"* | json | split(s) on ' ' as s" = true := by decide

/-- **C20 (synonym instances).** Every pair above parses — through the complete parser model —
to one and the same accepted AST. -/
theorem C20_synonym_instances : synonymPairs.all (fun p => sameAst p.1 p.2) = true := by
  simp only [synonymPairs, List.all_cons, List.all_nil, Bool.and_true, Bool.and_eq_true,
    syn_01, syn_02, syn_03, syn_04, syn_05, syn_06, syn_07, syn_08, syn_09, syn_10, syn_11, syn_12, syn_13, syn_14, syn_15, syn_16, syn_17, syn_18, syn_19, syn_20, syn_21, syn_22, syn_23, syn_24, syn_25, syn_26, syn_27, syn_28, syn_29, syn_30, syn_31, syn_32, syn_33, syn_34, syn_35, syn_36, syn_37, syn_38, syn_39, syn_40, syn_41]

/-- **C20 (aliases), definitional part.** The alias table holds, for each keyword, exactly the
operators its template text parses to (`pipeline_template`), and the `alias` alternative splices
that list: an alias and its expansion are the same operators by construction.  (Evaluating the
templates inside the kernel is not feasible — `String.toList` on literals of 13-400 characters
explodes — so the end-to-end equality of `* | apache` and its expansion is checked on the real
code and the compiled model: family "alias" of harness/src/props/c20.rs, PARSE witness
`* | apache | nginx | k8singressnginx | testmultioperator`.) -/
theorem C20_alias_table : aliasTable = aliasTemplates.map (fun a => (a.1, renderAlias a.2)) := rfl

theorem C20_alias_keywords : aliasTemplates.map (·.1) = aliasKeywords := by decide

/-! ### open findings: counterexamples -/

/-- **Open finding C20/by-header-depends-on-spelling, as a theorem about the code.** The header of
a `by` key (`sourced_expr`) IS the trimmed source text the key expression consumed … -/
theorem by_header_is_source_text (env : Env) (i r : List Char) (e e2 : Nat) (h : String) (ex : Expr)
    (hs : sourcedExpr env i e = .ok (h, ex) r e2) :
    h = String.ofList (Text.trim (i.take (i.length - r.length))) := by
  unfold sourcedExpr at hs
  split at hs
  · rename_i v r1 e1 h1
    simp only at hs
    split at hs
    · simp only [Res.ok.injEq, Prod.mk.injEq] at hs
      obtain ⟨⟨ha, _⟩, hb, _⟩ := hs
      subst hb; exact ha.symm
    all_goals simp at hs
  · simp [Res.castErr] at hs
    split at hs <;> simp_all

theorem ofList_ne (a b : List Char) (h : a ≠ b) : String.ofList a ≠ String.ofList b := by
  intro hh
  apply h
  have := congrArg String.toList hh
  simpa using this

/-- … hence two spellings of one key (`n > 5`, `n>5`, `(n > 5)`, `["k"]` vs `k`) give two different
output column names: **counterexample to spelling independence of the output**. -/
theorem by_header_counterexample (env : Env) (i1 r1 i2 r2 : List Char) (e1 e1' e2 e2' : Nat)
    (h1 h2 : String) (x1 x2 : Expr)
    (p1 : sourcedExpr env i1 e1 = .ok (h1, x1) r1 e1')
    (p2 : sourcedExpr env i2 e2 = .ok (h2, x2) r2 e2')
    (hne : Text.trim (i1.take (i1.length - r1.length)) ≠ Text.trim (i2.take (i2.length - r2.length))) :
    h1 ≠ h2 := by
  rw [by_header_is_source_text env i1 r1 e1 e1' h1 x1 p1, by_header_is_source_text env i2 r2 e2 e2' h2 x2 p2]
  exact ofList_ne _ _ hne

/-- non-vacuity of the hypothesis: the two consumed texts `n > 5` and `n>5` differ after trimming -/
example : Text.trim q!"n > 5" ≠ Text.trim q!"n>5" := by decide

/-! ### identifiers that start with a keyword (finding C20/identifier-prefix-collides-with-keyword,
fixed by repo commit 0324001: general statement `kw_glued` / `kw_boundary` in Lemmas/LangEq.lean) -/

theorem kwp_01 : sameAst q!"* | json | max_latency as y" q!"* | json | [\"max_latency\"] as y" = true := by decide
theorem kwp_02 : sameAst q!"* | json | where trueish == 1" q!"* | json | where [\"trueish\"] == 1" = true := by decide
theorem kwp_03 : sameAst q!"* | json | nullable + 1 as y" q!"* | json | [\"nullable\"] + 1 as y" = true := by decide
theorem kwp_04 : sameAst q!"* | json | counter as y" q!"* | json | [\"counter\"] as y" = true := by decide
theorem kwp_05 : sameAst q!"* | json | sortable as y" q!"* | json | [\"sortable\"] as y" = true := by decide
theorem kwp_06 : sameAst q!"* | json | p50x as y" q!"* | json | [\"p50x\"] as y" = true := by decide
theorem kwp_07 : sameAst q!"* | json | sum_total as z" q!"* | json | [\"sum_total\"] as z" = true := by decide
theorem kwp_08 : sameAst q!"* | json | whereabouts as z" q!"* | json | [\"whereabouts\"] as z" = true := by decide
theorem kwp_09 : sameAst q!"* | json | fields onlyx" q!"* | json | fields [\"onlyx\"]" = true := by decide
theorem kwp_10 : sameAst q!"* | json | fields exceptional" q!"* | json | fields [\"exceptional\"]" = true := by decide
theorem kwp_11 : isAccept (parseChars q!"* | json | count by falsey, nullish") = true := by decide

/-- **C20 (bare name ≡ `["name"]`, keyword-prefixed names).** A field whose name merely starts with
a keyword — an aggregate name, `p<digits>`, `true`/`false`/`null`, `sort`, `where`, a `fields` mode —
parses, written bare, to exactly the AST of its `["…"]` spelling. -/
theorem C20_keyword_prefix_instances :
    sameAst q!"* | json | max_latency as y" q!"* | json | [\"max_latency\"] as y" = true ∧
    sameAst q!"* | json | where trueish == 1" q!"* | json | where [\"trueish\"] == 1" = true ∧
    sameAst q!"* | json | nullable + 1 as y" q!"* | json | [\"nullable\"] + 1 as y" = true ∧
    sameAst q!"* | json | counter as y" q!"* | json | [\"counter\"] as y" = true ∧
    sameAst q!"* | json | sortable as y" q!"* | json | [\"sortable\"] as y" = true ∧
    sameAst q!"* | json | p50x as y" q!"* | json | [\"p50x\"] as y" = true ∧
    sameAst q!"* | json | fields onlyx" q!"* | json | fields [\"onlyx\"]" = true ∧
    sameAst q!"* | json | fields exceptional" q!"* | json | fields [\"exceptional\"]" = true :=
  ⟨kwp_01, kwp_02, kwp_03, kwp_04, kwp_05, kwp_06, kwp_09, kwp_10⟩

end Ag.C20
