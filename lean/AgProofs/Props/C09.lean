/-
C09  Sorting returns an ordered permutation under one total value order.

Sort-level theorems about `sortRows` / `sortCmp` (Sorter::emit, src/operator/sort.rs:43-68),
`orderingBy` (Record::ordering, src/data.rs) and the implicit sort of `Pipeline::new`
(src/lib.rs:108-130, 162-181).  The value-level order laws (`Value.cmp` is a total preorder on
the stated domain, numbers by numeric value, the type order) are in AgProofs/Props/C09order.lean.
-/
import AgModel.Pipeline

namespace Ag.C09

/-- the "≤" that `sort_by` sees -/
def le (ext : Ext) (cols : List Expr) (dir : SortDir) (columns : List String) (l r : Fields) : Bool :=
  sortCmp ext cols dir columns l r != .gt

/-- what the sort-level theorems need from the comparator on the rows at hand -/
structure CmpLaws (ext : Ext) (cols : List Expr) (dir : SortDir) (columns : List String) : Prop where
  trans : ∀ a b c, le ext cols dir columns a b = true → le ext cols dir columns b c = true →
    le ext cols dir columns a c = true
  total : ∀ a b, (le ext cols dir columns a b || le ext cols dir columns b a) = true

/-- **C09 (permutation).** The sorter outputs exactly the rows it received — for every
comparator, consistent or not. -/
theorem C09_sort_perm (ext : Ext) (cols : List Expr) (dir : SortDir) (columns : List String)
    (rows : List Fields) : (sortRows ext cols dir columns rows).Perm rows := by
  unfold sortRows
  exact List.mergeSort_perm rows _

/-- **C09 (ordered).** With a transitive, total comparator the output is sorted: every earlier
row is ≤ every later row under (primary keys in the requested direction, then all columns). -/
theorem C09_sort_sorted (ext : Ext) (cols : List Expr) (dir : SortDir) (columns : List String)
    (laws : CmpLaws ext cols dir columns) (rows : List Fields) :
    (sortRows ext cols dir columns rows).Pairwise (fun a b => le ext cols dir columns a b = true) := by
  unfold sortRows
  exact List.pairwise_mergeSort (le := fun l r => sortCmp ext cols dir columns l r != .gt)
    laws.trans laws.total rows

/-- **C09 (ties are broken deterministically).** If the comparator is antisymmetric on the
rows (no two different rows compare equal on all columns), the output is the unique sorted
permutation: it does not depend on the order in which the rows arrived. -/
theorem C09_tiebreak_deterministic (ext : Ext) (cols : List Expr) (dir : SortDir)
    (columns : List String) (laws : CmpLaws ext cols dir columns) (rows rows' : List Fields)
    (hp : rows.Perm rows')
    (anti : ∀ a b, a ∈ rows → b ∈ rows → le ext cols dir columns a b = true →
      le ext cols dir columns b a = true → a = b) :
    sortRows ext cols dir columns rows = sortRows ext cols dir columns rows' := by
  apply List.Perm.eq_of_pairwise (le := fun a b => le ext cols dir columns a b = true)
  · intro a b ha hb hab hba
    have ha' : a ∈ rows := (C09_sort_perm ext cols dir columns rows).mem_iff.mp ha
    have hb' : b ∈ rows :=
      hp.mem_iff.mpr ((C09_sort_perm ext cols dir columns rows').mem_iff.mp hb)
    exact anti a b ha' hb' hab hba
  · exact C09_sort_sorted ext cols dir columns laws rows
  · exact C09_sort_sorted ext cols dir columns laws rows'
  · exact (C09_sort_perm ext cols dir columns rows).trans
      (hp.trans (C09_sort_perm ext cols dir columns rows').symm)

/-- a stable sort: rows that are already in order are left as they are -/
theorem C09_sorted_input_unchanged (ext : Ext) (cols : List Expr) (dir : SortDir)
    (columns : List String) (rows : List Fields)
    (h : rows.Pairwise (fun a b => le ext cols dir columns a b = true)) :
    sortRows ext cols dir columns rows = rows := by
  unfold sortRows
  exact List.mergeSort_of_pairwise (le := fun l r => sortCmp ext cols dir columns l r != .gt) h

/-! ### direction -/

/-- descending order is ascending order with the two rows exchanged on the primary keys
(the tie-break by the remaining columns stays ascending) -/
theorem C09_desc_swaps_primary (ext : Ext) (cols : List Expr) (columns : List String) (l r : Fields) :
    sortCmp ext cols .desc columns l r =
      (match (match orderingBy ext cols r l with
              | .ok o => o
              | _ => .lt) with
       | .eq => orderingRef columns l r
       | o => o) := by
  rfl

/-! ### a key that cannot be evaluated -/

/-- a row on which the (single) sort key fails is ordered after a row on which it evaluates -/
theorem C09_missing_key_last (ext : Ext) (c : Expr) (l r : Fields) (v : Value) (k : String)
    (hl : evalValue ext l c = .ok v) (hr : evalValue ext r c = .err k) :
    orderingBy ext [c] l r = .ok .lt ∧ orderingBy ext [c] r l = .ok .gt := by
  simp [orderingBy, hl, hr]

/-- two rows on which the key fails are equal on that key (the comparator stays consistent) -/
theorem C09_missing_key_both (ext : Ext) (c : Expr) (l r : Fields) (k k' : String)
    (hl : evalValue ext l c = .err k) (hr : evalValue ext r c = .err k') :
    orderingBy ext [c] l r = .ok .eq := by
  simp [orderingBy, hl, hr]

/-! ### the implicit sort -/

/-- **C09 (implicit sort rule).** An aggregation that ends the query or is directly followed by
`limit` is followed by a sort; no other aggregation is. -/
theorem C09_implicit_sort_rule (m : MultiAgg) (g : Grouper) (rest : List Operator)
    (hasErr : Bool) (pre : List RowOp) (post : List AggStage) (inAgg : Bool)
    (hc : convertMultiAgg m = .ok g) :
    planLoop inAgg hasErr pre post (.agg m :: rest) =
      if needsSortAfter rest then
        planLoop true hasErr pre
          (.sort (implicitSort m).1 (implicitSort m).2 :: .group g :: post) rest
      else planLoop true hasErr pre (.group g :: post) rest := by
  simp [planLoop, hc]

theorem needsSort_iff (rest : List Operator) :
    needsSortAfter rest = true ↔ rest = [] ∨ ∃ n tl, rest = .inline (.limit n) :: tl := by
  cases rest with
  | nil => simp [needsSortAfter]
  | cons op tl =>
    cases op with
    | inline i => cases i <;> simp [needsSortAfter]
    | _ => simp [needsSortAfter]

/-- the implicit sort is by the aggregate columns, descending — unless `_timeslice` is a key,
in which case it is ascending with `_timeslice` first -/
theorem implicit_sort_without_timeslice (m : MultiAgg)
    (h : m.keyCols.any isTimesliceCol = false) :
    implicitSort m = (m.fns.map (fun nf => Expr.col nf.1 []), .desc) := by
  simp [implicitSort, h]

theorem implicit_sort_with_timeslice (m : MultiAgg)
    (h : m.keyCols.any isTimesliceCol = true) :
    implicitSort m = (Expr.col "_timeslice" [] :: m.fns.map (fun nf => Expr.col nf.1 []), .asc) := by
  simp [implicitSort, h]

/-- non-vacuity: a comparator on no key columns and no tie-break columns is trivially lawful -/
example (ext : Ext) : CmpLaws ext [] .asc [] where
  trans := by intro a b c _ _; simp [le, sortCmp, orderingBy, orderingRef]
  total := by intro a b; simp [le, sortCmp, orderingBy, orderingRef]

end Ag.C09
