/-
C16lines  Discharging `LineOK` (the assumption `C16_table_frame_fits` leaves open) for NARROW tables:
tables whose column names and rendered cells consist of printable characters of display width 1.

* `C16_table_lines_ok`   for a narrow table with distinct column names, on a terminal `w × h`, `h ≥ 2`
                         (and `7 ≤ w` when the table has no rows: the text `No data` has 7 characters),
                         the frame `formatAggregate` prints is `frameText ls` with `FrameOK w (h − 1) ls`.
* `C16_narrow_tables_screen`  hence, for any sequence of narrow tables printed through `formatAggregate`
                         (any printer states), the blank `w × h` terminal ends up showing the last frame.
-/
import AgProofs.Props.C16
import AgProofs.Props.C19

namespace Ag
namespace C16
open Ag.Term Ag.C19

/-- a printable character occupying exactly one terminal cell -/
def NarrowChar (c : Char) : Prop := isPrintable c = true ∧ Pretty.charWidth c = 1

def AllNarrow (l : List Char) : Prop := ∀ ch ∈ l, NarrowChar ch

/-- every column name and every rendered cell text the printer uses
(`cellText ((Fields.get c row).getD .none)` for `c ∈ t.columns`, `row ∈ t.rows`) is narrow -/
def NarrowTable (t : Table) : Prop :=
  (∀ c ∈ t.columns, AllNarrow c.toList) ∧
  (∀ row ∈ t.rows, ∀ c ∈ t.columns, AllNarrow (Pretty.cellText ((Fields.get c row).getD .none)))

theorem AllNarrow.append {a b : List Char} (ha : AllNarrow a) (hb : AllNarrow b) : AllNarrow (a ++ b) := by
  intro ch hch
  rcases List.mem_append.mp hch with h | h
  · exact ha ch h
  · exact hb ch h

theorem narrow_blank : NarrowChar ' ' := ⟨by decide, charWidth_blank⟩
theorem narrow_dash : NarrowChar '-' := ⟨by decide, charWidth_dash⟩
theorem narrow_ellipsis : NarrowChar '…' := ⟨by simp [isPrintable], charWidth_ellipsis⟩

theorem AllNarrow.replicate {c : Char} (hc : NarrowChar c) (k : Nat) : AllNarrow (List.replicate k c) := by
  intro ch hch
  rw [(List.mem_replicate.mp hch).2]; exact hc

theorem AllNarrow.of_prefix {a b s : List Char} (hs : AllNarrow s) (e : s = a ++ b) : AllNarrow a := by
  intro ch hch
  exact hs ch (by rw [e]; exact List.mem_append_left _ hch)

theorem AllNarrow.takeWidth {inp : List Char} (h : AllNarrow inp) (k : Nat) :
    AllNarrow (Pretty.takeWidth k inp) := by
  obtain ⟨t, ht⟩ := takeWidth_prefix inp k
  exact h.of_prefix ht

theorem AllNarrow.trimEnd {s : List Char} (h : AllNarrow s) : AllNarrow (Text.trimEnd s) := by
  obtain ⟨t, ht, _⟩ := trimEnd_prefix s
  exact h.of_prefix ht

theorem AllNarrow.concat : ∀ {cells : List (List Char)}, (∀ cell ∈ cells, AllNarrow cell) →
    AllNarrow (Pretty.concat cells) := by
  intro cells
  induction cells with
  | nil => intro _ ch hch; simp [Pretty.concat] at hch
  | cons x xs ih =>
    intro h
    simp only [Pretty.concat]
    exact (h x (by simp)).append (ih (fun c hc => h c (by simp [hc])))

/-- a printed cell of a narrow text is narrow -/
theorem narrow_cell {inp : List Char} {n : Nat} {cell : List Char} (hin : AllNarrow inp)
    (h : Pretty.fmtEllipsis inp n = .ok cell) : AllNarrow cell := by
  have h2 : AllNarrow ['…', ' '] := by
    intro ch hch
    simp only [List.mem_cons, List.not_mem_nil, or_false] at hch
    rcases hch with rfl | rfl
    · exact narrow_ellipsis
    · exact narrow_blank
  rcases C19_cell inp n cell h with ⟨_, rfl⟩ | ⟨_, _, rest, k, _, _, rfl⟩ | ⟨_, _, rest, k, _, _, rfl⟩
  · exact hin.append (.replicate narrow_blank _)
  · exact ((hin.takeWidth _).append h2).append (.replicate narrow_blank _)
  · exact (hin.takeWidth _).append (.replicate narrow_blank _)

/-- for narrow text, display width = number of characters -/
theorem dispWidth_narrow : ∀ {l : List Char}, AllNarrow l → Pretty.dispWidth l = l.length := by
  intro l
  induction l with
  | nil => intro _; rfl
  | cons c cs ih =>
    intro h
    simp only [Pretty.dispWidth, List.length_cons]
    rw [(h c (by simp)).2, ih (fun d hd => h d (by simp [hd]))]
    omega

/-- every line (header, separator, body) of a narrow table is narrow -/
theorem narrow_parts (env : Pretty.Env) (widths : Pretty.WMap) (t : Table) (w2 : Pretty.WMap)
    (parts : Pretty.Parts) (hn : NarrowTable t) (h : Pretty.tableParts env widths t = .ok (w2, parts)) :
    ∀ l ∈ parts.header :: parts.sep :: parts.body, AllNarrow l := by
  obtain ⟨_, _, hs, hh, hhead, hsep, hb⟩ := tableParts_inv env widths t w2 parts h
  intro l hl
  simp only [List.mem_cons] at hl
  rcases hl with rfl | rfl | hl
  · rw [hhead]
    refine (AllNarrow.concat ?_).trimEnd
    intro cell hcell
    obtain ⟨c, hc, n, _, hf⟩ := (headerCells_spec w2 t.columns hs hh).mem_right cell hcell
    exact narrow_cell (hn.1 c hc) hf
  · rw [hsep]; exact .replicate narrow_dash _
  · obtain ⟨row, hrow, cells, hc, rfl⟩ := (bodyLines_spec w2 t.columns t.rows parts.body hb).mem_right l hl
    refine (AllNarrow.concat ?_).trimEnd
    intro cell hcell
    obtain ⟨c, hcm, n, _, hf⟩ := (rowCells_spec w2 row t.columns cells hc).mem_right cell hcell
    exact narrow_cell (hn.2 row hrow c hcm) hf

theorem AllNarrow.clean {l : List Char} (h : AllNarrow l) : Clean l := by
  refine ⟨fun hm => ?_, fun hm => ?_⟩
  · exact pr_ne_nl (h _ hm).1 rfl
  · exact pr_ne_cr (h _ (List.mem_of_getLast? hm)).1 rfl

theorem AllNarrow.lineOK {l : List Char} {w : Nat} (h : AllNarrow l) (hw : Pretty.dispWidth l ≤ w) :
    LineOK w l :=
  ⟨by rw [← dispWidth_narrow h]; exact hw, fun c hc => (h c hc).1⟩

/-- **C16_table_lines_ok.**  The assumption `LineOK` of `C16_table_frame_fits` holds for narrow tables:
the frame the table printer produces on a `w × h` terminal (`h ≥ 2`) consists of at most `h − 1` lines
of at most `w` printable characters each.  (`hw`: the text `No data` of an empty table needs 7 columns.) -/
theorem C16_table_lines_ok (env : Pretty.Env) (st st' : Pretty.St) (t : Table) (w h : Nat) (out : List Char)
    (hterm : env.term = some (w, h)) (h2 : 2 ≤ h) (hnd : t.columns.Nodup) (hn : NarrowTable t)
    (hw : t.rows = [] → 7 ≤ w)
    (hf : Pretty.formatAggregate env st t = .ok (out, st')) :
    ∃ ls, out = frameText ls ∧ FrameOK w (h - 1) ls := by
  by_cases hrows : t.rows = []
  · have hw7 := hw hrows
    simp only [Pretty.formatAggregate, hrows, List.isEmpty_nil, ↓reduceIte, Outcome.ok.injEq,
      Prod.mk.injEq] at hf
    refine ⟨["No data".toList], ?_, by simp, by simp; omega, ?_⟩
    · rw [← hf.1]; decide
    · intro l hl
      simp only [List.mem_singleton] at hl
      subst hl
      exact ⟨by simpa using hw7, by decide⟩
  · have hf0 := hf
    simp only [Pretty.formatAggregate] at hf
    split at hf
    · rename_i he; cases hr : t.rows <;> simp_all
    · split at hf
      · rename_i w2 parts hp
        have hnar := narrow_parts env st.widths t w2 parts hn hp
        have hwid := C19_width env st.widths t w2 parts hnd hp
        have hmax : env.maxWidth = w := by simp [Pretty.Env.maxWidth, hterm]
        have hl := C19_lines env st t w2 parts hrows hp (fun l hl => (hnar l hl).clean)
        simp only [hterm] at hl
        have hl := hl h2
        rw [hl] at hf0
        simp only [Outcome.ok.injEq, Prod.mk.injEq] at hf0
        refine ⟨_, hf0.1.symm, ?_, List.length_take_le _ _, ?_⟩
        · have hk : h - 1 = (h - 2) + 1 := by omega
          rw [hk]; simp [List.take]
        · intro l hl
          have hm := List.mem_of_mem_take hl
          exact (hnar l hm).lineOK (hmax ▸ hwid l hm)
      all_goals simp at hf

theorem frames_of_prints (env : Pretty.Env) (w h : Nat) (hterm : env.term = some (w, h)) (h2 : 2 ≤ h)
    (tables : List Table) (outs : List (List Char))
    (hprint : AllPairs (fun t out => ∃ st st', Pretty.formatAggregate env st t = .ok (out, st')) tables outs) :
    (∀ t ∈ tables, t.columns.Nodup ∧ NarrowTable t ∧ (t.rows = [] → 7 ≤ w)) →
    ∃ fs : List (List (List Char)), outs = fs.map frameText ∧ fs.length = tables.length ∧
      ∀ f ∈ fs, FrameOK w (h - 1) f := by
  induction hprint with
  | nil => intro _; exact ⟨[], rfl, rfl, by simp⟩
  | cons hr _ ih =>
    rename_i t out ts os _hrest
    intro hok
    obtain ⟨fs, hfs, hlen, hall⟩ := ih (fun t ht => hok t (by simp [ht]))
    obtain ⟨st, st', hf⟩ := hr
    obtain ⟨hnd, hn, hw⟩ := hok t (by simp)
    obtain ⟨ls, hout, hfok⟩ := C16_table_lines_ok env st st' t w h out hterm h2 hnd hn hw hf
    refine ⟨ls :: fs, by simp [hout, hfs], by simp [hlen], ?_⟩
    intro f hf
    simp only [List.mem_cons] at hf
    rcases hf with rfl | hf
    · exact hfok
    · exact hall f hf

/-- **C16_narrow_tables_screen.**  Any non-empty sequence of narrow tables printed through
`formatAggregate` (whatever the printer states) on a blank `w × h` terminal, `h ≥ 2`: the outputs are
frames, and the terminal ends up showing exactly the last frame (`C16_screen_full`). -/
theorem C16_narrow_tables_screen (env : Pretty.Env) (w h : Nat) (hterm : env.term = some (w, h)) (h2 : 2 ≤ h)
    (tables : List Table) (hne : tables ≠ [])
    (hok : ∀ t ∈ tables, t.columns.Nodup ∧ NarrowTable t ∧ (t.rows = [] → 7 ≤ w))
    (outs : List (List Char))
    (hprint : AllPairs (fun t out => ∃ st st', Pretty.formatAggregate env st t = .ok (out, st')) tables outs) :
    ∃ frames last, outs = (frames ++ [last]).map frameText ∧
    ∃ s, screenAfter w h outs = some s ∧ s.rows = expectedRows w h last := by
  obtain ⟨fs, hfs, hlen, hall⟩ := frames_of_prints env w h hterm h2 tables outs hprint hok
  have hfne : fs ≠ [] := by
    intro e; subst e
    exact hne (List.length_eq_zero_iff.mp hlen.symm)
  have hsplit := List.dropLast_concat_getLast hfne
  refine ⟨fs.dropLast, fs.getLast hfne, by rw [hsplit]; exact hfs, ?_⟩
  have := C16_screen_full_holds w h fs.dropLast (fs.getLast hfne) (by rw [hsplit]; exact hall)
  rw [hsplit, ← hfs] at this
  exact this

def narrowExample : Table :=
  { columns := ["k", "n"],
    rows := [[("k", .str "ab"), ("n", .int 7)], [("k", .str "cd"), ("n", .int 12)]] }

/-- non-vacuity: a concrete 2-column, 2-row table is narrow -/
example : NarrowTable narrowExample := by
  simp only [NarrowTable, AllNarrow, NarrowChar]
  decide

/-- the environment of the boundary case: a terminal 5 columns wide -/
def envW5 : Pretty.Env := { cfg := { minBuf := 4, maxBuf := 8 }, term := some (5, 10) }

/-- **C16_no_data_narrow_counterexample.**  Hypothesis `hw` of `C16_table_lines_ok` cannot be dropped:
the empty table satisfies every other hypothesis (`term = some (5, 10)`, `2 ≤ 10`, distinct columns,
narrow), `formatAggregate` succeeds, and its output `No data\n` is NOT a frame of lines fitting 5 columns. -/
theorem C16_no_data_narrow_counterexample :
    let t : Table := { columns := [], rows := [] }
    envW5.term = some (5, 10) ∧ t.columns.Nodup ∧ NarrowTable t ∧
    Pretty.formatAggregate envW5 {} t = .ok (['N', 'o', ' ', 'd', 'a', 't', 'a', '\n'], {}) ∧
    ¬ ∃ ls, ['N', 'o', ' ', 'd', 'a', 't', 'a', '\n'] = frameText ls ∧ FrameOK 5 9 ls := by
  refine ⟨rfl, List.nodup_nil, ⟨by simp, by simp⟩, rfl, ?_⟩
  rintro ⟨ls, hout, hne, _, hall⟩
  cases ls with
  | nil => exact hne rfl
  | cons l ls' =>
    have hl := hall l (by simp)
    simp only [frameText, Pretty.unlines] at hout
    have h1 : (l ++ '\n' :: Pretty.unlines ls')[l.length]? = some '\n' := by simp
    rw [← hout] at h1
    have h2 : ∀ i, i ≤ 5 → ['N', 'o', ' ', 'd', 'a', 't', 'a', '\n'][i]? ≠ some '\n' := by decide
    exact h2 l.length hl.1 h1

theorem narrowExample_narrow : NarrowTable narrowExample := by
  simp only [NarrowTable, AllNarrow, NarrowChar]
  decide

def envW20 : Pretty.Env := { cfg := { minBuf := 4, maxBuf := 8 }, term := some (20, 5) }

/-- non-vacuity of the headline: `C16_table_lines_ok` applied to a concrete run of the printer -/
example : ∃ out st', Pretty.formatAggregate envW20 {} narrowExample = .ok (out, st') ∧
    ∃ ls, out = frameText ls ∧ FrameOK 20 4 ls := by
  have hs : (Pretty.formatAggregate envW20 {} narrowExample).toOption.isSome = true := by decide
  obtain ⟨o, ho⟩ := Option.isSome_iff_exists.mp hs
  have hf : ∃ o, Pretty.formatAggregate envW20 {} narrowExample = .ok o := ⟨o, eq_ok_of_toOption ho⟩
  obtain ⟨⟨out, st'⟩, hf⟩ := hf
  exact ⟨out, st', hf, C16_table_lines_ok envW20 {} st' narrowExample 20 5 out rfl (by omega) (by decide)
    narrowExample_narrow (by intro h; cases h) hf⟩

theorem AllPairs.getLast {α β : Type} {R : α → β → Prop} {as : List α} {bs : List β}
    (h : AllPairs R as bs) : ∀ a, as.getLast? = some a → ∃ b, bs.getLast? = some b ∧ R a b := by
  induction h with
  | nil => intro a ha; simp at ha
  | cons hr hrest ih =>
    rename_i a0 b0 as0 bs0
    intro a ha
    cases hrest with
    | nil =>
      simp only [List.getLast?_singleton, Option.some.injEq] at ha
      subst ha
      exact ⟨b0, by simp, hr⟩
    | cons hr2 hrest2 =>
      rw [List.getLast?_cons_cons] at ha
      obtain ⟨b, hb, hab⟩ := ih a ha
      exact ⟨b, by rw [List.getLast?_cons_cons]; exact hb, hab⟩

/-- **C16_narrow_live_screen.**  The render loop composed with the printer and the terminal: for every
refresh `schedule` (and any operator states), if every table the loop draws is narrow with distinct
columns, and `outs` are their prints (any printer states), then the blank `w × h` terminal ends up
showing exactly the lines `last` of the print of the table `t` that the stateless pipeline computes
from ALL rows (the table a non-terminal run prints). -/
theorem C16_narrow_live_screen (ext : Ext) (head : AggStage) (rest : List AggStage) (rows : List Record)
    (schedule : List Nat) (sts sts' : List LiveState) (tables : List Table)
    (hlive : liveFrames ext head rest rows sts (schedule ++ [rows.length]) = some (sts', tables))
    (env : Pretty.Env) (w h : Nat) (hterm : env.term = some (w, h)) (h2 : 2 ≤ h)
    (hok : ∀ t ∈ tables, t.columns.Nodup ∧ NarrowTable t ∧ (t.rows = [] → 7 ≤ w))
    (outs : List (List Char))
    (hprint : AllPairs (fun t out => ∃ st st', Pretty.formatAggregate env st t = .ok (out, st')) tables outs) :
    ∃ s last, screenAfter w h outs = some s ∧ s.rows = expectedRows w h last ∧
      ∃ st st' t0 t, headStage ext head rows = .ok t0 ∧ runPlan.go ext rest t0 = .ok t ∧
        tables.getLast? = some t ∧ Pretty.formatAggregate env st t = .ok (frameText last, st') := by
  obtain ⟨t0, t, h0, hrun, hlast⟩ := C16_final_frame ext head rest rows schedule sts sts' tables hlive
  have hne : tables ≠ [] := by intro e; rw [e] at hlast; simp at hlast
  obtain ⟨frames, last, houts, s, hs, hrows⟩ :=
    C16_narrow_tables_screen env w h hterm h2 tables hne hok outs hprint
  obtain ⟨o, ho, st, st', hf⟩ := AllPairs.getLast hprint t hlast
  have : o = frameText last := by
    rw [houts] at ho
    simpa using ho.symm
  subst this
  exact ⟨s, last, hs, hrows, st, st', t0, t, h0, hrun, hlast, hf⟩

end C16
end Ag

#print axioms Ag.C16.C16_table_lines_ok
#print axioms Ag.C16.C16_narrow_tables_screen
#print axioms Ag.C16.C16_no_data_narrow_counterexample
#print axioms Ag.C16.C16_narrow_live_screen
