/-
C14 (continued)  Order- and batching-independence of max, count_distinct and average, and groups
that occur in only one part of a concatenation.

* max: mirror of the min theorems of C14.lean / C14int.lean, with the same honest hypotheses
  (`MaxStepComm`: NaN-free values among which `Equal` means identical — with both zeros present the
  running maximum keeps whichever came first, `C14_maxStepComm_zeros_counterexample`).
  In addition the true MERGE form, free of hypotheses: the running maximum (minimum) of `A ++ B` is
  the max-step (min-step) of the result for `A` and the result for `B`
  (`C14_max_combine`, `C14_min_combine`).
* count_distinct: the count is invariant under every permutation, exactly; the distinct set of
  `A ++ B` is the union, the count is sub-additive and additive on disjoint value sets.  "Distinct"
  is with respect to `Value`'s `==` (see C01more.lean).
* average: the accumulator is the pair (running float sum, number of numeric values).  The count
  component of `A ++ B` is exactly the sum of the counts; the sum component is the running sum
  continued from the sum of `A` — which is `sumA + sumB` when the sums are exact (integer data
  within 2^53), and NOT in general (`C14_avg_append_float_sums_counterexample`: float addition is
  not associative; the property only claims a tolerance there).  A row whose argument does not
  evaluate to a number changes neither component.
* a group whose key occurs in only one part keeps exactly the accumulators it has in that part.
-/
import AgProofs.Props.C01laws
import AgProofs.Props.C01more
import AgProofs.Props.C14int

namespace Ag.C14
open Ag.C01 Ag.F64 Ag.Distinct

/-! ### max -/

theorem gt_eq_ocmp {v m : F64} (hv : v ≠ nan) (hm : m ≠ nan) :
    F64.gt v m = (ocmp v m == .gt) := by
  cases v <;> cases m <;> simp_all [F64.gt, ocmp, pcmp]

theorem gt_nan_right (v : F64) : F64.gt v nan = false := by
  cases v <;> simp [F64.gt, pcmp]

theorem gt_nan_left (m : F64) : F64.gt nan m = false := by
  cases m <;> simp [F64.gt, pcmp]

theorem lt_nan_left (m : F64) : F64.lt nan m = false := by
  cases m <;> simp [F64.lt, pcmp]

/-- nothing is below `-inf` / above `+inf`: the start values are neutral -/
theorem gt_negInf_left (x : F64) : F64.gt negInf x = false := by
  cases x with
  | nan => simp [F64.gt, pcmp, negInf]
  | inf s => cases s <;> simp [F64.gt, pcmp, negInf]
  | fin s m e => simp [F64.gt, pcmp, negInf]

theorem lt_posInf_left (x : F64) : F64.lt posInf x = false := by
  cases x with
  | nan => simp [F64.lt, pcmp, posInf]
  | inf s => cases s <;> simp [F64.lt, pcmp, posInf]
  | fin s m e => simp [F64.lt, pcmp, posInf]

/-- one step of `max` as the accumulator computes it -/
def maxStep (m v : F64) : F64 := if F64.gt v m then v else m

/-- the max step is right-commutative on values that are not NaN and among which `Equal`
(`ocmp … = .eq`) means identical (mirror of `F64.minStep_comm`) -/
theorem maxStep_comm {m x y : F64} (hx : x ≠ nan) (hy : y ≠ nan)
    (hanti : ocmp x y = .eq → x = y) :
    maxStep (maxStep m x) y = maxStep (maxStep m y) x := by
  unfold maxStep
  by_cases hm : m = nan
  · subst hm; simp [gt_nan_right]
  rw [gt_eq_ocmp hx hm, gt_eq_ocmp hy hm]
  by_cases hxm : ocmp x m = .gt <;> by_cases hym : ocmp y m = .gt <;>
    simp only [hxm, hym, beq_self_eq_true, if_true, if_false, beq_iff_eq]
  · rw [gt_eq_ocmp hy hx, gt_eq_ocmp hx hy]
    cases hxy : ocmp x y
    · have hyx : ocmp y x = .gt := by rw [← ocmp_swap, hxy]; rfl
      simp [hyx]
    · rw [hanti hxy]; simp
    · have hyx : ocmp y x = .lt := by rw [← ocmp_swap, hxy]; rfl
      simp [hyx]
  · rw [gt_eq_ocmp hy hx]
    have : ocmp y x ≠ .gt := fun h => hym (Std.TransCmp.gt_trans h hxm)
    simp [this, hxm, gt_eq_ocmp hx hm]
  · rw [gt_eq_ocmp hx hy]
    have : ocmp x y ≠ .gt := fun h => hxm (Std.TransCmp.gt_trans h hym)
    simp [this, hym, gt_eq_ocmp hy hm]
  · simp [hxm, hym, gt_eq_ocmp hx hm, gt_eq_ocmp hy hm]

/-- what `C14_max_perm` needs from the float order on the values that occur (mirror of
`MinStepComm`) -/
def MaxStepComm (vals : List F64) : Prop :=
  ∀ m, ∀ x ∈ vals, ∀ y ∈ vals,
    (fun m v => if F64.gt v m then v else m) ((fun m v => if F64.gt v m then v else m) m x) y =
    (fun m v => if F64.gt v m then v else m) ((fun m v => if F64.gt v m then v else m) m y) x

/-- **C14 (max is order-independent)** on data where the float order commutes (NaN-free, `Equal`
means identical) -/
theorem C14_max_perm (ext : Ext) (e : Expr) {rows rows' : List Fields} (hp : rows.Perm rows')
    (hc : MaxStepComm (numeric ext e rows)) (a a' : Acc)
    (h : foldStep ext (.max e) (.max F64.negInf) rows = some a)
    (h' : foldStep ext (.max e) (.max F64.negInf) rows' = some a') : a = a' := by
  rw [max_spec ext e rows _ a h, max_spec ext e rows' _ a' h']
  congr 1
  exact foldl_perm_mem _ (numeric_perm ext e hp) (fun b x hx y hy => hc b x hx y hy) _

/-- **C14 (max over a concatenation).** The accumulator for `A ++ B` is the accumulator for `B`
started from the accumulator for `A` (mirror of `C14_min_append`) -/
theorem C14_max_append (ext : Ext) (e : Expr) (A B : List Fields) (m : F64) :
    (numeric ext e (A ++ B)).foldl (fun m v => if F64.gt v m then v else m) m =
      (numeric ext e B).foldl (fun m v => if F64.gt v m then v else m)
        ((numeric ext e A).foldl (fun m v => if F64.gt v m then v else m) m) := by
  simp [numeric_append, List.foldl_append]

/-- **`MaxStepComm` holds** on NaN-free values among which `Equal` means identical -/
theorem C14_maxStepComm (vals : List F64) (hnan : ∀ x ∈ vals, x ≠ nan)
    (hanti : ∀ x ∈ vals, ∀ y ∈ vals, ocmp x y = .eq → x = y) : MaxStepComm vals := by
  intro m x hx y hy
  exact maxStep_comm (hnan x hx) (hnan y hy) (hanti x hx y hy)

/-- a checkable sufficient condition: canonical doubles, no NaN, at most one of the two zeros -/
theorem C14_maxStepComm_canon (vals : List F64) (hc : ∀ x ∈ vals, Canon x ∧ x ≠ nan)
    (hz : ∀ x ∈ vals, ∀ y ∈ vals, x.isZero = true → y.isZero = true → x = y) :
    MaxStepComm vals :=
  C14_maxStepComm vals (fun x hx => (hc x hx).2) (fun x hx y hy h => by
    rcases canon_eq_of_ocmp_eq (hc x hx).1 (hc y hy).1 (hc x hx).2 (hc y hy).2 h with h' | h'
    · exact h'
    · exact hz x hx y hy h'.1 h'.2)

/-- in particular on integer-valued data -/
theorem C14_maxStepComm_int (vals : List F64)
    (hint : ∀ x ∈ vals, IntValued x ∧ (toInt x).natAbs ≤ two53) : MaxStepComm vals :=
  C14_maxStepComm vals (fun x hx => intValued_ne_nan (hint x hx).1 (hint x hx).2)
    (fun x hx y hy h =>
      intValued_antisymm (hint x hx).1 (hint y hy).1 (hint x hx).2 (hint y hy).2 h)

/-- **max over integer-valued data is order-independent** (hypothesis-free instance) -/
theorem C14_int_max_perm (ext : Ext) (e : Expr) {rows rows' : List Fields} (hp : rows.Perm rows')
    (hint : ∀ x ∈ numeric ext e rows, IntValued x ∧ (toInt x).natAbs ≤ two53) (a a' : Acc)
    (h : foldStep ext (.max e) (.max F64.negInf) rows = some a)
    (h' : foldStep ext (.max e) (.max F64.negInf) rows' = some a') : a = a' :=
  C14_max_perm ext e hp (C14_maxStepComm_int _ hint) a a' h h'

/-- the unrestricted statement is false: with both zeros present the running maximum keeps
whichever came first -/
theorem C14_maxStepComm_zeros_counterexample :
    ¬ MaxStepComm [F64.zero, F64.negZero] := by
  intro h
  have := h (fin true two52 (-52)) F64.zero (by simp) F64.negZero (by simp)
  revert this
  decide +kernel

/-- non-vacuity of `MaxStepComm` / of the hypotheses of `C14_int_max_perm` -/
example : MaxStepComm [ofInt 3, ofInt (-5), ofInt 0] := by
  apply C14_maxStepComm_int
  intro x hx
  simp only [List.mem_cons, List.mem_nil_iff, or_false] at hx
  rcases hx with rfl | rfl | rfl <;> (unfold IntValued; decide +kernel)

/-! ### max / min: the merge of two partial results (no hypothesis on the data) -/

theorem maxStep_nan (a : F64) : maxStep a nan = a := by simp [maxStep, gt_nan_left]

theorem maxStep_ne_nan {a v : F64} (ha : a ≠ nan) : maxStep a v ≠ nan := by
  unfold maxStep
  split
  · rename_i h; intro hv; subst hv; simp [gt_nan_left] at h
  · exact ha

/-- the left-biased maximum is associative as long as the two LEFT operands are not NaN -/
theorem maxStep_assoc {a v w : F64} (ha : a ≠ nan) (hv : v ≠ nan) :
    maxStep (maxStep a v) w = maxStep a (maxStep v w) := by
  by_cases hw : w = nan
  · subst hw; simp [maxStep_nan]
  unfold maxStep
  rw [gt_eq_ocmp hv ha, gt_eq_ocmp hw hv]
  by_cases h1 : ocmp v a = .gt <;> by_cases h2 : ocmp w v = .gt <;>
    simp only [h1, h2, beq_self_eq_true, if_true, if_false, beq_iff_eq]
  · have h3 : ocmp w a = .gt := Std.TransCmp.gt_trans h2 h1
    simp [gt_eq_ocmp hw ha, gt_eq_ocmp hw hv, h2, h3]
  · simp [gt_eq_ocmp hv ha, gt_eq_ocmp hw hv, h1, h2]
  · have h3 : ocmp w a ≠ .gt := by
      have l1 : (ocmp w v).isLE = true := by cases h : ocmp w v <;> simp_all
      have l2 : (ocmp v a).isLE = true := by cases h : ocmp v a <;> simp_all
      have := ocmp_isLE_trans l1 l2
      intro h; rw [h] at this; cases this
    simp [gt_eq_ocmp hw ha, gt_eq_ocmp hv ha, h1, h3]

theorem foldl_maxStep_shift (l : List F64) : ∀ (m n : F64), m ≠ nan → n ≠ nan →
    l.foldl maxStep (maxStep m n) = maxStep m (l.foldl maxStep n) := by
  induction l with
  | nil => intro m n _ _; rfl
  | cons v vs ih =>
    intro m n hm hn
    simp only [List.foldl_cons]
    rw [maxStep_assoc hm hn, ih m (maxStep n v) hm (maxStep_ne_nan hn)]

theorem foldl_maxStep_ne_nan (l : List F64) : ∀ m, m ≠ nan → l.foldl maxStep m ≠ nan := by
  induction l with
  | nil => intro m hm; exact hm
  | cons v vs ih => intro m hm; exact ih _ (maxStep_ne_nan hm)

/-- **C14 (maxima combine).**  The running maximum over `A ++ B` is the max-step of the result for
`A` and the result for `B` — for all doubles, NaN and both zeros included. -/
theorem C14_max_combine (ext : Ext) (e : Expr) (A B : List Fields) (a b ab : Acc)
    (ha : foldStep ext (.max e) (.max F64.negInf) A = some a)
    (hb : foldStep ext (.max e) (.max F64.negInf) B = some b)
    (hab : foldStep ext (.max e) (.max F64.negInf) (A ++ B) = some ab) :
    ∃ x y, a = .max x ∧ b = .max y ∧ ab = .max (if F64.gt y x then y else x) := by
  refine ⟨_, _, max_spec ext e A _ a ha, max_spec ext e B _ b hb, ?_⟩
  rw [max_spec ext e (A ++ B) _ ab hab, C14_max_append]
  congr 1
  have hA : (numeric ext e A).foldl maxStep negInf ≠ nan :=
    foldl_maxStep_ne_nan _ _ (by simp [negInf])
  have h0 : maxStep ((numeric ext e A).foldl maxStep negInf) negInf =
      (numeric ext e A).foldl maxStep negInf := by
    generalize (numeric ext e A).foldl maxStep negInf = X
    simp [maxStep, gt_negInf_left]
  have := foldl_maxStep_shift (numeric ext e B) _ negInf hA (by simp [negInf])
  rw [h0] at this
  exact this

theorem minStep_nan (a : F64) : minStep a nan = a := by simp [minStep, lt_nan_left]

theorem minStep_ne_nan {a v : F64} (ha : a ≠ nan) : minStep a v ≠ nan := by
  unfold minStep
  split
  · rename_i h; intro hv; subst hv; simp [lt_nan_left] at h
  · exact ha

theorem minStep_assoc {a v w : F64} (ha : a ≠ nan) (hv : v ≠ nan) :
    minStep (minStep a v) w = minStep a (minStep v w) := by
  by_cases hw : w = nan
  · subst hw; simp [minStep_nan]
  unfold minStep
  rw [lt_eq_ocmp hv ha, lt_eq_ocmp hw hv]
  by_cases h1 : ocmp v a = .lt <;> by_cases h2 : ocmp w v = .lt <;>
    simp only [h1, h2, beq_self_eq_true, if_true, if_false, beq_iff_eq]
  · have h3 : ocmp w a = .lt := Std.TransCmp.lt_trans h2 h1
    simp [lt_eq_ocmp hw ha, lt_eq_ocmp hw hv, h2, h3]
  · simp [lt_eq_ocmp hv ha, lt_eq_ocmp hw hv, h1, h2]
  · have h3 : ocmp w a ≠ .lt := by
      -- a ≤ v and v ≤ w give a ≤ w
      have l1 : (ocmp a v).isLE = true := by
        have := ocmp_swap v a
        cases h : ocmp v a <;> simp_all [Ordering.swap] <;> (rw [← this]; rfl)
      have l2 : (ocmp v w).isLE = true := by
        have := ocmp_swap w v
        cases h : ocmp w v <;> simp_all [Ordering.swap] <;> (rw [← this]; rfl)
      have l3 := ocmp_isLE_trans l1 l2
      intro h
      have := ocmp_swap w a
      rw [h] at this
      rw [← this] at l3
      cases l3
    simp [lt_eq_ocmp hw ha, lt_eq_ocmp hv ha, h1, h3]

theorem foldl_minStep_shift (l : List F64) : ∀ (m n : F64), m ≠ nan → n ≠ nan →
    l.foldl minStep (minStep m n) = minStep m (l.foldl minStep n) := by
  induction l with
  | nil => intro m n _ _; rfl
  | cons v vs ih =>
    intro m n hm hn
    simp only [List.foldl_cons]
    rw [minStep_assoc hm hn, ih m (minStep n v) hm (minStep_ne_nan hn)]

theorem foldl_minStep_ne_nan (l : List F64) : ∀ m, m ≠ nan → l.foldl minStep m ≠ nan := by
  induction l with
  | nil => intro m hm; exact hm
  | cons v vs ih => intro m hm; exact ih _ (minStep_ne_nan hm)

/-- **C14 (minima combine).**  The running minimum over `A ++ B` is the min-step of the result for
`A` and the result for `B` — for all doubles, NaN and both zeros included. -/
theorem C14_min_combine (ext : Ext) (e : Expr) (A B : List Fields) (a b ab : Acc)
    (ha : foldStep ext (.min e) (.min F64.posInf) A = some a)
    (hb : foldStep ext (.min e) (.min F64.posInf) B = some b)
    (hab : foldStep ext (.min e) (.min F64.posInf) (A ++ B) = some ab) :
    ∃ x y, a = .min x ∧ b = .min y ∧ ab = .min (if F64.lt y x then y else x) := by
  refine ⟨_, _, min_spec ext e A _ a ha, min_spec ext e B _ b hb, ?_⟩
  rw [min_spec ext e (A ++ B) _ ab hab, C14_min_append]
  congr 1
  have hA : (numeric ext e A).foldl minStep posInf ≠ nan :=
    foldl_minStep_ne_nan _ _ (by simp [posInf])
  have h0 : minStep ((numeric ext e A).foldl minStep posInf) posInf =
      (numeric ext e A).foldl minStep posInf := by
    generalize (numeric ext e A).foldl minStep posInf = X
    simp [minStep, lt_posInf_left]
  have := foldl_minStep_shift (numeric ext e B) _ posInf hA (by simp [posInf])
  rw [h0] at this
  exact this

/-! ### count_distinct -/

theorem evaluated_perm (ext : Ext) (e : Expr) {rows rows' : List Fields} (h : rows.Perm rows') :
    (evaluated ext e rows).Perm (evaluated ext e rows') :=
  List.Perm.filterMap _ h

theorem evaluated_append (ext : Ext) (e : Expr) (A B : List Fields) :
    evaluated ext e (A ++ B) = evaluated ext e A ++ evaluated ext e B := by
  simp [evaluated]

theorem emit_distinct (e : Expr) (s : List Value) :
    (AggDef.countDistinct e).emit (.distinct s) = .ok (.int s.length) := by
  simp [AggDef.emit]

/-- **C14 (count_distinct is order-independent, exactly).**  For every permutation of the rows
the emitted count is the same; the stored lists may hold different representatives in a different
order, but they have the same length and the same membership up to `==`. -/
theorem C14_distinct_perm (ext : Ext) (e : Expr) {rows rows' : List Fields} (hp : rows.Perm rows')
    (a a' : Acc)
    (h : foldStep ext (.countDistinct e) (.distinct []) rows = some a)
    (h' : foldStep ext (.countDistinct e) (.distinct []) rows' = some a') :
    (AggDef.countDistinct e).emit a = (AggDef.countDistinct e).emit a' ∧
    ∃ s s', a = .distinct s ∧ a' = .distinct s' ∧ s.length = s'.length ∧
      ∀ v, memB v s = memB v s' := by
  obtain ⟨he, s, hs, nd, hm⟩ := distinct_spec ext e rows a h
  obtain ⟨he', s', hs', nd', hm'⟩ := distinct_spec ext e rows' a' h'
  have hc := count_perm valueLaws (evaluated_perm ext e hp)
  refine ⟨by rw [he, he', hc], s, s', hs, hs', ?_, ?_⟩
  · rw [count_unique valueLaws s _ nd hm, count_unique valueLaws s' _ nd' hm', hc]
  · intro v; rw [hm, hm', memB_perm (evaluated_perm ext e hp)]

/-- **C14 (count_distinct over a concatenation).**  The distinct set of `A ++ B` is the union of
the two distinct sets (membership up to `==`); it is the accumulator of `B` continued from the one
of `A`; the count is at most the sum of the two counts, and equal to it when no value of `A` is
`==` to a value of `B`. -/
theorem C14_distinct_append (ext : Ext) (e : Expr) (A B : List Fields) (a b ab : Acc)
    (ha : foldStep ext (.countDistinct e) (.distinct []) A = some a)
    (hb : foldStep ext (.countDistinct e) (.distinct []) B = some b)
    (hab : foldStep ext (.countDistinct e) (.distinct []) (A ++ B) = some ab) :
    ∃ sA sB sAB, a = .distinct sA ∧ b = .distinct sB ∧ ab = .distinct sAB ∧
      sAB = accF sA (evaluated ext e B) ∧
      (∀ v, memB v sAB = (memB v sA || memB v sB)) ∧
      sAB.length ≤ sA.length + sB.length ∧
      ((∀ x ∈ sA, memB x sB = false) → sAB.length = sA.length + sB.length) := by
  obtain ⟨_, sA, hsA, ndA, hmA⟩ := distinct_spec ext e A a ha
  obtain ⟨_, sB, hsB, ndB, hmB⟩ := distinct_spec ext e B b hb
  obtain ⟨_, sAB, hsAB, ndAB, hmAB⟩ := distinct_spec ext e (A ++ B) ab hab
  have hunion : ∀ v, memB v sAB = (memB v sA || memB v sB) := by
    intro v; rw [hmAB, evaluated_append, memB_append, hmA, hmB]
  have hcont : sAB = accF sA (evaluated ext e B) := by
    have h1 := distinct_fold ext e (A ++ B) [] ab hab
    have h2 := distinct_fold ext e A [] a ha
    rw [hsAB] at h1; rw [hsA] at h2
    injection h1 with h1; injection h2 with h2
    rw [h1, h2, evaluated_append, accF_append]
  refine ⟨sA, sB, sAB, hsA, hsB, hsAB, hcont, hunion, ?_, ?_⟩
  · have := length_le_of_subset valueLaws sAB (sA ++ sB) ndAB (fun x hx => by
      have h1 : memB x sAB = true := memB_of_mem valueLaws hx
      rw [hunion] at h1; rw [memB_append]; exact h1)
    simpa using this
  · intro hd
    have hnd : NoDupB (sA ++ sB) := by
      refine List.pairwise_append.mpr ⟨ndA, ndB, ?_⟩
      intro x hx y hy
      exact valueLaws.symm_false (memB_false_iff.mp (hd x hx) y hy)
    have := length_eq_of_same valueLaws sAB (sA ++ sB) ndAB hnd
      (fun v => by rw [hunion, memB_append])
    simpa using this

/-- the same on the emitted numbers -/
theorem C14_distinct_append_counts (ext : Ext) (e : Expr) (A B : List Fields) :
    Distinct.count (evaluated ext e (A ++ B)) ≤
      Distinct.count (evaluated ext e A) + Distinct.count (evaluated ext e B) ∧
    ((∀ x ∈ evaluated ext e A, memB x (evaluated ext e B) = false) →
      Distinct.count (evaluated ext e (A ++ B)) =
        Distinct.count (evaluated ext e A) + Distinct.count (evaluated ext e B)) := by
  rw [evaluated_append]
  exact ⟨count_append_le valueLaws _ _, count_append_disjoint valueLaws _ _⟩

/-- non-vacuity: `[1, "1"] ++ ["1", 2]`: counts 2 and 2, union 3 (< 4: the parts overlap) -/
example (ext : Ext) :
    foldStep ext (.countDistinct (.col "x" [])) (.distinct [])
      ([rowX (.int 1), rowX (.str "1")] ++ [rowX (.str "1"), rowX (.int 2)]) =
      some (.distinct [.int 2, .str "1", .int 1]) := by
  have h1 : (Value.int 1 == Value.str "1") = false := beq_false_of_rank_ne _ _ (by simp [Value.rank])
  have h2 : (Value.str "1" == Value.str "1") = true := valueLaws.refl _
  have h3 : (Value.str "1" == Value.int 2) = false := beq_false_of_rank_ne _ _ (by simp [Value.rank])
  have h4 : (Value.int 1 == Value.int 2) = false := by show Value.beq _ _ = false; simp [Value.beq]
  simp [foldStep, AggDef.step, evalValue_rowX, h1, h2, h3, h4]

/-- non-vacuity of `C14_distinct_perm`: two arrival orders store different lists, same count -/
example (ext : Ext) :
    foldStep ext (.countDistinct (.col "x" [])) (.distinct [])
      [rowX (.int 1), rowX (.str "1"), rowX (.int 1)] = some (.distinct [.str "1", .int 1]) ∧
    foldStep ext (.countDistinct (.col "x" [])) (.distinct [])
      [rowX (.str "1"), rowX (.int 1), rowX (.int 1)] = some (.distinct [.int 1, .str "1"]) ∧
    [rowX (.int 1), rowX (.str "1"), rowX (.int 1)].Perm
      [rowX (.str "1"), rowX (.int 1), rowX (.int 1)] := by
  have h1 : (Value.int 1 == Value.str "1") = false := beq_false_of_rank_ne _ _ (by simp [Value.rank])
  have h2 : (Value.str "1" == Value.int 1) = false := beq_false_of_rank_ne _ _ (by simp [Value.rank])
  have h3 : (Value.int 1 == Value.int 1) = true := valueLaws.refl _
  refine ⟨?_, ?_, List.Perm.swap _ _ _⟩ <;>
    simp [foldStep, AggDef.step, evalValue_rowX, h1, h2, h3]

/-- non-vacuity of the disjointness hypothesis -/
example (ext : Ext) : ∀ x ∈ evaluated ext (.col "x" []) [rowX (.int 1)],
    memB x (evaluated ext (.col "x" []) [rowX (.str "1")]) = false := by
  have h1 : (Value.str "1" == Value.int 1) = false := beq_false_of_rank_ne _ _ (by simp [Value.rank])
  simp [evaluated, evalValue_rowX, memB, h1]

/-! ### average -/

/-- **C14 (a row whose argument is not a number is ignored by avg).**  Neither the running sum
nor the count changes. -/
theorem C14_avg_ignores_failed_rows (ext : Ext) (e : Expr) (t : F64) (n : Int) (r : Fields)
    (k : String) (h : evalF64 ext r e = .err k) :
    foldStep ext (.avg e) (.avg t n) [r] = some (.avg t n) := by
  simp [foldStep, AggDef.step, h]

/-- … wherever the row stands in the input -/
theorem C14_avg_skip_failed_row (ext : Ext) (e : Expr) (B : List Fields) (r : Fields) (k : String)
    (h : evalF64 ext r e = .err k) (A : List Fields) : ∀ (t : F64) (n : Int),
    foldStep ext (.avg e) (.avg t n) (A ++ r :: B) = foldStep ext (.avg e) (.avg t n) (A ++ B) := by
  induction A with
  | nil => intro t n; simp [foldStep, AggDef.step, h]
  | cons r0 rs ih =>
    intro t n
    simp only [List.cons_append, foldStep, AggDef.step]
    cases hv : evalF64 ext r0 e with
    | ok v => simp only []; exact ih _ _
    | err k => simp only []; exact ih _ _
    | panic p => rfl
    | unmodelled w => rfl

/-- and a numeric row advances both: the sum by its value, the count by one -/
theorem C14_avg_numeric_row (ext : Ext) (e : Expr) (t : F64) (n : Int) (r : Fields) (v : F64)
    (h : evalF64 ext r e = .ok v) :
    foldStep ext (.avg e) (.avg t n) [r] = some (.avg (F64.add t v) (n + 1)) := by
  simp [foldStep, AggDef.step, h]

/-- **C14 (averages combine weighted by count), exact on the accumulator pair.**  The accumulator
of avg is (running sum, number of numeric values).  For `A ++ B` the count is exactly
`cntA + cntB`, and the sum is the running sum of `B`'s values continued from `sumA`. -/
theorem C14_avg_append (ext : Ext) (e : Expr) (A B : List Fields) (a b ab : Acc)
    (ha : foldStep ext (.avg e) (.avg F64.zero 0) A = some a)
    (hb : foldStep ext (.avg e) (.avg F64.zero 0) B = some b)
    (hab : foldStep ext (.avg e) (.avg F64.zero 0) (A ++ B) = some ab) :
    ∃ sA nA sB nB, a = .avg sA nA ∧ b = .avg sB nB ∧
      nA = (numeric ext e A).length ∧ nB = (numeric ext e B).length ∧
      sB = (numeric ext e B).foldl F64.add F64.zero ∧
      ab = .avg ((numeric ext e B).foldl F64.add sA) (nA + nB) := by
  refine ⟨_, _, _, _, avg_spec ext e A _ _ a ha, avg_spec ext e B _ _ b hb, by simp, by simp,
    rfl, ?_⟩
  rw [avg_spec ext e (A ++ B) _ _ ab hab, numeric_append, List.foldl_append]
  simp

theorem natAbs_sum_le (l : List F64) :
    ((l.map toInt).sum).natAbs ≤ (l.map (fun x => (toInt x).natAbs)).sum := by
  induction l with
  | nil => simp
  | cons x xs ih =>
    simp only [List.map_cons, List.sum_cons]
    have := Int.natAbs_add_le (toInt x) (xs.map toInt).sum
    omega

theorem intData_append {A B : List F64} (h : IntData (A ++ B)) : IntData A ∧ IntData B := by
  obtain ⟨h1, h2⟩ := h
  simp only [List.map_append, List.sum_append] at h2
  exact ⟨⟨fun x hx => h1 x (by simp [hx]), by omega⟩, ⟨fun x hx => h1 x (by simp [hx]), by omega⟩⟩

/-- the running sum of integer data is the double of the integer sum -/
theorem intData_foldl {vals : List F64} (h : IntData vals) :
    vals.foldl F64.add F64.zero = ofInt (vals.map toInt).sum := by
  have := foldl_add_intValued vals 0 h.1 (by simpa using h.2)
  rwa [ofInt_zero_eq, Int.zero_add] at this

/-- **C14 (averages combine weighted by count), integer data.**  When the summed values are
integers with Σ|i| ≤ 2^53 the sums are exact, and the accumulator for `A ++ B` is literally
`(sumA + sumB, cntA + cntB)`; the emitted average is `(sumA + sumB) / (cntA + cntB)`. -/
theorem C14_avg_append_int (ext : Ext) (e : Expr) (A B : List Fields) (a b ab : Acc)
    (hd : IntData (numeric ext e (A ++ B)))
    (ha : foldStep ext (.avg e) (.avg F64.zero 0) A = some a)
    (hb : foldStep ext (.avg e) (.avg F64.zero 0) B = some b)
    (hab : foldStep ext (.avg e) (.avg F64.zero 0) (A ++ B) = some ab) :
    ∃ sA nA sB nB, a = .avg sA nA ∧ b = .avg sB nB ∧ ab = .avg (F64.add sA sB) (nA + nB) ∧
      (AggDef.avg e).emit ab =
        .ok (Value.fromFloat (F64.div (F64.add sA sB) (F64.ofInt (nA + nB)))) := by
  rw [numeric_append] at hd
  obtain ⟨dA, dB⟩ := intData_append hd
  have hsum : (numeric ext e (A ++ B)).foldl F64.add F64.zero =
      F64.add ((numeric ext e A).foldl F64.add F64.zero)
        ((numeric ext e B).foldl F64.add F64.zero) := by
    rw [numeric_append, intData_foldl hd, intData_foldl dA, intData_foldl dB]
    have bA := natAbs_sum_le (numeric ext e A)
    have bB := natAbs_sum_le (numeric ext e B)
    have bAB := natAbs_sum_le (numeric ext e A ++ numeric ext e B)
    have h2 := hd.2
    have hA2 := dA.2
    have hB2 := dB.2
    simp only [List.map_append, List.sum_append] at bAB h2 ⊢
    rw [add_ofInt_exact (by omega) (by omega) (by omega)]
  refine ⟨_, _, _, _, avg_spec ext e A _ _ a ha, avg_spec ext e B _ _ b hb, ?_, ?_⟩
  · rw [avg_spec ext e (A ++ B) _ _ ab hab, hsum, numeric_append]
    simp
  · rw [avg_spec ext e (A ++ B) _ _ ab hab, hsum, numeric_append]
    simp [AggDef.emit]

/-- "the sums add" is NOT exact for floating-point data (so `C14_avg_append` states the sum
component as a continued running sum): `2^53 + 1 + 1` evaluated left to right is `2^53`, but
`2^53 + (1 + 1)` is `2^53 + 2`.  The property claims only a tolerance for float sums/averages. -/
theorem C14_avg_append_float_sums_counterexample :
    ¬ ∀ A B : List F64, (A ++ B).foldl F64.add F64.zero =
        F64.add (A.foldl F64.add F64.zero) (B.foldl F64.add F64.zero) := by
  intro h
  have := h [fin false two52 1] [fin false two52 (-52), fin false two52 (-52)]
  revert this
  decide +kernel

/-- non-vacuity of `IntData (numeric … (A ++ B))` -/
example : IntData ([ofInt 3, ofInt (-5)] ++ [ofInt 0]) := by
  refine ⟨?_, by decide +kernel⟩
  intro x hx
  simp only [List.cons_append, List.nil_append, List.mem_cons, List.mem_nil_iff, or_false] at hx
  rcases hx with rfl | rfl | rfl <;> (unfold IntValued; decide +kernel)

/-- non-vacuity of `C14_avg_ignores_failed_rows`: a row without the field, a row whose field is a
boolean -/
example (ext : Ext) : evalF64 ext [] (.col "x" []) = .err "NoValueForKey" := by
  simp [evalF64, evalValue_noX]
example (ext : Ext) : evalF64 ext (rowX (.bool true)) (.col "x" []) = .err "ExpectedNumber" := by
  simp [evalF64, evalValue_rowX, Value.toF64Agg]
example (ext : Ext) : evalF64 ext (rowX (.int 3)) (.col "x" []) = .ok (ofInt 3) := by
  simp [evalF64, evalValue_rowX, Value.toF64Agg]

/-! ### a group present in only one part -/

theorem foldRows_append (ext : Ext) (g : Grouper) (A B : List Fields) : ∀ (st : GroupState),
    foldRows ext g st (A ++ B) =
      match foldRows ext g st A with
      | .ok st1 => foldRows ext g st1 B
      | .err k => .err k
      | .panic p => .panic p
      | .unmodelled w => .unmodelled w := by
  induction A with
  | nil => intro st; simp [foldRows]
  | cons r rs ih =>
    intro st
    simp only [List.cons_append, foldRows]
    cases g.processRow ext st r with
    | ok st1 => simp only []; exact ih st1
    | err k => rfl
    | panic p => rfl
    | unmodelled w => rfl

/-- **C14 (batching, per group).**  The accumulators of a group after `A ++ B` are those after `A`
fed with the group's rows of `B`; a group with no row in `B` is carried over unchanged. -/
theorem C14_group_append (ext : Ext) (g : Grouper) (A B : List Fields) (stA stAB : GroupState)
    (k : List Value) (hA : foldRows ext g [] A = .ok stA)
    (hAB : foldRows ext g [] (A ++ B) = .ok stAB) :
    if groupRows ext g k B = [] then lookup k stAB = lookup k stA
    else ∃ accs, foldAccs ext g.accNames ((lookup k stA).getD (empties g)) (groupRows ext g k B)
            = .ok accs ∧ lookup k stAB = some accs := by
  rw [foldRows_append, hA] at hAB
  exact group_accs ext g keyLaws B stA stAB k hAB

/-- a group whose key occurs only in `A` has, after `A ++ B`, exactly the accumulators it has
after `A` -/
theorem C14_group_only_in_first_part (ext : Ext) (g : Grouper) (A B : List Fields)
    (stA stAB : GroupState) (k : List Value) (hA : foldRows ext g [] A = .ok stA)
    (hAB : foldRows ext g [] (A ++ B) = .ok stAB) (hk : groupRows ext g k B = []) :
    lookup k stAB = lookup k stA := by
  have := C14_group_append ext g A B stA stAB k hA hAB
  simpa [hk] using this

/-- a group whose key occurs only in `B` has, after `A ++ B`, exactly the accumulators it has
after `B` alone -/
theorem C14_group_only_in_second_part (ext : Ext) (g : Grouper) (A B : List Fields)
    (stA stB stAB : GroupState) (k : List Value) (hA : foldRows ext g [] A = .ok stA)
    (hB : foldRows ext g [] B = .ok stB)
    (hAB : foldRows ext g [] (A ++ B) = .ok stAB) (hk : groupRows ext g k A = []) :
    lookup k stAB = lookup k stB := by
  have h1 := C14_group_append ext g A B stA stAB k hA hAB
  have h2 := C01_group_accs ext g A stA k hA
  have h3 := C01_group_accs ext g B stB k hB
  simp only [hk, if_true] at h2
  by_cases hb : groupRows ext g k B = []
  · simp only [hb, if_true] at h1 h3
    rw [h1, h2, h3]
  · simp only [hb, if_false, h2, Option.getD_none] at h1 h3
    obtain ⟨accs, e1, l1⟩ := h1
    obtain ⟨accs', e2, l2⟩ := h3
    rw [e1] at e2
    injection e2 with e2
    rw [l1, l2, e2]

/-- **C14 (a group present in only one part is carried over unchanged).** -/
theorem C14_group_only_in_one_part (ext : Ext) (g : Grouper) (A B : List Fields)
    (stA stB stAB : GroupState) (k : List Value) (hA : foldRows ext g [] A = .ok stA)
    (hB : foldRows ext g [] B = .ok stB) (hAB : foldRows ext g [] (A ++ B) = .ok stAB) :
    (groupRows ext g k B = [] → lookup k stAB = lookup k stA) ∧
    (groupRows ext g k A = [] → lookup k stAB = lookup k stB) :=
  ⟨C14_group_only_in_first_part ext g A B stA stAB k hA hAB,
   C14_group_only_in_second_part ext g A B stA stB stAB k hA hB hAB⟩

/-! non-vacuity: `* | count by k` over `A = [k=1]`, `B = [k=2]` -/

def gEx : Grouper := { keyCols := [.col "k" []], headers := ["k"], fns := [("_count", .count none)] }
def rowK (v : Value) : Fields := [("k", v)]

theorem gEx_keyOf (ext : Ext) (v : Value) : gEx.keyOf ext (rowK v) = .ok [v] := by
  simp [gEx, rowK, Grouper.keyOf, evalValue, Fields.get, access]

theorem gEx_accNames : gEx.accNames = [("_count", .count none)] := by
  simp [gEx, Grouper.accNames]

theorem keyEq_12 : keyEq [Value.int 1] [Value.int 2] = false := by
  simp [keyEq, Value.beqL, Value.beq]

example (ext : Ext) :
    foldRows ext gEx [] [rowK (.int 1)] = .ok [([.int 1], [("_count", .count 1)])] ∧
    foldRows ext gEx [] [rowK (.int 2)] = .ok [([.int 2], [("_count", .count 1)])] ∧
    foldRows ext gEx [] ([rowK (.int 1)] ++ [rowK (.int 2)]) =
      .ok [([.int 1], [("_count", .count 1)]), ([.int 2], [("_count", .count 1)])] ∧
    groupRows ext gEx [.int 1] [rowK (.int 2)] = [] ∧
    groupRows ext gEx [.int 2] [rowK (.int 1)] = [] := by
  have k21 : keyEq [Value.int 2] [Value.int 1] = false := by simp [keyEq, Value.beqL, Value.beq]
  refine ⟨?_, ?_, ?_, ?_, ?_⟩
  · simp [foldRows, Grouper.processRow, gEx_keyOf, gEx_accNames, groupUpd, stepAccs, AggDef.step,
      AggDef.empty]
  · simp [foldRows, Grouper.processRow, gEx_keyOf, gEx_accNames, groupUpd, stepAccs, AggDef.step,
      AggDef.empty]
  · simp [foldRows, Grouper.processRow, gEx_keyOf, gEx_accNames, groupUpd, stepAccs, AggDef.step,
      AggDef.empty, keyEq_12]
  · simp [groupRows, gEx_keyOf, k21]
  · simp [groupRows, gEx_keyOf, keyEq_12]

end Ag.C14
