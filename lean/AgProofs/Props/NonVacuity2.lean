/-
Non-vacuity instances, second part: C05prec, C06, C07, C17, C18 (see NonVacuity.lean).
Nothing here is a new result.
-/
import AgProofs.Props.C05prec
import AgProofs.Props.C06
import AgProofs.Props.C07
import AgProofs.Props.C17
import AgProofs.Props.C18

namespace Ag.NonVacuity2

/-! ### C05prec: precedence and associativity on concrete texts -/

open Ag.C05prec in
example : parsesTo q!"a * b + c * d"
    (bin .add (bin .mul (v "a") (v "b")) (bin .mul (v "c") (v "d"))) = true := by decide

open Ag.C05prec in
example : parsesTo q!"a - b - c" (bin .sub (bin .sub (v "a") (v "b")) (v "c")) = true := by decide

open Ag.C05prec in
example : parsesTo q!"x or y and z" (.logic .or (v "x") (.logic .and (v "y") (v "z"))) = true := by
  decide

/-! ### C06: the JSON round trip on a nested document (array, nested object, integer at i64::MAX,
a string with an escape, a repeated key) -/

example (P : F64 → List Char) :
    Json.parse (String.ofList (C06.printK P C06.sampleDoc [])) = some (C06.toValue C06.sampleDoc) :=
  C06.C06_json_roundtrip P C06.sampleDoc
    (by simp [C06.sampleDoc, C06.NumsOK, C06.NumsOKs, C06.NumsOKm, Value.inI64, F64.i64Min,
          F64.i64Max])
    (by simp [C06.sampleDoc, C06.depthOf, C06.depthElems, C06.depthMembers])

/-! ### C07: the separator hypothesis of the split theorems -/

example : ∃ toks, Split.split q!"a, b,,c" q!"," = some toks ∧
    (∀ t ∈ toks, t ≠ [] ∧ Text.trim t = t) := by
  obtain ⟨toks, h, h2, _⟩ := C07.C07_split_spec q!"a, b,,c" q!"," (by decide)
  exact ⟨toks, h, h2⟩

example : Split.split q!"a, b,,c" q!"," = some [q!"a", q!"b", q!"c"] := by decide

/-! ### C17: a reachable state in which the write fails -/

open Ag.Sched Ag.C17 in
/-- the hypothesis of `C17_renderer_stops_at_fault` on a reachable state of `firstOnly`, and the
error-line bounds of `C17_at_most_one_error_line` on the state after it -/
example : ∃ s s', Reachable firstOnly s ∧ next firstOnly s (.writeFail 0) = some s' ∧
    s'.rend = .done ∧ s'.errs = s.errs + 1 ∧ s'.errs ≤ 1 := by
  have h4 : (run firstOnly [.feed [10], .readLine, .send, .recv] (init firstOnly)).isSome = true := by
    decide
  obtain ⟨s, hs⟩ := Option.isSome_iff_exists.1 h4
  have h5 : (run firstOnly ([.feed [10], .readLine, .send, .recv] ++ [.writeFail 0])
      (init firstOnly)).isSome = true := by decide
  rw [run_append, hs] at h5
  simp only [Option.bind_some, run] at h5
  cases hn : next firstOnly s (.writeFail 0) with
  | none => simp [hn] at h5
  | some s' =>
    have hr : Reachable firstOnly s := ⟨_, hs⟩
    have hr' : Reachable firstOnly s' :=
      ⟨[.feed [10], .readLine, .send, .recv] ++ [.writeFail 0], by
        rw [run_append, hs]; simp [run, hn]⟩
    obtain ⟨h1, _, _, h2⟩ := C17_renderer_stops_at_fault firstOnly s s' 0 hn
    exact ⟨s, s', hr, hn, h1, h2, (C17_at_most_one_error_line firstOnly s' hr').1.1⟩

/-! ### C18: the output modes on a concrete row -/

open Ag.Out Ag.C18 in
example : jsonRecord { data := [("b", .int 1), ("a", .str "x")], raw := "" } =
    .obj [("a", .str "x"), ("b", .int 1)] := by
  rw [(C18_json_record _).1]
  simp [sortByKey, insertByKey, toJson]

open Ag.Out Ag.C18 in
example : jsonTable { columns := ["k", "_count"], rows := [[("_count", .int 2), ("k", .str "a")]] } =
    .arr [.obj [("k", .str "a"), ("_count", .int 2)]] := by
  rw [C18_json_aggregate]
  simp [Fields.get, toJson]

end Ag.NonVacuity2
