/-
C19 (the table is measured on its own before anything is cut)

The repair of `PrettyPrinter::format_aggregate` (src/printer.rs): the remembered column widths
never shrink, so a long value of an EARLIER frame used to take space from the current table — the
final table could be drawn with an ellipsis although, measured on its own, it fits the terminal.
Now, when the remembered widths enlarged by the current rows do not fit, the memory is dropped and
the current table is measured on its own (`Pretty.startWidths`); only then are widths cut.

* `C19_overflow_is_history_free` — when the remembered widths do not fit, the frame (text and new
  widths) is the one a fresh printer draws: it depends on the current table only;
* `C19_fits_shows_all` — when the widths the table is measured into fit, no header or body cell is
  cut: every cell is its text, padded;
* `C19_cut_only_if_table_overflows` — so, whatever was drawn before, a cell is cut only if the
  table measured on its own does not fit the terminal;
* the regression example: an 80-column terminal, a 100-character `a` in an earlier frame, then
  `a=abc, b=<45 b's>, _count=2` (78 columns on its own) is drawn in full.
-/
import AgProofs.Props.C19

namespace Ag
namespace C19
open Pretty

/-! ### display cells against bytes -/

theorem utf8Size_ge_two (c : Char) (h : 0x80 ≤ c.toNat) : 2 ≤ c.utf8Size := by
  have hv : c.toNat = c.val.toNat := rfl
  simp only [Char.utf8Size]
  split
  · rename_i h1
    have := UInt32.le_iff_toNat_le.1 h1
    simp only [UInt32.toNat_ofNatLT] at this
    omega
  · split
    · omega
    · split <;> omega

theorem utf8Size_ge_three (c : Char) (h : 0x800 ≤ c.toNat) : 3 ≤ c.utf8Size := by
  have hv : c.toNat = c.val.toNat := rfl
  simp only [Char.utf8Size]
  split
  · rename_i h1
    have := UInt32.le_iff_toNat_le.1 h1
    simp only [UInt32.toNat_ofNatLT] at this
    omega
  · split
    · rename_i h2
      have := UInt32.le_iff_toNat_le.1 h2
      simp only [UInt32.toNat_ofNatLT] at this
      omega
    · split <;> omega

set_option maxRecDepth 20000 in
/-- in the crate's table a character wider than two cells lies beyond U+0800 (three UTF-8 bytes) -/
theorem widthRanges_wide_late : ∀ r ∈ widthRanges, r.2.2 ≤ 2 ∨ (0x800 ≤ r.1 ∧ r.2.2 ≤ 3) := by decide

theorem lookupWidth_le_bytes : ∀ (rs : List (Nat × Nat × Nat)),
    (∀ r ∈ rs, r.2.2 ≤ 2 ∨ (0x800 ≤ r.1 ∧ r.2.2 ≤ 3)) →
    ∀ n, lookupWidth rs n ≤ 2 ∨ (0x800 ≤ n ∧ lookupWidth rs n ≤ 3) := by
  intro rs
  induction rs with
  | nil => intro _ n; left; simp [lookupWidth]
  | cons r rest ih =>
    intro h n
    obtain ⟨lo, hi, w⟩ := r
    simp only [lookupWidth]
    split
    · left; omega
    · split
      · rcases h (lo, hi, w) (by simp) with h1 | ⟨h1, h2⟩
        · exact .inl h1
        · exact .inr ⟨by simp only at h1; omega, h2⟩
      · exact ih (fun r hr => h r (by simp [hr])) n

/-- a character never occupies more terminal cells than it has UTF-8 bytes -/
theorem charWidth_le_utf8Size (c : Char) : charWidth c ≤ c.utf8Size := by
  have hpos := Char.utf8Size_pos c
  simp only [charWidth]
  split
  · omega
  · split
    · omega
    · split
      · omega
      · have h2 := utf8Size_ge_two c (by omega)
        rcases lookupWidth_le_bytes widthRanges widthRanges_wide_late c.toNat with h | ⟨h, h'⟩
        · omega
        · have := utf8Size_ge_three c h
          omega

/-- the width `compute_column_widths` reserves (byte length) covers the display width -/
theorem dispWidth_le_byteLen : ∀ s : Str, dispWidth s ≤ byteLen s := by
  intro s
  induction s with
  | nil => simp [dispWidth, byteLen]
  | cons c cs ih =>
    have := charWidth_le_utf8Size c
    simp only [dispWidth, byteLen]
    omega

/-! ### what absorbing rows guarantees about a column's width -/

/-- column `k` has a width of at least `m` -/
def LB (w : WMap) (k : String) (m : Nat) : Prop := ∃ n, w.get k = some n ∧ m ≤ n

theorem LB.mono {w : WMap} {k : String} {m m' : Nat} (h : LB w k m) (hm : m' ≤ m) : LB w k m' := by
  obtain ⟨n, hn, hle⟩ := h
  exact ⟨n, hn, by omega⟩

/-- with `min_buffer ≤ max_buffer` (4/8 in `Pipeline::new`; 1/4, 2/4 in the tests) a new width is
at least the old one and at least the value and the name plus `min_buffer` -/
theorem newWidth_ge (cfg : Cfg) (hb : cfg.minBuf ≤ cfg.maxBuf) (w : WMap) (k : String) (v : Value) :
    (w.get k).getD 0 ≤ newWidth cfg w k v ∧
    byteLen (cellText v) + cfg.minBuf ≤ newWidth cfg w k v ∧
    byteLen k.toList + cfg.minBuf ≤ newWidth cfg w k v := by
  unfold newWidth
  simp only
  have h1 := Nat.le_max_left (byteLen (cellText v)) (byteLen k.toList)
  have h2 := Nat.le_max_right (byteLen (cellText v)) (byteLen k.toList)
  generalize max (byteLen (cellText v)) (byteLen k.toList) = vl at *
  split <;> omega

theorem mem_computeWidths (cfg : Cfg) (w : WMap) (k : String) (n : Nat) : ∀ row : Fields,
    (k, n) ∈ computeWidths cfg w row → ∃ v, (k, v) ∈ row ∧ n = newWidth cfg w k v := by
  intro row
  induction row with
  | nil => intro h; simp [computeWidths] at h
  | cons kv rest ih =>
    obtain ⟨k', v'⟩ := kv
    intro h
    simp only [computeWidths, List.mem_cons, Prod.mk.injEq] at h
    rcases h with ⟨rfl, rfl⟩ | h
    · exact ⟨v', by simp, rfl⟩
    · obtain ⟨v, hv, hn⟩ := ih h
      exact ⟨v, by simp [hv], hn⟩

theorem value_unique : ∀ (row : Fields) (k : String) (v v' : Value), (Fields.keys row).Nodup →
    (k, v) ∈ row → (k, v') ∈ row → v = v' := by
  intro row
  induction row with
  | nil => intro k v v' _ h; simp at h
  | cons kv rest ih =>
    obtain ⟨k0, v0⟩ := kv
    intro k v v' hnd h1 h2
    simp only [Fields.keys, List.map_cons, List.nodup_cons] at hnd
    simp only [List.mem_cons, Prod.mk.injEq] at h1 h2
    have hk : ∀ x, (k0, x) ∈ rest → False := fun x hx =>
      hnd.1 (List.mem_map_of_mem (f := Prod.fst) hx)
    rcases h1 with ⟨rfl, rfl⟩ | h1 <;> rcases h2 with ⟨h2k, rfl⟩ | h2
    · rfl
    · exact (hk _ h2).elim
    · subst h2k; exact (hk _ h1).elim
    · exact ih k v v' hnd.2 h1 h2

theorem get_some_mem_row : ∀ (row : Fields) (k : String) (v : Value),
    Fields.get k row = some v → (k, v) ∈ row := by
  intro row
  induction row with
  | nil => intro k v h; simp [Fields.get] at h
  | cons kv rest ih =>
    obtain ⟨k0, v0⟩ := kv
    intro k v h
    simp only [Fields.get] at h
    by_cases hk : (k == k0) = true
    · simp only [hk, if_true, Option.some.injEq] at h
      have : k = k0 := by simpa using hk
      subst this h
      simp
    · simp only [hk, Bool.false_eq_true, if_false] at h
      exact List.mem_cons_of_mem _ (ih k v h)

theorem get_of_mem_keys : ∀ (row : Fields) (k : String), k ∈ Fields.keys row →
    ∃ v, Fields.get k row = some v := by
  intro row
  induction row with
  | nil => intro k h; simp [Fields.keys] at h
  | cons kv rest ih =>
    obtain ⟨k0, v0⟩ := kv
    intro k h
    simp only [Fields.get]
    by_cases hk : (k == k0) = true
    · exact ⟨v0, by simp [hk]⟩
    · simp only [hk, Bool.false_eq_true, if_false]
      apply ih
      simp only [Fields.keys, List.map_cons, List.mem_cons] at h
      rcases h with rfl | h
      · simp at hk
      · exact h

/-- absorbing one row: no width shrinks, and the row's own columns are wide enough for its values -/
theorem extend_row_LB (cfg : Cfg) (hb : cfg.minBuf ≤ cfg.maxBuf) (w : WMap) (row : Fields)
    (hnd : (Fields.keys row).Nodup) (k : String) :
    (∀ m, LB w k m → LB (w.extend (computeWidths cfg w row)) k m) ∧
    (∀ v, (k, v) ∈ row → LB (w.extend (computeWidths cfg w row)) k
      (max (byteLen (cellText v)) (byteLen k.toList) + cfg.minBuf)) := by
  obtain ⟨g1, g2⟩ := get_extend (computeWidths cfg w row) w k
  rw [computeWidths_keys] at g1 g2
  by_cases hin : k ∈ Fields.keys row
  · obtain ⟨n, hn, hg⟩ := g1 hin
    obtain ⟨v', hv', rfl⟩ := mem_computeWidths cfg w k n row hn
    obtain ⟨b1, b2, b3⟩ := newWidth_ge cfg hb w k v'
    constructor
    · rintro m ⟨n0, hn0, hm⟩
      rw [hn0] at b1
      exact ⟨_, hg, by simp only [Option.getD_some] at b1; omega⟩
    · intro v hv
      have := value_unique row k v v' hnd hv hv'
      subst this
      refine ⟨_, hg, ?_⟩
      rcases Nat.le_total (byteLen (cellText v)) (byteLen k.toList) with h | h
      · rw [Nat.max_eq_right h]; exact b3
      · rw [Nat.max_eq_left h]; exact b2
  · constructor
    · rintro m ⟨n0, hn0, hm⟩
      exact ⟨n0, by rw [g2 hin]; exact hn0, hm⟩
    · intro v hv
      exact absurd (List.mem_map_of_mem (f := Prod.fst) hv) hin

/-- after the rows have been absorbed: a bound that held before still holds, and every value of
every row fits its column (in bytes, plus `min_buffer`) -/
theorem absorb_LB (cfg : Cfg) (hb : cfg.minBuf ≤ cfg.maxBuf) (k : String) (m : Nat) :
    ∀ (rows : List Fields) (w : WMap), (∀ row ∈ rows, (Fields.keys row).Nodup) →
    (LB w k m ∨ ∃ row ∈ rows, ∃ v, (k, v) ∈ row ∧
      m ≤ max (byteLen (cellText v)) (byteLen k.toList) + cfg.minBuf) →
    LB (absorbRows cfg w rows) k m := by
  intro rows
  induction rows with
  | nil =>
    intro w _ h
    rcases h with h | ⟨row, hr, _⟩
    · exact h
    · simp at hr
  | cons row rows ih =>
    intro w hnd h
    simp only [absorbRows]
    obtain ⟨e1, e2⟩ := extend_row_LB cfg hb w row (hnd row (by simp)) k
    apply ih _ (fun r hr => hnd r (by simp [hr]))
    rcases h with h | ⟨r, hr, v, hv, hm⟩
    · exact .inl (e1 m h)
    · simp only [List.mem_cons] at hr
      rcases hr with rfl | hr
      · exact .inl ((e2 v hv).mono hm)
      · exact .inr ⟨r, hr, v, hv, hm⟩

/-! ### "no cell is cut" -/

theorem AllPairs.imp_mem {α β : Type} {R S : α → β → Prop} {as : List α} {bs : List β}
    (h : AllPairs R as bs) (f : ∀ a ∈ as, ∀ b, R a b → S a b) : AllPairs S as bs := by
  induction h with
  | nil => exact .nil
  | cons hr _ ih =>
    exact .cons (f _ (by simp) _ hr) (ih (fun a ha b hab => f a (by simp [ha]) b hab))

/-- the cell shows the whole text, padded with blanks to the column's `n` cells -/
def CellShown (n : Nat) (text cell : Str) : Prop := dispWidth text ≤ n ∧ cell = padW n text

/-- no header cell and no body cell of the table is cut: each is its column name / its value's
text in full, padded to the column width (the lines are the cells joined, `trim_end`ed) -/
def ShownAll (w2 : WMap) (t : Table) (parts : Parts) : Prop :=
  (∃ hs, parts.header = Text.trimEnd (concat hs) ∧
    AllPairs (fun c cell => ∃ n, w2.get c = some n ∧ CellShown n c.toList cell) t.columns hs) ∧
  AllPairs (fun row line => ∃ cells, line = Text.trimEnd (concat cells) ∧
    AllPairs (fun c cell => ∃ n, w2.get c = some n ∧
      CellShown n (cellText ((Fields.get c row).getD .none)) cell) t.columns cells) t.rows parts.body

/-- a shown cell contains no ellipsis unless the text does -/
theorem CellShown.no_ellipsis {n : Nat} {text cell : Str} (h : CellShown n text cell)
    (ht : '…' ∉ text) : '…' ∉ cell := by
  rw [h.2, padW]
  intro hm
  rcases List.mem_append.1 hm with h1 | h1
  · exact ht h1
  · have := List.eq_of_mem_replicate h1
    exact absurd this (by decide)

theorem byteLen_none : byteLen (cellText .none) = 4 := by decide

/-- the hypotheses under which fitting widths mean uncut cells:
`hbuf` the buffers are ordered (so widths never shrink while rows are absorbed);
`hkeys` a row names a field once (rows are maps); `hcov` every column occurs in some row;
`hnone` where a row lacks a column, the placeholder `None` (4 bytes) fits beside the column name —
always so with `min_buffer ≥ 4`, the value `Pipeline::new` uses -/
structure TableOK (env : Env) (t : Table) : Prop where
  hbuf : env.cfg.minBuf ≤ env.cfg.maxBuf
  hkeys : ∀ row ∈ t.rows, (Fields.keys row).Nodup
  hcov : Covered t
  hnone : ∀ row ∈ t.rows, ∀ c ∈ t.columns,
    c ∈ Fields.keys row ∨ 4 ≤ byteLen c.toList + env.cfg.minBuf

theorem tableOK_default (env : Env) (t : Table) (hbuf : env.cfg.minBuf ≤ env.cfg.maxBuf)
    (h4 : 4 ≤ env.cfg.minBuf) (hkeys : ∀ row ∈ t.rows, (Fields.keys row).Nodup) (hcov : Covered t) :
    TableOK env t :=
  ⟨hbuf, hkeys, hcov, fun _ _ _ _ => .inr (by omega)⟩

/-- from given starting widths: if the absorbed widths fit, they are used as they are and no cell
is cut -/
theorem shownAll_from (env : Env) (widths : WMap) (t : Table) (ok : TableOK env t)
    (hfit : fits env (absorbRows env.cfg widths t.rows) = true) (w2 : WMap) (parts : Parts)
    (h : tablePartsFrom env widths t = .ok (w2, parts)) :
    w2 = absorbRows env.cfg widths t.rows ∧ ShownAll w2 t parts := by
  obtain ⟨hr, _, hs, hh, hhead, _, hb⟩ := tablePartsFrom_inv env widths t w2 parts h
  have hw2 : w2 = absorbRows env.cfg widths t.rows := by
    simp only [resize, hfit, if_true, Outcome.ok.injEq] at hr
    exact hr.symm
  -- every column is wide enough for its name
  have hname : ∀ c ∈ t.columns, LB w2 c (byteLen c.toList + env.cfg.minBuf) := by
    intro c hc
    obtain ⟨row, hrow, hk⟩ := ok.hcov c hc
    obtain ⟨v, hv⟩ := get_of_mem_keys row c hk
    rw [hw2]
    apply absorb_LB env.cfg ok.hbuf c _ t.rows widths ok.hkeys
    exact .inr ⟨row, hrow, v, get_some_mem_row row c v hv, by
      have := Nat.le_max_right (byteLen (cellText v)) (byteLen c.toList); omega⟩
  refine ⟨hw2, ⟨hs, hhead, ?_⟩, ?_⟩
  · refine (headerCells_spec w2 t.columns hs hh).imp_mem ?_
    rintro c hc cell ⟨n, hn, hf⟩
    obtain ⟨n', hn', hle⟩ := hname c hc
    rw [hn] at hn'
    cases hn'
    have hd : dispWidth c.toList ≤ n := by
      have := dispWidth_le_byteLen c.toList; omega
    rw [fmtEllipsis_fits _ _ hd] at hf
    cases hf
    exact ⟨n, hn, hd, rfl⟩
  · refine (bodyLines_spec w2 t.columns t.rows parts.body hb).imp_mem ?_
    rintro row hrow line ⟨cells, hc, hl⟩
    refine ⟨cells, hl, (rowCells_spec w2 row t.columns cells hc).imp_mem ?_⟩
    rintro c hcol cell ⟨n, hn, hf⟩
    have hd : dispWidth (cellText ((Fields.get c row).getD .none)) ≤ n := by
      cases hg : Fields.get c row with
      | some v =>
        have hl : LB w2 c (byteLen (cellText v) + env.cfg.minBuf) := by
          rw [hw2]
          apply absorb_LB env.cfg ok.hbuf c _ t.rows widths ok.hkeys
          exact .inr ⟨row, hrow, v, get_some_mem_row row c v hg, by
            have := Nat.le_max_left (byteLen (cellText v)) (byteLen c.toList); omega⟩
        obtain ⟨n', hn', hle⟩ := hl
        rw [hn] at hn'
        cases hn'
        have := dispWidth_le_byteLen (cellText v)
        simp only [Option.getD_some]
        omega
      | none =>
        have h4 : 4 ≤ byteLen c.toList + env.cfg.minBuf := by
          rcases ok.hnone row hrow c hcol with hk | h4
          · obtain ⟨v, hv⟩ := get_of_mem_keys row c hk
            rw [hg] at hv; cases hv
          · exact h4
        obtain ⟨n', hn', hle⟩ := hname c hcol
        rw [hn] at hn'
        cases hn'
        have := dispWidth_le_byteLen (cellText .none)
        rw [byteLen_none] at this
        simp only [Option.getD_none]
        omega
    rw [fmtEllipsis_fits _ _ hd] at hf
    cases hf
    exact ⟨n, hn, hd, rfl⟩

/-! ### the theorems of the repair -/

theorem startWidths_nil (env : Env) (rows : List Fields) : startWidths env [] rows = [] := by
  unfold startWidths; split <;> rfl

/-- when the remembered widths (enlarged by the rows) do not fit, the table is laid out exactly as
by a printer without memory -/
theorem tableParts_overflow (env : Env) (widths : WMap) (t : Table)
    (h : fits env (absorbRows env.cfg widths t.rows) = false) :
    tableParts env widths t = tableParts env [] t := by
  rw [tableParts_eq, tableParts_eq, startWidths_overflow env widths t.rows h, startWidths_nil]

/-- **C19_overflow_is_history_free.**  If the remembered widths, enlarged by the current rows, do
not fit the terminal — the only situation in which anything can be cut — the frame is the one a
fresh printer draws: the same text and the same new widths.  What was drawn before has no
influence. -/
theorem C19_overflow_is_history_free (env : Env) (st : St) (t : Table) (hne : t.rows ≠ [])
    (h : fits env (absorbRows env.cfg st.widths t.rows) = false) :
    formatAggregate env st t = formatAggregate env { st with widths := [] } t := by
  have hne' : t.rows.isEmpty = false := by cases hr : t.rows <;> simp_all
  simp only [formatAggregate, hne', Bool.false_eq_true, if_false, tableParts_overflow env st.widths t h]

/-- the text alone, empty tables (`No data`) included -/
theorem C19_overflow_text_history_free (env : Env) (st : St) (t : Table)
    (h : fits env (absorbRows env.cfg st.widths t.rows) = false) :
    outText (formatAggregate env st t) = outText (formatAggregate env { st with widths := [] } t) := by
  by_cases hne : t.rows = []
  · simp [formatAggregate, hne, outText]
  · rw [C19_overflow_is_history_free env st t hne h]

/-- **C19_fits_shows_all.**  If the remembered widths, enlarged by the current rows, fit the
terminal, they are used as they are (`w2`) and no cell of the header or the body is cut: every
cell is its text in full, padded to the column width. -/
theorem C19_fits_shows_all (env : Env) (st : St) (t : Table) (ok : TableOK env t)
    (hfit : fits env (absorbRows env.cfg st.widths t.rows) = true) (w2 : WMap) (parts : Parts)
    (h : tableParts env st.widths t = .ok (w2, parts)) :
    w2 = absorbRows env.cfg st.widths t.rows ∧ ShownAll w2 t parts := by
  rw [tableParts_eq, startWidths_fits env st.widths t.rows hfit] at h
  exact shownAll_from env st.widths t ok hfit w2 parts h

/-- **C19_cut_only_if_table_overflows** (contrapositive form).  If the table measured on its own
fits the terminal, then — for EVERY prior state of the printer — no cell is cut.  A cell is cut
only if the current table by itself is too wide. -/
theorem C19_cut_only_if_table_overflows (env : Env) (st : St) (t : Table) (ok : TableOK env t)
    (hown : fits env (absorbRows env.cfg [] t.rows) = true) (w2 : WMap) (parts : Parts)
    (h : tableParts env st.widths t = .ok (w2, parts)) : ShownAll w2 t parts := by
  by_cases hfit : fits env (absorbRows env.cfg st.widths t.rows) = true
  · exact (C19_fits_shows_all env st t ok hfit w2 parts h).2
  · have hf : fits env (absorbRows env.cfg st.widths t.rows) = false := by simpa using hfit
    rw [tableParts_eq, startWidths_overflow env st.widths t.rows hf] at h
    exact (shownAll_from env [] t ok hown w2 parts h).2

/-- … and then the widths kept for the next frame are those of the current table alone, or the
remembered ones enlarged: never a cut-down share -/
theorem C19_widths_after (env : Env) (st : St) (t : Table) (ok : TableOK env t)
    (hown : fits env (absorbRows env.cfg [] t.rows) = true) (w2 : WMap) (parts : Parts)
    (h : tableParts env st.widths t = .ok (w2, parts)) :
    w2 = absorbRows env.cfg st.widths t.rows ∨ w2 = absorbRows env.cfg [] t.rows := by
  by_cases hfit : fits env (absorbRows env.cfg st.widths t.rows) = true
  · exact .inl (C19_fits_shows_all env st t ok hfit w2 parts h).1
  · have hf : fits env (absorbRows env.cfg st.widths t.rows) = false := by simpa using hfit
    rw [tableParts_eq, startWidths_overflow env st.widths t.rows hf] at h
    exact .inr (shownAll_from env [] t ok hown w2 parts h).1

/-! ### the regression: the witness of the defect -/

/-- an 80-column terminal, the buffers of `Pipeline::new` -/
def env80 : Env := { cfg := { minBuf := 4, maxBuf := 8 }, term := some (80, 24) }

/-- an earlier frame: `a` holds 100 characters -/
def tLong : Table :=
  { columns := ["a", "_count"],
    rows := [[("_count", .int 1), ("a", .str (String.ofList (List.replicate 100 'x')))]] }

/-- the printer's memory after that frame -/
def stAfterLong : St :=
  match formatAggregate env80 {} tLong with
  | .ok (_, s) => s
  | _ => {}

/-- the final table: `a=abc, b=<45 b's>, _count=2` — 11 + 53 + 14 = 78 columns on its own -/
def tNow : Table :=
  { columns := ["a", "b", "_count"],
    rows := [[("_count", .int 2), ("a", .str "abc"),
              ("b", .str (String.ofList (List.replicate 45 'b')))]] }

set_option maxRecDepth 100000 in
/-- the earlier frame cut `a` to its fair share and left these widths behind -/
example : stAfterLong.widths = [("a", 40), ("_count", 14)] := by decide

set_option maxRecDepth 100000 in
/-- **the regression.**  After the long `a`, the final table is drawn in full: header, 78 dashes,
and a body line with all 45 `b`s and no ellipsis. -/
example : (formatAggregate env80 stAfterLong tNow).toOption.map Prod.fst =
    some (unlines
      [('a' :: List.replicate 10 ' ') ++ ('b' :: List.replicate 52 ' ') ++ "_count".toList,
       List.replicate 78 '-',
       "abc".toList ++ List.replicate 8 ' ' ++ List.replicate 45 'b' ++ List.replicate 8 ' ' ++ ['2']]) := by
  decide

set_option maxRecDepth 100000 in
/-- what the code drew before the repair (`tablePartsFrom` from the remembered widths, as the old
`tableParts` did): `b` cut to 25 characters and an ellipsis -/
example : (tablePartsFrom env80 stAfterLong.widths tNow).toOption.map (fun p => p.2.body) =
    some ["abc".toList ++ List.replicate 23 ' ' ++ List.replicate 25 'b' ++ ['…', ' ', '2']] := by
  decide

set_option maxRecDepth 100000 in
/-- the hypotheses of `C19_cut_only_if_table_overflows` hold of the witness -/
example : TableOK env80 tNow ∧ fits env80 (absorbRows env80.cfg [] tNow.rows) = true := by
  refine ⟨tableOK_default env80 tNow (by decide) (by decide) ?_ ?_, by decide⟩
  · intro row hrow
    simp only [tNow, List.mem_singleton] at hrow
    subst hrow
    simp [Fields.keys]
  · intro c hc
    refine ⟨_, List.mem_singleton.2 rfl, ?_⟩
    simp only [tNow, List.mem_cons, List.not_mem_nil, or_false] at hc
    rcases hc with rfl | rfl | rfl <;> simp [Fields.keys]

end C19
end Ag

#print axioms Ag.C19.dispWidth_le_byteLen
#print axioms Ag.C19.absorb_LB
#print axioms Ag.C19.shownAll_from
#print axioms Ag.C19.tableParts_overflow
#print axioms Ag.C19.C19_overflow_is_history_free
#print axioms Ag.C19.C19_overflow_text_history_free
#print axioms Ag.C19.C19_fits_shows_all
#print axioms Ag.C19.C19_cut_only_if_table_overflows
#print axioms Ag.C19.C19_widths_after
