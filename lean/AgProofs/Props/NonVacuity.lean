/-
Non-vacuity instances for theorems of C01..C20 whose hypotheses are not instantiated near their
statement: for each, a concrete non-trivial object satisfying the hypotheses, and the theorem
applied to it.  Nothing here is a new result.
-/
import AgProofs.Props.C01laws
import AgProofs.Props.C02
import AgProofs.Props.C03run
import AgProofs.Props.C05order
import AgProofs.Props.C08
import AgProofs.Props.C09laws
import AgProofs.Props.C10chain
import AgProofs.Props.C12
import AgProofs.Props.C13laws
import AgProofs.Props.C14more
import AgProofs.Props.C15
import AgProofs.Props.C16values
import AgProofs.Props.C19fresh

namespace Ag.NonVacuity

/-! ### C01 / C14: a grouper state reached from three rows -/

/-- `count by k` over the rows k=1, k=2, k=1 -/
def rowsK : List Fields := [[("k", .int 1)], [("k", .int 2)], [("k", .int 1)]]

def stK : GroupState :=
  [([.int 1], [("_count", .count 2)]), ([.int 2], [("_count", .count 1)])]

theorem foldK (ext : Ext) : C01.foldRows ext C13.gCount [] rowsK = .ok stK := by
  simp [C01.foldRows, rowsK, stK, C13.gCount, Grouper.processRow, Grouper.keyOf, evalValue,
    Fields.get, access, groupUpd, stepAccs, Grouper.accNames, AggDef.step, AggDef.empty, keyEq,
    Value.beqL, Value.beq]

/-- C01_one_row_per_key / C01_group_accs / C01_group_exists_iff on a state with two groups -/
example (ext : Ext) : C01.KeysDistinct stK := C01.C01_one_row_per_key ext C13.gCount rowsK stK (foldK ext)

example (ext : Ext) :
    ∃ accs, C01.foldAccs ext C13.gCount.accNames (C01.empties C13.gCount)
      (C01.groupRows ext C13.gCount [.int 1] rowsK) = .ok accs ∧ C01.lookup [.int 1] stK = some accs := by
  have h := C01.C01_group_accs ext C13.gCount rowsK stK [.int 1] (foldK ext)
  have hne : C01.groupRows ext C13.gCount [.int 1] rowsK ≠ [] := by
    simp [C01.groupRows, rowsK, C13.gCount, Grouper.keyOf, evalValue, Fields.get, access, keyEq,
      Value.beqL, Value.beq]
  simpa [hne] using h

/-- C01_count_all_rows, C14_count_perm: the hypothesis `foldStep … = some a` on real rows -/
example (ext : Ext) (r1 r2 r3 : Fields) :
    C01.foldStep ext (.count none) (.count 0) [r1, r2, r3] = some (.count 3) := by
  simp [C01.foldStep, AggDef.step]

example (ext : Ext) (r1 r2 r3 : Fields) : (Acc.count 3) = .count ([r1, r2, r3].length) :=
  C01.C01_count_all_rows ext [r1, r2, r3] _ (by simp [C01.foldStep, AggDef.step])

example (ext : Ext) (r1 r2 : Fields) (a a' : Acc)
    (h : C01.foldStep ext (.count none) (.count 0) [r1, r2] = some a)
    (h' : C01.foldStep ext (.count none) (.count 0) [r2, r1] = some a') : a = a' :=
  C14.C14_count_perm ext none (List.Perm.swap r2 r1 []) a a' h h'

/-- C14_group_append: the state after `A` and after `A ++ B` both exist -/
example (ext : Ext) :
    C01.foldRows ext C13.gCount [] (rowsK.take 2) =
      .ok [([.int 1], [("_count", .count 1)]), ([.int 2], [("_count", .count 1)])] ∧
    C01.foldRows ext C13.gCount [] (rowsK.take 2 ++ rowsK.drop 2) = .ok stK := by
  refine ⟨?_, foldK ext⟩
  simp [C01.foldRows, rowsK, C13.gCount, Grouper.processRow, Grouper.keyOf, evalValue,
    Fields.get, access, groupUpd, stepAccs, Grouper.accNames, AggDef.step, AggDef.empty, keyEq,
    Value.beqL, Value.beq]

/-! ### C03: the planner hypothesis `planLoop … = .ok p` -/

/-- C03_plan_order on the five written operators of `C11.exQ` (json, aggregation, where, sort, limit) -/
example : ∃ p, planLoop false false [] [] (flattenOps (opsDepth C11.exQ.ops + 1) C11.exQ.ops) = .ok p ∧
    C03.refAll false (flattenOps (opsDepth C11.exQ.ops + 1) C11.exQ.ops) = some (C03.stagesOf p) ∧
    (C03.stagesOf p).length = 5 := by
  obtain ⟨p0, hp0, hp⟩ := C03.compile_planLoop C11.exQ C11.exPlan C11.exQ_compiles
  refine ⟨p0, hp0, C03.C03_plan_order _ p0 hp0, ?_⟩
  have : C03.stagesOf p0 = C03.stagesOf C11.exPlan := by rw [hp]; rfl
  rw [this]; rfl

/-! ### C05: an `Int` against a normalised `Float` -/

example : Value.inI64 1 = true ∧ Value.normFloat C09.f1_5 = true := ⟨by decide, C09.f1_5_ok.1⟩

example : Value.cmp (.int 1) (.float C09.f1_5) = .lt ∨ Value.cmp (.int 1) (.float C09.f1_5) = .gt :=
  (C05.C05_int_float_trichotomy (i := 1) (f := C09.f1_5) (by decide) C09.f1_5_ok.1).2.2.2.2.2.2

/-! ### C08: exactness at the boundary 2^53 -/

example : F64.val? (F64.ofInt 9007199254740992) = some ((9007199254740992 : Int) : Dyadic) :=
  (C08.C08_i64_to_f64_exact 9007199254740992 (by decide)).1

example : Value.fromString (toString (-9223372036854775808 : Int)) = .int (-9223372036854775808) :=
  C08.C08_from_string_int_roundtrip _ (by decide)

/-! ### C09: `CmpLaws` for a real comparator (keys, direction, tie-break columns) -/

example (ext : Ext) : C09.CmpLaws ext [Expr.col "a" [], Expr.col "b" []] .desc ["a", "b"] :=
  C09.C09_cmpLaws_of_keysTotal ext _ .desc _ (C09.keysTotal_of_columns ext ["a", "b"])

example (ext : Ext) (rows : List Fields) :
    (sortRows ext [Expr.col "a" []] .desc ["a", "b"] rows).Pairwise
      (fun x y => C09.le ext [Expr.col "a" []] .desc ["a", "b"] x y = true) :=
  C09.C09_sort_sorted ext _ .desc _
    (C09.C09_cmpLaws_of_keysTotal ext _ .desc _ (C09.keysTotal_of_columns ext ["a"])) rows

/-! ### C10: head and tail on three records -/

example (ext : Ext) (a b c : Record) :
    feed ext [.limit 2] [RowOp.init (.limit 2)] [a, b, c] [] 0 = .ok ([.head 3], [a, b], 0) := by
  simpa using C10.C10_head ext 2 (by decide) [a, b, c]

example (ext : Ext) (a b c : Record) :
    drainLoop ext [.limit (-2)] [.tail (C10.lastN 2 [a, b, c])] [] 0 = .ok ([b, c], 0) := by
  have h := (C10.C10_tail ext (-2) (by decide) [a, b, c]).2
  simpa [C10.lastN] using h

/-! ### C12: the two `feed` hypotheses of `C12_concat` -/

def opsW : List RowOp := [.whereConst true, .fieldExpr (.val (.int 7)) "x"]

theorem feedW (ext : Ext) (r : Record) :
    feed ext opsW (opsW.map RowOp.init) [r] [] 0 =
      .ok (opsW.map RowOp.init, [{ r with data := Fields.put "x" (.int 7) r.data }], 0) := by
  simp [feed, opsW, procPreagg, stepOp, RowOp.init, applyStateless, evalValue]

example (ext : Ext) (a b : Record) :
    feed ext opsW (opsW.map RowOp.init) ([a] ++ [b]) [] 0 =
      .ok (opsW.map RowOp.init,
        [{ a with data := Fields.put "x" (.int 7) a.data }] ++
        [{ b with data := Fields.put "x" (.int 7) b.data }], 0 + 0) :=
  C12.C12_concat ext opsW (by intro o ho; simp [opsW] at ho; rcases ho with rfl | rfl <;> rfl)
    [a] [b] _ _ 0 0 (feedW ext a) (feedW ext b)

/-! ### C15: a reachable, fault-free, finished state of a concrete configuration -/

example : ∃ s, Sched.ReachableFF C15.exCfg s ∧ s.reader = .done ∧
    s.written = C15.exCfg.seqOut s.fed := by
  have hsome : (Sched.run C15.exCfg C15.exSched (Sched.init C15.exCfg)).isSome = true := by decide
  obtain ⟨s, hs⟩ := Option.isSome_iff_exists.1 hsome
  have hreach : Sched.ReachableFF C15.exCfg s := ⟨C15.exSched, by decide, hs⟩
  have hfin : C15.exFinal = some (.done, [97, 10, 98, 10], [120, 10, 121, 10, 122], 0) := by decide
  have hd : s.reader = .done := by
    simp only [C15.exFinal, hs, Option.map_some, Option.some.injEq, Prod.mk.injEq] at hfin
    exact hfin.1
  exact ⟨s, hreach, hd, C15.C15_final C15.exCfg s hreach hd⟩

/-! ### C16 / C19: the table printer on a terminal -/

set_option maxRecDepth 8192 in
/-- C19_width, C19_body_width, C19_header_width: a successful `tableParts` with distinct columns
(the 80-column witness of C19fresh: every line ≤ 80 cells) -/
example : ∃ w2 parts, Pretty.tableParts C19.env80 C19.stAfterLong.widths C19.tNow = .ok (w2, parts) ∧
    ∀ l ∈ parts.header :: parts.sep :: parts.body, Pretty.dispWidth l ≤ 80 := by
  have hsome : (Pretty.tableParts C19.env80 C19.stAfterLong.widths C19.tNow).toOption.isSome = true := by
    decide
  cases h : Pretty.tableParts C19.env80 C19.stAfterLong.widths C19.tNow with
  | ok r =>
    obtain ⟨w2, parts⟩ := r
    exact ⟨w2, parts, rfl, C19.C19_width C19.env80 _ C19.tNow w2 parts (by decide) h⟩
  | err k => simp [h, Outcome.toOption] at hsome
  | panic p => simp [h, Outcome.toOption] at hsome
  | unmodelled w => simp [h, Outcome.toOption] at hsome

/-- C19_no_panic: `HeightOK`, `Nodup`, `Covered` for that table and terminal -/
example : C19.HeightOK C19.env80 ∧ C19.tNow.columns.Nodup ∧ C19.Covered C19.tNow := by
  refine ⟨?_, by decide, C16.tNow_ok.hcov⟩
  intro w h e
  simp only [C19.env80, Option.some.injEq, Prod.mk.injEq] at e
  omega

/-! ### C02: a filter with a keyword, on lines inside the modelled fragment -/

def kwErr : Keyword := { text := "err", ty := .exact }

example : ["an error", "fine"].all (fun l => Search.modelled (.kw kwErr) l.toList) = true := by
  decide

end Ag.NonVacuity
