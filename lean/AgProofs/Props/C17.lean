/-
C17  I/O faults end the run cleanly.

Fault model (AgModel/Sched.lean): `breakSink` (the consumer closes the output: every later write
fails), `writeFail k` (the current write fails after `k` of its bytes went out), `readFail` (the
next read returns an `io::Error`), and the start-up classification `startup` of `main`.

The model is the code after /repo 1b6cc1e (JsonPrinter returns write errors like every other
printer) and 566c084 (a read error is reported and ends the read loop instead of being unwrapped);
before them `C17_no_panic` was false (witnesses: `-o json` rows with a fault offset inside a row;
`--file <directory>`), see known_findings.json.

What holds (`…` theorems) and what does not (`…_full` + `…_counterexample`):

* a failed write ends the renderer at once, with exactly one `error:` line; a failed read ends the
  read loop with exactly one `error:` line; no thread panics, `join` succeeds (`C17_no_panic`);
* the reader notices a closed *output* only at its next `send`; rows are sent only for lines that
  survive the pre-aggregate operators, and an aggregate on a non-terminal never writes before EOF.
  So with endless input and no further surviving row (or an aggregate) the run is endless:
  `C17_unbounded_when_nothing_sent_counterexample` (open design-level finding).
-/
import AgProofs.Lemmas.Sched

namespace Ag.C17
open Ag.Sched

variable {σ ρ : Type}

/-! ### the renderer after a write fault -/

/-- a failing write ends the renderer thread in the same step (receiver dropped) with exactly one
more `error:` line, and marks the sink as broken -/
theorem C17_renderer_stops_at_fault (c : Cfg σ ρ) (s s' : State σ ρ) (k : Nat)
    (h : next c s (.writeFail k) = some s') :
    s'.rend = .done ∧ s'.rxAlive = false ∧ s'.sinkBroken = true ∧ s'.errs = s.errs + 1 := by
  cases hp : payload c s with
  | none => simp [next, hp] at h
  | some p =>
    simp only [next, hp] at h
    split at h
    · cases h; simp [State.rxAlive]
    · contradiction

/-- once the consumer is gone no (non-empty) write can succeed: the next write attempt is the
failing one -/
theorem C17_no_write_after_close (c : Cfg σ ρ) (s : State σ ρ) (hbroken : s.sinkBroken = true)
    (p : Bytes) (hp : payload c s = some p) (hne : p ≠ []) : next c s .write = none := by
  simp [next, hp, hbroken, hne]

/-- record renderer, consumer gone, a row in hand: whatever the renderer does next ends it.
(With the channel non-empty and no row in hand its only step is `recv`; so the renderer is done
within one `recv` and one write attempt after the consumer went away.) -/
theorem C17_stops_after_fault (c : Cfg σ ρ) (s s' : State σ ρ) (hagg : c.agg = false)
    (hbroken : s.sinkBroken = true) (r : ρ) (hcur : s.cur = some r) (hrun : s.rend = .running)
    (l : Label) (hl : l = .recv ∨ l = .disconnect ∨ l = .timeout ∨ l = .write ∨ ∃ k, l = .writeFail k)
    (h : next c s l = some s') : s'.rend = .done := by
  have hp : payload c s = some (c.render r) := by simp [payload, hrun, hagg, hcur]
  rcases hl with rfl | rfl | rfl | rfl | ⟨k, rfl⟩
  · simp [next, hrun, hcur] at h
  · simp [next, hrun, hcur] at h
  · simp [next, hrun, hcur] at h
  · simp [next, hp, hbroken, Cfg.render] at h
  · exact (C17_renderer_stops_at_fault c s s' k h).1

/-- **C17 (at most one error line per fault).**  In every reachable state, whatever faults
occurred, the renderer has printed at most one `error:` line (write fault) and has ended if it
printed one; the reader has printed at most one (read fault) and has left its loop if it did. -/
theorem C17_at_most_one_error_line (c : Cfg σ ρ) (s : State σ ρ) (h : Reachable c s) :
    (s.errs ≤ 1 ∧ (s.errs = 1 → s.rend = .done)) ∧
    (s.rdErrs ≤ 1 ∧ (s.rdErrs = 1 → s.reader ≠ .running)) := by
  constructor
  · rcases (reach_basic h).errs with h0 | ⟨h1, h2⟩
    · simp [h0]
    · simp [h1, h2]
  · rcases (reach_basic h).rdErrs with h0 | ⟨h1, h2⟩
    · simp [h0]
    · simp [h1, h2]

theorem rdErrs_step {c : Cfg σ ρ} (s : State σ ρ) (l : Label) (s' : State σ ρ)
    (hl : l ≠ .readFail) (h : next c s l = some s') : s'.rdErrs = s.rdErrs := by
  cases l
  case readFail => exact absurd rfl hl
  all_goals
    simp only [next, consume] at h
    (repeat' split at h) <;>
    first
    | contradiction
    | (cases h; rfl)

/-- the consumer closing the output (no read fault in the schedule) produces at most **one**
`error:` line in total -/
theorem C17_one_error_line_when_output_closed (c : Cfg σ ρ) (ls : List Label)
    (hnoread : Label.readFail ∉ ls) (s : State σ ρ) (h : run c ls (init c) = some s) :
    s.errs + s.rdErrs ≤ 1 := by
  have h0 : s.rdErrs = 0 := by
    have step : ∀ (ls : List Label) (a b : State σ ρ), Label.readFail ∉ ls → run c ls a = some b →
        b.rdErrs = a.rdErrs := by
      intro ls
      induction ls with
      | nil => intro a b _ h; simp [run] at h; rw [h]
      | cons l ls ih =>
        intro a b hn h
        simp only [run] at h
        cases hnx : next c a l with
        | none => simp [hnx] at h
        | some a1 =>
          simp only [hnx] at h
          rw [ih a1 b (fun hm => hn (List.mem_cons_of_mem _ hm)) h,
            rdErrs_step a l a1 (fun e => hn (e ▸ List.mem_cons_self ..)) hnx]
    simpa [init] using step ls (init c) s hnoread h
  have := (C17_at_most_one_error_line c s ⟨ls, h⟩).1.1
  omega

/-! ### the reader after the receiver is gone -/

theorem rx_dead_step {c : Cfg σ ρ} (s : State σ ρ) (l : Label) (s' : State σ ρ)
    (hd : s.rxAlive = false) (h : next c s l = some s') : s'.rxAlive = false := by
  have hr : s.rend = .done ∨ s.rend = .panicked := by
    cases hrn : s.rend <;> simp [State.rxAlive, hrn] at hd ⊢
  cases l
  case write =>
    cases hp : payload c s with
    | none => simp [next, hp] at h
    | some p => rcases payload_some hp with ⟨a, _⟩ | ⟨a, _⟩ <;> rcases hr with e | e <;> simp [a] at e
  case writeFail k => exact (C17_renderer_stops_at_fault c s s' k h).2.1
  all_goals
    simp only [next, consume] at h
    (repeat' split at h) <;>
    first
    | contradiction
    | (cases h; rcases hr with e | e <;> simp_all [State.rxAlive])

/-- the reader with a row to send and no receiver: its only enabled step is the failing `send`,
which takes it out of the read loop for good -/
theorem C17_reader_stops_at_next_send (c : Cfg σ ρ) (s s' : State σ ρ) (hreach : Reachable c s)
    (hd : s.rxAlive = false)
    (r : ρ) (q : List ρ) (hq : s.outq = r :: q) (l : Label)
    (hl : l = .absorb n ∨ l = .readLine ∨ l = .readEof ∨ l = .send ∨ l = .dropTx ∨ l = .join ∨
      ∃ m, l = .sendFail m)
    (h : next c s l = some s') : (∃ m, l = .sendFail m) ∧ s'.reader = .draining := by
  rcases hl with rfl | rfl | rfl | rfl | rfl | rfl | ⟨m, rfl⟩
  · simp [next, hq] at h
  · simp [next, hq] at h
  · simp [next, hq] at h
  · simp [next, hq, hd] at h
  · simp [next, hq] at h
  · have htx := (reach_basic hreach).txOut
    simp only [next] at h
    (repeat' split at h) <;> first
      | contradiction
      | (rename_i h2 _; have := (htx h2).1; simp [hq] at this)
  · simp only [next, hq, hd] at h
    cases h
    exact ⟨⟨m, rfl⟩, rfl⟩

/-- lines read while the receiver is gone: all but the last produced no row, and if the reader is
still in its loop with nothing to send, none of them did -/
structure AfterFault (c : Cfg σ ρ) (s0 s : State σ ρ) : Prop where
  dead : s.rxAlive = false
  chan : s.chan.length ≤ s0.chan.length
  lines : ∃ new, s.consumed = s0.consumed ++ new ∧
    (c.runLines s0.st new.dropLast).2 = [] ∧
    (s.reader = .running → s.outq = [] → (c.runLines s0.st new).2 = [])

theorem afterFault_step {c : Cfg σ ρ} (s0 s : State σ ρ) (l : Label) (s' : State σ ρ)
    (hst0 : s0.st = (c.runLines c.init s0.consumed).1)
    (hst : s.st = (c.runLines c.init s.consumed).1)
    (ha : AfterFault c s0 s) (h : next c s l = some s') : AfterFault c s0 s' := by
  obtain ⟨hd, hch, new, hnew, hdl, hall⟩ := ha
  have hd' := rx_dead_step s l s' hd h
  have hstn : s.st = (c.runLines s0.st new).1 := by
    rw [hst, hnew, runLines_append, ← hst0]
  have key : ∀ line rest, s.reader = .running → s.outq = [] →
      AfterFault c s0 (consume c s line rest) := by
    intro line rest hrun hq
    refine ⟨hd, hch, new ++ [line], by simp [consume, hnew], ?_, ?_⟩
    · simpa using hall hrun hq
    · intro _ hq'
      simp only [consume] at hq'
      rw [runLines_snoc, hall hrun hq, ← hstn]
      simpa using hq'
  cases l
  case readLine =>
    simp only [next] at h
    (repeat' split at h) <;> try contradiction
    · cases h; exact key _ _ (by assumption) (by assumption)
    · cases h; exact key _ _ (by assumption) (by assumption)
  case send =>
    cases hq : s.outq with
    | nil => simp [next, hq] at h
    | cons r q => simp [next, hq, hd] at h
  case write =>
    cases hp : payload c s with
    | none => simp [next, hp] at h
    | some p =>
      simp only [next, hp] at h
      split at h
      · cases h; exact ⟨hd', hch, new, hnew, hdl, hall⟩
      · contradiction
  case writeFail k =>
    cases hp : payload c s with
    | none => simp [next, hp] at h
    | some p =>
      simp only [next, hp] at h
      split at h
      · cases h; exact ⟨hd', hch, new, hnew, hdl, hall⟩
      · contradiction
  all_goals
    refine ⟨hd', ?_, new, ?_, hdl, ?_⟩ <;>
    · simp only [next] at h
      (repeat' split at h) <;>
      first
      | contradiction
      | (cases h; simp_all <;> omega)
      | (cases h; simp_all)

/-- **C17 (the reader stops at the next surviving row), partial.**  From a reachable state whose
receiver is gone, along every continuation: no row is ever sent again (the channel only shrinks),
and of the lines the reader still consumes all but the last produced no row — it reads up to and
including the next line that survives the pre-aggregate operators, fails to send it, and leaves the
read loop (`C17_reader_stops_at_next_send`).  Partial: bounded only if such a line exists. -/
theorem C17_reader_stops_partial (c : Cfg σ ρ) (s s' : State σ ρ) (hr : Reachable c s)
    (hd : s.rxAlive = false) (ls : List Label) (hrun : run c ls s = some s') :
    s'.rxAlive = false ∧ s'.chan.length ≤ s.chan.length ∧
      ∃ new, s'.consumed = s.consumed ++ new ∧ (c.runLines s.st new.dropLast).2 = [] := by
  have hst0 := (reach_rd hr).stEq
  have : (Reachable c s' ∧ AfterFault c s s') :=
    inv_run (P := fun x => Reachable c x ∧ AfterFault c s x)
      (fun x l x' ⟨hx, ha⟩ hn => ⟨hx.step hn, afterFault_step s x l x' hst0 (reach_rd hx).stEq ha hn⟩)
      ls s s' ⟨hr, ⟨hd, Nat.le_refl _, [], by simp, by simp [Cfg.runLines], by simp [Cfg.runLines]⟩⟩ hrun
  obtain ⟨_, hd', hch, new, h1, h2, _⟩ := this
  exact ⟨hd', hch, new, h1, h2⟩

/-- with a finite input the run ends after any faults at all -/
theorem C17_finite_input_terminates (c : Cfg σ ρ) (hcap : 0 < c.cap) (s : State σ ρ)
    (h : Reachable c s) (he : s.eof = true) :
    ∃ ls s', (∀ l ∈ ls, l.internal = true) ∧ run c ls s = some s' ∧
      (s'.reader = .done ∨ s'.reader = .panicked) :=
  terminates hcap s h (Or.inl he)

/-! ### the honest part: nothing sent, nothing learnt -/

/-- the full promise "after the consumer closed the output the run stops promptly, even on endless
input": some bound on the number of further lines consumed, whatever the environment supplies -/
def C17_stops_promptly_full : Prop :=
  ∀ (σ ρ : Type) (c : Cfg σ ρ) (s : State σ ρ), Reachable c s → s.sinkBroken = true →
    ∃ N, ∀ ls s', run c ls s = some s' → s'.consumed.length ≤ s.consumed.length + N

/-- `* | where false`-like: no line survives -/
def dropAll : Cfg Unit Unit :=
  { init := (), step := fun _ _ => ((), none), drain := fun _ => [], body := fun _ => [],
    agg := false, aggFinal := fun _ => [], cap := 1000 }

/-- `* | limit 1`-like: only the first line yields a row -/
def firstOnly : Cfg Nat Unit :=
  { init := 0, step := fun i _ => (i + 1, if i = 0 then some () else none), drain := fun _ => [],
    body := fun _ => [120], agg := false, aggFinal := fun _ => [], cap := 1000 }

/-- `* | count`-like on a non-terminal: every line yields a row, the single write is at the end -/
def countAll : Cfg Unit Unit :=
  { init := (), step := fun _ _ => ((), some ()), drain := fun _ => [], body := fun _ => [],
    agg := true, aggFinal := fun rows => [48 + rows.length % 10, 10], cap := 1000 }

def cycle (one : List Label) : Nat → List Label
  | 0 => []
  | n + 1 => one ++ cycle one n

theorem cycle_run {c : Cfg σ ρ} (one : List Label) (P : State σ ρ → Prop)
    (hone : ∀ s, P s → ∃ s', run c one s = some s' ∧ P s' ∧ s'.consumed.length = s.consumed.length + 1) :
    ∀ n s, P s → ∃ s', run c (cycle one n) s = some s' ∧ P s' ∧
      s'.consumed.length = s.consumed.length + n
  | 0, s, hp => ⟨s, rfl, hp, rfl⟩
  | n + 1, s, hp => by
    obtain ⟨s1, h1, p1, l1⟩ := hone s hp
    obtain ⟨s2, h2, p2, l2⟩ := cycle_run one P hone n s1 p1
    exact ⟨s2, by simp [cycle, run_append, h1, h2], p2, by omega⟩

/-- reader idle in `read_until`, nothing buffered, more input possible -/
def Idle (s : State σ ρ) : Prop :=
  s.reader = .running ∧ s.outq = [] ∧ s.inbuf = [] ∧ s.carry = [] ∧ s.eof = false

theorem dropAll_unbounded (s : State Unit Unit) (hs : Idle s) (n : Nat) :
    ∃ s', run dropAll (cycle [.feed [10], .readLine] n) s = some s' ∧ Idle s' ∧
      s'.consumed.length = s.consumed.length + n := by
  refine cycle_run _ Idle ?_ n s hs
  intro s ⟨h1, h2, h3, h4, h5⟩
  refine ⟨_, by simp [run, next, h1, h2, h3, h4, h5, splitNl]; rfl, ?_, ?_⟩
  · simp_all [Idle, consume, dropAll]
  · simp [consume]

/-- **C17 counterexample (design-level).**  The consumer has closed the output; the query lets no
further row through; the input is endless.  The reader never attempts a `send`, never learns of the
fault, and consumes line after line: for every `N` there is a continuation consuming more than `N`
lines with the reader still in its loop.  (`yes | agrind '* | where false' | head -0` runs for ever;
likewise `… | limit 1` after its row, and every aggregate on a non-terminal — below.) -/
theorem C17_unbounded_when_nothing_sent_counterexample : ¬ C17_stops_promptly_full := by
  intro hfull
  have hreach : Reachable dropAll { init dropAll with sinkBroken := true } :=
    ⟨[.breakSink], by simp [run, next]⟩
  obtain ⟨N, hN⟩ := hfull Unit Unit dropAll _ hreach rfl
  obtain ⟨s', hrun, _, hlen⟩ := dropAll_unbounded { init dropAll with sinkBroken := true }
    (by simp [Idle, init]) (N + 1)
  have := hN _ _ hrun
  omega

/-- the state of `firstOnly` after its only row was received and the write of it failed -/
def firstOnlyFaulted : Option (State Nat Unit) :=
  run firstOnly [.feed [10], .readLine, .send, .recv, .writeFail 0] (init firstOnly)

/-- `limit 1` already satisfied: after the failed write of its row, endless input keeps the reader
reading for ever -/
theorem C17_unbounded_limit_satisfied (n : Nat) :
    ∃ s0 s', firstOnlyFaulted = some s0 ∧ s0.rend = .done ∧ s0.errs = 1 ∧
      run firstOnly (cycle [.feed [10], .readLine] n) s0 = some s' ∧ s'.reader = .running ∧
      s'.consumed.length = s0.consumed.length + n := by
  have h0 : ∃ s0, firstOnlyFaulted = some s0 ∧ s0.rend = .done ∧ s0.errs = 1 ∧ Idle s0 ∧ 1 ≤ s0.st := by
    refine ⟨_, by simp [firstOnlyFaulted, run, next, init, splitNl, consume, firstOnly, State.rxAlive,
      payload, Cfg.render]; rfl, ?_⟩
    simp [Idle]
  obtain ⟨s0, e0, r0, er0, i0, st0⟩ := h0
  obtain ⟨s', hrun, ⟨hi, _⟩, hlen⟩ :=
    cycle_run (c := firstOnly) [.feed [10], .readLine] (fun s => Idle s ∧ 1 ≤ s.st) (by
      intro s ⟨⟨h1, h2, h3, h4, h5⟩, h6⟩
      have hne : s.st ≠ 0 := by omega
      refine ⟨_, by simp [run, next, h1, h2, h3, h4, h5, splitNl]; rfl, ?_, ?_⟩
      · simp_all [Idle, consume, firstOnly]
      · simp [consume]) n s0 ⟨i0, st0⟩
  exact ⟨s0, s', e0, r0, er0, hrun, hi.1, hlen⟩

/-- aggregate on a non-terminal: the renderer keeps receiving and never writes before EOF, so a
closed output is not noticed while input keeps coming -/
theorem C17_unbounded_aggregate (n : Nat) :
    ∃ s', run countAll (.breakSink :: cycle [.feed [10], .readLine, .send, .recv] n) (init countAll) = some s' ∧
      s'.sinkBroken = true ∧ s'.reader = .running ∧ s'.rend = .running ∧ s'.written = [] ∧
      s'.errs = 0 ∧ s'.consumed.length = n := by
  let P : State Unit Unit → Prop := fun s =>
    Idle s ∧ s.rend = .running ∧ s.cur = none ∧ s.chan = [] ∧ s.written = [] ∧ s.errs = 0 ∧
      s.sinkBroken = true
  obtain ⟨s', hrun, ⟨hi, hr, _, _, hw, he, hb⟩, hlen⟩ :=
    cycle_run (c := countAll) [.feed [10], .readLine, .send, .recv] P (by
      intro s ⟨⟨h1, h2, h3, h4, h5⟩, h6, h7, h8, h9, h10, h11⟩
      refine ⟨_, by simp [run, next, h1, h2, h3, h4, h5, h6, h7, h8, splitNl, consume, countAll,
        State.rxAlive]; rfl, ?_, ?_⟩
      · simp_all [P, Idle]
      · simp) n { init countAll with sinkBroken := true } (by simp [P, Idle, init])
  refine ⟨s', by simp [run, next]; exact hrun, hb, hi.1, hr, hw, he, by simpa [init] using hlen⟩

/-! ### panics and read errors -/

theorem no_panic_step {c : Cfg σ ρ} (s : State σ ρ) (l : Label) (s' : State σ ρ)
    (hp : s.reader ≠ .panicked ∧ s.rend ≠ .panicked ∧ s.joinErr = false)
    (h : next c s l = some s') :
    s'.reader ≠ .panicked ∧ s'.rend ≠ .panicked ∧ s'.joinErr = false := by
  obtain ⟨p1, p2, p3⟩ := hp
  cases l
  case write =>
    cases hpl : payload c s with
    | none => simp [next, hpl] at h
    | some p =>
      simp only [next, hpl] at h
      split at h
      · cases h
        rcases payload_some hpl with ⟨a, b, _⟩ | ⟨a, b, _⟩ <;> simp_all
      · contradiction
  case writeFail k =>
    cases hpl : payload c s with
    | none => simp [next, hpl] at h
    | some p =>
      simp only [next, hpl] at h
      split at h
      · cases h; simp_all
      · contradiction
  all_goals
    simp only [next, consume] at h
    (repeat' split at h) <;>
    first
    | contradiction
    | (cases h; simp_all)

/-- **C17 (no panic), full.**  Whatever the schedule, the configuration (every output mode, record
or aggregate) and the faults — output closed at any byte, read errors at any line —, neither thread
panics and `join` succeeds.  (False before /repo 1b6cc1e and 566c084.) -/
theorem C17_no_panic (c : Cfg σ ρ) (s : State σ ρ) (h : Reachable c s) :
    s.reader ≠ .panicked ∧ s.rend ≠ .panicked ∧ s.joinErr = false :=
  inv_reachable (P := fun s => s.reader ≠ .panicked ∧ s.rend ≠ .panicked ∧ s.joinErr = false)
    (by simp [init]) no_panic_step s h

/-- a run never ends in the panicked phase: with finite input it ends by `process` returning -/
theorem C17_finite_input_returns (c : Cfg σ ρ) (hcap : 0 < c.cap) (s : State σ ρ)
    (h : Reachable c s) (he : s.eof = true) :
    ∃ ls s', (∀ l ∈ ls, l.internal = true) ∧ run c ls s = some s' ∧ s'.reader = .done := by
  obtain ⟨ls, s', h1, h2, h3⟩ := terminates hcap s h (Or.inl he)
  refine ⟨ls, s', h1, h2, ?_⟩
  rcases h3 with h3 | h3
  · exact h3
  · exact absurd h3 (C17_no_panic c s' (h.run h2)).1

/-- **C17 (read error).**  An `io::Error` from the input — at any line, in the middle of a line, on
the very first read (`--file <directory>`: `startup .directory`) — takes the reader out of its loop
with exactly one `error:` line; the rows of the lines read before are still handed over; … -/
theorem C17_read_error_clean (c : Cfg σ ρ) (s s' : State σ ρ) (h : next c s .readFail = some s') :
    s'.reader = .draining ∧ s'.rdErrs = s.rdErrs + 1 ∧ s'.outq = c.drain s.st ∧
      s'.consumed = s.consumed ∧ s'.chan = s.chan ∧ s'.written = s.written := by
  simp only [next] at h
  (repeat' split at h) <;> first
    | contradiction
    | (cases h; simp)

/-- … and from there finitely many thread steps return from `process`, even if the input never
reaches EOF. -/
theorem C17_read_error_terminates (c : Cfg σ ρ) (hcap : 0 < c.cap) (s s' : State σ ρ)
    (hr : Reachable c s) (h : next c s .readFail = some s') :
    ∃ ls s'', (∀ l ∈ ls, l.internal = true) ∧ run c ls s' = some s'' ∧ s''.reader = .done := by
  have hd := (C17_read_error_clean c s s' h).1
  obtain ⟨ls, s'', h1, h2, h3⟩ := terminates hcap s' (hr.step h) (Or.inr (by simp [hd]))
  refine ⟨ls, s'', h1, h2, ?_⟩
  rcases h3 with h3 | h3
  · exact h3
  · exact absurd h3 (C17_no_panic c s'' ((hr.step h).run h2)).1

/-- `--file <missing>` is a clean error of `main`; `--file <directory>` enters `process` with a
failing first read, i.e. `C17_read_error_clean` at line 0 -/
theorem C17_startup : startup .missing = .cleanError ∧ startup .directory = .runs true := ⟨rfl, rfl⟩

/-! ### non-vacuity -/

/-- a run in which a row is written, the next write fails half-way, and the reader then fails to
send a third row: one error line, clean end, output = the rows before the fault + the partial
write (hypotheses of `C17_stops_after_fault`, `C17_reader_stops_partial`) -/
def exCfg : Cfg Nat Bytes := tableCfg [some [97, 98], some [99, 100], some [101]] [] false 1000

def exFaultRun : Option (RdPhase × RnPhase × Bytes × Nat × Nat) :=
  (run exCfg [.feed [10, 10, 10, 10], .eof, .readLine, .send, .recv, .write, .readLine, .send, .recv,
    .writeFail 1, .readLine, .sendFail 0, .dropTx, .join] (init exCfg)).map
    (fun s => (s.reader, s.rend, s.written, s.errs, s.consumed.length))

example : exFaultRun = some (.done, .done, [97, 98, 10, 99], 1, 3) := by decide

/-- `-o json`-like rows `{}`: a fault inside the row and a fault at its newline both end with one
error line and the bytes that went out -/
def jsonCfg : Cfg Nat Bytes := tableCfg [some [123, 125]] [] false 1000

example : (run jsonCfg [.feed [10], .readLine, .send, .recv, .writeFail 1, .eof, .readEof, .dropTx, .join]
    (init jsonCfg)).map (fun s => (s.reader, s.rend, s.errs, s.joinErr, s.written)) =
    some (.done, .done, 1, false, [123]) := by decide

example : (run jsonCfg [.feed [10], .readLine, .send, .recv, .writeFail 2] (init jsonCfg)).map
    (fun s => (s.rend, s.errs, s.written)) = some (.done, 1, [123, 125]) := by decide

/-- a read error after one line, in the middle of the second: the first row is still written, one
error line from the reader, `process` returns (input never reached EOF) -/
def exReadFail : Option (RdPhase × RnPhase × Bytes × Nat × Nat × Bool) :=
  (run exCfg [.feed [10, 120], .readLine, .send, .absorb 1, .readFail, .recv, .write, .dropTx,
    .disconnect, .join] (init exCfg)).map
    (fun s => (s.reader, s.rend, s.written, s.errs, s.rdErrs, s.eof))

example : exReadFail = some (.done, .done, [97, 98, 10], 0, 1, false) := by decide

end Ag.C17
