/-
C03 (the headline)  The output of `s1 | s2 | … | sn` is what is obtained by applying each stage to
the COMPLETE output of the stages before it.

The pieces: `C03_plan_order` (C03.lean: the stages of a compiled plan are the written operators
translated one by one, in order), `C03_pipelined_iff_stagewise` / `C03_runPre_stagewise(_conv)`
(C03stage.lean: the reader's record-at-a-time threading, drain included, equals stage-by-stage
execution of the row operators) and `C03_post_is_fold` (C03table.lean: the aggregate chain is a
left fold over complete tables).  Here they are composed:

* `applyOne`, `refRun` — the reference semantics: ONE stage applied to the complete data (a record
  stream with its error count, or a table), and the left fold of that over a stage list;
* `C03_prefix_run` — the run of the first k stages is the input of stage k+1;
* `refRun_stagesOf` — on the stages of a plan, `refRun` is: `seqRun` over the row operators, then
  the head aggregate on the resulting stream, then `foldStages` (an equation);
* `C03_run_is_stagewise` — `runPlan` equals `refRun` over `stagesOf p` from the filtered lines:
  as an EQUATION on all outcomes whenever the reader side succeeds on either side, and as an iff
  on `.ok` results in general (`C03_run_ok_iff`); when the reader side fails, both sides fail, but
  WHICH failure is reported may differ (C03stage.lean: the pipelined loop can meet a later
  stage's failure on an early row first);
* `C03_compiled_run_is_stagewise`, `C03_no_stage_skipped_or_doubled` — with the planner: the stage
  list is the translation `refAll` of the written operators.
-/
import AgProofs.Props.C03
import AgProofs.Props.C03stage
import AgProofs.Props.C03table
import AgProofs.Props.C11plan

namespace Ag.C03

/-! ### the reference semantics -/

/-- the complete data between two stages: the record stream (with the number of `error:` lines
printed so far) before the first aggregate stage, a table after it -/
inductive Data where
  | stream (rows : List Record) (errors : Nat)
  | table (t : Table) (errors : Nat)
deriving Repr, Inhabited

/-- what the renderer receives -/
def toOutput : Data → Output
  | .stream rows e => .records rows e
  | .table t e => .table t e

/-- ONE stage applied to the COMPLETE data: a row operator run over the whole stream and drained
(`runStage`), the head aggregate on the whole stream (`headStage`), a later aggregate stage on the
whole table (`applyStage`).  A row stage on a table does not occur (`stagesOf` lists the row
stages first; after an aggregation row operators are `.tbl (.adapt op)` stages). -/
def applyOne (ext : Ext) : Stage → Data → RunR Data
  | .row op, .stream rows e => (runStage ext op rows).bind (fun r => .ok (.stream r.1 (e + r.2)))
  | .row _, .table _ _ => .unmodelled "a stream stage after an aggregate stage"
  | .tbl s, .stream rows e => (headStage ext s rows).bind (fun t => .ok (.table t e))
  | .tbl s, .table t e => (applyStage ext s t).bind (fun t' => .ok (.table t' e))

/-- stage by stage: each stage on the complete result of the stages before it -/
def refRun (ext : Ext) : List Stage → Data → RunR Data
  | [], d => .ok d
  | s :: ss, d => (applyOne ext s d).bind (refRun ext ss)

theorem refRun_nil (ext : Ext) (d : Data) : refRun ext [] d = .ok d := rfl

theorem refRun_single (ext : Ext) (s : Stage) (d : Data) : refRun ext [s] d = applyOne ext s d := by
  simp only [refRun]
  cases applyOne ext s d <;> rfl

/-- **C03 (the run of the first k stages is the input of stage k+1).** -/
theorem C03_prefix_run (ext : Ext) (a b : List Stage) : ∀ d : Data,
    refRun ext (a ++ b) d = (refRun ext a d).bind (refRun ext b) := by
  induction a with
  | nil => intro d; rfl
  | cons s ss ih =>
    intro d
    simp only [List.cons_append, refRun]
    cases applyOne ext s d <;> simp [RunR.bind, ih]

/-- the number of reference steps is the number of stages -/
theorem stagesOf_length (p : Plan) : (stagesOf p).length = p.pre.length + p.post.length := by
  simp [stagesOf]

/-! ### `refRun` on the two halves of a plan -/

/-- the row stages: `seqRun` (C03stage.lean), error counts added up -/
theorem refRun_rows (ext : Ext) : ∀ (ops : List RowOp) (rows : List Record) (e : Nat),
    refRun ext (ops.map .row) (.stream rows e) =
      (seqRun ext ops rows).bind (fun r => .ok (.stream r.1 (e + r.2))) := by
  intro ops
  induction ops with
  | nil => intro rows e; simp [refRun, seqRun, RunR.bind]
  | cons op ops ih =>
    intro rows e
    simp only [List.map_cons, refRun, applyOne, seqRun]
    cases runStage ext op rows with
    | ok r =>
      obtain ⟨mid, e1⟩ := r
      simp only [RunR.bind, ih]
      cases seqRun ext ops mid with
      | ok q => obtain ⟨o, e2⟩ := q; simp [Nat.add_assoc]
      | panic s => rfl
      | unmodelled w => rfl
    | panic s => rfl
    | unmodelled w => rfl

/-- the aggregate stages on a table: `foldStages` (C03table.lean) -/
theorem refRun_tables (ext : Ext) : ∀ (ss : List AggStage) (t : Table) (e : Nat),
    refRun ext (ss.map .tbl) (.table t e) =
      (foldStages ext ss t).bind (fun t' => .ok (.table t' e)) := by
  intro ss
  induction ss with
  | nil => intro t e; rfl
  | cons s ss ih =>
    intro t e
    simp only [List.map_cons, refRun, applyOne, foldStages]
    cases applyStage ext s t <;> simp [RunR.bind, ih]

/-- the aggregate chain of a plan from the record stream: nothing, or the head aggregate on the
stream and then the fold over tables -/
def postPart (ext : Ext) (post : List AggStage) (rows : List Record) (e : Nat) : RunR Data :=
  match post with
  | [] => .ok (.stream rows e)
  | head :: rest =>
    ((headStage ext head rows).bind (foldStages ext rest)).bind (fun t => .ok (.table t e))

theorem refRun_post (ext : Ext) (post : List AggStage) (rows : List Record) (e : Nat) :
    refRun ext (post.map .tbl) (.stream rows e) = postPart ext post rows e := by
  cases post with
  | nil => rfl
  | cons head rest =>
    simp only [List.map_cons, refRun, applyOne, postPart]
    cases headStage ext head rows with
    | ok t0 =>
      simp only [RunR.bind, refRun_tables]
    | panic s => rfl
    | unmodelled w => rfl

/-- **`refRun` over the stages of a plan** (an equation): the row operators stage by stage, then
the aggregate chain on the complete stream they produce -/
theorem refRun_stagesOf (ext : Ext) (p : Plan) (rows : List Record) :
    refRun ext (stagesOf p) (.stream rows 0) =
      (seqRun ext p.pre rows).bind (fun r => postPart ext p.post r.1 r.2) := by
  rw [stagesOf, C03_prefix_run, refRun_rows]
  cases seqRun ext p.pre rows with
  | ok r => obtain ⟨o, e⟩ := r; simp [RunR.bind, refRun_post]
  | panic s => rfl
  | unmodelled w => rfl

/-- `runPlan` (an equation): the reader side, then the same aggregate chain -/
theorem runPlan_postPart (ext : Ext) (p : Plan) (lines : List String) :
    runPlan ext p lines =
      (runPre ext p lines).bind (fun pre => (postPart ext p.post pre.rows pre.errors).map toOutput) := by
  rw [C03_post_is_fold]
  cases runPre ext p lines with
  | ok pre =>
    simp only [RunR.bind]
    cases p.post with
    | nil => rfl
    | cons head rest =>
      simp only [postPart]
      cases headStage ext head pre.rows with
      | ok t0 =>
        simp only [RunR.bind, RunR.map]
        cases foldStages ext rest t0 <;> rfl
      | panic s => rfl
      | unmodelled w => rfl
  | panic s => rfl
  | unmodelled w => rfl

/-! ### the headline -/

/-- the reference run of a plan on the input lines: every stage of the plan, in order, each on the
complete result of the ones before, starting from the records of the lines that pass the filter -/
def stagewise (ext : Ext) (p : Plan) (lines : List String) : RunR Output :=
  (refRun ext (stagesOf p) (.stream (filtered p lines) 0)).map toOutput

/-- **C03 (the run is stage-wise), equation form.**  When the row operators, run stage by stage on
the filtered lines, succeed, the whole run EQUALS the reference run — on every outcome of the
aggregate chain (`.ok`, and also which panic / unmodelled marker a later stage ends in). -/
theorem C03_run_is_stagewise (ext : Ext) (p : Plan) (lines : List String)
    (hm : lines.all (fun l => Search.modelled p.filter l.toList) = true)
    (o : List Record) (e : Nat) (h : seqRun ext p.pre (filtered p lines) = .ok (o, e)) :
    runPlan ext p lines = stagewise ext p lines := by
  rw [runPlan_postPart, stagewise, refRun_stagesOf,
    C03_runPre_stagewise ext p lines o e hm h, h]
  rfl

/-- the same from the other side: when the reader side of the real run succeeds -/
theorem C03_run_is_stagewise_of_runPre (ext : Ext) (p : Plan) (lines : List String) (pre : PreOut)
    (h : runPre ext p lines = .ok pre) : runPlan ext p lines = stagewise ext p lines := by
  have hs := C03_runPre_stagewise_conv ext p lines pre h
  rw [runPlan_postPart, stagewise, refRun_stagesOf, h, hs]
  rfl

/-- **C03 (the run is stage-wise), successful results in both directions.**  The run prints `out`
iff the reference run ends in `out`.  (For the row operators the pipelined loop and stage-wise
execution agree on successful results only — `C03_pipelined_iff_stagewise` — hence an iff here
and not an equation; see `C03_run_is_stagewise` for when it is one.) -/
theorem C03_run_ok_iff (ext : Ext) (p : Plan) (lines : List String)
    (hm : lines.all (fun l => Search.modelled p.filter l.toList) = true) (out : Output) :
    runPlan ext p lines = .ok out ↔ stagewise ext p lines = .ok out := by
  constructor
  · intro h
    cases hr : runPre ext p lines with
    | ok pre => rw [← C03_run_is_stagewise_of_runPre ext p lines pre hr]; exact h
    | panic s => rw [runPlan_postPart, hr] at h; cases h
    | unmodelled w => rw [runPlan_postPart, hr] at h; cases h
  · intro h
    cases hs : seqRun ext p.pre (filtered p lines) with
    | ok r => obtain ⟨o, e⟩ := r; rw [C03_run_is_stagewise ext p lines hm o e hs]; exact h
    | panic s => rw [stagewise, refRun_stagesOf, hs] at h; cases h
    | unmodelled w => rw [stagewise, refRun_stagesOf, hs] at h; cases h

/-- in terms of the data: the run prints `out` iff the fold of `applyOne` over the plan's stages
ends in data `d` with `out = toOutput d` -/
theorem C03_run_ok_iff_data (ext : Ext) (p : Plan) (lines : List String)
    (hm : lines.all (fun l => Search.modelled p.filter l.toList) = true) (out : Output) :
    runPlan ext p lines = .ok out ↔
      ∃ d, refRun ext (stagesOf p) (.stream (filtered p lines) 0) = .ok d ∧ out = toOutput d := by
  rw [C03_run_ok_iff ext p lines hm, stagewise]
  cases refRun ext (stagesOf p) (.stream (filtered p lines) 0) with
  | ok d =>
    simp only [RunR.map, RunR.bind, RunR.ok.injEq]
    constructor
    · intro h; exact ⟨d, rfl, h.symm⟩
    · rintro ⟨d', hd, rfl⟩; rw [hd]
  | panic s => simp [RunR.map, RunR.bind]
  | unmodelled w => simp [RunR.map, RunR.bind]

/-- failures correspond as failures: the run does not print a result iff the reference run does
not end in one (which panic / unmodelled marker is reported may differ when it arises among the
row operators) -/
theorem C03_run_fails_iff (ext : Ext) (p : Plan) (lines : List String)
    (hm : lines.all (fun l => Search.modelled p.filter l.toList) = true) :
    (∀ out, runPlan ext p lines ≠ .ok out) ↔ (∀ out, stagewise ext p lines ≠ .ok out) := by
  constructor
  · intro h out e; exact h out ((C03_run_ok_iff ext p lines hm out).2 e)
  · intro h out e; exact h out ((C03_run_ok_iff ext p lines hm out).1 e)

/-! ### with the planner: the stages are the written operators -/

theorem compile_planLoop (q : Query) (p : Plan) (hc : compile q = .ok p) :
    ∃ p0, planLoop false false [] [] (flattenOps (opsDepth q.ops + 1) q.ops) = .ok p0 ∧
      p = { p0 with filter := q.search } := by
  simp only [compile] at hc
  cases hp0 : planLoop false false [] [] (flattenOps (opsDepth q.ops + 1) q.ops) with
  | ok p0 =>
    simp only [hp0, Compile.ok.injEq] at hc
    exact ⟨p0, rfl, hc.symm⟩
  | error k => simp [hp0] at hc
  | panic s => simp [hp0] at hc
  | unmodelled w => simp [hp0] at hc

/-- **C03 (no stage is hoisted, skipped or applied twice).**  For a compiled query the list of
executed stages is exactly the translation of the written operators (aliases spliced in), one by
one, in the written order — with an implicit sort only directly after an aggregation that ends the
query or is followed by `limit` — and the filter is the written one.  (`C03_plan_order` at the
level of `compile`.) -/
theorem C03_no_stage_skipped_or_doubled (q : Query) (p : Plan) (hc : compile q = .ok p) :
    refAll false (flattenOps (opsDepth q.ops + 1) q.ops) = some (stagesOf p) ∧
      p.filter = q.search := by
  obtain ⟨p0, hp0, rfl⟩ := compile_planLoop q p hc
  exact ⟨C03_plan_order _ p0 hp0, rfl⟩

/-- **C03, for a compiled query.**  The run prints `out` iff folding `applyOne` over the written
operators' translation, from the records of the lines passing the written filter, ends in `out`. -/
theorem C03_compiled_run_is_stagewise (ext : Ext) (q : Query) (p : Plan) (lines : List String)
    (hc : compile q = .ok p)
    (hm : lines.all (fun l => Search.modelled q.search l.toList) = true) (out : Output) :
    ∃ ss, refAll false (flattenOps (opsDepth q.ops + 1) q.ops) = some ss ∧
      (runPlan ext p lines = .ok out ↔
        ∃ d, refRun ext ss (.stream (filtered p lines) 0) = .ok d ∧ out = toOutput d) := by
  obtain ⟨hss, hf⟩ := C03_no_stage_skipped_or_doubled q p hc
  exact ⟨stagesOf p, hss, C03_run_ok_iff_data ext p lines (by rw [hf]; exact hm) out⟩

/-! ### non-vacuity -/

/-- the plan of `* | count, avg(n) by k | where _count > 1 | sort by k | limit` (C11plan.lean) has
four stages, all after the aggregation boundary -/
example : stagesOf C11.exPlanB =
    [.tbl (.group { keyCols := [.col "k" []], headers := ["k"],
                    fns := [("_count", .count none), ("_average", .avg (.col "n" []))] }),
     .tbl (.adapt (.whereE (.cmp .gt (.col "_count" []) (.val (.int 1))))),
     .tbl (.sort [.col "k" []] .asc),
     .tbl (.adapt (.limit 10))] := rfl

/-- on any two input lines its run is the reference run, step for step, and both end in the
one-row table `exPlanB_run` computes -/
example (ext : Ext) (l1 l2 : String) :
    runPlan ext C11.exPlanB [l1, l2] = stagewise ext C11.exPlanB [l1, l2] ∧
    ∃ cols, refRun ext (stagesOf C11.exPlanB) (.stream (filtered C11.exPlanB [l1, l2]) 0) =
      .ok (.table { columns := cols, rows := [C11.exRow] } 0) := by
  have hm : [l1, l2].all (fun l => Search.modelled C11.exPlanB.filter l.toList) = true := by
    simp [C11.exPlanB, Search.modelled, Search.modelledL]
  have heq : runPlan ext C11.exPlanB [l1, l2] = stagewise ext C11.exPlanB [l1, l2] :=
    C03_run_is_stagewise ext C11.exPlanB [l1, l2] hm (filtered C11.exPlanB [l1, l2]) 0 (by
      have : C11.exPlanB.pre = [] := rfl
      rw [this]; rfl)
  obtain ⟨cols, hrun⟩ := C11.exPlanB_run ext l1 l2
  refine ⟨heq, cols, ?_⟩
  obtain ⟨d, hd, hout⟩ := (C03_run_ok_iff_data ext C11.exPlanB [l1, l2] hm _).1 hrun
  rw [hd]
  cases d with
  | stream rows e => simp [toOutput] at hout
  | table t e =>
    simp only [toOutput, Output.table.injEq] at hout
    rw [← hout.1, ← hout.2]

/-- a plan with stages on both sides of the boundary: `where … | limit -2 | count by k | limit 1` -/
example (e : Expr) (g : Grouper) :
    stagesOf { filter := .and [], pre := [.whereE e, .limit (-2)], post := [.group g, .adapt (.limit 1)] } =
      [.row (.whereE e), .row (.limit (-2)), .tbl (.group g), .tbl (.adapt (.limit 1))] := rfl

end Ag.C03

#print axioms Ag.C03.C03_prefix_run
#print axioms Ag.C03.refRun_stagesOf
#print axioms Ag.C03.runPlan_postPart
#print axioms Ag.C03.C03_run_is_stagewise
#print axioms Ag.C03.C03_run_is_stagewise_of_runPre
#print axioms Ag.C03.C03_run_ok_iff
#print axioms Ag.C03.C03_run_ok_iff_data
#print axioms Ag.C03.C03_run_fails_iff
#print axioms Ag.C03.C03_no_stage_skipped_or_doubled
#print axioms Ag.C03.C03_compiled_run_is_stagewise
