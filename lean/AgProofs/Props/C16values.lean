/-
C16 (final values)  Once input ends the screen shows the same rows and VALUES a non-terminal run
prints, up to column padding — for every earlier history of the printer.

The harness compares the final frame of a terminal run with the output of a non-terminal run line
by line after removing blanks (`squeeze`).  Here that comparison is a theorem about
`Pretty.formatAggregate`:

* `squeeze_header` / `squeeze_body` — when no cell is cut (`C19.ShownAll`), the squeezed header is
  the squeezed column names and each squeezed body line is the squeezed texts of the row's values
  in column order (`None` for an absent one), `trim_end`ed: no width occurs on the right-hand side;
* `C16_final_values_up_to_padding` — a table that, measured on its own, fits the terminal is drawn
  on the terminal, after ANY history, with the same squeezed header and the same squeezed body
  lines as by a fresh non-terminal printer (since the repair of `format_aggregate`, C19fresh.lean);
* `C16_final_frame_text_up_to_padding` — the same for the emitted text: the terminal frame is the
  first `h − 1` of header / rule / body lines, the non-terminal text is all of them.
-/
import AgProofs.Props.C19fresh

namespace Ag
namespace C16
open Pretty C19

/-- blanks removed: what the harness's strict comparison compares, line by line -/
def squeeze (s : Str) : Str := s.filter (· ≠ ' ')

theorem squeeze_append (a b : Str) : squeeze (a ++ b) = squeeze a ++ squeeze b := by
  simp [squeeze]

theorem squeeze_blanks (k : Nat) : squeeze (List.replicate k ' ') = [] := by
  simp [squeeze]

theorem squeeze_padW (n : Nat) (s : Str) : squeeze (padW n s) = squeeze s := by
  simp [padW, squeeze_append, squeeze_blanks]

theorem blank_isWhite : Text.isWhite ' ' = true := by decide

/-- dropping leading whitespace commutes with removing blanks (a blank is whitespace) -/
theorem squeeze_dropWhile : ∀ l : Str,
    squeeze (l.dropWhile Text.isWhite) = (squeeze l).dropWhile Text.isWhite := by
  intro l
  induction l with
  | nil => rfl
  | cons c cs ih =>
    by_cases hw : Text.isWhite c = true
    · simp only [List.dropWhile_cons, hw, if_true, ih]
      by_cases hb : c = ' '
      · simp [squeeze, hb]
      · simp [squeeze, hb, hw]
    · have hb : c ≠ ' ' := by
        rintro rfl; exact hw blank_isWhite
      simp [squeeze, hb, hw]

/-- `trim_end` commutes with removing blanks -/
theorem squeeze_trimEnd (s : Str) : squeeze (Text.trimEnd s) = Text.trimEnd (squeeze s) := by
  have hrev : ∀ l : Str, squeeze l.reverse = (squeeze l).reverse := by
    intro l; simp [squeeze]
  unfold Text.trimEnd
  rw [hrev, squeeze_dropWhile, hrev]

/-- the texts of a row's cells, in column order: the value's text, `None` for an absent field -/
def rowTexts (cols : List String) (row : Fields) : List Str :=
  cols.map (fun c => cellText ((Fields.get c row).getD .none))

/-- the squeezed line of a row — no column width in it -/
def rowSqueezed (cols : List String) (row : Fields) : Str :=
  Text.trimEnd (squeeze (concat (rowTexts cols row)))

/-- the squeezed header line -/
def headerSqueezed (cols : List String) : Str :=
  Text.trimEnd (squeeze (concat (cols.map (·.toList))))

theorem squeeze_cells {text : String → Str} {w2 : WMap} : ∀ {cols : List String} {cells : List Str},
    AllPairs (fun c cell => ∃ n, w2.get c = some n ∧ CellShown n (text c) cell) cols cells →
    squeeze (concat cells) = squeeze (concat (cols.map text)) := by
  intro cols cells h
  induction h with
  | nil => rfl
  | cons hr _ ih =>
    obtain ⟨n, _, _, hcell⟩ := hr
    simp only [concat, List.map_cons, squeeze_append, ih, hcell, squeeze_padW]

theorem _root_.Ag.C19.AllPairs.map_eq {α β γ : Type} {R : α → β → Prop} {f : α → γ} {g : β → γ}
    {as : List α} {bs : List β} (h : AllPairs R as bs) (hr : ∀ a b, R a b → g b = f a) :
    bs.map g = as.map f := by
  induction h with
  | nil => rfl
  | cons hab _ ih => simp [hr _ _ hab, ih]

/-- when no cell is cut, the squeezed header is the squeezed column names -/
theorem squeeze_header {w2 : WMap} {t : Table} {parts : Parts} (h : ShownAll w2 t parts) :
    squeeze parts.header = headerSqueezed t.columns := by
  obtain ⟨⟨hs, hh, hcells⟩, _⟩ := h
  rw [hh, squeeze_trimEnd, squeeze_cells (text := fun c => c.toList) hcells]
  rfl

/-- … and the squeezed body lines are the rows' squeezed values, row by row -/
theorem squeeze_body {w2 : WMap} {t : Table} {parts : Parts} (h : ShownAll w2 t parts) :
    parts.body.map squeeze = t.rows.map (rowSqueezed t.columns) := by
  apply h.2.map_eq
  rintro row line ⟨cells, hl, hcells⟩
  rw [hl, squeeze_trimEnd,
    squeeze_cells (text := fun c => cellText ((Fields.get c row).getD .none)) hcells]
  rfl

/-! ### the same values on the terminal and off it -/

/-- `TableOK` only mentions the buffers -/
theorem tableOK_transfer (env env' : Env) (t : Table) (hcfg : env'.cfg = env.cfg)
    (ok : TableOK env t) : TableOK env' t :=
  ⟨by rw [hcfg]; exact ok.hbuf, ok.hkeys, ok.hcov, by rw [hcfg]; exact ok.hnone⟩

/-- what fits a narrower screen fits a wider one -/
theorem fits_mono (env env' : Env) (w : WMap) (hle : env.maxWidth ≤ env'.maxWidth)
    (h : fits env w = true) : fits env' w = true := by
  simp only [fits, decide_eq_true_eq] at h ⊢
  omega

/-- a terminal of at most 240 columns is not wider than the non-terminal layout width -/
theorem maxWidth_le_nonterminal (envT envP : Env) (w h : Nat) (hT : envT.term = some (w, h))
    (hP : envP.term = none) (hw : w ≤ 240) : envT.maxWidth ≤ envP.maxWidth := by
  simp [Env.maxWidth, hT, hP, hw]

/-- two printers with the same buffers, ANY two histories, any two screens the table fits on its
own: the same squeezed header and the same squeezed body lines -/
theorem values_any_history (env1 env2 : Env) (st1 st2 : St) (t : Table) (hcfg : env2.cfg = env1.cfg)
    (ok : TableOK env1 t)
    (h1 : fits env1 (absorbRows env1.cfg [] t.rows) = true)
    (h2 : fits env2 (absorbRows env2.cfg [] t.rows) = true)
    (w1 w2 : WMap) (p1 p2 : Parts)
    (hp1 : tableParts env1 st1.widths t = .ok (w1, p1))
    (hp2 : tableParts env2 st2.widths t = .ok (w2, p2)) :
    squeeze p1.header = squeeze p2.header ∧ p1.body.map squeeze = p2.body.map squeeze := by
  have s1 := C19_cut_only_if_table_overflows env1 st1 t ok h1 w1 p1 hp1
  have s2 := C19_cut_only_if_table_overflows env2 st2 t (tableOK_transfer env1 env2 t hcfg ok) h2
    w2 p2 hp2
  exact ⟨by rw [squeeze_header s1, squeeze_header s2], by rw [squeeze_body s1, squeeze_body s2]⟩

/-- **C16_final_values_up_to_padding.**  `envT` a terminal, `envP` the non-terminal environment
(layout width 240) with the same buffers; `st` ANY state the earlier frames left in the terminal
printer; `t` a table that measured on its own fits both.  Then the table as drawn on the terminal
and as printed by a fresh non-terminal printer have the same header and the same body lines up to
blanks: the same number of lines, the same values line by line. -/
theorem C16_final_values_up_to_padding (envT envP : Env) (w h : Nat) (st : St) (t : Table)
    (hT : envT.term = some (w, h)) (hP : envP.term = none) (hcfg : envP.cfg = envT.cfg)
    (ok : TableOK envT t)
    (hfT : fits envT (absorbRows envT.cfg [] t.rows) = true)
    (hfP : fits envP (absorbRows envP.cfg [] t.rows) = true)
    (wT wP : WMap) (pT pP : Parts)
    (hpT : tableParts envT st.widths t = .ok (wT, pT))
    (hpP : tableParts envP [] t = .ok (wP, pP)) :
    squeeze pT.header = squeeze pP.header ∧ pT.body.map squeeze = pP.body.map squeeze ∧
      squeeze pT.header = headerSqueezed t.columns ∧
      pT.body.map squeeze = t.rows.map (rowSqueezed t.columns) := by
  have _ := hT; have _ := hP
  have s1 := C19_cut_only_if_table_overflows envT st t ok hfT wT pT hpT
  obtain ⟨e1, e2⟩ := values_any_history envT envP st {} t hcfg ok hfT hfP wT wP pT pP hpT hpP
  exact ⟨e1, e2, squeeze_header s1, squeeze_body s1⟩

/-- on a terminal of at most 240 columns the non-terminal hypothesis is implied -/
theorem C16_final_values_up_to_padding_le240 (envT envP : Env) (w h : Nat) (st : St) (t : Table)
    (hT : envT.term = some (w, h)) (hw : w ≤ 240) (hP : envP.term = none)
    (hcfg : envP.cfg = envT.cfg) (ok : TableOK envT t)
    (hfT : fits envT (absorbRows envT.cfg [] t.rows) = true)
    (wT wP : WMap) (pT pP : Parts)
    (hpT : tableParts envT st.widths t = .ok (wT, pT))
    (hpP : tableParts envP [] t = .ok (wP, pP)) :
    squeeze pT.header = squeeze pP.header ∧ pT.body.map squeeze = pP.body.map squeeze := by
  have hfP : fits envP (absorbRows envP.cfg [] t.rows) = true := by
    rw [hcfg]
    exact fits_mono envT envP _ (maxWidth_le_nonterminal envT envP w h hT hP hw) hfT
  obtain ⟨e1, e2, _, _⟩ := C16_final_values_up_to_padding envT envP w h st t hT hP hcfg ok hfT hfP
    wT wP pT pP hpT hpP
  exact ⟨e1, e2⟩

/-! ### the emitted text -/

/-- a rule line: dashes only -/
def IsRule (l : Str) : Prop := ∃ n, l = List.replicate n '-'

theorem sep_isRule (env : Env) (widths : WMap) (t : Table) (w2 : WMap) (parts : Parts)
    (h : tableParts env widths t = .ok (w2, parts)) : IsRule parts.sep := by
  obtain ⟨_, _, hs, _, _, hsep, _⟩ := tableParts_inv env widths t w2 parts h
  exact ⟨_, hsep⟩

/-- the text of a non-terminal run: all lines, nothing clipped -/
theorem nonterminal_text (envP : Env) (hP : envP.term = none) (st : St) (t : Table) (hne : t.rows ≠ [])
    (w2 : WMap) (parts : Parts) (hp : tableParts envP st.widths t = .ok (w2, parts)) :
    formatAggregate envP st t =
      .ok (unlines (parts.header :: parts.sep :: parts.body), { st with widths := w2 }) := by
  have hne' : t.rows.isEmpty = false := by cases hr : t.rows <;> simp_all
  simp [formatAggregate, hne', hp, clip, hP, Parts.text]

/-- **C16_final_frame_text_up_to_padding.**  For cell texts without line breaks (`Clean` lines: the
printer clips by lines) on a terminal of height `h ≥ 2`: the final terminal frame is the first
`h − 1` of the lines header / rule / body, the non-terminal text is all of its header / rule / body
lines; the headers agree up to blanks, both second lines are rules (of possibly different
lengths), and the body lines the terminal shows are, up to blanks, the first `h − 3` body lines of
the non-terminal text. -/
theorem C16_final_frame_text_up_to_padding (envT envP : Env) (w h : Nat) (st : St) (t : Table)
    (hT : envT.term = some (w, h)) (h2 : 2 ≤ h) (hP : envP.term = none) (hcfg : envP.cfg = envT.cfg)
    (ok : TableOK envT t) (hne : t.rows ≠ [])
    (hfT : fits envT (absorbRows envT.cfg [] t.rows) = true)
    (hfP : fits envP (absorbRows envP.cfg [] t.rows) = true)
    (wT wP : WMap) (pT pP : Parts)
    (hpT : tableParts envT st.widths t = .ok (wT, pT))
    (hpP : tableParts envP [] t = .ok (wP, pP))
    (hclean : ∀ l ∈ pT.header :: pT.sep :: pT.body, Clean l) :
    formatAggregate envT st t =
      .ok (unlines ((pT.header :: pT.sep :: pT.body).take (h - 1)), { st with widths := wT }) ∧
    formatAggregate envP {} t =
      .ok (unlines (pP.header :: pP.sep :: pP.body), { widths := wP }) ∧
    squeeze pT.header = squeeze pP.header ∧ IsRule pT.sep ∧ IsRule pP.sep ∧
    (((pT.header :: pT.sep :: pT.body).take (h - 1)).drop 2).map squeeze =
      (pP.body.map squeeze).take (h - 3) := by
  obtain ⟨e1, e2, _, _⟩ := C16_final_values_up_to_padding envT envP w h st t hT hP hcfg ok hfT hfP
    wT wP pT pP hpT hpP
  have hl := C19_lines envT st t wT pT hne hpT hclean
  rw [hT] at hl
  refine ⟨hl h2, nonterminal_text envP hP {} t hne wP pP hpP, e1,
    sep_isRule envT st.widths t wT pT hpT, sep_isRule envP [] t wP pP hpP, ?_⟩
  rw [List.drop_take, ← e2, List.map_take]
  have : h - 1 - 2 = h - 3 := by omega
  simp [this]

/-! ### non-vacuity: the witness of the repaired defect -/

/-- the non-terminal environment with the buffers of `env80` -/
def envPlain : Env := { cfg := env80.cfg, term := none }

theorem tNow_ok : TableOK env80 tNow := by
  refine tableOK_default env80 tNow (by decide) (by decide) ?_ ?_
  · intro row hrow
    simp only [tNow, List.mem_singleton] at hrow
    subst hrow
    simp [Fields.keys]
  · intro c hc
    refine ⟨_, List.mem_singleton.2 rfl, ?_⟩
    simp only [tNow, List.mem_cons, List.not_mem_nil, or_false] at hc
    rcases hc with rfl | rfl | rfl <;> simp [Fields.keys]

set_option maxRecDepth 100000 in
/-- after the frame with the 100-character `a`, the final table `a=abc, b=<45 b's>, _count=2` on
the 80-column terminal and the fresh non-terminal run show the same values -/
example (wT wP : WMap) (pT pP : Parts)
    (hpT : tableParts env80 stAfterLong.widths tNow = .ok (wT, pT))
    (hpP : tableParts envPlain [] tNow = .ok (wP, pP)) :
    squeeze pT.header = squeeze pP.header ∧ pT.body.map squeeze = pP.body.map squeeze :=
  C16_final_values_up_to_padding_le240 env80 envPlain 80 24 stAfterLong tNow rfl (by decide) rfl rfl
    tNow_ok (by decide) wT wP pT pP hpT hpP

set_option maxRecDepth 100000 in
/-- both layouts exist -/
example : (tableParts env80 stAfterLong.widths tNow).toOption.isSome = true ∧
    (tableParts envPlain [] tNow).toOption.isSome = true := by decide

set_option maxRecDepth 100000 in
/-- and the squeezed lines are these -/
example : headerSqueezed tNow.columns = "ab_count".toList ∧
    tNow.rows.map (rowSqueezed tNow.columns) = ["abc".toList ++ List.replicate 45 'b' ++ ['2']] := by
  decide

end C16
end Ag

#print axioms Ag.C16.squeeze_trimEnd
#print axioms Ag.C16.squeeze_header
#print axioms Ag.C16.squeeze_body
#print axioms Ag.C16.tableOK_transfer
#print axioms Ag.C16.fits_mono
#print axioms Ag.C16.values_any_history
#print axioms Ag.C16.C16_final_values_up_to_padding
#print axioms Ag.C16.C16_final_values_up_to_padding_le240
#print axioms Ag.C16.C16_final_frame_text_up_to_padding
#print axioms Ag.C16.tNow_ok
