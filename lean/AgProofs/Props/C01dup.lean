/-
C01 / C18 / C04: an aggregation stage whose columns do not all have names of their own is rejected at
compile time (src/lib.rs `convert_multi_agg`, repaired in /repo 7200e5c); every compiled stage
therefore gives each function its own accumulator and its own column.

Before the repair two functions with one name shared an accumulator (`count(a == 1), count(b == 2)`
printed the second count in both `_count` columns): `C01.C01_dup_names_counterexample` keeps that
fact about the bare grouper; the theorems below are about groupers that come out of the planner.
-/
import AgModel.Pipeline
import AgProofs.Props.C01

namespace Ag
namespace C01dup

/-- `dupColumn seen names = none` iff the names are pairwise distinct and none of them is in `seen` -/
theorem dupColumn_none_iff (seen names : List String) :
    dupColumn seen names = none ↔ names.Nodup ∧ ∀ n ∈ names, n ∉ seen := by
  induction names generalizing seen with
  | nil => simp [dupColumn]
  | cons n rest ih =>
    unfold dupColumn
    by_cases h : seen.contains n = true
    · simp only [h, if_true]
      constructor
      · intro hc; cases hc
      · intro ⟨_, hall⟩
        exact absurd (by simpa using h) (hall n (by simp))
    · have hf : seen.contains n = false := by simpa using h
      simp only [hf, Bool.false_eq_true, if_false]
      have hn : n ∉ seen := by simpa using h
      rw [ih]
      constructor
      · intro ⟨hnd, hall⟩
        refine ⟨List.nodup_cons.mpr ⟨?_, hnd⟩, ?_⟩
        · intro hmem
          exact (hall n hmem) (by simp)
        · intro m hm
          rcases List.mem_cons.mp hm with rfl | hm
          · exact hn
          · intro hs; exact (hall m hm) (by simp [hs])
      · intro ⟨hnd, hall⟩
        have ⟨hnr, hndr⟩ := List.nodup_cons.mp hnd
        refine ⟨hndr, ?_⟩
        intro m hm hs
        rcases List.mem_append.mp hs with hs | hs
        · exact hall m (List.mem_cons_of_mem _ hm) hs
        · have : m = n := by simpa using hs
          exact hnr (this ▸ hm)

/-- the names of the type-checked function list are the names written in the query -/
theorem fns_names : ∀ (l : List (String × AggFn)) (ds : List (String × AggDef)),
    convertMultiAgg.fns l = .ok ds → ds.map Prod.fst = l.map Prod.fst
  | [], ds, h => by
    simp only [convertMultiAgg.fns, Static.ok.injEq] at h
    subst h; rfl
  | (n, f) :: rest, ds, h => by
    simp only [convertMultiAgg.fns] at h
    split at h
    · split at h
      · rename_i ds' hrest
        simp only [Static.ok.injEq] at h
        subst h
        simp [fns_names rest ds' hrest]
      · rename_i o hno
        cases o <;> simp_all
    all_goals cases h

/-- **a duplicate column name is a static error**: a repeated function name, or a function name
that is also a key header, makes the stage a type error (so the planner rejects the query:
`C04.C04_plan_rejects_bad_agg`) -/
theorem C01_duplicate_column_rejected (m : MultiAgg)
    (h : ¬ ((m.fns.map Prod.fst).Nodup ∧ ∀ n ∈ m.fns.map Prod.fst, n ∉ m.headers)) :
    convertMultiAgg m = .typeError "DuplicateColumn" := by
  have hd : (dupColumn m.headers (m.fns.map (·.1))).isSome = true := by
    cases hc : dupColumn m.headers (m.fns.map (·.1)) with
    | some _ => rfl
    | none => exact absurd ((dupColumn_none_iff _ _).mp hc) h
  unfold convertMultiAgg
  simp [hd]

/-- **every compiled aggregation has pairwise distinct column names**, none of which is a key header -/
theorem C01_compiled_names_nodup (m : MultiAgg) (g : Grouper) (h : convertMultiAgg m = .ok g) :
    (g.fns.map Prod.fst).Nodup ∧ (∀ n ∈ g.fns.map Prod.fst, n ∉ g.headers) ∧
    g.fns.map Prod.fst = m.fns.map Prod.fst ∧ g.headers = m.headers ∧ g.keyCols = m.keyCols := by
  unfold convertMultiAgg at h
  split at h
  · cases h
  · rename_i hd
    have hnone : dupColumn m.headers (m.fns.map (·.1)) = none := by
      cases hc : dupColumn m.headers (m.fns.map (·.1)) with
      | none => rfl
      | some _ => simp [hc] at hd
    have ⟨hnd, hall⟩ := (dupColumn_none_iff _ _).mp hnone
    split at h
    · rename_i ds hds
      split at h
      · simp only [Static.ok.injEq] at h
        subst h
        have hn := fns_names m.fns ds hds
        simp only [hn]
        exact ⟨hnd, hall, trivial, trivial, trivial⟩
      · cases h
    all_goals cases h

/-- hence the full statement that was false of the bare grouper holds of every compiled one: each
function of the stage has its own accumulator / column, in the order written -/
theorem C01_own_column (m : MultiAgg) (g : Grouper) (h : convertMultiAgg m = .ok g) :
    g.accNames.map Prod.fst = g.fns.map Prod.fst := by
  have ⟨hnd, _⟩ := C01_compiled_names_nodup m g h
  simp only [Grouper.accNames]
  rw [C01.accNames_of_nodup g.fns hnd]

/-- the former witness: `count(a == 1), count(b == 2)` -/
def twoCounts : MultiAgg :=
  { keyCols := []
    headers := []
    fns := [("_count", .count (some (.cmp .eq (.col "a" []) (.val (.int 1))))),
            ("_count", .count (some (.cmp .eq (.col "b" []) (.val (.int 2)))))] }

/-- `count as k by k` (a function named like a key header) -/
def countAsKey : MultiAgg :=
  { keyCols := [.col "k" []]
    headers := ["k"]
    fns := [("k", .count none)] }

def distinctNames : MultiAgg :=
  { keyCols := [.col "k" []]
    headers := ["k"]
    fns := [("_count", .count none), ("n2", .count none)] }

theorem twoCounts_rejected : convertMultiAgg twoCounts = .typeError "DuplicateColumn" := by
  apply C01_duplicate_column_rejected
  simp [twoCounts]

theorem countAsKey_rejected : convertMultiAgg countAsKey = .typeError "DuplicateColumn" := by
  apply C01_duplicate_column_rejected
  simp [countAsKey]

/-- non-vacuity of the positive statements: distinct names compile -/
theorem distinctNames_compiles : ∃ g, convertMultiAgg distinctNames = .ok g := by
  simp [distinctNames, convertMultiAgg, convertMultiAgg.fns, dupColumn, typecheckAgg, Expr.wellTypedL, optWellTyped,
    Expr.wellTyped]

end C01dup
end Ag
