/-
C05  Expressions evaluate with conventional, self-consistent semantics — evaluator-level theorems.

Model: `evalValue` / `evalFunc` / `access` (AgModel/Eval.lean) for src/operator/expr.rs:53-240 and
src/funcs.rs; `durationTrunc` (AgModel/Ops.lean) for src/operator/timeslice.rs.
Operator consistency (trichotomy, numeric/lexicographic/type order) is in Props/C05order.lean,
exact integer arithmetic in Props/C08.lean, precedence in Props/C20.lean / C04.lean (parser).
-/
import AgModel.Pipeline
import AgProofs.Lemmas.Basic

namespace Ag.C05

/-! ### short-circuit and laziness: the untaken operand is not evaluated -/

/-- `false and e` is `false` whatever `e` is — even when `e` would fail, panic or is outside
the model -/
theorem C05_and_short_circuit (ext : Ext) (r : Fields) (l e e' : Expr)
    (h : evalValue ext r l = .ok (.bool false)) :
    evalValue ext r (.logic .and l e) = .ok (.bool false) ∧
    evalValue ext r (.logic .and l e) = evalValue ext r (.logic .and l e') := by
  simp [evalValue, h]

theorem C05_or_short_circuit (ext : Ext) (r : Fields) (l e e' : Expr)
    (h : evalValue ext r l = .ok (.bool true)) :
    evalValue ext r (.logic .or l e) = .ok (.bool true) ∧
    evalValue ext r (.logic .or l e) = evalValue ext r (.logic .or l e') := by
  simp [evalValue, h]

/-- when the left operand does not decide, the result is the right operand's -/
theorem C05_and_true (ext : Ext) (r : Fields) (l e : Expr)
    (h : evalValue ext r l = .ok (.bool true)) :
    evalValue ext r (.logic .and l e) = evalValue ext r e := by
  simp [evalValue, h]

theorem C05_or_false (ext : Ext) (r : Fields) (l e : Expr)
    (h : evalValue ext r l = .ok (.bool false)) :
    evalValue ext r (.logic .or l e) = evalValue ext r e := by
  simp [evalValue, h]

/-- a non-boolean left operand is an error of that row only (`EvalError`), never a panic -/
theorem C05_logic_non_bool (ext : Ext) (r : Fields) (op : LogicOp) (l e : Expr) (v : Value)
    (h : evalValue ext r l = .ok v) (hv : ∀ b, v ≠ .bool b) :
    evalValue ext r (.logic op l e) = .err "ExpectedBoolean" := by
  cases v <;> simp_all [evalValue]

/-- **C05 (`if` evaluates only the chosen branch).** -/
theorem C05_if_lazy (ext : Ext) (r : Fields) (c t f f' : Expr) :
    (evalValue ext r c = .ok (.bool true) →
      evalValue ext r (.ifop c t f) = evalValue ext r t ∧
      evalValue ext r (.ifop c t f) = evalValue ext r (.ifop c t f')) ∧
    (evalValue ext r c = .ok (.bool false) →
      evalValue ext r (.ifop c f t) = evalValue ext r t ∧
      evalValue ext r (.ifop c f t) = evalValue ext r (.ifop c f' t)) := by
  constructor <;> intro h <;> simp [evalValue, h]

/-- **C05 (`!` negates booleans)** and fails on anything else -/
theorem C05_not (ext : Ext) (r : Fields) (e : Expr) (b : Bool)
    (h : evalValue ext r e = .ok (.bool b)) : evalValue ext r (.not e) = .ok (.bool !b) := by
  simp [evalValue, h]

theorem C05_not_non_bool (ext : Ext) (r : Fields) (e : Expr) (v : Value)
    (h : evalValue ext r e = .ok v) (hv : ∀ b, v ≠ .bool b) :
    evalValue ext r (.not e) = .err "ExpectedBoolean" := by
  cases v <;> simp_all [evalValue]

/-! ### comparisons and arithmetic are strict in both operands (a failing operand fails the row) -/

theorem C05_cmp_strict (ext : Ext) (r : Fields) (op : CmpOp) (l e : Expr) (k : String)
    (h : evalValue ext r l = .err k) : evalValue ext r (.cmp op l e) = .err k := by
  simp [evalValue, h]

theorem C05_cmp_value (ext : Ext) (r : Fields) (op : CmpOp) (l e : Expr) (a b : Value)
    (hl : evalValue ext r l = .ok a) (he : evalValue ext r e = .ok b) :
    evalValue ext r (.cmp op l e) = .ok (.bool (cmpResult op a b)) := by
  simp [evalValue, hl, he]

theorem C05_missing_field (ext : Ext) (r : Fields) (name : String) (h : Fields.get name r = none) :
    evalValue ext r (.col name []) = .err "NoValueForKey" := by
  simp [evalValue, h]

/-! ### nested access -/

theorem C05_access_index (vs : List Value) (i : Nat) (v : Value) (h : vs[i]? = some v) :
    access (.arr vs) [.idx i] = .ok v := by
  have hlt : i < vs.length := by
    rcases Nat.lt_or_ge i vs.length with h1 | h1
    · exact h1
    · simp [List.getElem?_eq_none h1] at h
  simp only [access]
  have h1 : ¬ ((i : Int) < 0) := by omega
  have h2 : ¬ ((i : Int) < 0 ∨ (vs.length : Int) ≤ (i : Int)) := by omega
  simp [h1, h2, h, access]
  exact hlt

theorem C05_access_negative_index (vs : List Value) (k : Nat) (hk : 0 < k) (hkl : k ≤ vs.length)
    (v : Value) (h : vs[vs.length - k]? = some v) :
    access (.arr vs) [.idx (-(k : Int))] = .ok v := by
  simp only [access]
  have h1 : (-(k : Int)) < 0 := by omega
  have h3 : (-(k : Int) + (vs.length : Int)).toNat = vs.length - k := by omega
  have h2 : ¬ ((-(k : Int) + (vs.length : Int)) < 0 ∨ (vs.length : Int) ≤ -(k : Int) + (vs.length : Int)) := by omega
  simp [h1, h2, h3, h, access, hk]

theorem C05_access_out_of_range (vs : List Value) (i : Nat) (rest : List Ref)
    (h : vs.length ≤ i) : access (.arr vs) (.idx i :: rest) = .err "IndexOutOfRange" := by
  simp only [access]
  have h1 : ¬ ((i : Int) < 0) := by omega
  simp [h1]
  intro hlt
  omega

theorem C05_access_out_of_range_negative (vs : List Value) (k : Nat) (rest : List Ref)
    (h : vs.length < k) : access (.arr vs) (.idx (-(k : Int)) :: rest) = .err "IndexOutOfRange" := by
  simp only [access]
  have h1 : (-(k : Int)) < 0 := by omega
  have h2 : ((-(k : Int) + (vs.length : Int)) < 0 ∨ (vs.length : Int) ≤ -(k : Int) + (vs.length : Int)) :=
    Or.inl (by omega)
  have hk : 0 < k := by omega
  simp [hk]
  intro _ hlt
  omega

/-! ### timeslice: the latest multiple of `d` since the epoch that is not after `t` -/

/-- **C05 (timeslice).** For a positive duration `d` (nanoseconds) and a timestamp `t` in chrono's
nanosecond range, `r = timeslice t d` satisfies `d ∣ r`, `r ≤ t` and `t - r < d`. -/
theorem C05_timeslice (t d r : Int) (h : durationTrunc t d = .ok r) :
    d ∣ r ∧ r ≤ t ∧ t - r < d ∧ 0 < d := by
  unfold durationTrunc at h
  split at h
  · simp at h
  · split at h
    · simp at h
    · split at h
      · simp at h
      · rename_i _ hd _
        have hd' : 0 < d := by omega
        simp only [Outcome.ok.injEq] at h
        subst h
        have e : t.emod d = t % d := rfl
        rw [e]
        refine ⟨?_, ?_, ?_, hd'⟩
        · exact Int.dvd_self_sub_emod
        · have := Int.emod_nonneg t (by omega : d ≠ 0); omega
        · have := Int.emod_lt_of_pos t hd'; omega

/-- a non-positive duration is an error of the row, not a panic -/
theorem C05_timeslice_bad_duration (t d : Int) (hd : d ≤ 0) (hr : i64NanosOk d = true) :
    durationTrunc t d = .err "InvalidDuration" := by
  simp [durationTrunc, hr, hd]

/-- non-vacuity: 2021-01-01T00:00:07Z truncated to 5 s -/
example : durationTrunc 1609459207000000000 5000000000 = .ok 1609459205000000000 := by
  simp [durationTrunc, i64NanosOk, F64.i64Min, F64.i64Max, Int.emod]

/-! ### the function table: arity and dispatch -/

theorem C05_unknown_function_rejected (n : String) (args : List Expr) (h : isFunction n = false) :
    (Expr.call n args).wellTyped = false := by
  simp [Expr.wellTyped, h]

theorem C05_isNull (ext : Ext) (v : Value) :
    evalFunc ext "isNull" [v] = .ok (.bool (match v with | .none => true | _ => false)) := by
  cases v <;> simp [evalFunc, float1Names, float2Names, string1Names, string2Names, generic]

theorem C05_wrong_arity_is_row_error (ext : Ext) (a b : Value) :
    evalFunc ext "isNull" [a, b] = .err "InvalidFunctionArguments" ∧
    evalFunc ext "abs" [a, b] = .err "InvalidFunctionArguments" ∧
    evalFunc ext "abs" [] = .err "InvalidFunctionArguments" := by
  simp [evalFunc, float1Names, float2Names, string1Names, string2Names, generic, invalidArgs]

/-- `abs`, `ceil`, `floor`, `round` are the model's exact IEEE operations on the coerced argument,
normalised by `from_float` -/
theorem C05_float1_exact (ext : Ext) (v : Value) (x : F64) (h : v.toF64 = .ok x) :
    evalFunc ext "abs" [v] = .ok (Value.fromFloat (F64.abs x)) ∧
    evalFunc ext "floor" [v] = .ok (Value.fromFloat (F64.floor x)) ∧
    evalFunc ext "ceil" [v] = .ok (Value.fromFloat (F64.ceil x)) ∧
    evalFunc ext "round" [v] = .ok (Value.fromFloat (F64.round x)) := by
  simp [evalFunc, float1Names, float1, h]

end Ag.C05
