/-
C09 (order part)  Sorting happens under one total value order.

`impl Ord for Value` (src/data.rs) as modelled by `Value.cmp`, and the order `OrderedFloat<f64>`
gives doubles (`F64.ocmp`).  The sort itself (permutation / sortedness / tie-break) is in C09.lean;
this file is only about the comparator.

Domain `Value.inD fl` (a decidable predicate, AgProofs/Lemmas/ValueOrder.lean): no objects (the
real `Ord` on `im::HashMap` follows hash iteration order; the model's object order is a stand-in),
and either no floats at all (`fl = false`, integers unrestricted) or floats allowed and every
integer within ±2^53 (`fl = true`).  Arrays are members: any two arrays compare `Equal`, which
keeps the relation a total preorder (it only stops it from separating them — see
`C09_arrays_all_equal`).
-/
import AgProofs.Lemmas.ValueOrder

namespace Ag.C09
open Ag.F64 Ag.Value

/-! ### the order on doubles (`OrderedFloat`) is a total preorder on every bit pattern -/

/-- `OrderedFloat::cmp` is oriented and transitive (a total preorder) on all doubles, NaN and
infinities included; stated with the standard `Std.TransCmp` interface -/
theorem C09_float_total_preorder : Std.TransCmp F64.ocmp := inferInstance

theorem C09_float_refl (a : F64) : ocmp a a = .eq := ocmp_self a

theorem C09_float_antisymm (a b : F64) : ocmp a b = .lt ↔ ocmp b a = .gt := by
  rw [← ocmp_swap a b]; cases ocmp a b <;> simp

theorem C09_float_total (a b : F64) : ocmp a b = .lt ∨ ocmp a b = .eq ∨ ocmp b a = .lt := by
  rw [← ocmp_swap a b]; cases ocmp a b <;> simp

theorem C09_float_trans {a b c : F64} :
    ((ocmp a b).isLE → (ocmp b c).isLE → (ocmp a c).isLE) ∧
    (ocmp a b = .lt → ocmp b c = .lt → ocmp a c = .lt) ∧
    (ocmp a b = .eq → ocmp b c = .eq → ocmp a c = .eq) :=
  ⟨ocmp_isLE_trans, Std.TransCmp.lt_trans, Std.TransCmp.eq_trans⟩

/-- `OrderedFloat`'s `Eq` is the equivalence of its `Ord` -/
theorem C09_float_eq_iff (a b : F64) : oeq a b = true ↔ ocmp a b = .eq := oeq_iff a b

/-- finite doubles are ordered by their exact value -/
theorem C09_float_by_value {f g : F64} {x y : Dyadic} (hf : val? f = some x) (hg : val? g = some y) :
    ocmp f g = dcmp x y := ocmp_eq_dcmp hf hg

/-- NaN is the greatest double and equal only to itself -/
theorem C09_float_nan_greatest (a : F64) :
    ocmp a nan ≠ .gt ∧ (ocmp a nan = .eq ↔ a = nan) := by
  cases a <;> simp [ocmp, pcmp, isNaN]

example : val? (fin false two52 (-52)) = some (1 : Dyadic) := by decide

/-! ### `Value::cmp` -/

/-- the full statement: `cmp` is a total preorder on all object-free values -/
def C09_cmp_total_preorder_full : Prop :=
  ∀ a b c : Value, a.rank ≠ 7 → b.rank ≠ 7 → c.rank ≠ 7 →
    (cmp a b).isLE → (cmp b c).isLE → (cmp a c).isLE

/-- … which is false of the code as it stands: beyond 2^53 two different integers are both
`Equal` to the same double (`Int` vs `Float` is compared after `i as f64`), so `cmp` is not
transitive: 2^53+1 ≤ 2^53 (as double) ≤ 2^53 but 2^53+1 > 2^53. -/
theorem C09_cmp_total_preorder_not_full : ¬ C09_cmp_total_preorder_full := by
  intro h
  have := h (int 9007199254740993) (float (fin false two52 1)) (int 9007199254740992)
    (by decide) (by decide) (by decide)
  revert this
  simp only [cmp]
  decide

/-- On the domain `inD fl`, `cmp` is an oriented, transitive comparison = a total preorder
(`Std.TransCmp` on the subtype). -/
theorem C09_cmp_total_preorder_partial (fl : Bool) :
    Std.TransCmp (fun (a b : {v : Value // inD fl v = true}) => cmp a.1 b.1) where
  eq_swap := by
    intro a b
    rw [← cmp_swap b.1 a.1 (fun h => rank_ne_obj_of_inD a.2 h.2)]
  isLE_trans := by
    intro a b c
    exact cmp_isLE_trans a.2 b.2 c.2

/-- the same, spelled out: reflexive, total, transitive -/
theorem C09_cmp_laws (fl : Bool) {a b c : Value} (ha : inD fl a) (hb : inD fl b) (hc : inD fl c) :
    cmp a a = .eq ∧
    (cmp a b = .gt ↔ cmp b a = .lt) ∧
    (cmp a b = .lt ∨ cmp a b = .eq ∨ cmp b a = .lt) ∧
    ((cmp a b).isLE → (cmp b c).isLE → (cmp a c).isLE) ∧
    (cmp a b = .lt → cmp b c = .lt → cmp a c = .lt) ∧
    (cmp a b = .eq → cmp b c = .eq → cmp a c = .eq) := by
  have inst := C09_cmp_total_preorder_partial fl
  let A : {v : Value // inD fl v = true} := ⟨a, ha⟩
  let B : {v : Value // inD fl v = true} := ⟨b, hb⟩
  let C : {v : Value // inD fl v = true} := ⟨c, hc⟩
  refine ⟨?_, ?_, ?_, ?_, ?_, ?_⟩
  · exact Std.ReflCmp.compare_self (cmp := fun (a b : {v : Value // inD fl v = true}) => cmp a.1 b.1) (a := A)
  · exact Std.OrientedCmp.gt_iff_lt (cmp := fun (a b : {v : Value // inD fl v = true}) => cmp a.1 b.1) (a := A) (b := B)
  · have := cmp_swap a b (fun h => rank_ne_obj_of_inD ha h.1)
    rw [← this]; cases cmp a b <;> simp
  · exact cmp_isLE_trans ha hb hc
  · exact Std.TransCmp.lt_trans (cmp := fun (a b : {v : Value // inD fl v = true}) => cmp a.1 b.1) (a := A) (b := B) (c := C)
  · exact Std.TransCmp.eq_trans (cmp := fun (a b : {v : Value // inD fl v = true}) => cmp a.1 b.1) (a := A) (b := B) (c := C)

/-- non-vacuity: the domain contains every kind of scalar, mixed ints and floats, and arrays -/
example : inD true .none ∧ inD true (.bool true) ∧ inD true (.int (-9007199254740992)) ∧
    inD true (.float (fin false two52 (-53))) ∧ inD true (.float nan) ∧ inD true (.str "a") ∧
    inD true (.date 0) ∧ inD true (.dur 1) ∧ inD true (.arr [.int 1]) ∧
    inD false (.int 9223372036854775807) := by decide

/-- `rank` order: None < Bool < number < Str < DateTime < Duration < Array < Obj (all values) -/
theorem C09_cmp_rank (a b : Value) (h : a.rank < b.rank) : cmp a b = .lt ∧ cmp b a = .gt :=
  ⟨cmp_rank_lt a b h, cmp_rank_gt b a h⟩

example : (Value.none).rank < (Value.bool false).rank ∧ (Value.bool true).rank < (Value.int 0).rank ∧
    (Value.int 0).rank = (Value.float nan).rank ∧ (Value.float nan).rank < (Value.str "").rank ∧
    (Value.str "").rank < (Value.date 0).rank ∧ (Value.date 0).rank < (Value.dur 0).rank ∧
    (Value.dur 0).rank < (Value.arr []).rank ∧ (Value.arr []).rank < (Value.obj []).rank := by decide

/-- numbers are ordered by their exact numeric value (ints and finite doubles, mixed) -/
theorem C09_cmp_numbers_by_value {fl : Bool} {a b : Value} {x y : Dyadic}
    (ha : inD fl a) (hb : inD fl b) (hx : num a = some x) (hy : num b = some y) :
    cmp a b = dcmp x y := cmp_eq_dcmp ha hb hx hy

example : cmp (int 1) (float (fin false two52 (-53))) = .gt := by
  rw [C09_cmp_numbers_by_value (fl := true) (x := 1) (y := Dyadic.ofIntWithPrec 1 1)
    (by decide) (by decide) (by decide) (by decide)]
  decide

/-- integers among themselves: the integer order, no range restriction -/
theorem C09_cmp_ints (a b : Int) : cmp (int a) (int b) = compare a b := cmp_int_int a b

/-- strings are ordered lexicographically (`compare` on `String`: by code point) -/
theorem C09_cmp_strings (a b : String) : cmp (str a) (str b) = compare a b := by simp [cmp]

theorem C09_cmp_bools (a b : Bool) :
    cmp (.bool a) (.bool b) = (if a = b then .eq else if a = false then .lt else .gt) := by
  cases a <;> cases b <;> simp [cmp, cmpBool]

theorem C09_cmp_dates (a b : Int) : cmp (date a) (date b) = compare a b ∧
    cmp (dur a) (dur b) = compare a b := by simp [cmp]

/-- `Value::None` is the smallest value and equal only to itself -/
theorem C09_none_smallest (b : Value) : cmp .none b ≠ .gt ∧ (cmp .none b = .eq ↔ b.rank = 0) := by
  cases b <;> simp [cmp, rank] <;> decide

/-- any two arrays are `Equal`: the order does not separate them (so a sort tie-break cannot) -/
theorem C09_arrays_all_equal (a b : List Value) : cmp (arr a) (arr b) = .eq := by
  simp [cmp, rank]

end Ag.C09
