/-
C09 (order part)  Sorting happens under one total value order.

`impl Ord for Value` (src/data.rs) as modelled by `Value.cmp`, and the order `OrderedFloat<f64>`
gives doubles (`F64.ocmp`).  The sort itself (permutation / sortedness / tie-break) is in C09.lean;
this file is only about the comparator.

Since the `cmp_int_float` repair of src/data.rs an `Int` is compared with a `Float` exactly (not
after `i as f64`, which rounds beyond 2^53), so numbers are ordered by exact value and `cmp` is a
total preorder on ALL values (`C09_cmp_total_preorder_full_holds`, `C09_cmp_total_preorder`):
orientation, reflexivity AND transitivity, nested arrays and objects included.  Arrays compare
element by element (`cmpL`), objects by their key-sorted entries (`cmpKV`), as the code does since
/repo 1d8641f / 3043a84.

The domain `Value.inD fl` (AgProofs/Lemmas/ValueOrder.lean: `fl = false` no floats, `fl = true`
every value — it used to confine integers to ±2^53 when floats are present) survives only in the
signatures of the `…_partial` statements, which are now corollaries of the full ones.
-/
import AgProofs.Lemmas.ValueOrder

namespace Ag.C09
open Ag.F64 Ag.Value

/-! ### the order on doubles (`OrderedFloat`) is a total preorder on every bit pattern -/

/-- `OrderedFloat::cmp` is oriented and transitive (a total preorder) on all doubles, NaN and
infinities included; stated with the standard `Std.TransCmp` interface -/
theorem C09_float_total_preorder : Std.TransCmp F64.ocmp := inferInstance

theorem C09_float_refl (a : F64) : ocmp a a = .eq := ocmp_self a

theorem C09_float_antisymm (a b : F64) : ocmp a b = .lt ↔ ocmp b a = .gt := by
  rw [← ocmp_swap a b]; cases ocmp a b <;> simp

theorem C09_float_total (a b : F64) : ocmp a b = .lt ∨ ocmp a b = .eq ∨ ocmp b a = .lt := by
  rw [← ocmp_swap a b]; cases ocmp a b <;> simp

theorem C09_float_trans {a b c : F64} :
    ((ocmp a b).isLE → (ocmp b c).isLE → (ocmp a c).isLE) ∧
    (ocmp a b = .lt → ocmp b c = .lt → ocmp a c = .lt) ∧
    (ocmp a b = .eq → ocmp b c = .eq → ocmp a c = .eq) :=
  ⟨ocmp_isLE_trans, Std.TransCmp.lt_trans, Std.TransCmp.eq_trans⟩

/-- `OrderedFloat`'s `Eq` is the equivalence of its `Ord` -/
theorem C09_float_eq_iff (a b : F64) : oeq a b = true ↔ ocmp a b = .eq := oeq_iff a b

/-- finite doubles are ordered by their exact value -/
theorem C09_float_by_value {f g : F64} {x y : Dyadic} (hf : val? f = some x) (hg : val? g = some y) :
    ocmp f g = dcmp x y := ocmp_eq_dcmp hf hg

/-- NaN is the greatest double and equal only to itself -/
theorem C09_float_nan_greatest (a : F64) :
    ocmp a nan ≠ .gt ∧ (ocmp a nan = .eq ↔ a = nan) := by
  cases a <;> simp [ocmp, pcmp, isNaN]

example : val? (fin false two52 (-52)) = some (1 : Dyadic) := by decide

/-! ### `Value::cmp` -/

/-- swapping the arguments swaps the outcome — all values, arrays and objects included (full) -/
theorem C09_cmp_oriented (a b : Value) : (cmp a b).swap = cmp b a := cmp_swap a b

/-- reflexive — all values (full) -/
theorem C09_cmp_refl (a : Value) : cmp a a = .eq := cmp_self a

/-- the full statement: `cmp` is transitive (hence a total preorder) on all values -/
def C09_cmp_total_preorder_full : Prop :=
  ∀ a b c : Value, (cmp a b).isLE → (cmp b c).isLE → (cmp a c).isLE

/-- … which holds since the `cmp_int_float` repair: every number is compared as its exact value
in `OrderedFloat`'s order (`cmp_num`), and `ocmp` is transitive on all data -/
theorem C09_cmp_total_preorder_full_holds : C09_cmp_total_preorder_full :=
  fun _ _ _ h1 h2 => cmp_isLE_trans_all h1 h2

/-- `cmp` is an oriented, transitive comparison = a total preorder on ALL values -/
theorem C09_cmp_total_preorder : Std.TransCmp Value.cmp where
  eq_swap := by
    intro a b
    rw [← cmp_swap b a]
  isLE_trans := cmp_isLE_trans_all

/-- regression (the witness of the former defect): before the repair 2^53+1 ≤ 2^53 (as double)
≤ 2^53 held although 2^53+1 > 2^53, because `Int` vs `Float` was compared after `i as f64`; now
2^53+1 is greater than the double 2^53 -/
example : cmp (int 9007199254740993) (float (fin false two52 1)) = .gt ∧
    cmp (float (fin false two52 1)) (int 9007199254740992) = .eq ∧
    cmp (int 9007199254740993) (int 9007199254740992) = .gt := by
  simp only [cmp]
  decide

/-- On the domain `inD fl` — nested arrays and objects included — `cmp` is an oriented,
transitive comparison = a total preorder (`Std.TransCmp` on the subtype).  (`inD true` is every
value: this is `C09_cmp_total_preorder` restricted.) -/
theorem C09_cmp_total_preorder_partial (fl : Bool) :
    Std.TransCmp (fun (a b : {v : Value // inD fl v = true}) => cmp a.1 b.1) where
  eq_swap := by
    intro a b
    rw [← cmp_swap b.1 a.1]
  isLE_trans := by
    intro a b c
    exact cmp_isLE_trans a.2 b.2 c.2

/-- the same, spelled out: reflexive, total, transitive -/
theorem C09_cmp_laws (fl : Bool) {a b c : Value} (ha : inD fl a) (hb : inD fl b) (hc : inD fl c) :
    cmp a a = .eq ∧
    (cmp a b = .gt ↔ cmp b a = .lt) ∧
    (cmp a b = .lt ∨ cmp a b = .eq ∨ cmp b a = .lt) ∧
    ((cmp a b).isLE → (cmp b c).isLE → (cmp a c).isLE) ∧
    (cmp a b = .lt → cmp b c = .lt → cmp a c = .lt) ∧
    (cmp a b = .eq → cmp b c = .eq → cmp a c = .eq) := by
  have T := cmp_transOK fl a b c ha hb hc
  have hsw := cmp_swap a b
  refine ⟨cmp_self a, ?_, ?_, T.isLE, T.ll, T.ee⟩
  · rw [← hsw]; cases cmp a b <;> simp
  · rw [← hsw]; cases cmp a b <;> simp

/-- the same without a domain: ALL values -/
theorem C09_cmp_laws_all (a b c : Value) :
    cmp a a = .eq ∧
    (cmp a b = .gt ↔ cmp b a = .lt) ∧
    (cmp a b = .lt ∨ cmp a b = .eq ∨ cmp b a = .lt) ∧
    ((cmp a b).isLE → (cmp b c).isLE → (cmp a c).isLE) ∧
    (cmp a b = .lt → cmp b c = .lt → cmp a c = .lt) ∧
    (cmp a b = .eq → cmp b c = .eq → cmp a c = .eq) :=
  C09_cmp_laws true (inD_true a) (inD_true b) (inD_true c)

/-- non-vacuity: the domain contains every kind of scalar, mixed ints and floats (integers of any
size), nested arrays and objects -/
example : inD true .none ∧ inD true (.bool true) ∧ inD true (.int (-9223372036854775808)) ∧
    inD true (.float (fin false two52 (-53))) ∧ inD true (.float nan) ∧ inD true (.str "a") ∧
    inD true (.date 0) ∧ inD true (.dur 1) ∧ inD true (.arr [.int 1, .arr [.float nan]]) ∧
    inD true (.obj [("k", .arr [.int 2]), ("l", .obj [])]) ∧
    inD false (.int 9223372036854775807) := by
  simp [inD, inDL, inDKV]

/-- `rank` order: None < Bool < number < Str < DateTime < Duration < Array < Obj (all values) -/
theorem C09_cmp_rank (a b : Value) (h : a.rank < b.rank) : cmp a b = .lt ∧ cmp b a = .gt :=
  ⟨cmp_rank_lt a b h, cmp_rank_gt b a h⟩

example : (Value.none).rank < (Value.bool false).rank ∧ (Value.bool true).rank < (Value.int 0).rank ∧
    (Value.int 0).rank = (Value.float nan).rank ∧ (Value.float nan).rank < (Value.str "").rank ∧
    (Value.str "").rank < (Value.date 0).rank ∧ (Value.date 0).rank < (Value.dur 0).rank ∧
    (Value.dur 0).rank < (Value.arr []).rank ∧ (Value.arr []).rank < (Value.obj []).rank := by decide

/-- numbers are ordered by their exact numeric value (ints and finite doubles, mixed) -/
theorem C09_cmp_numbers_by_value {fl : Bool} {a b : Value} {x y : Dyadic}
    (ha : inD fl a) (hb : inD fl b) (hx : num a = some x) (hy : num b = some y) :
    cmp a b = dcmp x y := cmp_eq_dcmp ha hb hx hy

/-- … all of them: integers of any size against any finite double -/
theorem C09_cmp_numbers_by_value_all {a b : Value} {x y : Dyadic}
    (hx : num a = some x) (hy : num b = some y) : cmp a b = dcmp x y := cmp_eq_dcmp_all hx hy

/-- an `Int` against a `Float`, spelled out: NaN and +inf above, −inf below, a finite double by
exact value -/
theorem C09_cmp_int_float (i : Int) :
    cmp (int i) (float nan) = .lt ∧ cmp (int i) (float (inf false)) = .lt ∧
    cmp (int i) (float (inf true)) = .gt ∧
    (∀ f y, val? f = some y → cmp (int i) (float f) = dcmp (i : Dyadic) y) ∧
    (∀ f, cmp (float f) (int i) = (cmp (int i) (float f)).swap) := by
  refine ⟨by simp [cmp, cmpIntFloat], by simp [cmp, cmpIntFloat], by simp [cmp, cmpIntFloat],
    fun f y hf => ?_, fun f => by simp [cmp]⟩
  simp only [cmp]; exact cmpIntFloat_eq_dcmp i hf

/-- i64::MAX is below the double 2^63 (= `i64::MAX as f64`), 2^53+1 above the double 2^53 -/
example : cmp (int 9223372036854775807) (float (fin false two52 11)) = .lt ∧
    cmp (float (fin false two52 11)) (int 9223372036854775807) = .gt ∧
    cmp (int 9007199254740993) (float (fin false two52 1)) = .gt := by
  simp only [cmp]
  decide

example : cmp (int 1) (float (fin false two52 (-53))) = .gt := by
  rw [C09_cmp_numbers_by_value (fl := true) (x := 1) (y := Dyadic.ofIntWithPrec 1 1)
    (by decide) (by decide) (by decide) (by decide)]
  decide

/-- integers among themselves: the integer order, no range restriction -/
theorem C09_cmp_ints (a b : Int) : cmp (int a) (int b) = compare a b := cmp_int_int a b

/-- strings are ordered lexicographically (`compare` on `String`: by code point) -/
theorem C09_cmp_strings (a b : String) : cmp (str a) (str b) = compare a b := by simp [cmp]

theorem C09_cmp_bools (a b : Bool) :
    cmp (.bool a) (.bool b) = (if a = b then .eq else if a = false then .lt else .gt) := by
  cases a <;> cases b <;> simp [cmp, cmpBool]

theorem C09_cmp_dates (a b : Int) : cmp (date a) (date b) = compare a b ∧
    cmp (dur a) (dur b) = compare a b := by simp [cmp]

/-- `Value::None` is the smallest value and equal only to itself -/
theorem C09_none_smallest (b : Value) : cmp .none b ≠ .gt ∧ (cmp .none b = .eq ↔ b.rank = 0) := by
  cases b <;> simp [cmp, rank] <;> decide

/-- arrays are ordered by content: element by element, a proper prefix is smaller
(`Vec<Value>::cmp`) -/
theorem C09_arrays_by_content :
    (∀ a b : List Value, cmp (arr a) (arr b) = cmpL a b) ∧
    cmpL [] [] = .eq ∧ (∀ y ys, cmpL [] (y :: ys) = .lt) ∧ (∀ x xs, cmpL (x :: xs) [] = .gt) ∧
    (∀ x y xs ys, cmpL (x :: xs) (y :: ys) = (cmp x y).then (cmpL xs ys)) :=
  ⟨cmp_arr_arr, cmpL_nil_nil, cmpL_nil_cons, cmpL_cons_nil, cmpL_cons_cons⟩

/-- so two arrays are `Equal` only if they have the same length and `Equal` elements — the sort
tie-break can separate them -/
theorem C09_arrays_equal_iff (x y : Value) (xs ys : List Value) :
    (cmp (arr (x :: xs)) (arr (y :: ys)) = .eq ↔ cmp x y = .eq ∧ cmp (arr xs) (arr ys) = .eq) ∧
    cmp (arr []) (arr (y :: ys)) = .lt ∧ cmp (arr (x :: xs)) (arr []) = .gt := by
  simp [cmp_arr_arr, cmpL_cons_cons, cmpL_nil_cons, cmpL_cons_nil]

example : cmp (arr [int 1, int 2]) (arr [int 1, int 3]) = .lt ∧
    cmp (arr [int 1]) (arr [int 1, int 0]) = .lt ∧ cmp (arr [int 2]) (arr [int 1, int 9]) = .gt := by
  simp only [cmp_arr_arr, cmpL_cons_cons, cmpL_nil_cons, cmpL_nil_nil, cmp_int_int]
  decide

/-- objects are ordered by their key-sorted entries: lexicographically as (key, value) pairs, key
first by string order, then value by `cmp`; a proper prefix is smaller
(`l.iter().sorted().cmp(r.iter().sorted())`; the model's payload IS the key-sorted entry list) -/
theorem C09_objects_by_sorted_entries :
    (∀ a b : List (String × Value), cmp (obj a) (obj b) = cmpKV a b) ∧
    cmpKV [] [] = .eq ∧ (∀ y ys, cmpKV [] (y :: ys) = .lt) ∧ (∀ x xs, cmpKV (x :: xs) [] = .gt) ∧
    (∀ k l x y xs ys, cmpKV ((k, x) :: xs) ((l, y) :: ys) =
      (compare k l).then ((cmp x y).then (cmpKV xs ys))) :=
  ⟨cmp_obj_obj, cmpKV_nil_nil, cmpKV_nil_cons, cmpKV_cons_nil, cmpKV_cons_cons⟩

end Ag.C09
