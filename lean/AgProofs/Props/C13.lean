/-
C13  Output is deterministic.

Every place where the implementation iterates an unordered container is a place where the
model would have to take an arbitrary permutation as a parameter; the theorems below say that
the output does not depend on that permutation:

* `C13_emit_order_independent` — `MultiGrouper::emit`: whatever order the groups are stored in
  (HashMap iteration order), the emitted table is the same (groups are emitted in key order);
* `C13_new_columns_order_independent` — `PreAggAdapter`: the appended columns do not depend on
  the order in which the key set is enumerated (HashSet iteration order);
* `C13_sort_input_order_independent` — a sort (explicit or implicit) canonicalises any upstream
  row order (from C09);
* nested objects are key-sorted association lists in the model (`Fields`), and the serializer
  walks them in that order (`Codec.showJsonValue`), so there is no order to depend on.

Thread timing: the bytes written for a complete run are a function of the input alone — that is
`C15.final_output_schedule_independent` (AgProofs/Props/C15.lean).  Real hash seeds and real
thread timing are exercised only on the implementation (N fresh processes).
-/
import AgProofs.Props.C09
import AgProofs.Lemmas.Basic

namespace Ag.C13

/-- the row `MultiGrouper::emit` builds for one group -/
def emitRow (g : Grouper) (ka : List Value × List (String × Acc)) : Outcome Fields := do
  let base : Fields := (g.headers.zip ka.1).foldl (fun d hv => Fields.put hv.1 hv.2 d) []
  let cells ← (g.accNames.zip ka.2).mapM (fun da => do
    let v ← da.1.2.emit da.2.2
    pure (da.1.1, v))
  pure (cells.foldl (fun d kv => Fields.put kv.1 kv.2 d) base)

theorem mapM_ok_of_forall {α β} (f : α → Outcome β) (g : α → β) (l : List α)
    (h : ∀ a ∈ l, f a = .ok (g a)) : l.mapM f = .ok (l.map g) := by
  induction l with
  | nil => rfl
  | cons x xs ih =>
    have hx := h x (by simp)
    have hxs := ih (fun a ha => h a (by simp [ha]))
    simp [List.mapM_cons, hx, hxs]

theorem emit_eq (g : Grouper) (st : GroupState) (frow : List Value × List (String × Acc) → Fields)
    (h : ∀ e ∈ st, emitRow g e = .ok (frow e)) :
    g.emit st = .ok { columns := g.headers ++ g.fns.map Prod.fst,
                      rows := (st.map frow).mergeSort (fun l r => orderingRef g.headers l r != .gt) } := by
  have : st.mapM (emitRow g) = .ok (st.map frow) := mapM_ok_of_forall _ _ _ h
  unfold Grouper.emit
  unfold emitRow at this
  simp only [this]
  rfl

/-- what is needed from the key-column order on the emitted rows -/
structure RowOrderLaws (headers : List String) (rows : List Fields) : Prop where
  trans : ∀ a b c : Fields, (orderingRef headers a b != .gt) = true →
    (orderingRef headers b c != .gt) = true → (orderingRef headers a c != .gt) = true
  total : ∀ a b : Fields, ((orderingRef headers a b != .gt) || (orderingRef headers b a != .gt)) = true
  anti : ∀ a b, a ∈ rows → b ∈ rows → (orderingRef headers a b != .gt) = true →
    (orderingRef headers b a != .gt) = true → a = b

/-- **C13 (aggregation rows).** Two states holding the same groups in different (hash) orders
emit the same table. -/
theorem C13_emit_order_independent (g : Grouper) (st st' : GroupState)
    (frow : List Value × List (String × Acc) → Fields)
    (hp : st.Perm st') (h : ∀ e ∈ st, emitRow g e = .ok (frow e))
    (laws : RowOrderLaws g.headers (st.map frow)) :
    g.emit st = g.emit st' := by
  have h' : ∀ e ∈ st', emitRow g e = .ok (frow e) := fun e he => h e (hp.mem_iff.mpr he)
  rw [emit_eq g st frow h, emit_eq g st' frow h']
  congr 2
  have hperm : (st.map frow).Perm (st'.map frow) := hp.map frow
  apply List.Perm.eq_of_pairwise (le := fun a b => (orderingRef g.headers a b != .gt) = true)
  · intro a b ha hb hab hba
    have ha' : a ∈ st.map frow := (List.mergeSort_perm _ _).mem_iff.mp ha
    have hb' : b ∈ st.map frow := hperm.mem_iff.mpr ((List.mergeSort_perm _ _).mem_iff.mp hb)
    exact laws.anti a b ha' hb' hab hba
  · exact List.pairwise_mergeSort (le := fun l r => orderingRef g.headers l r != .gt) laws.trans laws.total _
  · exact List.pairwise_mergeSort (le := fun l r => orderingRef g.headers l r != .gt) laws.trans laws.total _
  · exact (List.mergeSort_perm _ _).trans (hperm.trans (List.mergeSort_perm _ _).symm)

/-- **C13 (columns added after an aggregation).** `sortStrings` of the new keys does not depend
on the order in which the key set is enumerated. -/
theorem C13_new_columns_order_independent (l l' : List String) (hp : l.Perm l') :
    sortStrings l = sortStrings l' := by
  unfold sortStrings
  have tr : ∀ a b c : String, decide (a ≤ b) = true → decide (b ≤ c) = true → decide (a ≤ c) = true := by
    intro a b c h1 h2
    simp only [decide_eq_true_eq] at *
    exact String.le_trans h1 h2
  have tot : ∀ a b : String, (decide (a ≤ b) || decide (b ≤ a)) = true := by
    intro a b
    rcases String.le_total a b with h | h <;> simp [h]
  apply List.Perm.eq_of_pairwise (le := fun a b : String => decide (a ≤ b) = true)
  · intro a b _ _ hab hba
    simp only [decide_eq_true_eq] at hab hba
    exact String.le_antisymm hab hba
  · exact List.pairwise_mergeSort tr tot _
  · exact List.pairwise_mergeSort tr tot _
  · exact (List.mergeSort_perm _ _).trans (hp.trans (List.mergeSort_perm _ _).symm)

/-- **C13 (a sort canonicalises upstream order).** Restatement of C09's uniqueness theorem: after
a sort whose comparator separates the rows, the table does not depend on the order in which the
rows arrived. -/
theorem C13_sort_input_order_independent (ext : Ext) (cols : List Expr) (dir : SortDir)
    (columns : List String) (laws : C09.CmpLaws ext cols dir columns) (rows rows' : List Fields)
    (hp : rows.Perm rows')
    (anti : ∀ a b, a ∈ rows → b ∈ rows → C09.le ext cols dir columns a b = true →
      C09.le ext cols dir columns b a = true → a = b) :
    sortRows ext cols dir columns rows = sortRows ext cols dir columns rows' :=
  C09.C09_tiebreak_deterministic ext cols dir columns laws rows rows' hp anti

/-- non-vacuity of `RowOrderLaws`: a table with a single row -/
example (r : Fields) : RowOrderLaws [] [r] where
  trans := by intro a b c _ _; simp [orderingRef]
  total := by intro a b; simp [orderingRef]
  anti := by intro a b ha hb _ _; simp at ha hb; rw [ha, hb]

end Ag.C13
