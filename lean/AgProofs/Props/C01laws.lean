/-
C01 / C14 with the key-equality hypothesis discharged: `Vec<Value>`'s derived `Eq` is an
equivalence relation because `OrderedFloat`'s equality is (AgProofs/Lemmas/FloatEqLaws.lean).
-/
import AgProofs.Props.C01
import AgProofs.Props.C14
import AgProofs.Lemmas.FloatEqLaws

namespace Ag.C01

theorem keyLaws : KeyLaws := keyLaws_of_float floatEqLaws

/-- **C01 (unconditional).** The accumulators of the group of `k` are the fold over exactly the
rows whose key equals `k`, in arrival order. -/
theorem C01_group_accs (ext : Ext) (g : Grouper) (rows : List Fields) (st' : GroupState)
    (k : List Value) (h : foldRows ext g [] rows = .ok st') :
    if groupRows ext g k rows = [] then lookup k st' = none
    else ∃ accs, foldAccs ext g.accNames (empties g) (groupRows ext g k rows) = .ok accs
          ∧ lookup k st' = some accs := by
  have := group_accs ext g keyLaws rows [] st' k h
  simpa [lookup] using this

/-- **C01 (unconditional).** Exactly one state entry (hence one output row) per distinct key. -/
theorem C01_one_row_per_key (ext : Ext) (g : Grouper) (rows : List Fields) (st' : GroupState)
    (h : foldRows ext g [] rows = .ok st') : KeysDistinct st' :=
  keys_distinct ext g keyLaws rows [] st' trivial h

theorem C01_group_exists_iff (ext : Ext) (g : Grouper) (rows : List Fields) (st' : GroupState)
    (k : List Value) (h : foldRows ext g [] rows = .ok st') :
    (lookup k st').isSome = !(groupRows ext g k rows).isEmpty :=
  group_exists_iff ext g keyLaws rows st' k h

end Ag.C01

namespace Ag.C14

/-- **C14 (unconditional).** Permuting the input does not change which groups exist. -/
theorem C14_groups_perm_all (ext : Ext) (g : Grouper) {rows rows' : List Fields}
    (hp : rows.Perm rows') (st st' : GroupState) (k : List Value)
    (h : C01.foldRows ext g [] rows = .ok st) (h' : C01.foldRows ext g [] rows' = .ok st') :
    (C01.lookup k st).isSome = (C01.lookup k st').isSome :=
  C14_groups_perm ext g C01.keyLaws hp st st' k h h'

end Ag.C14
