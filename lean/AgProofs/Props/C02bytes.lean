/-
C02 (the filter judges the whole line)  `from_utf8_lossy` is not compositional: decoding a line
piece by piece is not decoding the line.

`Pipeline::process` assembles a line from bytes (`read_until(b'\n')`) and decodes it ONCE
(`Utf8.lossy`).  Decoding the pieces delivered by the 8 KiB buffer separately would turn a
multi-byte character cut by a buffer boundary into several U+FFFD, and the filter would judge a
different line.

* `C02_lossy_piecewise_counterexample` — a 2-, 3- and 4-byte character cut anywhere inside;
* `C02_lossy_append` — the positive side: `lossy (a ++ b) = lossy a ++ lossy b` when `a` ends at a
  boundary (`Whole a`: a sequence of chunks each of which decodes as a unit whatever follows —
  every well-formed UTF-8 string is one: `whole_ascii`, `unit_two`, `unit_three`, `unit_four`);
* `C02_filter_sees_whole_line` — the lines the filter judges are `lossy` of the whole lines' bytes,
  so selection is a function of the byte stream, not of how it was delivered
  (`C15.C15_chunking_independent`, `C15.C15_lines_are_read_until`).
-/
import AgProofs.Props.C02
import AgProofs.Props.C15

namespace Ag.C02
open Utf8

/-! ### 1. piecewise decoding differs -/

/-- the decoded characters (`lossy` is `String.ofList` of these) -/
def chars (bs : List Nat) : List Char := decodeLossy (bs.length + 1) bs []

theorem lossy_eq (bs : List Nat) : lossy bs = String.ofList (chars bs) := rfl

/-- **a character cut by a piece boundary becomes replacement characters.**  `é` (C3 A9), `€`
(E2 82 AC, cut after one and after two bytes) and U+1F600 (F0 9F 98 80, cut after one, two and
three bytes): decoded whole, one character; decoded in two pieces, two or more U+FFFD. -/
theorem C02_lossy_piecewise_counterexample :
    chars [0xC3, 0xA9] = ['é'] ∧ chars [0xC3] ++ chars [0xA9] = [repl, repl] ∧
    chars [0xE2, 0x82, 0xAC] = ['€'] ∧ chars [0xE2] ++ chars [0x82, 0xAC] = [repl, repl, repl] ∧
    chars [0xE2, 0x82] ++ chars [0xAC] = [repl, repl] ∧
    chars [0xF0, 0x9F, 0x98, 0x80] = [Char.ofNat 0x1F600] ∧
    chars [0xF0] ++ chars [0x9F, 0x98, 0x80] = [repl, repl, repl, repl] ∧
    chars [0xF0, 0x9F] ++ chars [0x98, 0x80] = [repl, repl, repl] ∧
    chars [0xF0, 0x9F, 0x98] ++ chars [0x80] = [repl, repl] := by
  decide

/-- the same as strings -/
theorem C02_lossy_piecewise_strings :
    lossy [0xC3, 0xA9] = String.ofList ['é'] ∧
    lossy [0xC3] ++ lossy [0xA9] = String.ofList [repl, repl] ∧
    lossy [0xC3, 0xA9] ≠ lossy [0xC3] ++ lossy [0xA9] := by
  have h := C02_lossy_piecewise_counterexample
  refine ⟨by rw [lossy_eq, h.1], by rw [lossy_eq, lossy_eq, ← String.ofList_append, h.2.1], ?_⟩
  rw [lossy_eq, lossy_eq, lossy_eq, ← String.ofList_append, h.1, h.2.1]
  intro e
  have := congrArg String.toList e
  simp only [String.toList_ofList] at this
  exact absurd this (by decide)

/-! ### 2. cutting at a boundary is harmless -/

theorem decodeOne_shorter : ∀ (bs : List Nat) (c : Char) (rest : List Nat),
    decodeOne bs = some (c, rest) → rest.length < bs.length := by
  intro bs c rest h
  cases bs with
  | nil => simp [decodeOne] at h
  | cons b0 r =>
    simp only [decodeOne] at h
    repeat' split at h
    all_goals
      simp only [Option.some.injEq, Prod.mk.injEq] at h
      obtain ⟨-, rfl⟩ := h
      simp only [List.length_cons]
      omega

theorem decodeLossy_acc : ∀ (fuel : Nat) (bs : List Nat) (acc : List Char),
    decodeLossy fuel bs acc = acc.reverse ++ decodeLossy fuel bs [] := by
  intro fuel
  induction fuel with
  | zero => intro bs acc; simp [decodeLossy]
  | succ n ih =>
    intro bs acc
    simp only [decodeLossy]
    cases decodeOne bs with
    | none => simp
    | some p => obtain ⟨c, rest⟩ := p; simp only; rw [ih rest (c :: acc), ih rest [c]]; simp

/-- enough fuel: the result does not depend on it -/
theorem decodeLossy_fuel : ∀ (fuel fuel' : Nat) (bs : List Nat), bs.length < fuel →
    bs.length < fuel' → decodeLossy fuel bs [] = decodeLossy fuel' bs [] := by
  intro fuel
  induction fuel with
  | zero => intro fuel' bs h; omega
  | succ n ih =>
    intro fuel' bs h h'
    cases fuel' with
    | zero => omega
    | succ m =>
      simp only [decodeLossy]
      cases hd : decodeOne bs with
      | none => rfl
      | some p =>
        obtain ⟨c, rest⟩ := p
        have := decodeOne_shorter bs c rest hd
        simp only
        rw [decodeLossy_acc n, decodeLossy_acc m, ih m rest (by omega) (by omega)]

/-- a chunk that decodes as a unit whatever follows it: a complete well-formed character, or a byte
that is invalid on its own — NOT a truncated character -/
def Unit (ch : List Nat) (c : Char) : Prop :=
  ch ≠ [] ∧ ∀ tail, decodeOne (ch ++ tail) = some (c, tail)

/-- a byte string that ends at a boundary: a sequence of units -/
inductive Whole : List Nat → Prop
  | nil : Whole []
  | cons {ch rest : List Nat} {c : Char} : Unit ch c → Whole rest → Whole (ch ++ rest)

theorem chars_unit {ch : List Nat} {c : Char} (hu : Unit ch c) (tail : List Nat) :
    chars (ch ++ tail) = c :: chars tail := by
  have hl : 0 < ch.length := List.length_pos_iff.2 hu.1
  simp only [chars, decodeLossy, hu.2 tail]
  rw [decodeLossy_acc, decodeLossy_fuel _ (tail.length + 1) tail (by simp; omega) (by omega)]
  rfl

/-- **decoding commutes with a cut at a boundary** -/
theorem chars_append {a : List Nat} (ha : Whole a) (b : List Nat) :
    chars (a ++ b) = chars a ++ chars b := by
  induction ha with
  | nil => simp [chars, decodeLossy, decodeOne]
  | cons hu _ ih =>
    rw [List.append_assoc, chars_unit hu, chars_unit hu, ih, List.cons_append]

/-- **C02 (`from_utf8_lossy` of a line cut at a character boundary).** -/
theorem C02_lossy_append {a : List Nat} (ha : Whole a) (b : List Nat) :
    lossy (a ++ b) = lossy a ++ lossy b := by
  rw [lossy_eq, lossy_eq, lossy_eq, chars_append ha b, String.ofList_append]

/-! #### well-formed UTF-8 consists of units -/

theorem unit_ascii (b : Nat) (h : b < 0x80) : Unit [b] (Char.ofNat b) :=
  ⟨by simp, fun tail => by simp [decodeOne, h]⟩

theorem unit_two (b0 b1 : Nat) (h0 : 0xC2 ≤ b0 ∧ b0 ≤ 0xDF) (h1 : isCont b1 = true) :
    Unit [b0, b1] (Char.ofNat ((b0 - 0xC0) * 64 + (b1 - 0x80))) := by
  refine ⟨by simp, fun tail => ?_⟩
  have : ¬ b0 < 0x80 := by omega
  simp [decodeOne, this, h0.1, h0.2, h1]

theorem unit_three (b0 b1 b2 : Nat) (h0 : 0xE0 ≤ b0 ∧ b0 ≤ 0xEF)
    (h1 : ((b0 == 0xE0 && 0xA0 ≤ b1 && b1 ≤ 0xBF) || (0xE1 ≤ b0 && b0 ≤ 0xEC && isCont b1) ||
           (b0 == 0xED && 0x80 ≤ b1 && b1 ≤ 0x9F) || (0xEE ≤ b0 && b0 ≤ 0xEF && isCont b1)) = true)
    (h2 : isCont b2 = true) :
    Unit [b0, b1, b2] (Char.ofNat ((b0 - 0xE0) * 4096 + (b1 - 0x80) * 64 + (b2 - 0x80))) := by
  refine ⟨by simp, fun tail => ?_⟩
  have n1 : ¬ b0 < 0x80 := by omega
  have n2 : (decide (0xC2 ≤ b0) && decide (b0 ≤ 0xDF)) = false := by
    simp only [Bool.and_eq_false_iff, decide_eq_false_iff_not]; omega
  have n3 : (decide (0xE0 ≤ b0) && decide (b0 ≤ 0xEF)) = true := by
    simp only [Bool.and_eq_true, decide_eq_true_eq]; omega
  simp only [decodeOne, List.cons_append, List.nil_append, n1, n2, n3, h1, h2, if_true, if_false,
    Bool.not_true, Bool.false_eq_true]

theorem unit_four (b0 b1 b2 b3 : Nat) (h0 : 0xF0 ≤ b0 ∧ b0 ≤ 0xF4)
    (h1 : ((b0 == 0xF0 && 0x90 ≤ b1 && b1 ≤ 0xBF) || (0xF1 ≤ b0 && b0 ≤ 0xF3 && isCont b1) ||
           (b0 == 0xF4 && 0x80 ≤ b1 && b1 ≤ 0x8F)) = true)
    (h2 : isCont b2 = true) (h3 : isCont b3 = true) :
    Unit [b0, b1, b2, b3]
      (Char.ofNat ((b0 - 0xF0) * 262144 + (b1 - 0x80) * 4096 + (b2 - 0x80) * 64 + (b3 - 0x80))) := by
  refine ⟨by simp, fun tail => ?_⟩
  have n1 : ¬ b0 < 0x80 := by omega
  have n2 : (decide (0xC2 ≤ b0) && decide (b0 ≤ 0xDF)) = false := by
    simp only [Bool.and_eq_false_iff, decide_eq_false_iff_not]; omega
  have n3 : (decide (0xE0 ≤ b0) && decide (b0 ≤ 0xEF)) = false := by
    simp only [Bool.and_eq_false_iff, decide_eq_false_iff_not]; omega
  have n4 : (decide (0xF0 ≤ b0) && decide (b0 ≤ 0xF4)) = true := by
    simp only [Bool.and_eq_true, decide_eq_true_eq]; omega
  simp only [decodeOne, List.cons_append, List.nil_append, n1, n2, n3, n4, h1, h2, h3, if_true,
    if_false, Bool.not_true, Bool.false_eq_true]

/-- an ASCII prefix ends at a boundary -/
theorem whole_ascii : ∀ a : List Nat, (∀ x ∈ a, x < 0x80) → Whole a
  | [], _ => .nil
  | x :: xs, h => by
    have := Whole.cons (unit_ascii x (h x (by simp))) (whole_ascii xs (fun y hy => h y (by simp [hy])))
    simpa using this

/-- `abc€` followed by anything: the cut after the complete `€` is harmless -/
example (b : List Nat) :
    lossy ([0x61, 0x62, 0x63, 0xE2, 0x82, 0xAC] ++ b) = lossy [0x61, 0x62, 0x63, 0xE2, 0x82, 0xAC] ++ lossy b := by
  apply C02_lossy_append
  have h3 := Whole.cons (unit_three 0xE2 0x82 0xAC (by decide) (by decide) (by decide)) .nil
  have := Whole.cons (unit_ascii 0x61 (by decide)) (Whole.cons (unit_ascii 0x62 (by decide))
    (Whole.cons (unit_ascii 0x63 (by decide)) h3))
  simpa using this

/-! ### 3. the filter judges the whole line -/

/-- **C02 (what the filter sees).**  The text of each line is `from_utf8_lossy` of ALL the bytes of
that line (`read_until(b'\n')` first, decoding second).  Together with
`C15.C15_lines_are_read_until` (the reader's lines are the `\n`-split of the whole byte stream) and
`C15.C15_chunking_independent` (any two ways of cutting the byte stream into chunks write the same
output), the selection is a function of the byte stream alone. -/
theorem C02_filter_sees_whole_line (bs : List Nat) :
    Utf8.lines bs = (Utf8.splitLines bs).map Utf8.lossy := rfl

/-- the lines that pass a filter depend on the byte stream, not on how it was cut into pieces -/
theorem C02_selection_delivery_independent (f : Search) (chunks₁ chunks₂ : List (List Nat))
    (h : chunks₁.flatten = chunks₂.flatten) :
    (Utf8.lines chunks₁.flatten).filter (fun l => Search.sem f l.toList) =
      (Utf8.lines chunks₂.flatten).filter (fun l => Search.sem f l.toList) := by
  rw [h]

/-- the reader's line assembly is that split (`C15`) -/
theorem C02_reader_lines (bs : Sched.Bytes) : (Sched.lines bs).map Utf8.lossy = Utf8.lines bs := by
  rw [C15.C15_lines_are_read_until]; rfl

end Ag.C02

#print axioms Ag.C02.C02_lossy_piecewise_counterexample
#print axioms Ag.C02.C02_lossy_piecewise_strings
#print axioms Ag.C02.decodeLossy_fuel
#print axioms Ag.C02.chars_append
#print axioms Ag.C02.C02_lossy_append
#print axioms Ag.C02.whole_ascii
#print axioms Ag.C02.C02_filter_sees_whole_line
#print axioms Ag.C02.C02_selection_delivery_independent
#print axioms Ag.C02.C02_reader_lines
