/-
C01 (continued)  `count_distinct` and `count(cond)`: what the accumulators compute over the rows of
a group.

Model: `AggDef.step` / `AggDef.emit` (AgModel/Agg.lean) for src/operator/count_distinct.rs
(`HashSet<data::Value>::insert`, `len`) and src/operator/count.rs.

THE EQUALITY `count_distinct` USES is `Value`'s `==`, i.e. `Value.beq` — the derived `PartialEq`/`Eq`
of `data::Value`, floats through `OrderedFloat` (`NaN == NaN`, `-0.0 == +0.0`).  It is NOT
`Value.cmp … = .eq` (under `cmp`, `Int 1` and `Float 1.0` are `Equal`; under `==` they differ) and it
is NOT Lean's structural `=` on `Value` (`Float +0.0 ≠ Float -0.0` structurally, but they are `==`;
see `distinct_two_of_ne_counterexample`).  It never looks at the display text: values of different
variants are never `==`.
-/
import AgProofs.Props.C01
import AgProofs.Lemmas.FloatEqLaws
import AgProofs.Lemmas.ValueOrder
import AgProofs.Lemmas.DistinctCount

namespace Ag.C01
open Ag.Distinct

/-- `Value`'s `==` (`Value.beq`) is an equivalence relation -/
theorem valueLaws : Distinct.Laws Value where
  refl := fun a => Value.beq_refl floatEqLaws a
  symm := fun a b h => Value.beq_symm floatEqLaws a b h
  trans := fun a b c h1 h2 => Value.beq_trans floatEqLaws a b c h1 h2

/-! ### count_distinct -/

/-- the values of the argument over the rows on which it evaluates, in arrival order; rows on which
it fails (e.g. the field is missing) are skipped -/
def evaluated (ext : Ext) (e : Expr) (rows : List Fields) : List Value :=
  rows.filterMap (fun r => match evalValue ext r e with
    | .ok v => some v
    | _ => none)

/-- the accumulator after any row list, from any stored list: the stored list with every evaluated
value inserted unless a stored value is `==` to it (first closed form, like `sum_spec`) -/
theorem distinct_fold (ext : Ext) (e : Expr) (rows : List Fields) :
    ∀ (seen : List Value) (a : Acc),
      foldStep ext (.countDistinct e) (.distinct seen) rows = some a →
      a = .distinct (accF seen (evaluated ext e rows)) := by
  induction rows with
  | nil => intro seen a h; simp [foldStep] at h; simp [← h, evaluated, accF]
  | cons r rs ih =>
    intro seen a h
    simp only [foldStep, AggDef.step] at h
    cases hv : evalValue ext r e with
    | ok v =>
      simp only [hv] at h
      have hstep : (if (seen.any (· == v)) = true then Acc.distinct seen else .distinct (v :: seen)) =
          .distinct (insertB seen v) := by
        unfold insertB; split <;> rfl
      rw [hstep] at h
      rw [ih _ a h]
      simp [evaluated, hv, accF]
    | err k => simp only [hv] at h; rw [ih _ a h]; simp [evaluated, hv]
    | panic p => simp [hv] at h
    | unmodelled w => simp [hv] at h

/-- **C01 (count_distinct).**  After folding the model's `count_distinct` update over any row list,
the emitted value is `Int n` where `n` is the number of distinct values of the argument over the
rows on which it evaluates — distinct with respect to `Value`'s `==` (`Value.beq`, the derived `Eq`
through `OrderedFloat`).  `n = Distinct.count vals = (Distinct.dedup vals).length`; equivalently (second
conjunct, with `Distinct.count_unique`) the stored list has no two `==` elements and has exactly the
membership (up to `==`) of the evaluated values. -/
theorem distinct_spec (ext : Ext) (e : Expr) (rows : List Fields) (a : Acc)
    (h : foldStep ext (.countDistinct e) (.distinct []) rows = some a) :
    (AggDef.countDistinct e).emit a = .ok (.int (Distinct.count (evaluated ext e rows))) ∧
    ∃ seen, a = .distinct seen ∧ NoDupB seen ∧
      ∀ v, memB v seen = memB v (evaluated ext e rows) := by
  have ha := distinct_fold ext e rows [] a h
  subst ha
  refine ⟨?_, _, rfl, noDupB_accF valueLaws _ [] List.Pairwise.nil, ?_⟩
  · simp [AggDef.emit, accF_length valueLaws]
  · intro v; rw [memB_accF valueLaws, memB_nil, Bool.false_or]

/-- the cardinality in `distinct_spec` is the only one possible: ANY list without `==`-duplicates
that has the membership of the evaluated values has that many elements -/
theorem distinct_count_unique (ext : Ext) (e : Expr) (rows : List Fields) (l : List Value)
    (hnd : NoDupB l) (hm : ∀ v, memB v l = memB v (evaluated ext e rows)) :
    l.length = Distinct.count (evaluated ext e rows) :=
  count_unique valueLaws l _ hnd hm

/-- rows on which the argument does not evaluate are not counted (and never more values than rows) -/
theorem distinct_le_rows (ext : Ext) (e : Expr) (rows : List Fields) :
    Distinct.count (evaluated ext e rows) ≤ rows.length :=
  Nat.le_trans (count_le_length _) (by unfold evaluated; exact List.length_filterMap_le _ _)

/-! ### two rows -/

/-- **general form.**  Two rows whose values are not `==` have distinct count 2. -/
theorem distinct_two_of_beq_false (ext : Ext) (e : Expr) (r1 r2 : Fields) (a b : Value)
    (h1 : evalValue ext r1 e = .ok a) (h2 : evalValue ext r2 e = .ok b) (hne : (a == b) = false) :
    ∃ acc, foldStep ext (.countDistinct e) (.distinct []) [r1, r2] = some acc ∧
      (AggDef.countDistinct e).emit acc = .ok (.int 2) := by
  refine ⟨.distinct [b, a], ?_, by simp [AggDef.emit]⟩
  simp [foldStep, AggDef.step, h1, h2, hne]

/-- and two rows whose values are `==` have distinct count 1 -/
theorem distinct_one_of_beq (ext : Ext) (e : Expr) (r1 r2 : Fields) (a b : Value)
    (h1 : evalValue ext r1 e = .ok a) (h2 : evalValue ext r2 e = .ok b) (heq : (a == b) = true) :
    ∃ acc, foldStep ext (.countDistinct e) (.distinct []) [r1, r2] = some acc ∧
      (AggDef.countDistinct e).emit acc = .ok (.int 1) := by
  refine ⟨.distinct [a], ?_, by simp [AggDef.emit]⟩
  simp [foldStep, AggDef.step, h1, h2, heq]

/-- values of different variants are never `==` (whatever their display text) -/
theorem beq_false_of_rank_ne (a b : Value) (h : a.rank ≠ b.rank) : (a == b) = false := by
  show Value.beq a b = false
  cases a <;> cases b <;> simp_all [Value.beq, Value.rank]

open Value in
mutual
/-- on float-free values (`Value.inD false`) `==` is structural equality -/
theorem eq_of_beq : ∀ a b : Value, inD false a = true → beq a b = true → a = b
  | .none, b, _, h => by cases b <;> simp_all [beq]
  | .bool _, b, _, h => by cases b <;> simp_all [beq]
  | .int _, b, _, h => by cases b <;> simp_all [beq]
  | .float _, _, ha, _ => by simp [inD] at ha
  | .str _, b, _, h => by cases b <;> simp_all [beq]
  | .date _, b, _, h => by cases b <;> simp_all [beq]
  | .dur _, b, _, h => by cases b <;> simp_all [beq]
  | .arr xs, b, ha, h => by
    cases b <;> simp [beq] at h
    simp only [inD] at ha
    rw [eqL_of_beqL xs _ ha h]
  | .obj xs, b, ha, h => by
    cases b <;> simp [beq] at h
    simp only [inD] at ha
    rw [eqKV_of_beqKV xs _ ha h]
theorem eqL_of_beqL : ∀ a b : List Value, inDL false a = true → beqL a b = true → a = b
  | [], b, _, h => by cases b <;> simp_all [beqL]
  | x :: xs, b, ha, h => by
    cases b with
    | nil => simp [beqL] at h
    | cons y ys =>
      simp only [inDL, Bool.and_eq_true] at ha
      simp only [beqL, Bool.and_eq_true] at h
      rw [eq_of_beq x y ha.1 h.1, eqL_of_beqL xs ys ha.2 h.2]
theorem eqKV_of_beqKV : ∀ a b : List (String × Value), inDKV false a = true →
    beqKV a b = true → a = b
  | [], b, _, h => by cases b <;> simp_all [beqKV]
  | (k, x) :: xs, b, ha, h => by
    cases b with
    | nil => simp [beqKV] at h
    | cons y ys =>
      obtain ⟨l, y⟩ := y
      simp only [inDKV, Bool.and_eq_true] at ha
      simp only [beqKV, Bool.and_eq_true, beq_iff_eq] at h
      rw [h.1.1, eq_of_beq x y ha.1 h.1.2, eqKV_of_beqKV xs ys ha.2 h.2]
end

/-- **general form with `≠` (partial: float-free).**  If `a ≠ b` as `Value`s and `a` holds no float
(at any depth), a column holding `a` and `b` has distinct count 2.  The restriction is needed:
`distinct_two_of_ne_counterexample`. -/
theorem distinct_two_of_ne_partial (ext : Ext) (e : Expr) (r1 r2 : Fields) (a b : Value)
    (h1 : evalValue ext r1 e = .ok a) (h2 : evalValue ext r2 e = .ok b)
    (hf : Value.inD false a = true) (hne : a ≠ b) :
    ∃ acc, foldStep ext (.countDistinct e) (.distinct []) [r1, r2] = some acc ∧
      (AggDef.countDistinct e).emit acc = .ok (.int 2) := by
  apply distinct_two_of_beq_false ext e r1 r2 a b h1 h2
  cases hb : (a == b) with
  | false => rfl
  | true => exact absurd (eq_of_beq a b hf hb) hne

/-- the unrestricted `≠` form, as a proposition -/
def distinct_two_of_ne_full : Prop :=
  ∀ (ext : Ext) (e : Expr) (r1 r2 : Fields) (a b : Value),
    evalValue ext r1 e = .ok a → evalValue ext r2 e = .ok b → a ≠ b →
    ∃ acc, foldStep ext (.countDistinct e) (.distinct []) [r1, r2] = some acc ∧
      (AggDef.countDistinct e).emit acc = .ok (.int 2)

/-- it is false of the model (and of the tool): `Float +0.0` and `Float -0.0` are different values
but `OrderedFloat` makes them `==`, so they count once -/
theorem distinct_two_of_ne_counterexample : ¬ distinct_two_of_ne_full := by
  intro h
  obtain ⟨acc, hf, he⟩ := h ⟨fun _ x => x, fun _ x _ => x, fun _ => none, fun _ => none, fun _ => none⟩
    (.col "x" []) [("x", .float F64.zero)] [("x", .float F64.negZero)]
    (.float F64.zero) (.float F64.negZero)
    (by simp [evalValue, Fields.get, access]) (by simp [evalValue, Fields.get, access])
    (by simp [F64.zero, F64.negZero])
  have hz : (Value.float F64.zero == Value.float F64.negZero) = true := by
    show Value.beq _ _ = true
    simp [Value.beq, F64.oeq, F64.ocmp, F64.pcmp, F64.cmpFin, F64.zero, F64.negZero, F64.smant]
  obtain ⟨acc', hf', he'⟩ := distinct_one_of_beq ⟨fun _ x => x, fun _ x _ => x, fun _ => none,
    fun _ => none, fun _ => none⟩ (.col "x" []) [("x", .float F64.zero)] [("x", .float F64.negZero)]
    (.float F64.zero) (.float F64.negZero)
    (by simp [evalValue, Fields.get, access]) (by simp [evalValue, Fields.get, access]) hz
  rw [hf] at hf'
  cases hf'
  rw [he] at he'
  simp at he'

/-! ### same display text, different type: counted as two -/

/-- the one-column rows used below -/
def rowX (v : Value) : Fields := [("x", v)]

theorem evalValue_rowX (ext : Ext) (v : Value) : evalValue ext (rowX v) (.col "x" []) = .ok v := by
  simp [rowX, evalValue, Fields.get, access]

/-- a row without the column: the argument fails to evaluate -/
theorem evalValue_noX (ext : Ext) : evalValue ext [] (.col "x" []) = .err "NoValueForKey" := by
  simp [evalValue, Fields.get]

/-- `200` (integer) and `"200"` (text) are two distinct values -/
theorem distinct_int_vs_str (ext : Ext) :
    ∃ acc, foldStep ext (.countDistinct (.col "x" [])) (.distinct [])
        [rowX (.int 200), rowX (.str "200")] = some acc ∧
      (AggDef.countDistinct (.col "x" [])).emit acc = .ok (.int 2) :=
  distinct_two_of_beq_false ext _ _ _ _ _ (evalValue_rowX ext _) (evalValue_rowX ext _)
    (beq_false_of_rank_ne _ _ (by simp [Value.rank]))

/-- `true` (boolean) and `"true"` (text) are two distinct values -/
theorem distinct_bool_vs_str (ext : Ext) :
    ∃ acc, foldStep ext (.countDistinct (.col "x" [])) (.distinct [])
        [rowX (.bool true), rowX (.str "true")] = some acc ∧
      (AggDef.countDistinct (.col "x" [])).emit acc = .ok (.int 2) :=
  distinct_two_of_beq_false ext _ _ _ _ _ (evalValue_rowX ext _) (evalValue_rowX ext _)
    (beq_false_of_rank_ne _ _ (by simp [Value.rank]))

/-- `None` and `"None"` (text) are two distinct values -/
theorem distinct_none_vs_str (ext : Ext) :
    ∃ acc, foldStep ext (.countDistinct (.col "x" [])) (.distinct [])
        [rowX .none, rowX (.str "None")] = some acc ∧
      (AggDef.countDistinct (.col "x" [])).emit acc = .ok (.int 2) :=
  distinct_two_of_beq_false ext _ _ _ _ _ (evalValue_rowX ext _) (evalValue_rowX ext _)
    (beq_false_of_rank_ne _ _ (by simp [Value.rank]))

/-- an integer and a float are always two distinct values for `count_distinct` — even `Int 1` and
`Float 1.0`, which are `Equal` under `Value.cmp` (`from_float` never leaves an integral float in
the i64 range, so the tool does not produce that pair from one column) -/
theorem distinct_int_vs_float (ext : Ext) (i : Int) (f : F64) :
    ∃ acc, foldStep ext (.countDistinct (.col "x" [])) (.distinct [])
        [rowX (.int i), rowX (.float f)] = some acc ∧
      (AggDef.countDistinct (.col "x" [])).emit acc = .ok (.int 2) :=
  distinct_two_of_beq_false ext _ _ _ _ _ (evalValue_rowX ext _) (evalValue_rowX ext _)
    (by show Value.beq _ _ = false; simp [Value.beq])

/-- the same through `distinct_spec`: over the rows `200, "200", 200, "200", <no x>` the count is 2 -/
example (ext : Ext) (a : Acc)
    (h : foldStep ext (.countDistinct (.col "x" [])) (.distinct [])
      [rowX (.int 200), rowX (.str "200"), rowX (.int 200), rowX (.str "200"), []] = some a) :
    (AggDef.countDistinct (.col "x" [])).emit a = .ok (.int 2) := by
  have := (distinct_spec ext _ _ a h).1
  rw [this]
  have hs : (Value.str "200" == Value.int 200) = false := beq_false_of_rank_ne _ _ (by simp [Value.rank])
  have hi : (Value.int 200 == Value.int 200) = true := valueLaws.refl _
  have hss : (Value.str "200" == Value.str "200") = true := valueLaws.refl _
  have hev : evaluated ext (.col "x" []) [rowX (.int 200), rowX (.str "200"), rowX (.int 200),
      rowX (.str "200"), []] = [.int 200, .str "200", .int 200, .str "200"] := by
    simp [evaluated, evalValue_rowX, evalValue_noX]
  rw [hev]
  simp [Distinct.count, Distinct.dedup, hs, hi, hss, valueLaws.symm_false hs]

/-! ### count(cond) -/

/-- `count(cond)` (the `some c` instance of `count_spec`, spelled out): the accumulator is the
number of rows on which the condition evaluates to `true`; rows on which it is `false`, is not a
boolean, or fails to evaluate are not counted -/
theorem count_cond_spec (ext : Ext) (c : Expr) (rows : List Fields) (n : Int) (a : Acc)
    (h : foldStep ext (.count (some c)) (.count n) rows = some a) :
    a = .count (n + (rows.filter (fun r => match evalBool ext r c with
      | .ok true => true
      | _ => false)).length) :=
  count_spec ext (some c) rows n a h

theorem count_cond_true (ext : Ext) (c : Expr) (n : Int) (r : Fields)
    (h : evalBool ext r c = .ok true) :
    foldStep ext (.count (some c)) (.count n) [r] = some (.count (n + 1)) := by
  simp [foldStep, AggDef.step, h]

theorem count_cond_false (ext : Ext) (c : Expr) (n : Int) (r : Fields)
    (h : evalBool ext r c = .ok false) :
    foldStep ext (.count (some c)) (.count n) [r] = some (.count n) := by
  simp [foldStep, AggDef.step, h]

theorem count_cond_fails (ext : Ext) (c : Expr) (n : Int) (r : Fields) (k : String)
    (h : evalBool ext r c = .err k) :
    foldStep ext (.count (some c)) (.count n) [r] = some (.count n) := by
  simp [foldStep, AggDef.step, h]

/-- a condition that evaluates to a non-boolean fails (`ExpectedBoolean`), so the row is not counted -/
theorem count_cond_non_bool (ext : Ext) (c : Expr) (n : Int) (r : Fields) (v : Value)
    (hv : evalValue ext r c = .ok v) (hb : ∀ b, v ≠ .bool b) :
    foldStep ext (.count (some c)) (.count n) [r] = some (.count n) := by
  have : evalBool ext r c = .err "ExpectedBoolean" := by
    simp only [evalBool, hv]
    cases v <;> simp_all [asBool]
  exact count_cond_fails ext c n r _ this

/-- non-vacuity of the hypotheses of `count_cond_*` / `distinct_*`: concrete rows -/
example (ext : Ext) : evalBool ext (rowX (.bool true)) (.col "x" []) = .ok true := by
  simp [evalBool, evalValue_rowX, asBool]
example (ext : Ext) : evalBool ext (rowX (.bool false)) (.col "x" []) = .ok false := by
  simp [evalBool, evalValue_rowX, asBool]
example (ext : Ext) : evalBool ext [] (.col "x" []) = .err "NoValueForKey" := by
  simp [evalBool, evalValue_noX]
example (ext : Ext) : ∃ a, foldStep ext (.countDistinct (.col "x" [])) (.distinct [])
    [rowX (.int 1), [], rowX (.int 1)] = some a := by
  refine ⟨.distinct [.int 1], ?_⟩
  have hi : (Value.int 1 == Value.int 1) = true := valueLaws.refl _
  simp [foldStep, AggDef.step, evalValue_rowX, evalValue_noX, hi]

end Ag.C01
