/-
Counting the distinct elements of a list with respect to a boolean relation `==` that is an
equivalence but NOT assumed to be structural equality (for `Ag.Value`: the derived `Eq`, floats
through `OrderedFloat`, so `-0.0 == +0.0` and `NaN == NaN`).

`accF` is the shape of the `count_distinct` accumulator of the model (insert unless an equal
element is already stored, newest first); `count` is the reference cardinality
(`(dedup vals).length`), characterised by `count_unique`: every duplicate-free list with the same
membership (up to `==`) has that length.
-/
namespace Ag.Distinct

variable {α : Type} [BEq α]

/-- `==` is an equivalence relation -/
structure Laws (α : Type) [BEq α] : Prop where
  refl : ∀ a : α, (a == a) = true
  symm : ∀ a b : α, (a == b) = true → (b == a) = true
  trans : ∀ a b c : α, (a == b) = true → (b == c) = true → (a == c) = true

theorem Laws.symm_false (L : Laws α) {a b : α} (h : (a == b) = false) : (b == a) = false := by
  cases hb : (b == a) with
  | false => rfl
  | true => rw [L.symm b a hb] at h; cases h

/-- `v` occurs in `l` up to `==` (orientation of the accumulator: stored element on the left) -/
def memB (v : α) (l : List α) : Bool := l.any (· == v)

/-- no two elements are `==` -/
def NoDupB (l : List α) : Prop := l.Pairwise (fun x y => (x == y) = false)

/-- one accumulator step on the stored list -/
def insertB (s : List α) (v : α) : List α := if s.any (· == v) then s else v :: s

/-- the accumulator folded over the values in arrival order -/
def accF (s : List α) (vals : List α) : List α := vals.foldl insertB s

/-- reference de-duplication (keeps the last occurrence of every class) -/
def dedup : List α → List α
  | [] => []
  | v :: vs => if vs.any (· == v) then dedup vs else v :: dedup vs

/-- the number of distinct values (up to `==`) -/
def count (vals : List α) : Nat := (dedup vals).length

theorem memB_iff {v : α} {l : List α} : memB v l = true ↔ ∃ x ∈ l, (x == v) = true := by
  simp [memB]

theorem memB_false_iff {v : α} {l : List α} : memB v l = false ↔ ∀ x ∈ l, (x == v) = false := by
  simp [memB]

theorem memB_nil (v : α) : memB v ([] : List α) = false := rfl

theorem memB_cons (v x : α) (l : List α) : memB v (x :: l) = ((x == v) || memB v l) := by
  simp [memB]

theorem memB_append (v : α) (l1 l2 : List α) : memB v (l1 ++ l2) = (memB v l1 || memB v l2) := by
  simp [memB]

theorem memB_of_mem (L : Laws α) {x : α} {l : List α} (h : x ∈ l) : memB x l = true :=
  memB_iff.mpr ⟨x, h, L.refl x⟩

theorem memB_perm {l l' : List α} (h : l.Perm l') (v : α) : memB v l = memB v l' := by
  rw [Bool.eq_iff_iff, memB_iff, memB_iff]
  constructor
  · rintro ⟨x, hx, hv⟩; exact ⟨x, h.mem_iff.mp hx, hv⟩
  · rintro ⟨x, hx, hv⟩; exact ⟨x, h.mem_iff.mpr hx, hv⟩

/-- membership up to `==` respects `==` -/
theorem memB_congr (L : Laws α) {v w : α} (h : (v == w) = true) (l : List α) :
    memB v l = memB w l := by
  rw [Bool.eq_iff_iff, memB_iff, memB_iff]
  constructor
  · rintro ⟨x, hx, hv⟩; exact ⟨x, hx, L.trans x v w hv h⟩
  · rintro ⟨x, hx, hv⟩; exact ⟨x, hx, L.trans x w v hv (L.symm v w h)⟩

/-! ### pigeonhole -/

/-- a duplicate-free list whose elements all occur (up to `==`) in `l2` is no longer than `l2` -/
theorem length_le_of_subset (L : Laws α) : ∀ (l1 l2 : List α), NoDupB l1 →
    (∀ x ∈ l1, memB x l2 = true) → l1.length ≤ l2.length
  | [], _, _, _ => Nat.zero_le _
  | x :: xs, l2, hnd, hsub => by
    obtain ⟨y, hy, hyx⟩ := memB_iff.mp (hsub x (by simp))
    obtain ⟨p, q, rfl⟩ := List.append_of_mem hy
    have hnd' := List.pairwise_cons.mp hnd
    have hrec : xs.length ≤ (p ++ q).length := by
      apply length_le_of_subset L xs (p ++ q) hnd'.2
      intro w hw
      obtain ⟨z, hz, hzw⟩ := memB_iff.mp (hsub w (by simp [hw]))
      have hz' : z ∈ p ++ q := by
        simp only [List.mem_append, List.mem_cons] at hz ⊢
        rcases hz with hz | hz | hz
        · exact Or.inl hz
        · subst hz
          have hxw : (x == w) = true := L.trans x z w (L.symm z x hyx) hzw
          rw [hnd'.1 w hw] at hxw; cases hxw
        · exact Or.inr hz
      exact memB_iff.mpr ⟨z, hz', hzw⟩
    simp only [List.length_append, List.length_cons] at hrec ⊢
    omega

/-- two duplicate-free lists with the same membership have the same length -/
theorem length_eq_of_same (L : Laws α) (l1 l2 : List α) (h1 : NoDupB l1) (h2 : NoDupB l2)
    (h : ∀ v, memB v l1 = memB v l2) : l1.length = l2.length := by
  apply Nat.le_antisymm
  · exact length_le_of_subset L l1 l2 h1 (fun x hx => by rw [← h]; exact memB_of_mem L hx)
  · exact length_le_of_subset L l2 l1 h2 (fun x hx => by rw [h]; exact memB_of_mem L hx)

/-! ### the accumulator -/

theorem noDupB_insertB (L : Laws α) {s : List α} (v : α) (h : NoDupB s) : NoDupB (insertB s v) := by
  unfold insertB
  by_cases hm : s.any (· == v) = true
  · simp only [hm, if_true]; exact h
  · simp only [hm, Bool.false_eq_true, if_false]
    refine List.pairwise_cons.mpr ⟨?_, h⟩
    intro y hy
    have hf : memB v s = false := by simpa [memB] using hm
    exact L.symm_false (memB_false_iff.mp hf y hy)

theorem memB_insertB (L : Laws α) (s : List α) (v w : α) :
    memB w (insertB s v) = (memB w s || (v == w)) := by
  unfold insertB
  by_cases hm : s.any (· == v) = true
  · simp only [hm, if_true]
    cases hvw : (v == w) with
    | false => simp
    | true =>
      obtain ⟨x, hx, hxv⟩ := memB_iff.mp (show memB v s = true from hm)
      have : memB w s = true := memB_iff.mpr ⟨x, hx, L.trans x v w hxv hvw⟩
      simp [this]
  · simp only [hm, Bool.false_eq_true, if_false]
    rw [memB_cons, Bool.or_comm]

theorem noDupB_accF (L : Laws α) (vals : List α) : ∀ (s : List α), NoDupB s → NoDupB (accF s vals) := by
  induction vals with
  | nil => intro s h; exact h
  | cons v vs ih => intro s h; exact ih (insertB s v) (noDupB_insertB L v h)

theorem memB_accF (L : Laws α) (vals : List α) : ∀ (s : List α) (w : α),
    memB w (accF s vals) = (memB w s || memB w vals) := by
  induction vals with
  | nil => intro s w; simp [accF, memB_nil]
  | cons v vs ih =>
    intro s w
    show memB w (accF (insertB s v) vs) = _
    rw [ih, memB_insertB L, memB_cons, Bool.or_assoc]

theorem accF_append (s A B : List α) : accF s (A ++ B) = accF (accF s A) B := by
  simp [accF, List.foldl_append]

/-! ### the reference de-duplication -/

theorem mem_of_mem_dedup : ∀ {l : List α} {x : α}, x ∈ dedup l → x ∈ l
  | [], _, h => by simp [dedup] at h
  | v :: vs, x, h => by
    simp only [dedup] at h
    by_cases hm : vs.any (· == v) = true
    · simp only [hm, if_true] at h
      exact List.mem_cons_of_mem _ (mem_of_mem_dedup h)
    · simp only [hm, Bool.false_eq_true, if_false] at h
      rcases List.mem_cons.mp h with rfl | h
      · simp
      · exact List.mem_cons_of_mem _ (mem_of_mem_dedup h)

theorem noDupB_dedup (L : Laws α) : ∀ l : List α, NoDupB (dedup l)
  | [] => List.Pairwise.nil
  | v :: vs => by
    simp only [dedup]
    by_cases hm : vs.any (· == v) = true
    · simp only [hm, if_true]; exact noDupB_dedup L vs
    · simp only [hm, Bool.false_eq_true, if_false]
      refine List.pairwise_cons.mpr ⟨?_, noDupB_dedup L vs⟩
      intro y hy
      have hf : memB v vs = false := by simpa [memB] using hm
      exact L.symm_false (memB_false_iff.mp hf y (mem_of_mem_dedup hy))

theorem memB_dedup (L : Laws α) : ∀ (l : List α) (w : α), memB w (dedup l) = memB w l
  | [], _ => rfl
  | v :: vs, w => by
    simp only [dedup]
    by_cases hm : vs.any (· == v) = true
    · simp only [hm, if_true]
      rw [memB_dedup L vs w, memB_cons]
      cases hvw : (v == w) with
      | false => simp
      | true =>
        obtain ⟨x, hx, hxv⟩ := memB_iff.mp (show memB v vs = true from hm)
        have : memB w vs = true := memB_iff.mpr ⟨x, hx, L.trans x v w hxv hvw⟩
        simp [this]
    · simp only [hm, Bool.false_eq_true, if_false]
      rw [memB_cons, memB_cons, memB_dedup L vs w]

/-! ### the cardinality -/

/-- the count is well defined: every duplicate-free list with the membership of `vals` has
`count vals` elements -/
theorem count_unique (L : Laws α) (l vals : List α) (hnd : NoDupB l)
    (hm : ∀ v, memB v l = memB v vals) : l.length = count vals :=
  length_eq_of_same L l (dedup vals) hnd (noDupB_dedup L vals)
    (fun v => by rw [hm, memB_dedup L])

/-- the accumulator started empty stores exactly `count vals` elements -/
theorem accF_length (L : Laws α) (vals : List α) : (accF [] vals).length = count vals :=
  count_unique L _ vals (noDupB_accF L vals [] List.Pairwise.nil)
    (fun v => by rw [memB_accF L, memB_nil, Bool.false_or])

theorem count_perm (L : Laws α) {vals vals' : List α} (h : vals.Perm vals') :
    count vals = count vals' :=
  count_unique L (dedup vals) vals' (noDupB_dedup L vals)
    (fun v => by rw [memB_dedup L, memB_perm h])

theorem count_append_le (L : Laws α) (A B : List α) : count (A ++ B) ≤ count A + count B := by
  have := length_le_of_subset L (dedup (A ++ B)) (dedup A ++ dedup B) (noDupB_dedup L _)
    (fun x hx => by
      have h1 : memB x (dedup (A ++ B)) = true := memB_of_mem L hx
      rw [memB_dedup L, memB_append] at h1
      rw [memB_append, memB_dedup L, memB_dedup L]; exact h1)
  simpa [count] using this

theorem count_append_disjoint (L : Laws α) (A B : List α) (hd : ∀ x ∈ A, memB x B = false) :
    count (A ++ B) = count A + count B := by
  apply Nat.le_antisymm (count_append_le L A B)
  have hnd : NoDupB (dedup A ++ dedup B) := by
    refine List.pairwise_append.mpr ⟨noDupB_dedup L A, noDupB_dedup L B, ?_⟩
    intro x hx y hy
    exact L.symm_false (memB_false_iff.mp (hd x (mem_of_mem_dedup hx)) y (mem_of_mem_dedup hy))
  have := length_le_of_subset L (dedup A ++ dedup B) (dedup (A ++ B)) hnd
    (fun x hx => by
      have h1 : memB x (dedup A ++ dedup B) = true := memB_of_mem L hx
      rw [memB_append, memB_dedup L, memB_dedup L] at h1
      rw [memB_dedup L, memB_append]; exact h1)
  simpa [count] using this

/-- never more distinct values than values -/
theorem count_le_length (vals : List α) : count vals ≤ vals.length := by
  unfold count
  induction vals with
  | nil => simp [dedup]
  | cons v vs ih =>
    simp only [dedup]
    split <;> simp only [List.length_cons] <;> omega

end Ag.Distinct
