/-
Keyword matching (`Keyword::to_regex` + the regex crate on the emitted fragment), C02 / C07.

PART A is SPECIFICATION: definitions the statements of C02/C07 are phrased with.  None of them
mentions the matcher (`Kw.matchHere`, `Kw.wildK`, `Kw.find`); they say "there is a decomposition
of the line", with no priority between alternatives.
PART B are the lemmas tying the model's leftmost-first / lazy matcher to PART A.
-/
import AgModel.Kw

namespace Ag.Kw

/-! ## PART A — specification vocabulary -/

/-- some suffix of the line satisfies `p` ("occurs somewhere") -/
def anyTail (p : List Char → Bool) : List Char → Bool
  | [] => p []
  | c :: s => p (c :: s) || anyTail p s

/-- after skipping a gap that contains no newline (regex `.` excludes `\n`), `p` holds -/
def anyGap (p : List Char → Bool) : List Char → Bool
  | [] => p []
  | c :: s => p (c :: s) || (c != '\n' && anyGap p s)

/-- one pattern character against one line character: a blank stands for any Unicode whitespace,
every other character for itself up to ASCII case -/
def charMatches (p d : Char) : Bool := if p == ' ' then Text.isWhite d else foldEq p d

/-- the literal segment `seg` sits at the head of `s`; the remainder -/
def stripSeg : List Char → List Char → Option (List Char)
  | [], s => some s
  | _ :: _, [] => none
  | p :: ps, d :: s => if charMatches p d then stripSeg ps s else none

/-- `m` is an occurrence of the literal segment `seg` (same length, characterwise `charMatches`) -/
def SegMatch : List Char → List Char → Prop
  | [], [] => True
  | p :: ps, d :: m => charMatches p d = true ∧ SegMatch ps m
  | [], _ :: _ => False
  | _ :: _, [] => False

/-- the `*`-separated segments of a pattern (`n` stars give `n + 1` segments, possibly empty) -/
def splitStar : List Char → List (List Char)
  | [] => [[]]
  | c :: cs =>
    if c == '*' then [] :: splitStar cs
    else
      match splitStar cs with
      | seg :: rest => (c :: seg) :: rest
      | [] => [[c]]

/-- the segments occur from the head of `s` on, in order, non-overlapping, the gaps between them
free of newlines; with `anch` nothing may follow the last one -/
def segsHere (anch : Bool) : List (List Char) → List Char → Bool
  | [], _ => true
  | [seg], s =>
    match stripSeg seg s with
    | some t => !anch || t.isEmpty
    | none => false
  | seg :: r :: rest, s =>
    match stripSeg seg s with
    | some t => anyGap (segsHere anch (r :: rest)) t
    | none => false

/-- the pattern text after `s.replace("\\\"", "\"")` -/
def patText (k : Keyword) : List Char := unescapeQuotes k.text.toList

/-- `self.0.ends_with('*')` of a wildcard keyword: the regex gets a final `$` -/
def anchored (k : Keyword) : Bool := k.ty == .wildcard && k.text.toList.getLast? == some '*'

/-- wildcard keyword: the `*`-separated segments; otherwise the whole text is one segment -/
def segmentsOf (k : Keyword) : List (List Char) :=
  if k.ty == .wildcard then splitStar (patText k) else [patText k]

/-- **the keyword specification**: somewhere in the line the segments occur in order,
non-overlapping, characters compared by `charMatches`, no newline inside a wildcard gap, and
(pattern ending in `*`) the last gap runs to the end of the line -/
def kwSpec (k : Keyword) (line : List Char) : Bool :=
  anyTail (segsHere (anchored k) (segmentsOf k)) line

/-- the same as a proposition about decompositions of the text -/
def SegsOccur (anch : Bool) : List (List Char) → List Char → Prop
  | [], _ => True
  | [seg], s => ∃ m t, s = m ++ t ∧ SegMatch seg m ∧ (anch = true → t = [])
  | seg :: r :: rest, s =>
    ∃ m g t, s = m ++ (g ++ t) ∧ SegMatch seg m ∧ '\n' ∉ g ∧ SegsOccur anch (r :: rest) t

/-! ### characterisations of the vocabulary -/

theorem anyTail_iff (p : List Char → Bool) (l : List Char) :
    anyTail p l = true ↔ ∃ pre t, l = pre ++ t ∧ p t = true := by
  induction l with
  | nil =>
    simp only [anyTail]
    constructor
    · intro h; exact ⟨[], [], rfl, h⟩
    · rintro ⟨pre, t, h, hp⟩
      have : pre = [] ∧ t = [] := by simpa using h.symm
      rw [this.2] at hp; exact hp
  | cons c s ih =>
    simp only [anyTail, Bool.or_eq_true]
    constructor
    · rintro (h | h)
      · exact ⟨[], c :: s, rfl, h⟩
      · obtain ⟨pre, t, e, hp⟩ := ih.mp h
        exact ⟨c :: pre, t, by simp [e], hp⟩
    · rintro ⟨pre, t, e, hp⟩
      cases pre with
      | nil => left; simp at e; rw [e]; exact hp
      | cons a pre =>
        right
        simp at e
        exact ih.mpr ⟨pre, t, e.2, hp⟩

theorem anyGap_iff (p : List Char → Bool) (s : List Char) :
    anyGap p s = true ↔ ∃ g t, s = g ++ t ∧ '\n' ∉ g ∧ p t = true := by
  induction s with
  | nil =>
    simp only [anyGap]
    constructor
    · intro h; exact ⟨[], [], rfl, by simp, h⟩
    · rintro ⟨g, t, h, _, hp⟩
      have : g = [] ∧ t = [] := by simpa using h.symm
      rw [this.2] at hp; exact hp
  | cons c s ih =>
    simp only [anyGap, Bool.or_eq_true, Bool.and_eq_true]
    constructor
    · rintro (h | ⟨hc, h⟩)
      · exact ⟨[], c :: s, rfl, by simp, h⟩
      · obtain ⟨g, t, e, hn, hp⟩ := ih.mp h
        refine ⟨c :: g, t, by simp [e], ?_, hp⟩
        intro hmem
        simp only [List.mem_cons] at hmem
        rcases hmem with h1 | h1
        · subst h1; simp at hc
        · exact hn h1
    · rintro ⟨g, t, e, hn, hp⟩
      cases g with
      | nil => left; simp at e; rw [e]; exact hp
      | cons a g =>
        right
        simp at e
        obtain ⟨e1, e2⟩ := e
        subst e1
        refine ⟨?_, ih.mpr ⟨g, t, e2, fun h => hn (by simp [h]), hp⟩⟩
        have : c ≠ '\n' := fun h => hn (by simp [h])
        simpa using this

theorem stripSeg_iff (seg s t : List Char) :
    stripSeg seg s = some t ↔ ∃ m, s = m ++ t ∧ SegMatch seg m := by
  induction seg generalizing s with
  | nil =>
    simp only [stripSeg, Option.some.injEq]
    constructor
    · intro h; exact ⟨[], by simp [h], trivial⟩
    · rintro ⟨m, e, hm⟩
      cases m with
      | nil => simpa using e
      | cons a m => simp [SegMatch] at hm
  | cons p ps ih =>
    cases s with
    | nil =>
      simp only [stripSeg]
      constructor
      · intro h; cases h
      · rintro ⟨m, e, hm⟩
        cases m with
        | nil => simp [SegMatch] at hm
        | cons a m => simp at e
    | cons d s =>
      simp only [stripSeg]
      constructor
      · intro h
        split at h
        · rename_i hc
          obtain ⟨m, e, hm⟩ := (ih s).mp h
          exact ⟨d :: m, by simp [e], ⟨hc, hm⟩⟩
        · cases h
      · rintro ⟨m, e, hm⟩
        cases m with
        | nil => simp [SegMatch] at hm
        | cons d' m' =>
          simp only [SegMatch] at hm
          simp at e
          obtain ⟨e1, e2⟩ := e
          subst e1
          simp only [hm.1, if_true]
          exact (ih s).mpr ⟨m', e2, hm.2⟩

theorem splitStar_ne_nil (cs : List Char) : splitStar cs ≠ [] := by
  induction cs with
  | nil => simp [splitStar]
  | cons c cs ih =>
    simp only [splitStar]
    split
    · simp
    · split <;> simp

theorem segsHere_iff (anch : Bool) (segs : List (List Char)) (s : List Char) :
    segsHere anch segs s = true ↔ SegsOccur anch segs s := by
  induction segs generalizing s with
  | nil => simp [segsHere, SegsOccur]
  | cons seg rest ih =>
    cases rest with
    | nil =>
      simp only [segsHere, SegsOccur]
      constructor
      · intro h
        split at h
        · rename_i t ht
          obtain ⟨m, e, hm⟩ := (stripSeg_iff seg s t).mp ht
          refine ⟨m, t, e, hm, ?_⟩
          intro ha; subst ha; simpa using h
        · cases h
      · rintro ⟨m, t, e, hm, ha⟩
        have := (stripSeg_iff seg s t).mpr ⟨m, e, hm⟩
        simp only [this]
        cases anch with
        | false => simp
        | true => simp [ha rfl]
    | cons r rest =>
      simp only [segsHere, SegsOccur]
      constructor
      · intro h
        split at h
        · rename_i t ht
          obtain ⟨m, e, hm⟩ := (stripSeg_iff seg s t).mp ht
          obtain ⟨g, u, e2, hn, hp⟩ := (anyGap_iff _ t).mp h
          exact ⟨m, g, u, by rw [e, e2], hm, hn, (ih u).mp hp⟩
        · cases h
      · rintro ⟨m, g, u, e, hm, hn, ho⟩
        have := (stripSeg_iff seg s (g ++ u)).mpr ⟨m, e, hm⟩
        simp only [this]
        exact (anyGap_iff _ _).mpr ⟨g, u, rfl, hn, (ih u).mpr ho⟩

/-- `kwSpec` as a statement about decompositions of the line -/
theorem kwSpec_iff (k : Keyword) (l : List Char) :
    kwSpec k l = true ↔ ∃ pre t, l = pre ++ t ∧ SegsOccur (anchored k) (segmentsOf k) t := by
  simp only [kwSpec, anyTail_iff]
  constructor
  · rintro ⟨pre, t, e, h⟩; exact ⟨pre, t, e, (segsHere_iff _ _ _).mp h⟩
  · rintro ⟨pre, t, e, h⟩; exact ⟨pre, t, e, (segsHere_iff _ _ _).mpr h⟩

/-! ## PART B — the matcher against the specification -/

/-- token-level, priority-free: some way of matching the tokens at the head of the text exists -/
def specHere : List Tok → List Char → Bool
  | [] => fun _ => true
  | .lit c :: ts => fun s =>
    match s with
    | d :: s' => foldEq c d && specHere ts s'
    | [] => false
  | .ws :: ts => fun s =>
    match s with
    | d :: s' => Text.isWhite d && specHere ts s'
    | [] => false
  | .wild :: ts => anyGap (specHere ts)
  | .eol :: ts => fun s => s.isEmpty && specHere ts s

/-- **key lemma**: the lazy (shortest-first) choice of `(.*?)` does not affect whether a match
exists -/
theorem wildK_isSome (k : List Char → Option Caps) (acc s : List Char) :
    (wildK k acc s).isSome = anyGap (fun t => (k t).isSome) s := by
  induction s generalizing acc with
  | nil => simp [wildK, anyGap]
  | cons d s ih =>
    simp only [wildK, anyGap]
    cases hk : k (d :: s) with
    | some caps => simp
    | none =>
      simp only [Option.isSome_none, Bool.false_or]
      by_cases hd : d = '\n'
      · subst hd; simp
      · have h1 : (d == '\n') = false := by simpa using hd
        have h2 : (d != '\n') = true := by simpa using hd
        simp only [h1, h2, Bool.true_and]
        exact ih (d :: acc)

theorem matchHere_isSome (ts : List Tok) (s : List Char) :
    (matchHere ts s).isSome = specHere ts s := by
  induction ts generalizing s with
  | nil => simp [matchHere, specHere]
  | cons t ts ih =>
    cases t with
    | lit c =>
      cases s with
      | nil => simp [matchHere, specHere]
      | cons d s' =>
        simp only [matchHere, specHere]
        by_cases h : foldEq c d = true
        · simp [h, ih]
        · have : foldEq c d = false := by simpa using h
          simp [this]
    | ws =>
      cases s with
      | nil => simp [matchHere, specHere]
      | cons d s' =>
        simp only [matchHere, specHere]
        by_cases h : Text.isWhite d = true
        · simp [h, ih]
        · have : Text.isWhite d = false := by simpa using h
          simp [this]
    | wild =>
      simp only [matchHere, specHere, wildK_isSome]
      congr 1
      funext t
      exact ih t
    | eol =>
      simp only [matchHere, specHere]
      cases s with
      | nil => simp [ih]
      | cons d s' => simp

theorem find_isSome (ts : List Tok) (l : List Char) :
    (find ts l).isSome = anyTail (specHere ts) l := by
  induction l with
  | nil => simp [find, anyTail, matchHere_isSome]
  | cons c s ih =>
    simp only [find, anyTail]
    cases h : matchHere ts (c :: s) with
    | some caps =>
      have := matchHere_isSome ts (c :: s)
      rw [h] at this
      simp [← this]
    | none =>
      have := matchHere_isSome ts (c :: s)
      rw [h] at this
      simp [← this, ih]

/-! ### tokens of a keyword vs its segments -/

/-- the token a pattern character becomes (`wild` = the keyword is a wildcard keyword) -/
def tokOf (wild : Bool) (c : Char) : Tok :=
  if c == ' ' then .ws else if c == '*' && wild then .wild else .lit c

theorem tokOf_fun (w : Bool) :
    tokOf w = fun c => if c == ' ' then Tok.ws else if c == '*' && w then Tok.wild else Tok.lit c := rfl

theorem toToks_eq (k : Keyword) :
    toToks k = (patText k).map (tokOf (k.ty == .wildcard)) ++ (if anchored k then [.eol] else []) := by
  rw [tokOf_fun]
  simp only [toToks, patText, anchored]
  split <;> rename_i h <;> simp_all

theorem specHere_lit (wild : Bool) (c : Char) (hc : (c == '*' && wild) = false) (ts : List Tok) (s : List Char) :
    specHere (tokOf wild c :: ts) s =
      match s with
      | d :: s' => charMatches c d && specHere ts s'
      | [] => false := by
  by_cases h : (c == ' ') = true
  · simp only [tokOf, h, if_true, specHere, charMatches]
  · have h' : (c == ' ') = false := by simpa using h
    simp only [tokOf, h', hc, charMatches]
    rfl

theorem segsHere_cons_char (anch : Bool) (c : Char) (seg : List Char) (rest : List (List Char))
    (s : List Char) :
    segsHere anch ((c :: seg) :: rest) s =
      match s with
      | d :: s' => charMatches c d && segsHere anch (seg :: rest) s'
      | [] => false := by
  cases rest with
  | nil =>
    cases s with
    | nil => simp [segsHere, stripSeg]
    | cons d s' =>
      simp only [segsHere, stripSeg]
      by_cases h : charMatches c d = true
      · simp [h]
      · have : charMatches c d = false := by simpa using h
        simp [this]
  | cons r rest =>
    cases s with
    | nil => simp [segsHere, stripSeg]
    | cons d s' =>
      simp only [segsHere, stripSeg]
      by_cases h : charMatches c d = true
      · simp [h]
      · have : charMatches c d = false := by simpa using h
        simp [this]

theorem specHere_tail (anch : Bool) (s : List Char) :
    specHere (if anch then [Tok.eol] else []) s = (!anch || s.isEmpty) := by
  cases anch <;> simp [specHere]

/-- wildcard keyword: tokens vs `*`-separated segments -/
theorem specHere_wild (anch : Bool) (cs s : List Char) :
    specHere (cs.map (tokOf true) ++ (if anch then [Tok.eol] else [])) s =
      segsHere anch (splitStar cs) s := by
  induction cs generalizing s with
  | nil =>
    simp only [List.map_nil, List.nil_append, specHere_tail, splitStar, segsHere, stripSeg]
  | cons c cs ih =>
    by_cases hc : c = '*'
    · subst hc
      have ht : tokOf true '*' = .wild := by decide
      simp only [List.map_cons, List.cons_append, ht, specHere, splitStar, beq_self_eq_true, if_true]
      have hne := splitStar_ne_nil cs
      cases hs : splitStar cs with
      | nil => exact absurd hs hne
      | cons r rest =>
        simp only [segsHere, stripSeg]
        congr 1
        funext t
        rw [ih t, hs]
    · have hc' : (c == '*') = false := by simpa using hc
      have hcw : (c == '*' && true) = false := by simp [hc']
      simp only [List.map_cons, List.cons_append]
      rw [specHere_lit true c hcw]
      simp only [splitStar, hc']
      have hne := splitStar_ne_nil cs
      cases hs : splitStar cs with
      | nil => exact absurd hs hne
      | cons seg rest =>
        simp only [Bool.false_eq_true, if_false]
        rw [segsHere_cons_char]
        cases s with
        | nil => rfl
        | cons d s' =>
          simp only
          rw [ih s', hs]

/-- non-wildcard keyword: the whole text is one literal segment -/
theorem specHere_exact (cs s : List Char) :
    specHere (cs.map (tokOf false)) s = segsHere false [cs] s := by
  induction cs generalizing s with
  | nil => simp [specHere, segsHere, stripSeg]
  | cons c cs ih =>
    simp only [List.map_cons]
    rw [specHere_lit false c (by simp), segsHere_cons_char]
    cases s with
    | nil => rfl
    | cons d s' => simp only; rw [ih s']

/-- tokens of a keyword against the segment specification, at one position -/
theorem specHere_toToks (k : Keyword) (s : List Char) :
    specHere (toToks k) s = segsHere (anchored k) (segmentsOf k) s := by
  rw [toToks_eq]
  by_cases hw : (k.ty == .wildcard) = true
  · simp only [hw, segmentsOf, if_true]
    exact specHere_wild (anchored k) (patText k) s
  · have hw' : (k.ty == .wildcard) = false := by simpa using hw
    have ha : anchored k = false := by simp [anchored, hw']
    simp only [hw', segmentsOf, ha, Bool.false_eq_true, if_false, List.append_nil]
    exact specHere_exact (patText k) s

/-- **the matcher decides the specification** -/
theorem isMatch_eq_kwSpec (k : Keyword) (l : List Char) : isMatch k l = kwSpec k l := by
  simp only [isMatch, kwSpec, find_isSome]
  congr 1
  funext s
  exact specHere_toToks k s

/-! ## PART C — which captures the matcher returns (C07) -/

/-- SPECIFICATION.  `LazyGaps anch segs s caps`: the segments occur from the head of `s` on with
the gaps `caps`, and every gap is the shortest one (in the order of the wildcards) for which the
rest of the pattern can still be matched in some way -/
def LazyGaps (anch : Bool) : List (List Char) → List Char → Caps → Prop
  | [], _, caps => caps = []
  | [seg], s, caps => caps = [] ∧ ∃ t, stripSeg seg s = some t ∧ (anch = true → t = [])
  | seg :: r :: rest, s, caps =>
    ∃ u, stripSeg seg s = some u ∧
      ∃ g t caps', u = g ++ t ∧ caps = g :: caps' ∧ '\n' ∉ g ∧ LazyGaps anch (r :: rest) t caps' ∧
        ∀ g' t', u = g' ++ t' → g'.length < g.length → segsHere anch (r :: rest) t' = false

/-- SPECIFICATION.  `Recon segs caps m`: the text `m` is the pattern with every literal segment
replaced by an occurrence of it and the i-th `*` by the i-th capture -/
def Recon : List (List Char) → Caps → List Char → Prop
  | [], caps, m => caps = [] ∧ m = []
  | [seg], caps, m => caps = [] ∧ SegMatch seg m
  | seg :: r :: rest, caps, m =>
    ∃ m0 g caps' m', caps = g :: caps' ∧ m = m0 ++ (g ++ m') ∧ SegMatch seg m0 ∧
      Recon (r :: rest) caps' m'

/-- the pattern with the i-th `*` replaced by the i-th capture -/
def substitute : List (List Char) → Caps → List Char
  | [], _ => []
  | [seg], _ => seg
  | seg :: r :: rest, g :: caps => seg ++ (g ++ substitute (r :: rest) caps)
  | seg :: _ :: _, [] => seg

/-- length of the text a match with these captures covers -/
def matchedLen : List (List Char) → Caps → Nat
  | [], _ => 0
  | [seg], _ => seg.length
  | seg :: r :: rest, g :: caps => seg.length + (g.length + matchedLen (r :: rest) caps)
  | seg :: _ :: _, [] => seg.length

/-- the part of `t` (the line from the match start on) that the match covers -/
def matchedText (segs : List (List Char)) (caps : Caps) (t : List Char) : List Char :=
  t.take (matchedLen segs caps)

/-- token-level version of `LazyGaps` -/
def LazyCaps : List Tok → List Char → Caps → Prop
  | [], _, caps => caps = []
  | .lit c :: ts, s, caps => ∃ d s', s = d :: s' ∧ foldEq c d = true ∧ LazyCaps ts s' caps
  | .ws :: ts, s, caps => ∃ d s', s = d :: s' ∧ Text.isWhite d = true ∧ LazyCaps ts s' caps
  | .wild :: ts, s, caps =>
    ∃ g t rest, s = g ++ t ∧ caps = g :: rest ∧ '\n' ∉ g ∧ LazyCaps ts t rest ∧
      ∀ g' t', s = g' ++ t' → g'.length < g.length → specHere ts t' = false
  | .eol :: ts, s, caps => s = [] ∧ LazyCaps ts s caps

/-- what the lazy group returns: the shortest newline-free gap after which the continuation
succeeds -/
theorem wildK_some_iff (k : List Char → Option Caps) (acc s : List Char) (caps : Caps) :
    wildK k acc s = some caps ↔
      ∃ g t rest, s = g ++ t ∧ '\n' ∉ g ∧ k t = some rest ∧ caps = (acc.reverse ++ g) :: rest ∧
        ∀ g' t', s = g' ++ t' → g'.length < g.length → k t' = none := by
  induction s generalizing acc with
  | nil =>
    simp only [wildK]
    constructor
    · intro h
      cases hk : k [] with
      | none => simp [hk] at h
      | some rest =>
        simp [hk] at h
        refine ⟨[], [], rest, rfl, by simp, hk, by simp [h], ?_⟩
        intro g' t' _ hlt; simp at hlt
    · rintro ⟨g, t, rest, e, _, hk, hc, _⟩
      have : g = [] ∧ t = [] := by simpa using e.symm
      obtain ⟨e1, e2⟩ := this
      subst e1 e2
      simp [hk, hc]
  | cons d s ih =>
    simp only [wildK]
    cases hk : k (d :: s) with
    | some c0 =>
      simp only [Option.some.injEq]
      constructor
      · intro h
        refine ⟨[], d :: s, c0, rfl, by simp, hk, by simp [h], ?_⟩
        intro g' t' _ hlt; simp at hlt
      · rintro ⟨g, t, rest, e, _, hkt, hc, hmin⟩
        cases g with
        | nil =>
          simp at e; subst e
          rw [hk] at hkt; cases hkt
          simp [hc]
        | cons a g =>
          have := hmin [] (d :: s) rfl (by simp)
          rw [hk] at this; cases this
    | none =>
      by_cases hd : d = '\n'
      · subst hd
        simp only [beq_self_eq_true, if_true]
        constructor
        · intro h; cases h
        · rintro ⟨g, t, rest, e, hn, hkt, _, _⟩
          cases g with
          | nil => simp at e; subst e; rw [hk] at hkt; cases hkt
          | cons a g =>
            simp at e
            exact absurd (by rw [← e.1]; simp) hn
      · have h1 : (d == '\n') = false := by simpa using hd
        simp only [h1, Bool.false_eq_true, if_false]
        rw [ih (d :: acc)]
        constructor
        · rintro ⟨g, t, rest, e, hn, hkt, hc, hmin⟩
          refine ⟨d :: g, t, rest, by simp [e], ?_, hkt, by simp [hc], ?_⟩
          · intro hm
            simp only [List.mem_cons] at hm
            rcases hm with hm | hm
            · exact hd hm.symm
            · exact hn hm
          · intro g' t' e' hlt
            cases g' with
            | nil => simp at e'; subst e'; exact hk
            | cons a g' =>
              simp at e'
              exact hmin g' t' e'.2 (by simpa using hlt)
        · rintro ⟨g, t, rest, e, hn, hkt, hc, hmin⟩
          cases g with
          | nil => simp at e; subst e; rw [hk] at hkt; cases hkt
          | cons a g =>
            simp at e
            obtain ⟨e1, e2⟩ := e
            subst e1
            refine ⟨g, t, rest, e2, fun h => hn (by simp [h]), hkt, by simp [hc], ?_⟩
            intro g' t' e' hlt
            exact hmin (d :: g') t' (by simp [e']) (by simpa using hlt)

theorem matchHere_none_iff (ts : List Tok) (s : List Char) :
    matchHere ts s = none ↔ specHere ts s = false := by
  rw [← matchHere_isSome]
  cases matchHere ts s <;> simp

theorem matchHere_some_iff (ts : List Tok) (s : List Char) (caps : Caps) :
    matchHere ts s = some caps ↔ LazyCaps ts s caps := by
  induction ts generalizing s caps with
  | nil => simp only [matchHere, LazyCaps, Option.some.injEq]; exact eq_comm
  | cons t ts ih =>
    cases t with
    | lit c =>
      cases s with
      | nil => simp [matchHere, LazyCaps]
      | cons d s' =>
        simp only [matchHere, LazyCaps]
        constructor
        · intro h
          split at h
          · rename_i hc; exact ⟨d, s', rfl, hc, (ih s' caps).mp h⟩
          · cases h
        · rintro ⟨d', s'', e, hc, h⟩
          simp at e; obtain ⟨e1, e2⟩ := e; subst e1 e2
          simp only [hc, if_true]; exact (ih _ caps).mpr h
    | ws =>
      cases s with
      | nil => simp [matchHere, LazyCaps]
      | cons d s' =>
        simp only [matchHere, LazyCaps]
        constructor
        · intro h
          split at h
          · rename_i hc; exact ⟨d, s', rfl, hc, (ih s' caps).mp h⟩
          · cases h
        · rintro ⟨d', s'', e, hc, h⟩
          simp at e; obtain ⟨e1, e2⟩ := e; subst e1 e2
          simp only [hc, if_true]; exact (ih _ caps).mpr h
    | wild =>
      simp only [matchHere, LazyCaps, wildK_some_iff]
      constructor
      · rintro ⟨g, t, rest, e, hn, hk, hc, hmin⟩
        refine ⟨g, t, rest, e, by simpa using hc, hn, (ih t rest).mp hk, ?_⟩
        intro g' t' e' hlt
        exact (matchHere_none_iff ts t').mp (hmin g' t' e' hlt)
      · rintro ⟨g, t, rest, e, hc, hn, hk, hmin⟩
        refine ⟨g, t, rest, e, hn, (ih t rest).mpr hk, by simpa using hc, ?_⟩
        intro g' t' e' hlt
        exact (matchHere_none_iff ts t').mpr (hmin g' t' e' hlt)
    | eol =>
      simp only [matchHere, LazyCaps]
      cases s with
      | nil => simp [ih]
      | cons d s' => simp

/-- leftmost: `find` returns the captures of the first position at which the tokens match -/
theorem find_some_iff (ts : List Tok) (l : List Char) (caps : Caps) :
    find ts l = some caps ↔
      ∃ pre t, l = pre ++ t ∧ matchHere ts t = some caps ∧
        ∀ pre' t', l = pre' ++ t' → pre'.length < pre.length → matchHere ts t' = none := by
  induction l with
  | nil =>
    simp only [find]
    constructor
    · intro h
      refine ⟨[], [], rfl, h, ?_⟩
      intro p t _ hlt; simp at hlt
    · rintro ⟨pre, t, e, h, _⟩
      have : pre = [] ∧ t = [] := by simpa using e.symm
      rw [this.2] at h; exact h
  | cons c s ih =>
    simp only [find]
    cases hm : matchHere ts (c :: s) with
    | some c0 =>
      simp only [Option.some.injEq]
      constructor
      · intro h
        refine ⟨[], c :: s, rfl, by rw [hm, h], ?_⟩
        intro p t _ hlt; simp at hlt
      · rintro ⟨pre, t, e, h, hmin⟩
        cases pre with
        | nil => simp at e; subst e; rw [hm] at h; simpa using h
        | cons a pre =>
          have := hmin [] (c :: s) rfl (by simp)
          rw [hm] at this; cases this
    | none =>
      simp only
      rw [ih]
      constructor
      · rintro ⟨pre, t, e, h, hmin⟩
        refine ⟨c :: pre, t, by simp [e], h, ?_⟩
        intro p' t' e' hlt
        cases p' with
        | nil => simp at e'; subst e'; exact hm
        | cons a p' =>
          simp at e'
          exact hmin p' t' e'.2 (by simpa using hlt)
      · rintro ⟨pre, t, e, h, hmin⟩
        cases pre with
        | nil => simp at e; subst e; rw [hm] at h; cases h
        | cons a pre =>
          simp at e
          refine ⟨pre, t, e.2, h, ?_⟩
          intro p' t' e' hlt
          exact hmin (c :: p') t' (by simp [e.1, e']) (by simpa using hlt)

/-! ### tokens vs segments, with captures -/

theorem LazyCaps_lit (wild : Bool) (c : Char) (hc : (c == '*' && wild) = false) (ts : List Tok)
    (s : List Char) (caps : Caps) :
    LazyCaps (tokOf wild c :: ts) s caps ↔
      ∃ d s', s = d :: s' ∧ charMatches c d = true ∧ LazyCaps ts s' caps := by
  by_cases h : (c == ' ') = true
  · simp only [tokOf, h, if_true, LazyCaps, charMatches]
  · have h' : (c == ' ') = false := by simpa using h
    simp only [tokOf, h', hc, charMatches]
    rfl

theorem LazyGaps_cons_char (anch : Bool) (c : Char) (seg : List Char) (rest : List (List Char))
    (s : List Char) (caps : Caps) :
    LazyGaps anch ((c :: seg) :: rest) s caps ↔
      ∃ d s', s = d :: s' ∧ charMatches c d = true ∧ LazyGaps anch (seg :: rest) s' caps := by
  cases s with
  | nil => cases rest <;> simp [LazyGaps, stripSeg]
  | cons d s' =>
    by_cases h : charMatches c d = true
    · cases rest <;> simp only [LazyGaps, stripSeg, h, if_true] <;> constructor
      · intro x; exact ⟨d, s', rfl, h, x⟩
      · rintro ⟨d1, s1, e, _, x⟩; cases e; exact x
      · intro x; exact ⟨d, s', rfl, h, x⟩
      · rintro ⟨d1, s1, e, _, x⟩; cases e; exact x
    · have h' : charMatches c d = false := by simpa using h
      cases rest <;> simp [LazyGaps, stripSeg, h']

theorem LazyCaps_tail (anch : Bool) (s : List Char) (caps : Caps) :
    LazyCaps (if anch then [Tok.eol] else []) s caps ↔ caps = [] ∧ (anch = true → s = []) := by
  cases anch <;> simp [LazyCaps, and_comm]

theorem LazyCaps_wild (anch : Bool) (cs s : List Char) (caps : Caps) :
    LazyCaps (cs.map (tokOf true) ++ (if anch then [Tok.eol] else [])) s caps ↔
      LazyGaps anch (splitStar cs) s caps := by
  induction cs generalizing s caps with
  | nil =>
    simp only [List.map_nil, List.nil_append, LazyCaps_tail, splitStar, LazyGaps, stripSeg,
      Option.some.injEq]
    constructor
    · rintro ⟨h1, h2⟩; exact ⟨h1, s, rfl, h2⟩
    · rintro ⟨h1, t, e, h2⟩; subst e; exact ⟨h1, h2⟩
  | cons c cs ih =>
    by_cases hc : c = '*'
    · subst hc
      have ht : tokOf true '*' = .wild := by decide
      simp only [List.map_cons, List.cons_append, ht, LazyCaps, splitStar, beq_self_eq_true, if_true]
      have hne := splitStar_ne_nil cs
      cases hs : splitStar cs with
      | nil => exact absurd hs hne
      | cons r rest =>
        simp only [LazyGaps, stripSeg, Option.some.injEq]
        constructor
        · rintro ⟨g, t, caps', e, hcaps, hn, hl, hmin⟩
          refine ⟨s, rfl, g, t, caps', e, hcaps, hn, ?_, ?_⟩
          · rw [← hs]; exact (ih t caps').mp hl
          · intro g' t' e' hlt
            rw [← hs, ← specHere_wild]
            exact hmin g' t' e' hlt
        · rintro ⟨u, eu, g, t, caps', e, hcaps, hn, hl, hmin⟩
          subst eu
          refine ⟨g, t, caps', e, hcaps, hn, ?_, ?_⟩
          · rw [← hs] at hl; exact (ih t caps').mpr hl
          · intro g' t' e' hlt
            have := hmin g' t' e' hlt
            rw [← hs, ← specHere_wild] at this
            exact this
    · have hc' : (c == '*') = false := by simpa using hc
      have hcw : (c == '*' && true) = false := by simp [hc']
      simp only [List.map_cons, List.cons_append]
      rw [LazyCaps_lit true c hcw]
      simp only [splitStar, hc']
      have hne := splitStar_ne_nil cs
      cases hs : splitStar cs with
      | nil => exact absurd hs hne
      | cons seg rest =>
        simp only [Bool.false_eq_true, if_false]
        rw [LazyGaps_cons_char]
        constructor
        · rintro ⟨d, s', e, hm, hl⟩
          exact ⟨d, s', e, hm, by rw [← hs]; exact (ih s' caps).mp hl⟩
        · rintro ⟨d, s', e, hm, hl⟩
          exact ⟨d, s', e, hm, (ih s' caps).mpr (by rw [hs]; exact hl)⟩

theorem LazyCaps_exact (cs s : List Char) (caps : Caps) :
    LazyCaps (cs.map (tokOf false)) s caps ↔ LazyGaps false [cs] s caps := by
  induction cs generalizing s with
  | nil => simp [LazyCaps, LazyGaps, stripSeg]
  | cons c cs ih =>
    simp only [List.map_cons]
    rw [LazyCaps_lit false c (by simp), LazyGaps_cons_char]
    constructor
    · rintro ⟨d, s', e, hm, hl⟩; exact ⟨d, s', e, hm, (ih s').mp hl⟩
    · rintro ⟨d, s', e, hm, hl⟩; exact ⟨d, s', e, hm, (ih s').mpr hl⟩

theorem LazyCaps_toToks (k : Keyword) (s : List Char) (caps : Caps) :
    LazyCaps (toToks k) s caps ↔ LazyGaps (anchored k) (segmentsOf k) s caps := by
  rw [toToks_eq]
  by_cases hw : (k.ty == .wildcard) = true
  · simp only [hw, segmentsOf, if_true]
    exact LazyCaps_wild (anchored k) (patText k) s caps
  · have hw' : (k.ty == .wildcard) = false := by simpa using hw
    have ha : anchored k = false := by simp [anchored, hw']
    simp only [hw', segmentsOf, ha, Bool.false_eq_true, if_false, List.append_nil]
    exact LazyCaps_exact (patText k) s caps

/-- **what `captures` returns**: the gaps of the leftmost position at which the pattern can be
matched, each gap the shortest possible in the order of the wildcards -/
theorem captures_some_iff (k : Keyword) (l : List Char) (caps : Caps) :
    captures k l = some caps ↔
      ∃ pre t, l = pre ++ t ∧ LazyGaps (anchored k) (segmentsOf k) t caps ∧
        ∀ pre' t', l = pre' ++ t' → pre'.length < pre.length →
          segsHere (anchored k) (segmentsOf k) t' = false := by
  simp only [captures, find_some_iff]
  constructor
  · rintro ⟨pre, t, e, h, hmin⟩
    refine ⟨pre, t, e, (LazyCaps_toToks k t caps).mp ((matchHere_some_iff _ _ _).mp h), ?_⟩
    intro p' t' e' hlt
    rw [← specHere_toToks]
    exact (matchHere_none_iff _ _).mp (hmin p' t' e' hlt)
  · rintro ⟨pre, t, e, h, hmin⟩
    refine ⟨pre, t, e, (matchHere_some_iff _ _ _).mpr ((LazyCaps_toToks k t caps).mpr h), ?_⟩
    intro p' t' e' hlt
    have := hmin p' t' e' hlt
    rw [← specHere_toToks] at this
    exact (matchHere_none_iff _ _).mpr this

/-! ### reconstruction -/

theorem SegMatch_length (seg m : List Char) (h : SegMatch seg m) : m.length = seg.length := by
  induction seg generalizing m with
  | nil => cases m <;> simp_all [SegMatch]
  | cons p ps ih =>
    cases m with
    | nil => simp [SegMatch] at h
    | cons d m => simp only [SegMatch] at h; simp [ih m h.2]

theorem charMatches_self (c : Char) : charMatches c c = true := by
  simp only [charMatches, foldEq]
  split
  · rename_i h
    have : c = ' ' := by simpa using h
    subst this; decide
  · simp

theorem SegMatch_refl (g : List Char) : SegMatch g g := by
  induction g with
  | nil => trivial
  | cons c g ih => exact ⟨charMatches_self c, ih⟩

theorem SegMatch_append (a b m1 m2 : List Char) (h1 : SegMatch a m1) (h2 : SegMatch b m2) :
    SegMatch (a ++ b) (m1 ++ m2) := by
  induction a generalizing m1 with
  | nil => cases m1 <;> simp_all [SegMatch]
  | cons p ps ih =>
    cases m1 with
    | nil => simp [SegMatch] at h1
    | cons d m => simp only [SegMatch] at h1; exact ⟨h1.1, ih m h1.2⟩

theorem LazyGaps_recon (anch : Bool) (segs : List (List Char)) (hne : segs ≠ []) (s : List Char)
    (caps : Caps) (h : LazyGaps anch segs s caps) :
    ∃ m post, s = m ++ post ∧ Recon segs caps m ∧ (anch = true → post = []) := by
  induction segs generalizing s caps with
  | nil => exact absurd rfl hne
  | cons seg rest ih =>
    cases rest with
    | nil =>
      simp only [LazyGaps] at h
      obtain ⟨hc, t, ht, ha⟩ := h
      obtain ⟨m, e, hm⟩ := (stripSeg_iff seg s t).mp ht
      exact ⟨m, t, e, ⟨hc, hm⟩, ha⟩
    | cons r rest =>
      simp only [LazyGaps] at h
      obtain ⟨u, hu, g, t, caps', e, hc, _, hl, _⟩ := h
      obtain ⟨m0, e0, hm0⟩ := (stripSeg_iff seg s u).mp hu
      obtain ⟨m', post, e', hr, ha⟩ := ih (by simp) t caps' hl
      refine ⟨m0 ++ (g ++ m'), post, ?_, ⟨m0, g, caps', m', hc, rfl, hm0, hr⟩, ha⟩
      rw [e0, e, e']; simp

theorem Recon_length (segs : List (List Char)) (caps : Caps) (m : List Char)
    (h : Recon segs caps m) : m.length = matchedLen segs caps := by
  induction segs generalizing caps m with
  | nil => simp only [Recon] at h; simp [h.2, matchedLen]
  | cons seg rest ih =>
    cases rest with
    | nil => simp only [Recon] at h; simp [matchedLen, SegMatch_length seg m h.2]
    | cons r rest =>
      simp only [Recon] at h
      obtain ⟨m0, g, caps', m', hc, e, hm0, hr⟩ := h
      subst hc e
      simp [matchedLen, SegMatch_length seg m0 hm0, ih caps' m' hr]

/-- substituting the captures for the `*`s gives the matched text up to `charMatches` -/
theorem Recon_substitute (segs : List (List Char)) (caps : Caps) (m : List Char)
    (h : Recon segs caps m) : SegMatch (substitute segs caps) m := by
  induction segs generalizing caps m with
  | nil => simp only [Recon] at h; simp [h.2, substitute, SegMatch]
  | cons seg rest ih =>
    cases rest with
    | nil => simp only [Recon] at h; simpa [substitute] using h.2
    | cons r rest =>
      simp only [Recon] at h
      obtain ⟨m0, g, caps', m', hc, e, hm0, hr⟩ := h
      subst hc e
      simp only [substitute]
      exact SegMatch_append _ _ _ _ hm0 (SegMatch_append _ _ _ _ (SegMatch_refl g) (ih caps' m' hr))

/-! ### number of captures -/

theorem LazyGaps_length (anch : Bool) (segs : List (List Char)) (s : List Char) (caps : Caps)
    (h : LazyGaps anch segs s caps) : caps.length = segs.length - 1 := by
  induction segs generalizing s caps with
  | nil => simp only [LazyGaps] at h; simp [h]
  | cons seg rest ih =>
    cases rest with
    | nil => simp only [LazyGaps] at h; simp [h.1]
    | cons r rest =>
      simp only [LazyGaps] at h
      obtain ⟨u, _, g, t, caps', _, hc, _, hl, _⟩ := h
      subst hc
      have := ih t caps' hl
      simp at this ⊢
      exact this

theorem splitStar_length (cs : List Char) :
    (splitStar cs).length = (cs.filter (· == '*')).length + 1 := by
  induction cs with
  | nil => simp [splitStar]
  | cons c cs ih =>
    simp only [splitStar, List.filter_cons]
    by_cases hc : (c == '*') = true
    · simp [hc, ih]
    · have hc' : (c == '*') = false := by simpa using hc
      simp only [hc', Bool.false_eq_true, if_false]
      have hne := splitStar_ne_nil cs
      cases hs : splitStar cs with
      | nil => exact absurd hs hne
      | cons seg rest => rw [hs] at ih; simpa using ih

theorem unescapeQuotes_stars (cs : List Char) :
    (unescapeQuotes cs).filter (· == '*') = cs.filter (· == '*') := by
  induction cs using unescapeQuotes.induct with
  | case1 r ih => simp only [unescapeQuotes, List.filter_cons]; simpa using ih
  | case2 c r hne ih => simp only [unescapeQuotes, List.filter_cons, ih]
  | case3 => rfl

end Ag.Kw
