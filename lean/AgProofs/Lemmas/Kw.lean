/-
Keyword matching (`Keyword::to_regex` + the regex crate on the emitted fragment), C02 / C07.

PART A is SPECIFICATION: definitions the statements of C02/C07 are phrased with.  None of them
mentions the matcher (`Kw.matchHere`, `Kw.wildK`, `Kw.find`); they say "there is a decomposition
of the line", with no priority between alternatives.
PART B are the lemmas tying the model's leftmost-first / lazy matcher to PART A.
-/
import AgModel.Kw

namespace Ag.Kw

/-! ## PART A — specification vocabulary -/

/-- some suffix of the line satisfies `p` ("occurs somewhere") -/
def anyTail (p : List Char → Bool) : List Char → Bool
  | [] => p []
  | c :: s => p (c :: s) || anyTail p s

/-- after skipping a gap that contains no newline (regex `.` excludes `\n`), `p` holds -/
def anyGap (p : List Char → Bool) : List Char → Bool
  | [] => p []
  | c :: s => p (c :: s) || (c != '\n' && anyGap p s)

/-- one pattern character against one line character: a blank stands for any Unicode whitespace,
every other character for itself up to ASCII case -/
def charMatches (p d : Char) : Bool := if p == ' ' then Text.isWhite d else foldEq p d

/-- the literal segment `seg` sits at the head of `s`; the remainder -/
def stripSeg : List Char → List Char → Option (List Char)
  | [], s => some s
  | _ :: _, [] => none
  | p :: ps, d :: s => if charMatches p d then stripSeg ps s else none

/-- `m` is an occurrence of the literal segment `seg` (same length, characterwise `charMatches`) -/
def SegMatch : List Char → List Char → Prop
  | [], [] => True
  | p :: ps, d :: m => charMatches p d = true ∧ SegMatch ps m
  | [], _ :: _ => False
  | _ :: _, [] => False

/-- the `*`-separated segments of a pattern (`n` stars give `n + 1` segments, possibly empty) -/
def splitStar : List Char → List (List Char)
  | [] => [[]]
  | c :: cs =>
    if c == '*' then [] :: splitStar cs
    else
      match splitStar cs with
      | seg :: rest => (c :: seg) :: rest
      | [] => [[c]]

/-- the segments occur from the head of `s` on, in order, non-overlapping, the gaps between them
free of newlines; with `anch` nothing may follow the last one -/
def segsHere (anch : Bool) : List (List Char) → List Char → Bool
  | [], _ => true
  | [seg], s =>
    match stripSeg seg s with
    | some t => !anch || t.isEmpty
    | none => false
  | seg :: r :: rest, s =>
    match stripSeg seg s with
    | some t => anyGap (segsHere anch (r :: rest)) t
    | none => false

/-- the pattern text after `s.replace("\\\"", "\"")` -/
def patText (k : Keyword) : List Char := unescapeQuotes k.text.toList

/-- `self.0.ends_with('*')` of a wildcard keyword: the regex gets a final `$` -/
def anchored (k : Keyword) : Bool := k.ty == .wildcard && k.text.toList.getLast? == some '*'

/-- wildcard keyword: the `*`-separated segments; otherwise the whole text is one segment -/
def segmentsOf (k : Keyword) : List (List Char) :=
  if k.ty == .wildcard then splitStar (patText k) else [patText k]

/-- **the keyword specification**: somewhere in the line the segments occur in order,
non-overlapping, characters compared by `charMatches`, no newline inside a wildcard gap, and
(pattern ending in `*`) the last gap runs to the end of the line -/
def kwSpec (k : Keyword) (line : List Char) : Bool :=
  anyTail (segsHere (anchored k) (segmentsOf k)) line

/-- the same as a proposition about decompositions of the text -/
def SegsOccur (anch : Bool) : List (List Char) → List Char → Prop
  | [], _ => True
  | [seg], s => ∃ m t, s = m ++ t ∧ SegMatch seg m ∧ (anch = true → t = [])
  | seg :: r :: rest, s =>
    ∃ m g t, s = m ++ (g ++ t) ∧ SegMatch seg m ∧ '\n' ∉ g ∧ SegsOccur anch (r :: rest) t

/-! ### characterisations of the vocabulary -/

theorem anyTail_iff (p : List Char → Bool) (l : List Char) :
    anyTail p l = true ↔ ∃ pre t, l = pre ++ t ∧ p t = true := by
  induction l with
  | nil =>
    simp only [anyTail]
    constructor
    · intro h; exact ⟨[], [], rfl, h⟩
    · rintro ⟨pre, t, h, hp⟩
      have : pre = [] ∧ t = [] := by simpa using h.symm
      rw [this.2] at hp; exact hp
  | cons c s ih =>
    simp only [anyTail, Bool.or_eq_true]
    constructor
    · rintro (h | h)
      · exact ⟨[], c :: s, rfl, h⟩
      · obtain ⟨pre, t, e, hp⟩ := ih.mp h
        exact ⟨c :: pre, t, by simp [e], hp⟩
    · rintro ⟨pre, t, e, hp⟩
      cases pre with
      | nil => left; simp at e; rw [e]; exact hp
      | cons a pre =>
        right
        simp at e
        exact ih.mpr ⟨pre, t, e.2, hp⟩

theorem anyGap_iff (p : List Char → Bool) (s : List Char) :
    anyGap p s = true ↔ ∃ g t, s = g ++ t ∧ '\n' ∉ g ∧ p t = true := by
  induction s with
  | nil =>
    simp only [anyGap]
    constructor
    · intro h; exact ⟨[], [], rfl, by simp, h⟩
    · rintro ⟨g, t, h, _, hp⟩
      have : g = [] ∧ t = [] := by simpa using h.symm
      rw [this.2] at hp; exact hp
  | cons c s ih =>
    simp only [anyGap, Bool.or_eq_true, Bool.and_eq_true]
    constructor
    · rintro (h | ⟨hc, h⟩)
      · exact ⟨[], c :: s, rfl, by simp, h⟩
      · obtain ⟨g, t, e, hn, hp⟩ := ih.mp h
        refine ⟨c :: g, t, by simp [e], ?_, hp⟩
        intro hmem
        simp only [List.mem_cons] at hmem
        rcases hmem with h1 | h1
        · subst h1; simp at hc
        · exact hn h1
    · rintro ⟨g, t, e, hn, hp⟩
      cases g with
      | nil => left; simp at e; rw [e]; exact hp
      | cons a g =>
        right
        simp at e
        obtain ⟨e1, e2⟩ := e
        subst e1
        refine ⟨?_, ih.mpr ⟨g, t, e2, fun h => hn (by simp [h]), hp⟩⟩
        have : c ≠ '\n' := fun h => hn (by simp [h])
        simpa using this

theorem stripSeg_iff (seg s t : List Char) :
    stripSeg seg s = some t ↔ ∃ m, s = m ++ t ∧ SegMatch seg m := by
  induction seg generalizing s with
  | nil =>
    simp only [stripSeg, Option.some.injEq]
    constructor
    · intro h; exact ⟨[], by simp [h], trivial⟩
    · rintro ⟨m, e, hm⟩
      cases m with
      | nil => simpa using e
      | cons a m => simp [SegMatch] at hm
  | cons p ps ih =>
    cases s with
    | nil =>
      simp only [stripSeg]
      constructor
      · intro h; cases h
      · rintro ⟨m, e, hm⟩
        cases m with
        | nil => simp [SegMatch] at hm
        | cons a m => simp at e
    | cons d s =>
      simp only [stripSeg]
      constructor
      · intro h
        split at h
        · rename_i hc
          obtain ⟨m, e, hm⟩ := (ih s).mp h
          exact ⟨d :: m, by simp [e], ⟨hc, hm⟩⟩
        · cases h
      · rintro ⟨m, e, hm⟩
        cases m with
        | nil => simp [SegMatch] at hm
        | cons d' m' =>
          simp only [SegMatch] at hm
          simp at e
          obtain ⟨e1, e2⟩ := e
          subst e1
          simp only [hm.1, if_true]
          exact (ih s).mpr ⟨m', e2, hm.2⟩

theorem splitStar_ne_nil (cs : List Char) : splitStar cs ≠ [] := by
  induction cs with
  | nil => simp [splitStar]
  | cons c cs ih =>
    simp only [splitStar]
    split
    · simp
    · split <;> simp

theorem segsHere_iff (anch : Bool) (segs : List (List Char)) (s : List Char) :
    segsHere anch segs s = true ↔ SegsOccur anch segs s := by
  induction segs generalizing s with
  | nil => simp [segsHere, SegsOccur]
  | cons seg rest ih =>
    cases rest with
    | nil =>
      simp only [segsHere, SegsOccur]
      constructor
      · intro h
        split at h
        · rename_i t ht
          obtain ⟨m, e, hm⟩ := (stripSeg_iff seg s t).mp ht
          refine ⟨m, t, e, hm, ?_⟩
          intro ha; subst ha; simpa using h
        · cases h
      · rintro ⟨m, t, e, hm, ha⟩
        have := (stripSeg_iff seg s t).mpr ⟨m, e, hm⟩
        simp only [this]
        cases anch with
        | false => simp
        | true => simp [ha rfl]
    | cons r rest =>
      simp only [segsHere, SegsOccur]
      constructor
      · intro h
        split at h
        · rename_i t ht
          obtain ⟨m, e, hm⟩ := (stripSeg_iff seg s t).mp ht
          obtain ⟨g, u, e2, hn, hp⟩ := (anyGap_iff _ t).mp h
          exact ⟨m, g, u, by rw [e, e2], hm, hn, (ih u).mp hp⟩
        · cases h
      · rintro ⟨m, g, u, e, hm, hn, ho⟩
        have := (stripSeg_iff seg s (g ++ u)).mpr ⟨m, e, hm⟩
        simp only [this]
        exact (anyGap_iff _ _).mpr ⟨g, u, rfl, hn, (ih u).mpr ho⟩

/-- `kwSpec` as a statement about decompositions of the line -/
theorem kwSpec_iff (k : Keyword) (l : List Char) :
    kwSpec k l = true ↔ ∃ pre t, l = pre ++ t ∧ SegsOccur (anchored k) (segmentsOf k) t := by
  simp only [kwSpec, anyTail_iff]
  constructor
  · rintro ⟨pre, t, e, h⟩; exact ⟨pre, t, e, (segsHere_iff _ _ _).mp h⟩
  · rintro ⟨pre, t, e, h⟩; exact ⟨pre, t, e, (segsHere_iff _ _ _).mpr h⟩

/-! ## PART B — the matcher against the specification -/

/-- token-level, priority-free: some way of matching the tokens at the head of the text exists -/
def specHere : List Tok → List Char → Bool
  | [] => fun _ => true
  | .lit c :: ts => fun s =>
    match s with
    | d :: s' => foldEq c d && specHere ts s'
    | [] => false
  | .ws :: ts => fun s =>
    match s with
    | d :: s' => Text.isWhite d && specHere ts s'
    | [] => false
  | .wild :: ts => anyGap (specHere ts)
  | .eol :: ts => fun s => s.isEmpty && specHere ts s

/-- **key lemma**: the lazy (shortest-first) choice of `(.*?)` does not affect whether a match
exists -/
theorem wildK_isSome (k : List Char → Option Caps) (acc s : List Char) :
    (wildK k acc s).isSome = anyGap (fun t => (k t).isSome) s := by
  induction s generalizing acc with
  | nil => simp [wildK, anyGap]
  | cons d s ih =>
    simp only [wildK, anyGap]
    cases hk : k (d :: s) with
    | some caps => simp
    | none =>
      simp only [Option.isSome_none, Bool.false_or]
      by_cases hd : d = '\n'
      · subst hd; simp
      · have h1 : (d == '\n') = false := by simpa using hd
        have h2 : (d != '\n') = true := by simpa using hd
        simp only [h1, h2, Bool.true_and]
        exact ih (d :: acc)

theorem matchHere_isSome (ts : List Tok) (s : List Char) :
    (matchHere ts s).isSome = specHere ts s := by
  induction ts generalizing s with
  | nil => simp [matchHere, specHere]
  | cons t ts ih =>
    cases t with
    | lit c =>
      cases s with
      | nil => simp [matchHere, specHere]
      | cons d s' =>
        simp only [matchHere, specHere]
        by_cases h : foldEq c d = true
        · simp [h, ih]
        · have : foldEq c d = false := by simpa using h
          simp [this]
    | ws =>
      cases s with
      | nil => simp [matchHere, specHere]
      | cons d s' =>
        simp only [matchHere, specHere]
        by_cases h : Text.isWhite d = true
        · simp [h, ih]
        · have : Text.isWhite d = false := by simpa using h
          simp [this]
    | wild =>
      simp only [matchHere, specHere, wildK_isSome]
      congr 1
      funext t
      exact ih t
    | eol =>
      simp only [matchHere, specHere]
      cases s with
      | nil => simp [ih]
      | cons d s' => simp

theorem find_isSome (ts : List Tok) (l : List Char) :
    (find ts l).isSome = anyTail (specHere ts) l := by
  induction l with
  | nil => simp [find, anyTail, matchHere_isSome]
  | cons c s ih =>
    simp only [find, anyTail]
    cases h : matchHere ts (c :: s) with
    | some caps =>
      have := matchHere_isSome ts (c :: s)
      rw [h] at this
      simp [← this]
    | none =>
      have := matchHere_isSome ts (c :: s)
      rw [h] at this
      simp [← this, ih]

/-! ### tokens of a keyword vs its segments -/

/-- the token a pattern character becomes (`wild` = the keyword is a wildcard keyword) -/
def tokOf (wild : Bool) (c : Char) : Tok :=
  if c == ' ' then .ws else if c == '*' && wild then .wild else .lit c

theorem tokOf_fun (w : Bool) :
    tokOf w = fun c => if c == ' ' then Tok.ws else if c == '*' && w then Tok.wild else Tok.lit c := rfl

theorem toToks_eq (k : Keyword) :
    toToks k = (patText k).map (tokOf (k.ty == .wildcard)) ++ (if anchored k then [.eol] else []) := by
  rw [tokOf_fun]
  simp only [toToks, patText, anchored]
  split <;> rename_i h <;> simp_all

theorem specHere_lit (wild : Bool) (c : Char) (hc : (c == '*' && wild) = false) (ts : List Tok) (s : List Char) :
    specHere (tokOf wild c :: ts) s =
      match s with
      | d :: s' => charMatches c d && specHere ts s'
      | [] => false := by
  by_cases h : (c == ' ') = true
  · simp only [tokOf, h, if_true, specHere, charMatches]
  · have h' : (c == ' ') = false := by simpa using h
    simp only [tokOf, h', hc, charMatches]
    rfl

theorem segsHere_cons_char (anch : Bool) (c : Char) (seg : List Char) (rest : List (List Char))
    (s : List Char) :
    segsHere anch ((c :: seg) :: rest) s =
      match s with
      | d :: s' => charMatches c d && segsHere anch (seg :: rest) s'
      | [] => false := by
  cases rest with
  | nil =>
    cases s with
    | nil => simp [segsHere, stripSeg]
    | cons d s' =>
      simp only [segsHere, stripSeg]
      by_cases h : charMatches c d = true
      · simp [h]
      · have : charMatches c d = false := by simpa using h
        simp [this]
  | cons r rest =>
    cases s with
    | nil => simp [segsHere, stripSeg]
    | cons d s' =>
      simp only [segsHere, stripSeg]
      by_cases h : charMatches c d = true
      · simp [h]
      · have : charMatches c d = false := by simpa using h
        simp [this]

theorem specHere_tail (anch : Bool) (s : List Char) :
    specHere (if anch then [Tok.eol] else []) s = (!anch || s.isEmpty) := by
  cases anch <;> simp [specHere]

/-- wildcard keyword: tokens vs `*`-separated segments -/
theorem specHere_wild (anch : Bool) (cs s : List Char) :
    specHere (cs.map (tokOf true) ++ (if anch then [Tok.eol] else [])) s =
      segsHere anch (splitStar cs) s := by
  induction cs generalizing s with
  | nil =>
    simp only [List.map_nil, List.nil_append, specHere_tail, splitStar, segsHere, stripSeg]
  | cons c cs ih =>
    by_cases hc : c = '*'
    · subst hc
      have ht : tokOf true '*' = .wild := by decide
      simp only [List.map_cons, List.cons_append, ht, specHere, splitStar, beq_self_eq_true, if_true]
      have hne := splitStar_ne_nil cs
      cases hs : splitStar cs with
      | nil => exact absurd hs hne
      | cons r rest =>
        simp only [segsHere, stripSeg]
        congr 1
        funext t
        rw [ih t, hs]
    · have hc' : (c == '*') = false := by simpa using hc
      have hcw : (c == '*' && true) = false := by simp [hc']
      simp only [List.map_cons, List.cons_append]
      rw [specHere_lit true c hcw]
      simp only [splitStar, hc']
      have hne := splitStar_ne_nil cs
      cases hs : splitStar cs with
      | nil => exact absurd hs hne
      | cons seg rest =>
        simp only [Bool.false_eq_true, if_false]
        rw [segsHere_cons_char]
        cases s with
        | nil => rfl
        | cons d s' =>
          simp only
          rw [ih s', hs]

/-- non-wildcard keyword: the whole text is one literal segment -/
theorem specHere_exact (cs s : List Char) :
    specHere (cs.map (tokOf false)) s = segsHere false [cs] s := by
  induction cs generalizing s with
  | nil => simp [specHere, segsHere, stripSeg]
  | cons c cs ih =>
    simp only [List.map_cons]
    rw [specHere_lit false c (by simp), segsHere_cons_char]
    cases s with
    | nil => rfl
    | cons d s' => simp only; rw [ih s']

/-- tokens of a keyword against the segment specification, at one position -/
theorem specHere_toToks (k : Keyword) (s : List Char) :
    specHere (toToks k) s = segsHere (anchored k) (segmentsOf k) s := by
  rw [toToks_eq]
  by_cases hw : (k.ty == .wildcard) = true
  · simp only [hw, segmentsOf, if_true]
    exact specHere_wild (anchored k) (patText k) s
  · have hw' : (k.ty == .wildcard) = false := by simpa using hw
    have ha : anchored k = false := by simp [anchored, hw']
    simp only [hw', segmentsOf, ha, Bool.false_eq_true, if_false, List.append_nil]
    exact specHere_exact (patText k) s

/-- **the matcher decides the specification** -/
theorem isMatch_eq_kwSpec (k : Keyword) (l : List Char) : isMatch k l = kwSpec k l := by
  simp only [isMatch, kwSpec, find_isSome]
  congr 1
  funext s
  exact specHere_toToks k s

end Ag.Kw
