/-
Exact arithmetic in the binary64 model: rounding and `add` in terms of exact values (`HasVal`),
and the consequence needed for C14 — adding doubles that hold integers is exact as long as the
integers and their sums stay within ±2^53.
-/
import AgProofs.Lemmas.F64

namespace Ag
namespace F64

/-! ### `SameVal` at a shifted scale -/

theorem sameVal_shift {n m : Nat} {K E e : Int} (hK : K ≤ E) :
    SameVal (n * pow2 (E - K)) K m e ↔ SameVal n E m e := by
  unfold SameVal
  by_cases h1 : e ≤ K
  · rw [pow2_of_nonpos (by omega : e - K ≤ 0), pow2_of_nonpos (by omega : e - E ≤ 0),
      pow2_sub_split h1 hK, Nat.mul_assoc]
  · by_cases h2 : e ≤ E
    · rw [pow2_of_nonpos (by omega : K - e ≤ 0), pow2_of_nonpos (by omega : e - E ≤ 0),
        pow2_sub_split (by omega : K ≤ e) h2, Nat.mul_one, Nat.mul_one, ← Nat.mul_assoc]
      exact Nat.mul_left_inj (Nat.pos_iff_ne_zero.1 (pow2_pos _))
    · rw [pow2_of_nonpos (by omega : K - e ≤ 0), pow2_of_nonpos (by omega : E - e ≤ 0),
        pow2_sub_split hK (by omega : E ≤ e), Nat.mul_one, Nat.mul_one, ← Nat.mul_assoc]
      exact Nat.mul_left_inj (Nat.pos_iff_ne_zero.1 (pow2_pos _))

/-- every `n < 2^53` at a scale `eMin ≤ sc ≤ eMax` is a double -/
theorem representable_small (s : Bool) {n : Nat} {sc : Int} (hn : n ≠ 0) (h : n < two53)
    (h1 : eMin ≤ sc) (h2 : sc ≤ eMax) : ∃ m e, Canon (fin s m e) ∧ SameVal n sc m e := by
  obtain ⟨hc, hv⟩ := norm_spec hn h s
  rw [canon_fin] at hc
  by_cases hlow : eMin ≤ normE n + sc
  · refine ⟨normM n, normE n + sc, ?_, ?_⟩
    · rw [canon_fin]
      refine ⟨hc.1, hlow, ?_, ?_⟩
      · have : normE n ≤ 0 := by
          have := hc.2.2.1; simp only [normE, eMax] at *
          have hL : n.log2 < 53 := (Nat.log2_lt hn).2 (by rw [← two53_eq]; exact h)
          omega
        omega
      · intro hlt
        have := hc.2.2.2 hlt
        simp only [normE, eMin] at this; omega
    · unfold SameVal at hv ⊢
      have e1 : sc - (normE n + sc) = 0 - normE n := by omega
      have e2 : normE n + sc - sc = normE n - 0 := by omega
      rw [e1, e2, hv]
  · refine ⟨n * pow2 (sc - eMin), eMin, ?_, ?_⟩
    · have hL1 : n < 2 ^ (n.log2 + 1) := Nat.lt_log2_self
      obtain ⟨dd, hdd⟩ : ∃ dd : Nat, sc - eMin = dd := ⟨(sc - eMin).toNat, by omega⟩
      have hlt : n * pow2 (sc - eMin) < two52 := by
        rw [hdd, pow2_natCast, two52_eq]
        have hle : n.log2 + 1 + dd ≤ 52 := by simp only [normE] at hlow; omega
        calc n * 2 ^ dd < 2 ^ (n.log2 + 1) * 2 ^ dd :=
              Nat.mul_lt_mul_of_pos_right hL1 (Nat.two_pow_pos _)
          _ = 2 ^ (n.log2 + 1 + dd) := (Nat.pow_add ..).symm
          _ ≤ 2 ^ 52 := Nat.pow_le_pow_right (by decide) hle
      rw [canon_fin]
      refine ⟨?_, Int.le_refl _, by decide, fun _ => rfl⟩
      have : two52 < two53 := by decide
      omega
    · unfold SameVal
      rw [pow2_of_nonpos (by omega : eMin - sc ≤ 0), Nat.mul_one]

/-! ### `roundInt` in terms of exact values -/

theorem hasVal_zero (z : Bool) (K : Int) : HasVal (fin z 0 eMin) 0 K := by
  rw [hasVal_fin, smant_zero]; simp

/-- rounding `k·2^E` when that value is a double: the result has exactly that value (stated at
any scale `K ≤ E` with `K ≤` every canonical exponent, i.e. `K ≤ eMin`) -/
theorem roundInt_hasVal {k E K : Int} (z : Bool) (hK : K ≤ E) (hKm : K ≤ eMin)
    (hrep : k ≠ 0 → ∃ m e, Canon (fin (decide (k < 0)) m e) ∧
      SameVal (k.natAbs * pow2 (E - K)) K m e) :
    ∃ sR mR eR, roundInt k E z = fin sR mR eR ∧ Canon (fin sR mR eR) ∧
      HasVal (fin sR mR eR) (k * (pow2 (E - K) : Nat)) K := by
  by_cases hk : k = 0
  · subst hk
    refine ⟨z, 0, eMin, by simp [roundInt], by rw [canon_fin]; decide, ?_⟩
    simpa using hasVal_zero z K
  · obtain ⟨m, e, hc, hv⟩ := hrep hk
    have hv' := (sameVal_shift hK).1 hv
    refine ⟨_, m, e, roundInt_exact k E z m e hk hc hv', hc, ?_⟩
    have he : K ≤ e := by rw [canon_fin] at hc; omega
    unfold SameVal at hv
    rw [pow2_of_nonpos (by omega : K - e ≤ 0), Nat.mul_one] at hv
    rw [hasVal_fin, pow2_of_nonpos (by omega : K - e ≤ 0), ← smant_mul, ← hv, smant_mul,
      smant_of_int]
    simp

/-! ### `add` in terms of exact values (scale `eMin`) -/

theorem hasVal_eMin_scaled {s : Bool} {m : Nat} {e k E : Int} (h : HasVal (fin s m e) k eMin)
    (hE : eMin ≤ E) (hEe : E ≤ e) : scaled E s m e * (pow2 (E - eMin) : Nat) = k := by
  have := hasVal_scaled h (by omega : eMin ≤ e) (Int.le_refl _)
  rw [Int.sub_self, pow2_zero] at this
  simp only [Int.natCast_one, Int.mul_one] at this
  rw [← this]
  unfold scaled
  rw [pow2_sub_split hE hEe, Int.natCast_mul, Int.mul_assoc]

theorem add_hasVal {s1 s2 : Bool} {m1 m2 : Nat} {e1 e2 ka kb : Int}
    (h1 : eMin ≤ e1) (h2 : eMin ≤ e2)
    (ha : HasVal (fin s1 m1 e1) ka eMin) (hb : HasVal (fin s2 m2 e2) kb eMin)
    (hrep : ka + kb ≠ 0 → ∃ m e, Canon (fin (decide (ka + kb < 0)) m e) ∧
      SameVal (ka + kb).natAbs eMin m e) :
    ∃ sR mR eR, add (fin s1 m1 e1) (fin s2 m2 e2) = fin sR mR eR ∧ Canon (fin sR mR eR) ∧
      HasVal (fin sR mR eR) (ka + kb) eMin := by
  have hE : eMin ≤ min e1 e2 := by omega
  have e1' := hasVal_eMin_scaled ha hE (by omega)
  have e2' := hasVal_eMin_scaled hb hE (by omega)
  have hsum : (scaled (min e1 e2) s1 m1 e1 + scaled (min e1 e2) s2 m2 e2) *
      (pow2 (min e1 e2 - eMin) : Nat) = ka + kb := by
    rw [Int.add_mul, e1', e2']
  have hadd : add (fin s1 m1 e1) (fin s2 m2 e2) =
      roundInt (scaled (min e1 e2) s1 m1 e1 + scaled (min e1 e2) s2 m2 e2) (min e1 e2)
        (s1 && s2) := rfl
  rw [hadd]
  have hpos : (0 : Int) < (pow2 (min e1 e2 - eMin) : Nat) := by
    have := pow2_pos (min e1 e2 - eMin); omega
  have := roundInt_hasVal (k := scaled (min e1 e2) s1 m1 e1 + scaled (min e1 e2) s2 m2 e2)
    (E := min e1 e2) (K := eMin) (s1 && s2) hE (Int.le_refl _) (by
      intro hk
      have hne : ka + kb ≠ 0 := by
        rw [← hsum]; exact Int.mul_ne_zero hk (by omega)
      obtain ⟨m, e, hc, hv⟩ := hrep hne
      refine ⟨m, e, ?_, ?_⟩
      · have : decide (scaled (min e1 e2) s1 m1 e1 + scaled (min e1 e2) s2 m2 e2 < 0) =
            decide (ka + kb < 0) := by
          rw [← hsum]
          congr 1
          exact propext ⟨fun h => Int.mul_neg_of_neg_of_pos h hpos,
            fun h => by
              rcases Int.lt_trichotomy (scaled (min e1 e2) s1 m1 e1 + scaled (min e1 e2) s2 m2 e2) 0
                with h' | h' | h'
              · exact h'
              · rw [h'] at h; simp at h
              · have := Int.mul_pos h' hpos; omega⟩
        rw [this]; exact hc
      · have : (scaled (min e1 e2) s1 m1 e1 + scaled (min e1 e2) s2 m2 e2).natAbs *
            pow2 (min e1 e2 - eMin) = (ka + kb).natAbs := by
          rw [← hsum, Int.natAbs_mul, Int.natAbs_natCast]
        rw [this]; exact hv)
  rw [hsum] at this
  exact this

/-! ### adding integer-valued doubles is exact within ±2^53 -/

theorem hasVal_sign {s : Bool} {m : Nat} {e k K : Int} (h : HasVal (fin s m e) k K) (hk : k ≠ 0) :
    s = decide (k < 0) := by
  rw [hasVal_fin] at h
  have hP : (0 : Int) < (pow2 (e - K) : Nat) := by have := pow2_pos (e - K); omega
  have hQ : (0 : Int) < (pow2 (K - e) : Nat) := by have := pow2_pos (K - e); omega
  cases s
  · rw [smant_false] at h
    have h0 : (0 : Int) ≤ (m : Int) * (pow2 (e - K) : Nat) := Int.mul_nonneg (by omega) (by omega)
    have : ¬ k < 0 := fun hlt => by
      have := Int.mul_neg_of_neg_of_pos hlt hQ; omega
    simp [this]
  · rw [smant_true] at h
    have h0 : -(m : Int) * (pow2 (e - K) : Nat) ≤ 0 := by
      rw [Int.neg_mul]
      have : (0 : Int) ≤ (m : Int) * (pow2 (e - K) : Nat) := Int.mul_nonneg (by omega) (by omega)
      omega
    have : k < 0 := by
      rcases Int.lt_trichotomy k 0 with h1 | h1 | h1
      · exact h1
      · exact absurd h1 hk
      · have := Int.mul_pos h1 hQ; omega
    simp [this]

/-- the shape of `i as f64` for |i| ≤ 2^53 -/
theorem ofInt_fin_form {i : Int} (h : i.natAbs ≤ two53) :
    ∃ m e, ofInt i = fin (decide (i < 0)) m e ∧ Canon (fin (decide (i < 0)) m e) ∧
      HasVal (fin (decide (i < 0)) m e) i 0 := by
  by_cases h0 : i = 0
  · subst h0
    exact ⟨0, eMin, rfl, by rw [canon_fin]; decide, hasVal_zero false 0⟩
  · obtain ⟨hv, hc⟩ := ofInt_hasVal h
    cases hF : ofInt i with
    | nan => rw [hF] at hv; exact absurd hv (by simp [HasVal])
    | inf b => rw [hF] at hv; exact absurd hv (by simp [HasVal])
    | fin s m e =>
      rw [hF] at hv hc
      have hs := hasVal_sign hv h0
      subst hs
      exact ⟨m, e, rfl, hc, hv⟩

theorem sameVal_of_hasVal {s : Bool} {m : Nat} {e k K : Int} (h : HasVal (fin s m e) k K) :
    SameVal k.natAbs K m e := by
  rw [hasVal_fin] at h
  have := congrArg Int.natAbs h
  rw [Int.natAbs_mul, Int.natAbs_mul, smant_natAbs, Int.natAbs_natCast, Int.natAbs_natCast] at this
  unfold SameVal
  exact this.symm

/-- **`(a as f64) + (b as f64) = (a + b) as f64`** when `a`, `b` and `a + b` are within ±2^53
(literally, signed zeros included: `x + (-x)` is `+0` in the model as in IEEE round-to-nearest) -/
theorem add_ofInt_exact {a b : Int} (ha : a.natAbs ≤ two53) (hb : b.natAbs ≤ two53)
    (hab : (a + b).natAbs ≤ two53) : add (ofInt a) (ofInt b) = ofInt (a + b) := by
  obtain ⟨m1, e1, hA, cA, vA⟩ := ofInt_fin_form ha
  obtain ⟨m2, e2, hB, cB, vB⟩ := ofInt_fin_form hb
  rw [hA, hB]
  have cA' := cA; rw [canon_fin] at cA'
  have cB' := cB; rw [canon_fin] at cB'
  have h1 : eMin ≤ e1 := cA'.2.1
  have h2 : eMin ≤ e2 := cB'.2.1
  have hE : eMin ≤ min e1 e2 := by omega
  have rA := hasVal_rescale vA (by decide : eMin ≤ 0)
  have rB := hasVal_rescale vB (by decide : eMin ≤ 0)
  have sA := hasVal_eMin_scaled rA hE (by omega)
  have sB := hasVal_eMin_scaled rB hE (by omega)
  have hsum : (scaled (min e1 e2) (decide (a < 0)) m1 e1 + scaled (min e1 e2) (decide (b < 0)) m2 e2) *
      (pow2 (min e1 e2 - eMin) : Nat) = (a + b) * (pow2 (0 - eMin) : Nat) := by
    rw [Int.add_mul, sA, sB, Int.add_mul]
  have hadd : add (fin (decide (a < 0)) m1 e1) (fin (decide (b < 0)) m2 e2) =
      roundInt (scaled (min e1 e2) (decide (a < 0)) m1 e1 + scaled (min e1 e2) (decide (b < 0)) m2 e2)
        (min e1 e2) (decide (a < 0) && decide (b < 0)) := rfl
  rw [hadd]
  generalize hk : scaled (min e1 e2) (decide (a < 0)) m1 e1 +
    scaled (min e1 e2) (decide (b < 0)) m2 e2 = k at hsum
  have hP : (0 : Int) < (pow2 (min e1 e2 - eMin) : Nat) := by
    have := pow2_pos (min e1 e2 - eMin); omega
  have hQ : (0 : Int) < (pow2 (0 - eMin) : Nat) := by
    have := pow2_pos (0 - eMin); omega
  by_cases h0 : a + b = 0
  · have hk0 : k = 0 := by
      rw [h0, Int.zero_mul] at hsum
      rcases Int.mul_eq_zero.1 hsum with h | h
      · exact h
      · omega
    rw [hk0, h0]
    have hz : (decide (a < 0) && decide (b < 0)) = false := by
      simp only [Bool.and_eq_false_iff, decide_eq_false_iff_not]; omega
    rw [hz]; rfl
  · have hk0 : k ≠ 0 := by
      intro hk0; rw [hk0, Int.zero_mul] at hsum
      rcases Int.mul_eq_zero.1 hsum.symm with h | h
      · exact h0 h
      · omega
    obtain ⟨m, e, hS, cS, vS⟩ := ofInt_fin_form hab
    rw [hS]
    have hsign : decide (k < 0) = decide (a + b < 0) := by
      congr 1
      apply propext
      constructor
      · intro hlt
        have h1 := Int.mul_neg_of_neg_of_pos hlt hP
        rw [hsum] at h1
        rcases Int.lt_trichotomy (a + b) 0 with h | h | h
        · exact h
        · exact absurd h h0
        · have := Int.mul_pos h hQ; omega
      · intro hlt
        have h1 := Int.mul_neg_of_neg_of_pos hlt hQ
        rw [← hsum] at h1
        rcases Int.lt_trichotomy k 0 with h | h | h
        · exact h
        · exact absurd h hk0
        · have := Int.mul_pos h hP; omega
    rw [← hsign]
    apply roundInt_exact k (min e1 e2) _ m e hk0
    · rw [hsign]; exact cS
    · have sv := sameVal_of_hasVal vS
      have sv' := (sameVal_shift (n := (a + b).natAbs) (m := m) (e := e)
        (by decide : eMin ≤ (0 : Int))).2 sv
      have hnat : k.natAbs * pow2 (min e1 e2 - eMin) = (a + b).natAbs * pow2 (0 - eMin) := by
        have := congrArg Int.natAbs hsum
        rwa [Int.natAbs_mul, Int.natAbs_mul, Int.natAbs_natCast, Int.natAbs_natCast] at this
      rw [← hnat] at sv'
      exact (sameVal_shift hE).1 sv'

/-- right-commutativity on integer-valued doubles: the order of two additions does not matter -/
theorem add_right_comm_ofInt {t x y : Int} (ht : t.natAbs ≤ two53) (hx : x.natAbs ≤ two53)
    (hy : y.natAbs ≤ two53) (htx : (t + x).natAbs ≤ two53) (hty : (t + y).natAbs ≤ two53)
    (htxy : (t + x + y).natAbs ≤ two53) :
    add (add (ofInt t) (ofInt x)) (ofInt y) = add (add (ofInt t) (ofInt y)) (ofInt x) := by
  rw [add_ofInt_exact ht hx htx, add_ofInt_exact htx hy htxy, add_ofInt_exact ht hy hty,
    add_ofInt_exact hty hx (by rw [Int.add_right_comm]; exact htxy), Int.add_right_comm]

/-! ### sums of lists -/

/-- every element and every running sum (starting from `t`) is within ±2^53 -/
def PartialSumsOK : Int → List Int → Prop
  | _, [] => True
  | t, x :: xs => x.natAbs ≤ two53 ∧ (t + x).natAbs ≤ two53 ∧ PartialSumsOK (t + x) xs

/-- folding `+` over doubles of integers gives the double of the integer sum, as long as every
element and every partial sum is within ±2^53 -/
theorem foldl_add_ofInt (l : List Int) : ∀ (t : Int), t.natAbs ≤ two53 → PartialSumsOK t l →
    (l.map ofInt).foldl add (ofInt t) = ofInt (t + l.sum) := by
  induction l with
  | nil => intro t _ _; simp
  | cons x xs ih =>
    intro t ht h
    obtain ⟨hx, htx, hrest⟩ := h
    simp only [List.map_cons, List.foldl_cons, List.sum_cons]
    rw [add_ofInt_exact ht hx htx, ih (t + x) htx hrest, Int.add_assoc]

theorem ofInt_zero_eq : ofInt 0 = zero := rfl

theorem sum_ofInt_exact (l : List Int) (h : PartialSumsOK 0 l) :
    (l.map ofInt).foldl add zero = ofInt l.sum := by
  have := foldl_add_ofInt l 0 (by decide) h
  rwa [Int.zero_add, ofInt_zero_eq] at this

/-- a sufficient condition that does not depend on the order: Σ|x| ≤ 2^53 -/
theorem partialSumsOK_of_abs_sum (l : List Int) : ∀ t : Int,
    t.natAbs + (l.map Int.natAbs).sum ≤ two53 → PartialSumsOK t l := by
  induction l with
  | nil => intro _ _; trivial
  | cons x xs ih =>
    intro t h
    simp only [List.map_cons, List.sum_cons] at h
    refine ⟨by omega, by omega, ih (t + x) (by omega)⟩

/-! ### the same on lists of doubles (the form C14 uses) -/

/-- the integer a double holds (meaningful when `IntValued`) -/
def toInt : F64 → Int
  | fin s m e => truncInt s m e
  | _ => 0

/-- `x` is `i as f64` for an integer `i` (namely `toInt x`) -/
def IntValued (x : F64) : Prop := x = ofInt (toInt x)

theorem foldl_add_intValued (vals : List F64) : ∀ (t : Int),
    (∀ x ∈ vals, IntValued x) →
    t.natAbs + (vals.map (fun x => (toInt x).natAbs)).sum ≤ two53 →
    vals.foldl add (ofInt t) = ofInt (t + (vals.map toInt).sum) := by
  induction vals with
  | nil => intro t _ _; simp
  | cons x xs ih =>
    intro t hint hb
    simp only [List.map_cons, List.sum_cons, List.foldl_cons] at hb ⊢
    have hx : IntValued x := hint x (by simp)
    rw [hx, add_ofInt_exact (by omega) (by omega) (by omega), ← hx,
      ih (t + toInt x) (fun y hy => hint y (by simp [hy])) (by omega), Int.add_assoc]

theorem perm_sum_map_int {α} (f : α → Int) {l l' : List α} (h : l.Perm l') :
    (l.map f).sum = (l'.map f).sum := by
  induction h with
  | nil => rfl
  | cons x _ ih => simp [ih]
  | swap x y l => simp only [List.map_cons, List.sum_cons]; omega
  | trans _ _ ih1 ih2 => rw [ih1, ih2]

theorem perm_sum_map_nat {α} (f : α → Nat) {l l' : List α} (h : l.Perm l') :
    (l.map f).sum = (l'.map f).sum := by
  induction h with
  | nil => rfl
  | cons x _ ih => simp [ih]
  | swap x y l => simp only [List.map_cons, List.sum_cons]; omega
  | trans _ _ ih1 ih2 => rw [ih1, ih2]

/-- an exact integer sum does not depend on the order of the addends -/
theorem foldl_add_intValued_perm {vals vals' : List F64} (hp : vals.Perm vals')
    (hint : ∀ x ∈ vals, IntValued x)
    (hb : (vals.map (fun x => (toInt x).natAbs)).sum ≤ two53) :
    vals.foldl add zero = vals'.foldl add zero := by
  have hint' : ∀ x ∈ vals', IntValued x := fun x hx => hint x (hp.mem_iff.2 hx)
  have hb' : (vals'.map (fun x => (toInt x).natAbs)).sum ≤ two53 := by
    rw [← perm_sum_map_nat _ hp]; exact hb
  have h1 := foldl_add_intValued vals 0 hint (by simpa using hb)
  have h2 := foldl_add_intValued vals' 0 hint' (by simpa using hb')
  rw [ofInt_zero_eq] at h1 h2
  rw [h1, h2, perm_sum_map_int toInt hp]

/-! ### the running minimum commutes on NaN-free data -/

theorem lt_eq_ocmp {v m : F64} (hv : v ≠ nan) (hm : m ≠ nan) :
    F64.lt v m = (ocmp v m == .lt) := by
  cases v <;> cases m <;> simp_all [F64.lt, ocmp, pcmp]

theorem lt_nan_right (v : F64) : F64.lt v nan = false := by
  cases v <;> simp [F64.lt, pcmp]

/-- one step of `min` as the accumulator computes it -/
def minStep (m v : F64) : F64 := if F64.lt v m then v else m

/-- the min step is right-commutative on values that are not NaN and among which `Equal`
(`ocmp … = .eq`) means identical — e.g. canonical doubles without both zeros, or doubles of
integers -/
theorem minStep_comm {m x y : F64} (hx : x ≠ nan) (hy : y ≠ nan)
    (hanti : ocmp x y = .eq → x = y) :
    minStep (minStep m x) y = minStep (minStep m y) x := by
  unfold minStep
  by_cases hm : m = nan
  · subst hm; simp [lt_nan_right]
  rw [lt_eq_ocmp hx hm, lt_eq_ocmp hy hm]
  by_cases hxm : ocmp x m = .lt <;> by_cases hym : ocmp y m = .lt <;>
    simp only [hxm, hym, beq_self_eq_true, if_true, if_false, beq_iff_eq]
  · rw [lt_eq_ocmp hy hx, lt_eq_ocmp hx hy]
    cases hxy : ocmp x y
    · have hyx : ocmp y x = .gt := by rw [← ocmp_swap, hxy]; rfl
      simp [hyx]
    · rw [hanti hxy]; simp
    · have hyx : ocmp y x = .lt := by rw [← ocmp_swap, hxy]; rfl
      simp [hyx]
  · rw [lt_eq_ocmp hy hx]
    have : ocmp y x ≠ .lt := fun h => hym (Std.TransCmp.lt_trans h hxm)
    simp [this, hxm, lt_eq_ocmp hx hm]
  · rw [lt_eq_ocmp hx hy]
    have : ocmp x y ≠ .lt := fun h => hxm (Std.TransCmp.lt_trans h hym)
    simp [this, hym, lt_eq_ocmp hy hm]
  · simp [hxm, hym, lt_eq_ocmp hx hm, lt_eq_ocmp hy hm]

/-- doubles of integers within ±2^53: `Equal` means identical, and none is NaN -/
theorem intValued_antisymm {x y : F64} (hx : IntValued x) (hy : IntValued y)
    (bx : (toInt x).natAbs ≤ two53) (by' : (toInt y).natAbs ≤ two53) (h : ocmp x y = .eq) :
    x = y := by
  rw [hx, hy, ocmp_ofInt bx by', Int.compare_eq_eq] at h
  rw [hx, hy, h]

theorem intValued_ne_nan {x : F64} (hx : IntValued x) (bx : (toInt x).natAbs ≤ two53) :
    x ≠ nan := by
  obtain ⟨m, e, h, -, -⟩ := ofInt_fin_form bx
  rw [hx, h]; simp

/-! ### canonical doubles: `Equal` means identical, except for the two zeros -/

theorem canon_mant_unique {m1 m2 : Nat} {e1 e2 : Int} (c1 : Canon (fin false m1 e1))
    (c2 : Canon (fin false m2 e2)) (h0 : m1 ≠ 0)
    (h : m1 * pow2 (e1 - eMin) = m2 * pow2 (e2 - eMin)) : m1 = m2 ∧ e1 = e2 := by
  rw [canon_fin] at c1 c2
  have key : ∀ {ma mb : Nat} {ea eb : Int}, ma < two53 → (mb < two52 → eb = eMin) → eMin ≤ ea →
      ea < eb → mb ≠ 0 → ma * pow2 (ea - eMin) = mb * pow2 (eb - eMin) → False := by
    intro ma mb ea eb hma hsub hea hlt hmb heq
    rw [pow2_sub_split hea (by omega : ea ≤ eb), ← Nat.mul_assoc] at heq
    have hcancel := Nat.eq_of_mul_eq_mul_right (pow2_pos _) heq
    have h2 : 2 ≤ pow2 (eb - ea) := by
      have : pow2 1 ≤ pow2 (eb - ea) := pow2_le_pow2 (by omega)
      exact this
    have hmb52 : two52 ≤ mb := by
      apply Nat.le_of_not_lt; intro hl; have := hsub hl; omega
    have : mb * 2 ≤ mb * pow2 (eb - ea) := Nat.mul_le_mul_left _ h2
    have h53 : two53 = two52 * 2 := by decide
    omega
  have hm2 : m2 ≠ 0 := by
    intro h2; rw [h2, Nat.zero_mul] at h
    rcases Nat.mul_eq_zero.1 h with h' | h'
    · exact h0 h'
    · have := pow2_pos (e1 - eMin); omega
  have he : e1 = e2 := by
    rcases Int.lt_trichotomy e1 e2 with hlt | heq | hgt
    · exact (key c1.1 c2.2.2.2 c1.2.1 hlt hm2 h).elim
    · exact heq
    · exact (key c2.1 c1.2.2.2 c2.2.1 hgt h0 h.symm).elim
  subst he
  exact ⟨Nat.eq_of_mul_eq_mul_right (pow2_pos _) h, rfl⟩

theorem canon_eq_of_ocmp_eq {x y : F64} (cx : Canon x) (cy : Canon y) (hx : x ≠ nan)
    (hy : y ≠ nan) (h : ocmp x y = .eq) : x = y ∨ (x.isZero = true ∧ y.isZero = true) := by
  cases x with
  | nan => exact absurd rfl hx
  | inf a =>
    cases y with
    | nan => exact absurd rfl hy
    | inf b => left; cases a <;> cases b <;> simp_all [ocmp, pcmp]
    | fin s m e => cases a <;> simp [ocmp, pcmp] at h
  | fin s1 m1 e1 =>
    cases y with
    | nan => exact absurd rfl hy
    | inf b => cases b <;> simp [ocmp, pcmp] at h
    | fin s2 m2 e2 =>
      have c1 := cx; have c2 := cy
      rw [canon_fin] at c1 c2
      rw [ocmp_fin, cmpFin_scale _ _ _ _ _ _ eMin c1.2.1 c2.2.1, Int.compare_eq_eq] at h
      unfold scaled at h
      have hn := congrArg Int.natAbs h
      rw [Int.natAbs_mul, Int.natAbs_mul, smant_natAbs, smant_natAbs, Int.natAbs_natCast,
        Int.natAbs_natCast] at hn
      by_cases h0 : m1 = 0
      · right
        subst h0
        rw [Nat.zero_mul] at hn
        have : m2 = 0 := by
          rcases Nat.mul_eq_zero.1 hn.symm with h' | h'
          · exact h'
          · have := pow2_pos (e2 - eMin); omega
        subst this
        exact ⟨rfl, rfl⟩
      · left
        obtain ⟨hm, he⟩ := canon_mant_unique (m1 := m1) (m2 := m2) c1 c2 h0 hn
        subst hm he
        have hs : s1 = s2 := by
          have hP : (0 : Int) < (pow2 (e1 - eMin) : Nat) := by
            have := pow2_pos (e1 - eMin); omega
          have hm1 : (0 : Int) < (m1 : Int) := by omega
          have hpos := Int.mul_pos hm1 hP
          cases s1 <;> cases s2 <;> simp only [smant_false, smant_true, Int.neg_mul] at h <;>
            first | rfl | omega
        rw [hs]

end F64
end Ag
