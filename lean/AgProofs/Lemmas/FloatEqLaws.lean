/-
`OrderedFloat`'s equality is an equivalence relation (from the total-preorder lemmas on `F64.ocmp`),
which discharges the `KeyLaws` hypothesis of C01/C14 unconditionally.
-/
import AgProofs.Lemmas.F64
import AgProofs.Lemmas.ValueEq

namespace Ag

open F64 in
theorem floatEqLaws : Value.FloatEqLaws where
  refl := fun a => by simp [oeq, ocmp_self]
  symm := fun a b h => by
    have h1 : ocmp a b = .eq := (oeq_iff a b).mp h
    have h2 : (ocmp a b).swap = ocmp b a := ocmp_swap a b
    rw [h1] at h2
    exact (oeq_iff b a).mpr h2.symm
  trans := fun a b c hab hbc => by
    have h1 : ocmp a b = .eq := (oeq_iff a b).mp hab
    have h2 : ocmp b c = .eq := (oeq_iff b c).mp hbc
    exact (oeq_iff a c).mpr (Std.TransCmp.eq_trans h1 h2)

end Ag
