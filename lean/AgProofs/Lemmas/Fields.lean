/-
Lemmas about `Ag.Fields` (key-sorted association lists): lookup after insert / erase.
None of them needs the sortedness invariant.
-/
import AgModel.Record

namespace Ag.Fields

theorem get_put_eq (k : String) (v : Value) (f : Fields) : get k (put k v f) = some v := by
  induction f with
  | nil => simp [put, get]
  | cons h t ih =>
    obtain ⟨k', v'⟩ := h
    simp only [put]
    split
    · simp [get]
    · split
      · simp [get]
      · rename_i h1 h2
        have : (k == k') = false := by simpa using h2
        simp [get, this, ih]

theorem get_put_ne (k k' : String) (v : Value) (f : Fields) (h : k ≠ k') :
    get k (put k' v f) = get k f := by
  induction f with
  | nil => simp [put, get, h]
  | cons hd t ih =>
    obtain ⟨k0, v0⟩ := hd
    simp only [put]
    split
    · simp [get, h]
    · split
      · rename_i _ h2
        have e : k' = k0 := by simpa using h2
        subst e
        simp [get, h]
      · simp only [get]
        split
        · rfl
        · exact ih

theorem get_foldl_put_ne (k : String) (kvs : List (String × Value)) :
    ∀ (f : Fields), (∀ kv ∈ kvs, kv.1 ≠ k) →
      get k (kvs.foldl (fun d kv => put kv.1 kv.2 d) f) = get k f := by
  induction kvs with
  | nil => intro f _; rfl
  | cons kv rest ih =>
    intro f h
    simp only [List.foldl_cons]
    rw [ih]
    · exact get_put_ne k kv.1 kv.2 f (fun e => h kv (by simp) e.symm)
    · intro x hx; exact h x (by simp [hx])

theorem get_filter (k : String) (p : String → Bool) (f : Fields) :
    get k (f.filter (fun kv => p kv.1)) = if p k then get k f else none := by
  induction f with
  | nil => simp [get]
  | cons hd t ih =>
    obtain ⟨k0, v0⟩ := hd
    by_cases hp : p k0
    · simp only [List.filter_cons, hp, if_true, get]
      by_cases hk : (k == k0) = true
      · have : k = k0 := by simpa using hk
        subst this; simp [hp]
      · simp only [hk]; exact ih
    · simp only [List.filter_cons, hp, get]
      by_cases hk : (k == k0) = true
      · have : k = k0 := by simpa using hk
        subst this; simp [hp, ih]
      · simp [hk, ih]

end Ag.Fields
