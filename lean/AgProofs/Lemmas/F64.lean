/-
Helper lemmas about the binary64 model (`AgModel/F64.lean`): powers of two, the comparison
`cmpFin` as an integer comparison at any common scale, `OrderedFloat`'s order `ocmp` as a total
preorder, and exactness of `roundRat`/`roundInt`/`ofInt` on representable inputs.
-/
import AgModel.Value

namespace Ag
namespace F64

/-! ### powers of two -/

theorem pow2_pos (k : Int) : 0 < pow2 k := Nat.two_pow_pos _

theorem pow2_of_nonpos {k : Int} (h : k ≤ 0) : pow2 k = 1 := by
  have : k.toNat = 0 := by omega
  simp [pow2, this]

theorem pow2_zero : pow2 0 = 1 := rfl

theorem pow2_add {a b : Int} (ha : 0 ≤ a) (hb : 0 ≤ b) : pow2 (a + b) = pow2 a * pow2 b := by
  have : (a + b).toNat = a.toNat + b.toNat := by omega
  simp [pow2, this, Nat.pow_add]

theorem pow2_natCast (n : Nat) : pow2 (n : Int) = 2 ^ n := by simp [pow2]

theorem pow2_le_pow2 {a b : Int} (h : a ≤ b) : pow2 a ≤ pow2 b := by
  apply Nat.pow_le_pow_right (by decide); omega

theorem pow2_lt_pow2 {a b : Int} (h : a < b) (hb : 0 < b) : pow2 a < pow2 b := by
  apply Nat.pow_lt_pow_right (by decide); omega

/-- `pow2 (a - c) = pow2 (a - b) * pow2 (b - c)` for `c ≤ b ≤ a` -/
theorem pow2_sub_split {a b c : Int} (h1 : c ≤ b) (h2 : b ≤ a) :
    pow2 (a - c) = pow2 (a - b) * pow2 (b - c) := by
  rw [← pow2_add (by omega) (by omega)]; congr 1; omega

/-! ### `compare` on `Int` is invariant under positive scaling -/

theorem compare_mul_pos (x y : Int) (c : Nat) (hc : 0 < c) :
    compare (x * (c : Int)) (y * (c : Int)) = compare x y := by
  have hc' : (0 : Int) < c := by omega
  rw [Int.compare_eq_ite_lt, Int.compare_eq_ite_lt x y]
  have h1 : x * (c : Int) < y * c ↔ x < y := Int.mul_lt_mul_right hc'
  have h2 : y * (c : Int) < x * c ↔ y < x := Int.mul_lt_mul_right hc'
  simp only [h1, h2]

/-! ### signed mantissa -/

theorem smant_false (m : Nat) : smant false m = m := rfl
theorem smant_true (m : Nat) : smant true m = -(m : Int) := rfl
theorem smant_zero (s : Bool) : smant s 0 = 0 := by cases s <;> simp [smant]
theorem smant_natAbs (s : Bool) (m : Nat) : (smant s m).natAbs = m := by
  cases s <;> simp [smant]
theorem smant_not (s : Bool) (m : Nat) : smant (!s) m = -smant s m := by
  cases s <;> simp [smant]
theorem smant_of_int (k : Int) : smant (decide (k < 0)) k.natAbs = k := by
  by_cases h : k < 0 <;> simp [smant, h] <;> omega

theorem smant_mul (s : Bool) (m c : Nat) : smant s (m * c) = smant s m * (c : Int) := by
  cases s <;> simp [smant, Int.neg_mul]

theorem canon_fin (s : Bool) (m : Nat) (e : Int) :
    Canon (fin s m e) ↔ m < two53 ∧ eMin ≤ e ∧ e ≤ eMax ∧ (m < two52 → e = eMin) := Iff.rfl

/-! ### `cmpFin` at any common scale -/

/-- the value of a finite double in units of `2^E` (an integer whenever `E ≤ e`) -/
def scaled (E : Int) (s : Bool) (m : Nat) (e : Int) : Int := smant s m * (pow2 (e - E) : Nat)

theorem cmpFin_scale (s1 : Bool) (m1 : Nat) (e1 : Int) (s2 : Bool) (m2 : Nat) (e2 : Int)
    (E : Int) (h1 : E ≤ e1) (h2 : E ≤ e2) :
    cmpFin s1 m1 e1 s2 m2 e2 = compare (scaled E s1 m1 e1) (scaled E s2 m2 e2) := by
  unfold cmpFin scaled
  have hE : E ≤ min e1 e2 := by omega
  rw [pow2_sub_split hE (by omega : min e1 e2 ≤ e1), pow2_sub_split hE (by omega : min e1 e2 ≤ e2)]
  simp only [Int.natCast_mul, ← Int.mul_assoc]
  exact (compare_mul_pos _ _ _ (pow2_pos _)).symm

theorem cmpFin_swap (s1 : Bool) (m1 : Nat) (e1 : Int) (s2 : Bool) (m2 : Nat) (e2 : Int) :
    (cmpFin s1 m1 e1 s2 m2 e2).swap = cmpFin s2 m2 e2 s1 m1 e1 := by
  rw [cmpFin_scale s1 m1 e1 s2 m2 e2 (min e1 e2) (by omega) (by omega),
    cmpFin_scale s2 m2 e2 s1 m1 e1 (min e1 e2) (by omega) (by omega), Int.compare_swap]

theorem cmpFin_self (s : Bool) (m : Nat) (e : Int) : cmpFin s m e s m e = .eq := by
  simp [cmpFin]

theorem cmpFin_isLE_trans {s1 s2 s3 : Bool} {m1 m2 m3 : Nat} {e1 e2 e3 : Int}
    (h12 : (cmpFin s1 m1 e1 s2 m2 e2).isLE) (h23 : (cmpFin s2 m2 e2 s3 m3 e3).isLE) :
    (cmpFin s1 m1 e1 s3 m3 e3).isLE := by
  have E1 : min e1 (min e2 e3) ≤ e1 := by omega
  have E2 : min e1 (min e2 e3) ≤ e2 := by omega
  have E3 : min e1 (min e2 e3) ≤ e3 := by omega
  rw [cmpFin_scale _ _ _ _ _ _ _ E1 E2] at h12
  rw [cmpFin_scale _ _ _ _ _ _ _ E2 E3] at h23
  rw [cmpFin_scale _ _ _ _ _ _ _ E1 E3]
  exact Std.TransCmp.isLE_trans h12 h23

/-! ### `ocmp` (the order `OrderedFloat<f64>` implements) is a total preorder on all values -/

theorem ocmp_fin (s1 : Bool) (m1 : Nat) (e1 : Int) (s2 : Bool) (m2 : Nat) (e2 : Int) :
    ocmp (fin s1 m1 e1) (fin s2 m2 e2) = cmpFin s1 m1 e1 s2 m2 e2 := rfl

theorem ocmp_swap (a b : F64) : (ocmp a b).swap = ocmp b a := by
  cases a <;> cases b <;> simp [ocmp, pcmp, isNaN, cmpFin_swap]
  all_goals (repeat' split) <;> simp_all

theorem ocmp_self (a : F64) : ocmp a a = .eq := by
  cases a <;> simp [ocmp, pcmp, isNaN, cmpFin_self]

theorem ocmp_isLE_trans {a b c : F64} (h1 : (ocmp a b).isLE) (h2 : (ocmp b c).isLE) :
    (ocmp a c).isLE := by
  cases a <;> cases b <;> cases c <;> simp_all [ocmp, pcmp, isNaN]
  case fin.fin.fin => exact cmpFin_isLE_trans h1 h2
  all_goals (revert h1 h2; repeat' split) <;> simp_all

instance instTransCmpOcmp : Std.TransCmp ocmp where
  eq_swap := by intro a b; rw [← ocmp_swap b a]
  isLE_trans := ocmp_isLE_trans

theorem oeq_iff (a b : F64) : oeq a b = true ↔ ocmp a b = .eq := by simp [oeq]

/-! ### `roundRat` restated with named stages -/

/-- numerator and denominator of `n/d · 2^(sc - e)` -/
def mantAt (n d : Nat) (sc e : Int) : Nat × Nat :=
  if sc - e ≥ 0 then (n * pow2 (sc - e), d) else (n, d * pow2 (-(sc - e)))

def fixExp (n d : Nat) (sc e0 : Int) : Int :=
  let (a, b) := mantAt n d sc e0
  if a / b ≥ two53 then e0 + 1 else if a / b < two52 then e0 - 1 else e0

def finishAt (neg : Bool) (n d : Nat) (sc e2 : Int) : F64 :=
  let (a, b) := mantAt n d sc e2
  let m := divRoundEven a b
  let (m, e3) := if m ≥ two53 then (m / 2, e2 + 1) else (m, e2)
  if e3 > eMax then inf neg else fin neg m e3

def clampMin (e : Int) : Int := if e < eMin then eMin else e

theorem roundRat_eq (neg : Bool) (n d : Nat) (sc : Int) (hn : n ≠ 0) :
    roundRat neg n d sc =
      finishAt neg n d sc (clampMin (fixExp n d sc ((n.log2 : Int) - (d.log2 : Int) + sc - 52))) := by
  unfold roundRat
  rw [if_neg hn]
  rfl

theorem fixExp_eq (n d : Nat) (sc e0 : Int) : fixExp n d sc e0 =
    if (mantAt n d sc e0).1 / (mantAt n d sc e0).2 ≥ two53 then e0 + 1
    else if (mantAt n d sc e0).1 / (mantAt n d sc e0).2 < two52 then e0 - 1 else e0 := by
  unfold fixExp; rcases mantAt n d sc e0 with ⟨a, b⟩; rfl

theorem finishAt_eq (neg : Bool) (n d : Nat) (sc e2 : Int) : finishAt neg n d sc e2 =
  if divRoundEven (mantAt n d sc e2).1 (mantAt n d sc e2).2 ≥ two53 then
    (if e2 + 1 > eMax then inf neg
     else fin neg (divRoundEven (mantAt n d sc e2).1 (mantAt n d sc e2).2 / 2) (e2 + 1))
  else (if e2 > eMax then inf neg
        else fin neg (divRoundEven (mantAt n d sc e2).1 (mantAt n d sc e2).2) e2) := by
  unfold finishAt; rcases mantAt n d sc e2 with ⟨a, b⟩
  simp only []
  split <;> rfl

theorem two52_eq : two52 = 2 ^ 52 := by decide
theorem two53_eq : two53 = 2 ^ 53 := by decide

theorem divRoundEven_mul (q d : Nat) (hd : 0 < d) : divRoundEven (q * d) d = q := by
  simp [divRoundEven, Nat.mul_div_cancel _ hd, hd]

/-! ### rounding a representable value is the identity -/

/-- `n·2^sc = m·2^e`, written without negative powers -/
def SameVal (n : Nat) (sc : Int) (m : Nat) (e : Int) : Prop :=
  n * pow2 (sc - e) = m * pow2 (e - sc)

theorem mantAt_exact {n m : Nat} {sc e : Int} (H : SameVal n sc m e) :
    ∃ b, 0 < b ∧ mantAt n 1 sc e = (m * b, b) := by
  unfold SameVal at H
  unfold mantAt
  by_cases h : sc - e ≥ 0
  · refine ⟨1, by decide, ?_⟩
    rw [if_pos h, H, pow2_of_nonpos (by omega)]
  · refine ⟨pow2 (e - sc), pow2_pos _, ?_⟩
    have h1 : pow2 (sc - e) = 1 := pow2_of_nonpos (by omega)
    have h2 : -(sc - e) = e - sc := by omega
    rw [h1, Nat.mul_one] at H
    rw [if_neg h, H, h2, Nat.one_mul]

/-- the exponent estimate is exact for a normal representable value -/
theorem log2_normal {n m : Nat} {sc e : Int} (hn : n ≠ 0) (H : SameVal n sc m e)
    (h52 : two52 ≤ m) (h53 : m < two53) : (n.log2 : Int) + sc - 52 = e := by
  unfold SameVal at H
  rw [two52_eq] at h52; rw [two53_eq] at h53
  have hL1 : 2 ^ n.log2 ≤ n := Nat.log2_self_le hn
  have hL2 : n < 2 ^ (n.log2 + 1) := Nat.lt_log2_self
  by_cases h : sc - e ≥ 0
  · rw [pow2_of_nonpos (by omega : e - sc ≤ 0), Nat.mul_one] at H
    obtain ⟨dd, hdd⟩ : ∃ dd : Nat, sc - e = dd := ⟨(sc - e).toNat, by omega⟩
    rw [hdd, pow2_natCast] at H
    have h1 : 2 ^ (n.log2 + dd) < 2 ^ 53 := by
      rw [Nat.pow_add]; calc _ ≤ n * 2 ^ dd := Nat.mul_le_mul_right _ hL1
        _ < _ := by omega
    have h2 : 2 ^ 52 < 2 ^ (n.log2 + 1 + dd) := by
      rw [Nat.pow_add]; calc _ ≤ n * 2 ^ dd := by omega
        _ < _ := Nat.mul_lt_mul_of_pos_right hL2 (Nat.two_pow_pos _)
    rw [Nat.pow_lt_pow_iff_right (by decide)] at h1 h2
    omega
  · rw [pow2_of_nonpos (by omega : sc - e ≤ 0), Nat.mul_one] at H
    obtain ⟨dd, hdd⟩ : ∃ dd : Nat, e - sc = dd := ⟨(e - sc).toNat, by omega⟩
    rw [hdd, pow2_natCast] at H
    have : n.log2 = 52 + dd := by
      rw [Nat.log2_eq_iff hn, H, Nat.pow_add, Nat.pow_add, Nat.pow_add]
      constructor
      · exact Nat.mul_le_mul_right _ h52
      · have : 2 ^ 52 * 2 ^ dd * 2 ^ 1 = 2 ^ 53 * 2 ^ dd := by
          rw [Nat.mul_right_comm]
        rw [this]; exact Nat.mul_lt_mul_of_pos_right h53 (Nat.two_pow_pos _)
    omega

/-- the exponent estimate is below `e` for a subnormal representable value -/
theorem log2_subnormal {n m : Nat} {sc e : Int} (hn : n ≠ 0) (H : SameVal n sc m e)
    (h52 : m < two52) : (n.log2 : Int) + sc - 52 < e := by
  unfold SameVal at H
  rw [two52_eq] at h52
  have hL1 : 2 ^ n.log2 ≤ n := Nat.log2_self_le hn
  by_cases h : sc - e ≥ 0
  · rw [pow2_of_nonpos (by omega : e - sc ≤ 0), Nat.mul_one] at H
    obtain ⟨dd, hdd⟩ : ∃ dd : Nat, sc - e = dd := ⟨(sc - e).toNat, by omega⟩
    rw [hdd, pow2_natCast] at H
    have h1 : 2 ^ (n.log2 + dd) < 2 ^ 52 := by
      rw [Nat.pow_add]; calc _ ≤ n * 2 ^ dd := Nat.mul_le_mul_right _ hL1
        _ < _ := by omega
    rw [Nat.pow_lt_pow_iff_right (by decide)] at h1
    omega
  · rw [pow2_of_nonpos (by omega : sc - e ≤ 0), Nat.mul_one] at H
    obtain ⟨dd, hdd⟩ : ∃ dd : Nat, e - sc = dd := ⟨(e - sc).toNat, by omega⟩
    rw [hdd, pow2_natCast] at H
    have : n.log2 < 52 + dd := by
      rw [Nat.log2_lt hn, H, Nat.pow_add]
      exact Nat.mul_lt_mul_of_pos_right h52 (Nat.two_pow_pos _)
    omega

theorem roundRat_exact (s : Bool) (n : Nat) (sc : Int) (m : Nat) (e : Int)
    (hn : n ≠ 0) (hc : Canon (fin s m e)) (H : SameVal n sc m e) :
    roundRat s n 1 sc = fin s m e := by
  obtain ⟨h53, hmin, hmax, hsub⟩ := hc
  obtain ⟨b, hb, hm⟩ := mantAt_exact H
  have hfin : finishAt s n 1 sc e = fin s m e := by
    rw [finishAt_eq, hm]
    simp only [divRoundEven_mul _ _ hb]
    rw [if_neg (by omega), if_neg (by omega)]
  rw [roundRat_eq s n 1 sc hn]
  have hlog1 : ((1 : Nat).log2 : Int) = 0 := by decide
  rw [hlog1, Int.sub_zero]
  suffices hE : clampMin (fixExp n 1 sc (↑n.log2 + sc - 52)) = e by rw [hE, hfin]
  by_cases h52 : two52 ≤ m
  · have he0 := log2_normal hn H h52 h53
    rw [he0, fixExp_eq, hm]
    simp only [Nat.mul_div_cancel _ hb]
    rw [if_neg (by omega), if_neg (by omega)]
    unfold clampMin; rw [if_neg (by omega)]
  · have he0 := log2_subnormal hn H (by omega)
    have he : e = eMin := hsub (by omega)
    rw [fixExp_eq]
    unfold clampMin
    split <;> split <;> omega

/-! ### exact values: `HasVal f k K` says the finite double `f` has the value `k·2^K` -/

def HasVal : F64 → Int → Int → Prop
  | fin s m e, k, K => smant s m * (pow2 (e - K) : Nat) = k * (pow2 (K - e) : Nat)
  | _, _, _ => False

theorem hasVal_fin (s : Bool) (m : Nat) (e k K : Int) :
    HasVal (fin s m e) k K ↔ smant s m * (pow2 (e - K) : Nat) = k * (pow2 (K - e) : Nat) := Iff.rfl

theorem hasVal_self (s : Bool) (m : Nat) (e : Int) : HasVal (fin s m e) (smant s m) e := by
  simp [HasVal]

theorem hasVal_scaled {s : Bool} {m : Nat} {e k K E : Int} (h : HasVal (fin s m e) k K)
    (h1 : E ≤ e) (h2 : E ≤ K) : scaled E s m e = k * (pow2 (K - E) : Nat) := by
  rw [hasVal_fin] at h
  unfold scaled
  by_cases hc : K ≤ e
  · rw [pow2_of_nonpos (by omega : K - e ≤ 0)] at h
    rw [pow2_sub_split h2 hc, Int.natCast_mul, ← Int.mul_assoc, h]; simp
  · rw [pow2_of_nonpos (by omega : e - K ≤ 0)] at h
    rw [pow2_sub_split h1 (by omega : e ≤ K), Int.natCast_mul, ← Int.mul_assoc, ← h]; simp

theorem ocmp_of_hasVal {f g : F64} {k k' K : Int} (hf : HasVal f k K) (hg : HasVal g k' K) :
    ocmp f g = compare k k' := by
  cases f <;> cases g <;> simp only [HasVal] at hf hg
  rename_i s1 m1 e1 s2 m2 e2
  have E1 : min K (min e1 e2) ≤ e1 := by omega
  have E2 : min K (min e1 e2) ≤ e2 := by omega
  have E3 : min K (min e1 e2) ≤ K := by omega
  rw [ocmp_fin, cmpFin_scale _ _ _ _ _ _ _ E1 E2, hasVal_scaled hf E1 E3, hasVal_scaled hg E2 E3]
  exact compare_mul_pos _ _ _ (pow2_pos _)

theorem hasVal_rescale {f : F64} {k K K' : Int} (h : HasVal f k K) (hK : K' ≤ K) :
    HasVal f (k * (pow2 (K - K') : Nat)) K' := by
  cases f <;> simp only [HasVal] at h ⊢
  rename_i s m e
  have E1 : min K' e ≤ e := by omega
  have E2 : min K' e ≤ K' := by omega
  have h1 := hasVal_scaled h E1 (by omega : min K' e ≤ K)
  unfold scaled at h1
  have hp : (pow2 (min K' e - min K' e) : Nat) = 1 := by simp [pow2]
  by_cases hc : K' ≤ e
  · rw [pow2_of_nonpos (by omega : K' - e ≤ 0)]
    have : min K' e = K' := by omega
    rw [this] at h1; rw [h1]; simp
  · rw [pow2_of_nonpos (by omega : e - K' ≤ 0)]
    have : min K' e = e := by omega
    rw [this, Int.sub_self, pow2_zero] at h1
    rw [pow2_sub_split (by omega : e ≤ K') hK] at h1
    simp only [Int.natCast_mul, Int.natCast_one, Int.mul_one] at h1 ⊢
    rw [h1, Int.mul_assoc]

theorem hasVal_unique {f : F64} {k k' K : Int} (h : HasVal f k K) (h' : HasVal f k' K) : k = k' := by
  have := ocmp_of_hasVal h h'
  rw [ocmp_self] at this
  exact Int.compare_eq_eq.mp this.symm

/-! ### `roundInt` / `ofInt` on representable integers -/

theorem roundInt_exact (k : Int) (sc : Int) (z : Bool) (m : Nat) (e : Int) (hk : k ≠ 0)
    (hc : Canon (fin (decide (k < 0)) m e)) (H : SameVal k.natAbs sc m e) :
    roundInt k sc z = fin (decide (k < 0)) m e := by
  unfold roundInt
  rw [if_neg hk]
  exact roundRat_exact _ _ _ _ _ (by omega) hc H

/-- normalised mantissa / exponent of a positive integer below `2^53` -/
def normM (n : Nat) : Nat := n * 2 ^ (52 - n.log2)
def normE (n : Nat) : Int := (n.log2 : Int) - 52

theorem norm_spec {n : Nat} (hn : n ≠ 0) (h : n < two53) (s : Bool) :
    Canon (fin s (normM n) (normE n)) ∧ SameVal n 0 (normM n) (normE n) := by
  rw [two53_eq] at h
  have hL1 : 2 ^ n.log2 ≤ n := Nat.log2_self_le hn
  have hL2 : n < 2 ^ (n.log2 + 1) := Nat.lt_log2_self
  have hL : n.log2 < 53 := (Nat.log2_lt hn).2 h
  have hsplit : 2 ^ n.log2 * 2 ^ (52 - n.log2) = 2 ^ 52 := by
    rw [← Nat.pow_add]; congr 1; omega
  have hsplit' : 2 ^ (n.log2 + 1) * 2 ^ (52 - n.log2) = 2 ^ 53 := by
    rw [← Nat.pow_add]; congr 1; omega
  have hlo : two52 ≤ normM n := by
    rw [two52_eq, ← hsplit]; exact Nat.mul_le_mul_right _ hL1
  have hhi : normM n < two53 := by
    rw [two53_eq, ← hsplit']; exact Nat.mul_lt_mul_of_pos_right hL2 (Nat.two_pow_pos _)
  refine ⟨⟨hhi, ?_, ?_, ?_⟩, ?_⟩
  · simp only [normE, eMin]; omega
  · simp only [normE, eMax]; omega
  · intro h'; omega
  · unfold SameVal normM normE
    rw [pow2_of_nonpos (by omega : (n.log2 : Int) - 52 - 0 ≤ 0), Nat.mul_one]
    have : (0 : Int) - ((n.log2 : Int) - 52) = ((52 - n.log2 : Nat) : Int) := by omega
    rw [this, pow2_natCast]

theorem ofInt_zero : ofInt 0 = fin false 0 eMin := rfl

theorem ofInt_eq_norm {i : Int} (h0 : i ≠ 0) (h : i.natAbs < two53) :
    ofInt i = fin (decide (i < 0)) (normM i.natAbs) (normE i.natAbs) := by
  obtain ⟨hc, hv⟩ := norm_spec (n := i.natAbs) (by omega) h (decide (i < 0))
  exact roundInt_exact i 0 false _ _ h0 hc hv

theorem ofInt_two53 (s : Bool) : roundRat s two53 1 0 = fin s two52 1 := by
  apply roundRat_exact
  · decide
  · rw [canon_fin]; decide
  · simp [SameVal, pow2, two52, two53]

/-- `i64 as f64` is exact up to `2^53` in magnitude -/
theorem ofInt_hasVal {i : Int} (h : i.natAbs ≤ two53) : HasVal (ofInt i) i 0 ∧ Canon (ofInt i) := by
  by_cases h0 : i = 0
  · subst h0; simp [ofInt_zero, HasVal, smant, Canon, two52, two53, eMin, eMax]
  by_cases h1 : i.natAbs < two53
  · obtain ⟨hc, hv⟩ := norm_spec (n := i.natAbs) (by omega) h1 (decide (i < 0))
    rw [ofInt_eq_norm h0 h1]
    refine ⟨?_, hc⟩
    unfold SameVal at hv
    rw [hasVal_fin]
    rw [← smant_mul, ← hv, smant_mul, smant_of_int]
  · have h2 : i.natAbs = two53 := by omega
    have : ofInt i = fin (decide (i < 0)) two52 1 := by
      unfold ofInt roundInt; rw [if_neg h0, h2]; exact ofInt_two53 _
    rw [this]
    refine ⟨?_, by rw [canon_fin]; decide⟩
    rw [hasVal_fin]
    have e2 : smant (decide (i < 0)) i.natAbs = i := smant_of_int i
    rw [h2] at e2
    rw [← e2]
    cases decide (i < 0) <;> simp [smant, pow2, two52, two53]

theorem ocmp_ofInt {a b : Int} (ha : a.natAbs ≤ two53) (hb : b.natAbs ≤ two53) :
    ocmp (ofInt a) (ofInt b) = compare a b :=
  ocmp_of_hasVal (ofInt_hasVal ha).1 (ofInt_hasVal hb).1

/-! ### exact values as core `Dyadic` rationals -/

/-- exact value of a finite double as a dyadic rational (`none` for ±inf / NaN) -/
def val? : F64 → Option Dyadic
  | fin s m e => some (Dyadic.ofIntWithPrec (smant s m) (-e))
  | _ => none

/-- three-way comparison of dyadic rationals -/
def dcmp (x y : Dyadic) : Ordering := if x < y then .lt else if x = y then .eq else .gt

theorem ofIntWithPrec_mul_pow2 (x : Int) (p : Int) (n : Int) (hn : 0 ≤ n) :
    Dyadic.ofIntWithPrec (x * (pow2 n : Nat)) (p + n) = Dyadic.ofIntWithPrec x p := by
  obtain ⟨k, rfl⟩ : ∃ k : Nat, n = k := ⟨n.toNat, by omega⟩
  rw [pow2_natCast, ← Dyadic.ofIntWithPrec_shiftLeft_add (x := x) (i := p) (n := k), Int.shiftLeft_eq]
  simp

theorem hasVal_val {f : F64} {k K : Int} (h : HasVal f k K) :
    val? f = some (Dyadic.ofIntWithPrec k (-K)) := by
  cases f <;> simp only [HasVal] at h
  rename_i s m e
  simp only [val?, Option.some.injEq]
  rw [← ofIntWithPrec_mul_pow2 (smant s m) (-e) (e - min e K) (by omega),
      ← ofIntWithPrec_mul_pow2 k (-K) (K - min e K) (by omega)]
  have h1 := hasVal_scaled h (by omega : min e K ≤ e) (by omega)
  unfold scaled at h1
  rw [h1]; congr 1; omega

theorem ofIntWithPrec_lt (a b p : Int) :
    Dyadic.ofIntWithPrec a p < Dyadic.ofIntWithPrec b p ↔ a < b := by
  rw [← Dyadic.toRat_lt_toRat_iff, Dyadic.toRat_ofIntWithPrec_eq_mul_two_pow,
    Dyadic.toRat_ofIntWithPrec_eq_mul_two_pow]
  rw [Rat.mul_lt_mul_right (Rat.zpow_pos (by decide))]
  exact Rat.intCast_lt_intCast

theorem ofIntWithPrec_inj (a b p : Int) :
    Dyadic.ofIntWithPrec a p = Dyadic.ofIntWithPrec b p ↔ a = b := by
  constructor
  · intro h
    have h1 : ¬ a < b := by
      rw [← ofIntWithPrec_lt a b p, h]; exact Std.lt_irrefl
    have h2 : ¬ b < a := by
      rw [← ofIntWithPrec_lt b a p, h]; exact Std.lt_irrefl
    omega
  · rintro rfl; rfl

theorem dcmp_ofIntWithPrec (a b p : Int) :
    dcmp (Dyadic.ofIntWithPrec a p) (Dyadic.ofIntWithPrec b p) = compare a b := by
  unfold dcmp
  rw [Int.compare_eq_ite_lt]
  simp only [ofIntWithPrec_lt, ofIntWithPrec_inj]
  split
  · rfl
  · split
    · subst_vars; simp
    · rw [if_pos (by omega)]

/-- finite doubles compare by exact value -/
theorem ocmp_eq_dcmp {f g : F64} {x y : Dyadic} (hf : val? f = some x) (hg : val? g = some y) :
    ocmp f g = dcmp x y := by
  cases f <;> cases g <;> simp only [val?, Option.some.injEq, reduceCtorEq] at hf hg
  rename_i s1 m1 e1 s2 m2 e2
  have h1 := hasVal_rescale (hasVal_self s1 m1 e1) (by omega : min e1 e2 ≤ e1)
  have h2 := hasVal_rescale (hasVal_self s2 m2 e2) (by omega : min e1 e2 ≤ e2)
  have v1 := hasVal_val h1
  have v2 := hasVal_val h2
  simp only [val?, Option.some.injEq] at v1 v2
  rw [ocmp_of_hasVal h1 h2, ← hf, ← hg, v1, v2, dcmp_ofIntWithPrec]

theorem val_ofInt {i : Int} (h : i.natAbs ≤ two53) : val? (ofInt i) = some (i : Dyadic) := by
  have := hasVal_val (ofInt_hasVal h).1
  rw [this]; rfl

/-! ### equality under `ocmp` means equal exact value; non-integral doubles equal no integer -/

theorem ocmp_eq_hasVal {g f : F64} {k K : Int} (hg : HasVal g k K) (h : ocmp g f = .eq) :
    HasVal f k K := by
  cases g <;> simp only [HasVal] at hg
  rename_i s1 m1 e1
  cases f
  · simp [ocmp, pcmp, isNaN] at h
  · rename_i b; cases b <;> simp [ocmp, pcmp] at h
  rename_i s m e
  have hg' : HasVal (fin s1 m1 e1) k K := hg
  have h1 := hasVal_rescale hg' (by omega : min e K ≤ K)
  have h2 := hasVal_rescale (hasVal_self s m e) (by omega : min e K ≤ e)
  rw [ocmp_of_hasVal h1 h2, Int.compare_eq_eq] at h
  rw [hasVal_fin]
  by_cases hc : K ≤ e
  · have hm : min e K = K := by omega
    rw [hm, Int.sub_self, pow2_zero] at h
    rw [pow2_of_nonpos (by omega : K - e ≤ 0)]
    simp only [Int.natCast_one, Int.mul_one] at h ⊢
    exact h.symm
  · have hm : min e K = e := by omega
    rw [hm, Int.sub_self, pow2_zero] at h
    rw [pow2_of_nonpos (by omega : e - K ≤ 0)]
    simp only [Int.natCast_one, Int.mul_one] at h ⊢
    exact h.symm

theorem not_hasVal_int_of_fractNonzero {f : F64} {i : Int} (h : fractNonzero f = true) :
    ¬ HasVal f i 0 := by
  intro hv
  cases f <;> simp only [HasVal] at hv
  rename_i s m e
  simp only [fractNonzero] at h
  by_cases he : e ≥ 0
  · simp [he] at h
  · simp only [he, if_false, bne_iff_ne, ne_eq] at h
    rw [Int.sub_zero, pow2_of_nonpos (by omega : e ≤ 0)] at hv
    simp only [Int.natCast_one, Int.mul_one] at hv
    have := congrArg Int.natAbs hv
    rw [smant_natAbs, Int.natAbs_mul, Int.natAbs_natCast, Int.zero_sub] at this
    apply h
    rw [this, Nat.mul_mod_left]

theorem ocmp_ofInt_ne_eq {i : Int} {f : F64} (hi : i.natAbs ≤ two53) (hf : fractNonzero f = true) :
    ocmp (ofInt i) f ≠ .eq ∧ ocmp f (ofInt i) ≠ .eq := by
  have h1 : ocmp (ofInt i) f ≠ .eq := fun h =>
    not_hasVal_int_of_fractNonzero hf (ocmp_eq_hasVal (ofInt_hasVal hi).1 h)
  refine ⟨h1, fun h => h1 ?_⟩
  rw [← ocmp_swap, h]; rfl

theorem dcmp_eq_lt {x y : Dyadic} : dcmp x y = .lt ↔ x < y := by
  unfold dcmp
  by_cases h : x < y
  · rw [if_pos h]; exact ⟨fun _ => h, fun _ => rfl⟩
  · rw [if_neg h]
    refine ⟨fun h' => ?_, fun h' => absurd h' h⟩
    by_cases h2 : x = y
    · rw [if_pos h2] at h'; exact absurd h' (by decide)
    · rw [if_neg h2] at h'; exact absurd h' (by decide)

theorem dcmp_eq_eq {x y : Dyadic} : dcmp x y = .eq ↔ x = y := by
  unfold dcmp
  by_cases h : x < y
  · rw [if_pos h]
    refine ⟨fun h' => absurd h' (by decide), fun h' => ?_⟩
    subst h'; exact absurd h Std.lt_irrefl
  · rw [if_neg h]
    by_cases h2 : x = y
    · rw [if_pos h2]; exact ⟨fun _ => h2, fun _ => rfl⟩
    · rw [if_neg h2]; exact ⟨fun h' => absurd h' (by decide), fun h' => absurd h' h2⟩

theorem dcmp_eq_gt {x y : Dyadic} : dcmp x y = .gt ↔ y < x := by
  unfold dcmp
  by_cases h : x < y
  · rw [if_pos h]
    exact ⟨fun h' => absurd h' (by decide), fun h' => absurd h' (Std.not_gt_of_lt h)⟩
  · rw [if_neg h]
    by_cases h2 : x = y
    · rw [if_pos h2]
      refine ⟨fun h' => absurd h' (by decide), fun h' => ?_⟩
      subst h2; exact absurd h' Std.lt_irrefl
    · rw [if_neg h2]
      refine ⟨fun _ => ?_, fun _ => rfl⟩
      rcases Std.lt_trichotomy x y with h3 | h3 | h3
      · exact absurd h3 h
      · exact absurd h3 h2
      · exact h3

/-- on an integral double, `truncInt` is its exact value -/
theorem truncInt_hasVal {s : Bool} {m : Nat} {e : Int} (h : fractNonzero (fin s m e) = false) :
    HasVal (fin s m e) (truncInt s m e) 0 := by
  rw [hasVal_fin]
  unfold truncInt
  by_cases he : e ≥ 0
  · rw [if_pos he, Int.sub_zero, pow2_of_nonpos (by omega : 0 - e ≤ 0)]; simp
  · rw [if_neg he, Int.sub_zero, pow2_of_nonpos (by omega : e ≤ 0), Int.zero_sub,
      ← smant_mul s (m / pow2 (-e)) (pow2 (-e))]
    simp only [fractNonzero] at h
    rw [if_neg he] at h
    have hmod : m % pow2 (-e) = 0 := by simpa using h
    rw [Nat.div_mul_cancel (Nat.dvd_of_mod_eq_zero hmod)]; simp

/-! ### `cmpIntFloat`: the exact comparison of an integer with a double

An integer is carried as the (not necessarily canonical) datum `fin (i < 0) |i| 0`, whose exact
value is `i`; `cmpIntFloat i f` is `OrderedFloat`'s order between that datum and `f`, so every
order law of `ocmp` (a total preorder on ALL data, canonical or not) transfers. -/

/-- the integer `i` as a finite-double datum of exact value `i` (not rounded, not canonical) -/
def exactInt (i : Int) : F64 := fin (decide (i < 0)) i.natAbs 0

theorem exactInt_hasVal (i : Int) : HasVal (exactInt i) i 0 := by
  simp [exactInt, HasVal, smant_of_int]

theorem val_exactInt (i : Int) : val? (exactInt i) = some (i : Dyadic) := by
  rw [hasVal_val (exactInt_hasVal i)]; rfl

theorem ocmp_exactInt (a b : Int) : ocmp (exactInt a) (exactInt b) = compare a b :=
  ocmp_of_hasVal (exactInt_hasVal a) (exactInt_hasVal b)

theorem icompare_lt {a b : Int} (h : a < b) : compare a b = .lt := by
  rw [Int.compare_eq_ite_lt, if_pos h]

theorem icompare_gt {a b : Int} (h : b < a) : compare a b = .gt := by
  rw [Int.compare_eq_ite_lt, if_neg (by omega), if_pos h]

theorem icompare_self (a : Int) : compare a a = .eq := by simp

/-- comparing `i` with `±(q·d + r)/d` (`0 ≤ r < d`): first with the truncated quotient `±q`, then
zero with the sign of the remainder -/
theorem compare_trunc_frac (i : Int) (s : Bool) (d q r : Nat) (hr : r < d) :
    (compare i (smant s q)).then (if (r != 0) = true then (if s = true then .gt else .lt) else .eq) =
      compare (i * (d : Int)) (smant s (d * q + r)) := by
  have hdq : ((d * q + r : Nat) : Int) = (q : Int) * d + r := by
    rw [Int.natCast_add, Int.natCast_mul, Int.mul_comm]
  have hdpos' : (0 : Int) ≤ d := by omega
  cases s
  · simp only [smant_false, hdq]
    rcases Int.lt_trichotomy i q with h | h | h
    · have h1 := Int.mul_le_mul_of_nonneg_right (show i + 1 ≤ q by omega) hdpos'
      rw [Int.add_mul, Int.one_mul] at h1
      rw [icompare_lt h, icompare_lt (by omega)]; rfl
    · subst h
      rw [icompare_self]
      by_cases hr0 : r = 0
      · subst hr0; simp
      · have : (r != 0) = true := by simpa using hr0
        rw [this, icompare_lt (by omega)]; rfl
    · have h1 := Int.mul_le_mul_of_nonneg_right (show (q : Int) + 1 ≤ i by omega) hdpos'
      rw [Int.add_mul, Int.one_mul] at h1
      rw [icompare_gt h, icompare_gt (by omega)]; rfl
  · simp only [smant_true, hdq]
    rcases Int.lt_trichotomy i (-(q : Int)) with h | h | h
    · have h1 := Int.mul_le_mul_of_nonneg_right (show i + 1 ≤ -(q : Int) by omega) hdpos'
      rw [Int.add_mul, Int.one_mul, Int.neg_mul] at h1
      rw [icompare_lt h, icompare_lt (by omega)]; rfl
    · subst h
      rw [icompare_self, Int.neg_mul]
      by_cases hr0 : r = 0
      · subst hr0; simp
      · have : (r != 0) = true := by simpa using hr0
        rw [this, icompare_gt (by omega)]; rfl
    · have h1 := Int.mul_le_mul_of_nonneg_right (show -(q : Int) + 1 ≤ i by omega) hdpos'
      rw [Int.add_mul, Int.one_mul, Int.neg_mul] at h1
      rw [icompare_gt h, icompare_gt (by omega)]; rfl

theorem cmpIntFloat_fin (i : Int) (s : Bool) (m : Nat) (e : Int) :
    cmpIntFloat i (fin s m e) = cmpFin (decide (i < 0)) i.natAbs 0 s m e := by
  by_cases he : e ≥ 0
  · rw [cmpFin_scale _ _ _ _ _ _ 0 (Int.le_refl 0) he]
    simp only [cmpIntFloat, truncInt, fractNonzero, if_pos he, scaled, smant_of_int, Int.sub_zero,
      Int.sub_self, pow2_zero]
    simp
  · have he' : e < 0 := by omega
    rw [cmpFin_scale _ _ _ _ _ _ e (by omega) (Int.le_refl e)]
    simp only [cmpIntFloat, truncInt, fractNonzero, if_neg he, scaled, smant_of_int, Int.sub_self,
      pow2_zero, Int.zero_sub, Int.natCast_one, Int.mul_one]
    have hdpos : 0 < pow2 (-e) := pow2_pos _
    have h := compare_trunc_frac i s (pow2 (-e)) (m / pow2 (-e)) (m % pow2 (-e))
      (Nat.mod_lt _ hdpos)
    rw [Nat.div_add_mod] at h
    exact h

/-- `cmp_int_float` is `OrderedFloat`'s order between the exact integer and the double -/
theorem cmpIntFloat_eq_ocmp (i : Int) (f : F64) : cmpIntFloat i f = ocmp (exactInt i) f := by
  cases f with
  | nan => simp [cmpIntFloat, exactInt, ocmp, pcmp, isNaN]
  | inf b => cases b <;> simp [cmpIntFloat, exactInt, ocmp, pcmp]
  | fin s m e => rw [cmpIntFloat_fin]; rfl

/-- an integer compares with a finite double by exact value -/
theorem cmpIntFloat_eq_dcmp (i : Int) {f : F64} {y : Dyadic} (hf : val? f = some y) :
    cmpIntFloat i f = dcmp (i : Dyadic) y := by
  rw [cmpIntFloat_eq_ocmp]; exact ocmp_eq_dcmp (val_exactInt i) hf

/-- `Equal` only when the double's exact value is that integer -/
theorem cmpIntFloat_eq_hasVal {i : Int} {f : F64} (h : cmpIntFloat i f = .eq) : HasVal f i 0 :=
  ocmp_eq_hasVal (exactInt_hasVal i) (by rw [← cmpIntFloat_eq_ocmp]; exact h)

/-- the comparison as src/data.rs writes it, with the two range guards that keep `as i64` from
saturating (`f ≥ 2^63`, i.e. `f.trunc() ≥ 2^63`: `Less`; `f < −2^63`, i.e. `f.trunc() < −2^63`
because every double of that size is integral: `Greater`) -/
def cmpIntFloatGuarded (i : Int) : F64 → Ordering
  | nan => .lt
  | inf s => if s then .gt else .lt
  | fin s m e =>
    if i64Max < truncInt s m e then .lt
    else if truncInt s m e < i64Min then .gt
    else (compare i (toI64 (fin s m e))).then
      (if fractNonzero (fin s m e) then (if s then .gt else .lt) else .eq)

/-- for every integer of the i64 range the guards change nothing -/
theorem cmpIntFloat_eq_guarded {i : Int} (hi : i64Min ≤ i ∧ i ≤ i64Max) (f : F64) :
    cmpIntFloat i f = cmpIntFloatGuarded i f := by
  cases f with
  | nan => rfl
  | inf b => rfl
  | fin s m e =>
    simp only [cmpIntFloat, cmpIntFloatGuarded, toI64]
    generalize truncInt s m e = t
    by_cases h1 : i64Max < t
    · rw [if_pos h1, Int.compare_eq_ite_lt, if_pos (by omega)]; rfl
    · rw [if_neg h1]
      by_cases h2 : t < i64Min
      · rw [if_pos h2, Int.compare_eq_ite_lt, if_neg (by omega), if_pos (by omega)]; rfl
      · have h3 : ¬ t > i64Max := by omega
        rw [if_neg h2, if_neg h2, if_neg h3]

end F64
end Ag
