/-
`Value.beq` (the derived `PartialEq`/`Eq` of `data::Value`) is an equivalence relation, given
that `OrderedFloat`'s equality (`F64.oeq`) is one.  Used for group keys (C01) and count_distinct.
-/
import AgModel.Value

namespace Ag.Value

/-- the equivalence laws of `OrderedFloat`'s `Eq` -/
structure FloatEqLaws : Prop where
  refl : ∀ a, F64.oeq a a = true
  symm : ∀ a b, F64.oeq a b = true → F64.oeq b a = true
  trans : ∀ a b c, F64.oeq a b = true → F64.oeq b c = true → F64.oeq a c = true

mutual
theorem beq_refl (h : FloatEqLaws) : ∀ v : Value, beq v v = true
  | .none => by simp [beq]
  | .bool _ => by simp [beq]
  | .int _ => by simp [beq]
  | .float f => by simp [beq, h.refl]
  | .str _ => by simp [beq]
  | .date _ => by simp [beq]
  | .dur _ => by simp [beq]
  | .arr vs => by simp [beq, beqL_refl h vs]
  | .obj kvs => by simp [beq, beqKV_refl h kvs]
theorem beqL_refl (h : FloatEqLaws) : ∀ l : List Value, beqL l l = true
  | [] => by simp [beqL]
  | x :: xs => by simp [beqL, beq_refl h x, beqL_refl h xs]
theorem beqKV_refl (h : FloatEqLaws) : ∀ l : List (String × Value), beqKV l l = true
  | [] => by simp [beqKV]
  | (k, x) :: xs => by simp [beqKV, beq_refl h x, beqKV_refl h xs]
end

mutual
theorem beq_symm (h : FloatEqLaws) : ∀ a b : Value, beq a b = true → beq b a = true
  | .none, b => by cases b <;> simp [beq]
  | .bool x, b => by cases b <;> simp [beq]; intro e; exact e.symm
  | .int x, b => by cases b <;> simp [beq]; intro e; exact e.symm
  | .float x, b => by cases b <;> simp [beq]; exact h.symm _ _
  | .str x, b => by cases b <;> simp [beq]; intro e; exact e.symm
  | .date x, b => by cases b <;> simp [beq]; intro e; exact e.symm
  | .dur x, b => by cases b <;> simp [beq]; intro e; exact e.symm
  | .arr xs, b => by
    cases b <;> simp [beq]
    exact beqL_symm h xs _
  | .obj xs, b => by
    cases b <;> simp [beq]
    exact beqKV_symm h xs _
theorem beqL_symm (h : FloatEqLaws) : ∀ a b : List Value, beqL a b = true → beqL b a = true
  | [], b => by cases b <;> simp [beqL]
  | x :: xs, b => by
    cases b with
    | nil => simp [beqL]
    | cons y ys =>
      simp only [beqL, Bool.and_eq_true]
      intro ⟨h1, h2⟩
      exact ⟨beq_symm h x y h1, beqL_symm h xs ys h2⟩
theorem beqKV_symm (h : FloatEqLaws) :
    ∀ a b : List (String × Value), beqKV a b = true → beqKV b a = true
  | [], b => by cases b <;> simp [beqKV]
  | (k, x) :: xs, b => by
    cases b with
    | nil => simp [beqKV]
    | cons y ys =>
      obtain ⟨l, y⟩ := y
      simp only [beqKV, Bool.and_eq_true, beq_iff_eq]
      intro ⟨⟨h0, h1⟩, h2⟩
      exact ⟨⟨h0.symm, beq_symm h x y h1⟩, beqKV_symm h xs ys h2⟩
end

mutual
theorem beq_trans (h : FloatEqLaws) :
    ∀ a b c : Value, beq a b = true → beq b c = true → beq a c = true
  | .none, b, c => by cases b <;> cases c <;> simp [beq]
  | .bool x, b, c => by cases b <;> cases c <;> simp [beq]; intro e1 e2; exact e1.trans e2
  | .int x, b, c => by cases b <;> cases c <;> simp [beq]; intro e1 e2; exact e1.trans e2
  | .float x, b, c => by cases b <;> cases c <;> simp [beq]; exact h.trans _ _ _
  | .str x, b, c => by cases b <;> cases c <;> simp [beq]; intro e1 e2; exact e1.trans e2
  | .date x, b, c => by cases b <;> cases c <;> simp [beq]; intro e1 e2; exact e1.trans e2
  | .dur x, b, c => by cases b <;> cases c <;> simp [beq]; intro e1 e2; exact e1.trans e2
  | .arr xs, b, c => by
    cases b <;> cases c <;> simp [beq]
    exact beqL_trans h xs _ _
  | .obj xs, b, c => by
    cases b <;> cases c <;> simp [beq]
    exact beqKV_trans h xs _ _
theorem beqL_trans (h : FloatEqLaws) :
    ∀ a b c : List Value, beqL a b = true → beqL b c = true → beqL a c = true
  | [], b, c => by cases b <;> cases c <;> simp [beqL]
  | x :: xs, b, c => by
    cases b with
    | nil => simp [beqL]
    | cons y ys =>
      cases c with
      | nil => simp [beqL]
      | cons z zs =>
        simp only [beqL, Bool.and_eq_true]
        intro ⟨h1, h2⟩ ⟨h3, h4⟩
        exact ⟨beq_trans h x y z h1 h3, beqL_trans h xs ys zs h2 h4⟩
theorem beqKV_trans (h : FloatEqLaws) :
    ∀ a b c : List (String × Value), beqKV a b = true → beqKV b c = true → beqKV a c = true
  | [], b, c => by cases b <;> cases c <;> simp [beqKV]
  | (k, x) :: xs, b, c => by
    cases b with
    | nil => simp [beqKV]
    | cons y ys =>
      cases c with
      | nil => obtain ⟨l, y⟩ := y; simp [beqKV]
      | cons z zs =>
        obtain ⟨l, y⟩ := y
        obtain ⟨m, z⟩ := z
        simp only [beqKV, Bool.and_eq_true, beq_iff_eq]
        intro ⟨⟨h0, h1⟩, h2⟩ ⟨⟨h3, h4⟩, h5⟩
        exact ⟨⟨h0.trans h3, beq_trans h x y z h1 h4⟩, beqKV_trans h xs ys zs h2 h5⟩
end

end Ag.Value
