/-
Helper lemmas about `Value.parseI64` / `Value.digitsToNat` / `Text.trim` (Rust `str::parse::<i64>`
and `str::trim` as used by `Value::from_string`).
-/
import AgProofs.Lemmas.ValueOrder

namespace Ag
namespace Value

/-! ### digits -/

theorem digitsToNat_eq_ofDigitChars (ds : List Char) :
    digitsToNat ds = Nat.ofDigitChars 10 ds 0 := by
  unfold digitsToNat Nat.ofDigitChars
  congr 1
  funext acc c
  simp [digitVal, Nat.mul_comm]

/-- `digitsToNat` inverts decimal printing -/
theorem digitsToNat_toDigits (n : Nat) : digitsToNat (Nat.toDigits 10 n) = n := by
  rw [digitsToNat_eq_ofDigitChars, Nat.ofDigitChars_ten_toDigits]

theorem digitsToNat_nil : digitsToNat [] = 0 := rfl

/-- positional value: appending a digit multiplies by ten and adds it -/
theorem digitsToNat_append_singleton (ds : List Char) (c : Char) :
    digitsToNat (ds ++ [c]) = digitsToNat ds * 10 + digitVal c := by
  simp [digitsToNat]

theorem digitVal_digitChar {d : Nat} (h : d < 10) : digitVal (Nat.digitChar d) = d := by
  have : d = 0 ∨ d = 1 ∨ d = 2 ∨ d = 3 ∨ d = 4 ∨ d = 5 ∨ d = 6 ∨ d = 7 ∨ d = 8 ∨ d = 9 := by
    omega
  rcases this with rfl | rfl | rfl | rfl | rfl | rfl | rfl | rfl | rfl | rfl <;> decide

theorem not_sign_of_isDigit {c : Char} (h : c.isDigit = true) : c ≠ '-' ∧ c ≠ '+' := by
  constructor <;> (intro hc; subst hc; revert h; decide)

/-! ### `str::parse::<i64>` on `[+-]?digits` -/

theorem parseI64_digits (ds : List Char) (hne : ds ≠ []) (hd : ds.all Char.isDigit = true) :
    parseI64 ds =
      if inI64 (digitsToNat ds) then some ((digitsToNat ds : Nat) : Int) else Option.none := by
  cases ds with
  | nil => exact absurd rfl hne
  | cons c r =>
    have hc : c.isDigit = true := by simp at hd; exact hd.1
    obtain ⟨h1, h2⟩ := not_sign_of_isDigit hc
    unfold parseI64
    split
    rename_i x ng ds' heq
    have : (ng, ds') = (false, c :: r) := by
      rw [← heq]; split <;> simp_all
    simp only [Prod.mk.injEq] at this
    obtain ⟨rfl, rfl⟩ := this
    simp [hd]

theorem parseI64_neg (ds : List Char) (hne : ds ≠ []) (hd : ds.all Char.isDigit = true) :
    parseI64 ('-' :: ds) =
      if inI64 (-(digitsToNat ds : Int)) then some (-((digitsToNat ds : Nat) : Int))
      else Option.none := by
  cases ds with
  | nil => exact absurd rfl hne
  | cons c r =>
    simp only [parseI64]
    simp [hd]

theorem parseI64_plus (ds : List Char) (hne : ds ≠ []) (hd : ds.all Char.isDigit = true) :
    parseI64 ('+' :: ds) =
      if inI64 (digitsToNat ds) then some ((digitsToNat ds : Nat) : Int) else Option.none := by
  cases ds with
  | nil => exact absurd rfl hne
  | cons c r =>
    simp only [parseI64]
    simp [hd]

end Value

/-! ### `str::trim` -/

namespace Text

theorem trimStart_white_append (ws l : List Char) (h : ws.all isWhite = true) :
    trimStart (ws ++ l) = trimStart l := by
  induction ws with
  | nil => rfl
  | cons c cs ih =>
    simp only [List.all_cons, Bool.and_eq_true] at h
    simp only [trimStart, List.cons_append, List.dropWhile_cons, h.1, if_true]
    exact ih h.2

theorem trimStart_cons_of_not_white (c : Char) (l : List Char) (h : isWhite c = false) :
    trimStart (c :: l) = c :: l := by
  simp [trimStart, h]

/-- surrounding white space is removed, and a text whose first and last characters are not white
space is otherwise left alone -/
theorem trim_surround (ws1 ws2 t : List Char)
    (hw1 : ws1.all isWhite = true) (hw2 : ws2.all isWhite = true)
    (hh : ∀ c, t.head? = some c → isWhite c = false)
    (hl : ∀ z, t.getLast? = some z → isWhite z = false) (hne : t ≠ []) :
    trim (ws1 ++ t ++ ws2) = t := by
  cases t with
  | nil => exact absurd rfl hne
  | cons c t' =>
    have hc := hh c rfl
    unfold trim
    rw [List.append_assoc, trimStart_white_append _ _ hw1, List.cons_append,
      trimStart_cons_of_not_white _ _ hc]
    unfold trimEnd
    have hrev : (c :: (t' ++ ws2)).reverse = ws2.reverse ++ (c :: t').reverse := by simp
    rw [hrev]
    have hw2' : ws2.reverse.all isWhite = true := by simpa using hw2
    have := trimStart_white_append ws2.reverse (c :: t').reverse hw2'
    unfold trimStart at this
    rw [this]
    cases hr : (c :: t').reverse with
    | nil => simp at hr
    | cons z r' =>
      have hz : isWhite z = false := by
        apply hl
        rw [← List.head?_reverse, hr]; rfl
      rw [List.dropWhile_cons, hz]
      simp only [Bool.false_eq_true, if_false]
      rw [← hr, List.reverse_reverse]

theorem not_white_of_isDigit {c : Char} (h : c.isDigit = true) : isWhite c = false := by
  simp only [Char.isDigit, Bool.and_eq_true, decide_eq_true_eq] at h
  obtain ⟨h1, h2⟩ := h
  rw [ge_iff_le, UInt32.le_iff_toNat_le] at h1
  rw [UInt32.le_iff_toNat_le] at h2
  have e : c.toNat = c.val.toNat := rfl
  simp only [isWhite, e]
  generalize c.val.toNat = n at *
  have h1' : 48 ≤ n := h1
  have h2' : n ≤ 57 := h2
  simp only [Bool.or_eq_false_iff, Bool.and_eq_false_iff, decide_eq_false_iff_not,
    beq_eq_false_iff_ne]
  omega

end Text

namespace Value

/-- `t` is the text `[+-]?digits` and denotes the integer `v` -/
inductive IntLit : List Char → Int → Prop
  | plain (ds : List Char) (hne : ds ≠ []) (hd : ds.all Char.isDigit = true) :
      IntLit ds (digitsToNat ds)
  | plus (ds : List Char) (hne : ds ≠ []) (hd : ds.all Char.isDigit = true) :
      IntLit ('+' :: ds) (digitsToNat ds)
  | minus (ds : List Char) (hne : ds ≠ []) (hd : ds.all Char.isDigit = true) :
      IntLit ('-' :: ds) (-(digitsToNat ds : Int))

theorem parseI64_intLit {t : List Char} {v : Int} (h : IntLit t v) :
    parseI64 t = if inI64 v then some v else Option.none := by
  cases h with
  | plain _ hne hd => exact parseI64_digits _ hne hd
  | plus ds hne hd => exact parseI64_plus ds hne hd
  | minus ds hne hd => exact parseI64_neg ds hne hd

theorem last_isDigit {ds : List Char} (hd : ds.all Char.isDigit = true) {z : Char}
    (hz : ds.getLast? = some z) : z.isDigit = true := by
  have : z ∈ ds := List.mem_of_getLast? hz
  exact (List.all_eq_true.1 hd) z this

theorem intLit_shape {t : List Char} {v : Int} (h : IntLit t v) :
    t ≠ [] ∧ (∀ c, t.head? = some c → Text.isWhite c = false) ∧
    (∀ z, t.getLast? = some z → Text.isWhite z = false) := by
  cases h with
  | plain _ hne hd =>
    refine ⟨hne, ?_, fun z hz => Text.not_white_of_isDigit (last_isDigit hd hz)⟩
    intro c hc
    apply Text.not_white_of_isDigit
    exact (List.all_eq_true.1 hd) c (List.mem_of_head? hc)
  | plus ds hne hd =>
    refine ⟨by simp, ?_, ?_⟩
    · intro c hc; simp at hc; subst hc; decide
    · intro z hz
      rw [List.getLast?_cons_of_ne_nil hne] at hz
      exact Text.not_white_of_isDigit (last_isDigit hd hz)
  | minus ds hne hd =>
    refine ⟨by simp, ?_, ?_⟩
    · intro c hc; simp at hc; subst hc; decide
    · intro z hz
      rw [List.getLast?_cons_of_ne_nil hne] at hz
      exact Text.not_white_of_isDigit (last_isDigit hd hz)

/-- `Value::from_string` on an integer literal in `i64` range, surrounded by any white space,
yields exactly that integer -/
theorem fromString_intLit (s : String) (ws1 ws2 t : List Char) (v : Int)
    (hs : s.toList = ws1 ++ t ++ ws2)
    (hw1 : ws1.all Text.isWhite = true) (hw2 : ws2.all Text.isWhite = true)
    (hl : IntLit t v) (hr : inI64 v = true) : fromString s = int v := by
  obtain ⟨hne, hh, hz⟩ := intLit_shape hl
  have ht : Text.trim s.toList = t := by
    rw [hs]; exact Text.trim_surround ws1 ws2 t hw1 hw2 hh hz hne
  have hp : parseI64 t = some v := by rw [parseI64_intLit hl, if_pos hr]
  simp only [fromString, ht, hp]

/-! ### the decimal rendering of an integer is an integer literal denoting it -/

theorem toList_toString_int (i : Int) : (toString i).toList =
    if i < 0 then '-' :: Nat.toDigits 10 i.natAbs else Nat.toDigits 10 i.natAbs := by
  cases i with
  | ofNat n =>
    have : ¬ (Int.ofNat n < 0) := by simp
    rw [if_neg this]
    show (Nat.repr n).toList = _
    rw [Nat.toList_repr]; rfl
  | negSucc n =>
    have : Int.negSucc n < 0 := Int.negSucc_lt_zero n
    rw [if_pos this]
    show ("-" ++ Nat.repr (n+1)).toList = _
    rw [String.toList_append, Nat.toList_repr]; rfl

theorem intLit_toString (i : Int) : IntLit (toString i).toList i := by
  rw [toList_toString_int]
  have hd : ∀ n, (Nat.toDigits 10 n).all Char.isDigit = true := by
    intro n; rw [List.all_eq_true]; intro c hc
    exact Nat.isDigit_of_mem_toDigits (by decide) (by decide) hc
  by_cases h : i < 0
  · rw [if_pos h]
    have := IntLit.minus (Nat.toDigits 10 i.natAbs) Nat.toDigits_ne_nil (hd _)
    rw [digitsToNat_toDigits] at this
    have e : -(i.natAbs : Int) = i := by omega
    rw [e] at this; exact this
  · rw [if_neg h]
    have := IntLit.plain (Nat.toDigits 10 i.natAbs) Nat.toDigits_ne_nil (hd _)
    rw [digitsToNat_toDigits] at this
    have e : (i.natAbs : Int) = i := by omega
    rw [e] at this; exact this

end Value
end Ag
