/-
Helper lemmas about `Value.cmp` / `cmpL` / `cmpKV` and `Value.beq` (`impl Ord for Value`, derived
`PartialEq`): compatibility with `rank`, orientation and transitivity for ALL values (numbers are
compared by exact value since the `cmp_int_float` repair of src/data.rs; recursively through arrays
and objects), agreement of `==` with `cmp … = Equal` on `inS`.
-/
import AgProofs.Lemmas.F64

namespace Ag
namespace Value
open F64

/-! ### the domain

`inD fl v`: either there are no floats at all (`fl = false`) or floats are allowed (`fl = true`:
every value, `inD_true`); integers are unrestricted in both (before the `cmp_int_float` repair
`fl = true` confined them to ±2^53, where `i64 as f64` is exact) — this recursively through arrays
and objects (whose payload in the model is the key-sorted entry list, which is what the real `Ord`
compares).  The order laws below no longer need the domain; it is kept for the float-free
statements (`inD false`) and for the signatures of the `…_partial` theorems. -/

mutual
def inD (fl : Bool) : Value → Bool
  | none => true
  | bool _ => true
  | int _ => true
  | float _ => fl
  | str _ => true
  | date _ => true
  | dur _ => true
  | arr vs => inDL fl vs
  | obj kvs => inDKV fl kvs
def inDL (fl : Bool) : List Value → Bool
  | [] => true
  | x :: xs => inD fl x && inDL fl xs
def inDKV (fl : Bool) : List (String × Value) → Bool
  | [] => true
  | (_, x) :: xs => inD fl x && inDKV fl xs
end

mutual
/-- with floats allowed the domain is everything -/
theorem inD_true : ∀ a : Value, inD true a = true
  | .none => by simp [inD]
  | .bool _ => by simp [inD]
  | .int _ => by simp [inD]
  | .float _ => by simp [inD]
  | .str _ => by simp [inD]
  | .date _ => by simp [inD]
  | .dur _ => by simp [inD]
  | .arr xs => by simp only [inD]; exact inDL_true xs
  | .obj xs => by simp only [inD]; exact inDKV_true xs
theorem inDL_true : ∀ a : List Value, inDL true a = true
  | [] => by simp [inDL]
  | x :: xs => by simp only [inDL, Bool.and_eq_true]; exact ⟨inD_true x, inDL_true xs⟩
theorem inDKV_true : ∀ a : List (String × Value), inDKV true a = true
  | [] => by simp [inDKV]
  | (_, x) :: xs => by simp only [inDKV, Bool.and_eq_true]; exact ⟨inD_true x, inDKV_true xs⟩
end

/-- the datum a number is compared as: a double as itself, an integer as the exact (unrounded)
datum `exactInt i` -/
def toF : Value → F64
  | int i => exactInt i
  | float f => f
  | _ => F64.nan

def isNum : Value → Bool
  | int _ => true
  | float _ => true
  | _ => false

/-! ### rank -/

theorem isNum_iff_rank (a : Value) : isNum a = true ↔ a.rank = 2 := by
  cases a <;> simp [isNum, rank]

theorem isNum_of_rank {a b : Value} (h : a.rank = b.rank) (ha : isNum a) : isNum b := by
  rw [isNum_iff_rank] at *; omega

theorem cmp_rank_lt (a b : Value) (h : a.rank < b.rank) : cmp a b = .lt := by
  cases a <;> cases b <;> simp [rank] at h <;> simp [cmp, rank] <;> decide

theorem cmp_rank_gt (a b : Value) (h : b.rank < a.rank) : cmp a b = .gt := by
  cases a <;> cases b <;> simp [rank] at h <;> simp [cmp, rank] <;> decide

theorem rank_le_of_isLE {a b : Value} (h : (cmp a b).isLE) : a.rank ≤ b.rank := by
  apply Nat.le_of_not_lt
  intro hlt
  rw [cmp_rank_gt a b hlt] at h
  exact absurd h (by decide)

theorem rank_le_of_cmp_lt {a b : Value} (h : cmp a b = .lt) : a.rank ≤ b.rank :=
  rank_le_of_isLE (by rw [h]; rfl)

theorem rank_eq_of_cmp_eq {a b : Value} (h : cmp a b = .eq) : a.rank = b.rank := by
  rcases Nat.lt_trichotomy a.rank b.rank with h1 | h1 | h1
  · rw [cmp_rank_lt a b h1] at h; exact absurd h (by decide)
  · exact h1
  · rw [cmp_rank_gt a b h1] at h; exact absurd h (by decide)

/-! ### the shape of `cmpL` / `cmpKV`: lexicographic (`Ordering.then`) -/

theorem cmpL_nil_nil : cmpL [] [] = .eq := by simp [cmpL]
theorem cmpL_nil_cons (y : Value) (ys : List Value) : cmpL [] (y :: ys) = .lt := by simp [cmpL]
theorem cmpL_cons_nil (x : Value) (xs : List Value) : cmpL (x :: xs) [] = .gt := by simp [cmpL]
theorem cmpL_cons_cons (x y : Value) (xs ys : List Value) :
    cmpL (x :: xs) (y :: ys) = (cmp x y).then (cmpL xs ys) := by
  rw [cmpL]; cases cmp x y <;> rfl

theorem cmpKV_nil_nil : cmpKV [] [] = .eq := by simp [cmpKV]
theorem cmpKV_nil_cons (y : String × Value) (ys : List (String × Value)) :
    cmpKV [] (y :: ys) = .lt := by simp [cmpKV]
theorem cmpKV_cons_nil (x : String × Value) (xs : List (String × Value)) :
    cmpKV (x :: xs) [] = .gt := by simp [cmpKV]
theorem cmpKV_cons_cons (k l : String) (x y : Value) (xs ys : List (String × Value)) :
    cmpKV ((k, x) :: xs) ((l, y) :: ys) =
      (compare k l).then ((cmp x y).then (cmpKV xs ys)) := by
  rw [cmpKV]; cases compare k l <;> cases cmp x y <;> rfl

theorem cmp_arr_arr (a b : List Value) : cmp (arr a) (arr b) = cmpL a b := by simp [cmp]
theorem cmp_obj_obj (a b : List (String × Value)) : cmp (obj a) (obj b) = cmpKV a b := by
  simp [cmp]

/-! ### numbers are compared by exact value, in `OrderedFloat`'s order -/

theorem cmpBool_swap (a b : Bool) : (cmpBool a b).swap = cmpBool b a := by
  cases a <;> cases b <;> rfl

theorem cmp_num {a b : Value} (na : isNum a) (nb : isNum b) : cmp a b = ocmp (toF a) (toF b) := by
  cases a <;> cases b <;> simp [isNum] at na nb <;> simp only [cmp, toF]
  · exact (ocmp_exactInt _ _).symm
  · exact cmpIntFloat_eq_ocmp _ _
  · rw [cmpIntFloat_eq_ocmp, ocmp_swap]

theorem cmp_int_int (a b : Int) : cmp (int a) (int b) = compare a b := by simp [cmp]

/-! ### orientation: swapping the arguments swaps the outcome — for ALL values -/

/-- values that are neither arrays nor objects -/
theorem cmp_swap_flat (a b : Value) (h : a.rank < 6) : (cmp a b).swap = cmp b a := by
  cases a <;> simp [rank] at h <;> cases b <;>
    simp [cmp, rank, ocmp_swap, Int.compare_swap, cmpBool_swap] <;> try decide
  exact (Std.OrientedOrd.eq_swap).symm

mutual
theorem cmp_swap : ∀ a b : Value, (cmp a b).swap = cmp b a
  | .none, b => cmp_swap_flat _ b (by simp [rank])
  | .bool _, b => cmp_swap_flat _ b (by simp [rank])
  | .int _, b => cmp_swap_flat _ b (by simp [rank])
  | .float _, b => cmp_swap_flat _ b (by simp [rank])
  | .str _, b => cmp_swap_flat _ b (by simp [rank])
  | .date _, b => cmp_swap_flat _ b (by simp [rank])
  | .dur _, b => cmp_swap_flat _ b (by simp [rank])
  | .arr xs, b => by
    cases b <;>
      first
        | (rw [cmp_arr_arr, cmp_arr_arr]; exact cmpL_swap xs _)
        | (simp [cmp, rank] <;> decide)
  | .obj xs, b => by
    cases b <;>
      first
        | (rw [cmp_obj_obj, cmp_obj_obj]; exact cmpKV_swap xs _)
        | (simp [cmp, rank] <;> decide)
theorem cmpL_swap : ∀ a b : List Value, (cmpL a b).swap = cmpL b a
  | [], [] => by simp [cmpL]
  | [], _ :: _ => by simp [cmpL]
  | _ :: _, [] => by simp [cmpL]
  | x :: xs, y :: ys => by
    rw [cmpL_cons_cons, cmpL_cons_cons, Ordering.swap_then, cmp_swap x y, cmpL_swap xs ys]
theorem cmpKV_swap : ∀ a b : List (String × Value), (cmpKV a b).swap = cmpKV b a
  | [], [] => by simp [cmpKV]
  | [], _ :: _ => by simp [cmpKV]
  | _ :: _, [] => by simp [cmpKV]
  | (k, x) :: xs, (l, y) :: ys => by
    rw [cmpKV_cons_cons, cmpKV_cons_cons, Ordering.swap_then, Ordering.swap_then,
      cmp_swap x y, cmpKV_swap xs ys, ← Std.OrientedOrd.eq_swap]
end

theorem swap_eq_self {o : Ordering} (h : o.swap = o) : o = .eq := by
  cases o <;> simp_all

/-- reflexivity for all values -/
theorem cmp_self (a : Value) : cmp a a = .eq := swap_eq_self (cmp_swap a a)
theorem cmpL_self (a : List Value) : cmpL a a = .eq := swap_eq_self (cmpL_swap a a)
theorem cmpKV_self (a : List (String × Value)) : cmpKV a a = .eq := swap_eq_self (cmpKV_swap a a)

/-! ### transitivity, as a package that is closed under lexicographic combination -/

/-- the four transitivity laws of a three-way comparison on one triple -/
structure TransOK (ab bc ac : Ordering) : Prop where
  ll : ab = .lt → bc = .lt → ac = .lt
  le : ab = .lt → bc = .eq → ac = .lt
  el : ab = .eq → bc = .lt → ac = .lt
  ee : ab = .eq → bc = .eq → ac = .eq

theorem TransOK.isLE {ab bc ac : Ordering} (h : TransOK ab bc ac)
    (h1 : ab.isLE) (h2 : bc.isLE) : ac.isLE := by
  cases ab <;> cases bc <;> simp at h1 h2
  · rw [h.ll rfl rfl]; rfl
  · rw [h.le rfl rfl]; rfl
  · rw [h.el rfl rfl]; rfl
  · rw [h.ee rfl rfl]; rfl

theorem TransOK.then {xy yz xz r1 r2 r3 : Ordering} (h : TransOK xy yz xz)
    (h' : TransOK r1 r2 r3) : TransOK (xy.then r1) (yz.then r2) (xz.then r3) := by
  constructor
  · intro a b
    rw [Ordering.then_eq_lt] at a b ⊢
    rcases a with a | ⟨a, a'⟩ <;> rcases b with b | ⟨b, b'⟩
    · exact .inl (h.ll a b)
    · exact .inl (h.le a b)
    · exact .inl (h.el a b)
    · exact .inr ⟨h.ee a b, h'.ll a' b'⟩
  · intro a b
    rw [Ordering.then_eq_lt] at a ⊢
    rw [Ordering.then_eq_eq] at b
    rcases a with a | ⟨a, a'⟩
    · exact .inl (h.le a b.1)
    · exact .inr ⟨h.ee a b.1, h'.le a' b.2⟩
  · intro a b
    rw [Ordering.then_eq_lt] at b ⊢
    rw [Ordering.then_eq_eq] at a
    rcases b with b | ⟨b, b'⟩
    · exact .inl (h.el a.1 b)
    · exact .inr ⟨h.ee a.1 b, h'.el a.2 b'⟩
  · intro a b
    rw [Ordering.then_eq_eq] at a b ⊢
    exact ⟨h.ee a.1 b.1, h'.ee a.2 b.2⟩

theorem transOK_of_transCmp {α} (c : α → α → Ordering) [Std.TransCmp c] (x y z : α) :
    TransOK (c x y) (c y z) (c x z) :=
  ⟨Std.TransCmp.lt_trans, Std.TransCmp.lt_of_lt_of_eq, Std.TransCmp.lt_of_eq_of_lt,
    Std.TransCmp.eq_trans⟩

theorem transOK_cmpBool (a b c : Bool) : TransOK (cmpBool a b) (cmpBool b c) (cmpBool a c) := by
  cases a <;> cases b <;> cases c <;> constructor <;> simp [cmpBool]

/-- triples whose ranks are not all equal: decided by `rank` alone (all values) -/
theorem transOK_of_rank (a b c : Value) (h : ¬ (a.rank = b.rank ∧ b.rank = c.rank)) :
    TransOK (cmp a b) (cmp b c) (cmp a c) := by
  constructor
  · intro h1 h2
    have := rank_le_of_cmp_lt h1; have := rank_le_of_cmp_lt h2
    exact cmp_rank_lt a c (by omega)
  · intro h1 h2
    have := rank_le_of_cmp_lt h1; have := rank_eq_of_cmp_eq h2
    exact cmp_rank_lt a c (by omega)
  · intro h1 h2
    have := rank_eq_of_cmp_eq h1; have := rank_le_of_cmp_lt h2
    exact cmp_rank_lt a c (by omega)
  · intro h1 h2
    have := rank_eq_of_cmp_eq h1; have := rank_eq_of_cmp_eq h2
    omega

/-- scalars (neither arrays nor objects) -/
theorem cmp_transOK_flat (a b c : Value) (hflat : a.rank < 6) :
    TransOK (cmp a b) (cmp b c) (cmp a c) := by
  by_cases hr : ¬ (a.rank = b.rank ∧ b.rank = c.rank)
  · exact transOK_of_rank a b c hr
  obtain ⟨rab, rbc⟩ := Classical.not_not.1 hr
  by_cases hn : isNum a
  · have hnb : isNum b := isNum_of_rank rab hn
    have hnc : isNum c := isNum_of_rank rbc hnb
    rw [cmp_num hn hnb, cmp_num hnb hnc, cmp_num hn hnc]
    exact transOK_of_transCmp ocmp _ _ _
  · cases a <;> simp [isNum] at hn <;> simp [rank] at hflat <;> cases b <;> simp [rank] at rab <;>
      cases c <;> simp [rank] at rbc <;> simp only [cmp, rank]
    · constructor <;> simp
    · exact transOK_cmpBool _ _ _
    · exact transOK_of_transCmp (compare : String → String → Ordering) _ _ _
    · exact transOK_of_transCmp (compare : Int → Int → Ordering) _ _ _
    · exact transOK_of_transCmp (compare : Int → Int → Ordering) _ _ _

mutual
/-- transitivity for ALL values (nested arrays and objects included) -/
theorem cmp_transOK_all : ∀ a b c : Value, TransOK (cmp a b) (cmp b c) (cmp a c)
  | .none, b, c => cmp_transOK_flat _ b c (by simp [rank])
  | .bool _, b, c => cmp_transOK_flat _ b c (by simp [rank])
  | .int _, b, c => cmp_transOK_flat _ b c (by simp [rank])
  | .float _, b, c => cmp_transOK_flat _ b c (by simp [rank])
  | .str _, b, c => cmp_transOK_flat _ b c (by simp [rank])
  | .date _, b, c => cmp_transOK_flat _ b c (by simp [rank])
  | .dur _, b, c => cmp_transOK_flat _ b c (by simp [rank])
  | .arr xs, b, c => by
    by_cases hr : ¬ ((arr xs).rank = b.rank ∧ b.rank = c.rank)
    · exact transOK_of_rank _ b c hr
    obtain ⟨rab, rbc⟩ := Classical.not_not.1 hr
    cases b <;> simp [rank] at rab
    cases c <;> simp [rank] at rbc
    simp only [cmp_arr_arr]
    exact cmpL_transOK_all xs _ _
  | .obj xs, b, c => by
    by_cases hr : ¬ ((obj xs).rank = b.rank ∧ b.rank = c.rank)
    · exact transOK_of_rank _ b c hr
    obtain ⟨rab, rbc⟩ := Classical.not_not.1 hr
    cases b <;> simp [rank] at rab
    cases c <;> simp [rank] at rbc
    simp only [cmp_obj_obj]
    exact cmpKV_transOK_all xs _ _
theorem cmpL_transOK_all : ∀ a b c : List Value, TransOK (cmpL a b) (cmpL b c) (cmpL a c)
  | [], b, c => by
    cases b <;> cases c <;> constructor <;> simp [cmpL]
  | x :: xs, b, c => by
    cases b with
    | nil => cases c <;> constructor <;> simp [cmpL]
    | cons y ys =>
      cases c with
      | nil => constructor <;> simp [cmpL]
      | cons z zs =>
        simp only [cmpL_cons_cons]
        exact (cmp_transOK_all x y z).then (cmpL_transOK_all xs ys zs)
theorem cmpKV_transOK_all : ∀ a b c : List (String × Value),
    TransOK (cmpKV a b) (cmpKV b c) (cmpKV a c)
  | [], b, c => by
    cases b <;> cases c <;> constructor <;> simp [cmpKV]
  | (k, x) :: xs, b, c => by
    cases b with
    | nil => cases c <;> constructor <;> simp [cmpKV]
    | cons y ys =>
      obtain ⟨l, y⟩ := y
      cases c with
      | nil => constructor <;> simp [cmpKV]
      | cons z zs =>
        obtain ⟨n, z⟩ := z
        simp only [cmpKV_cons_cons]
        exact (transOK_of_transCmp (compare : String → String → Ordering) k l n).then
          ((cmp_transOK_all x y z).then (cmpKV_transOK_all xs ys zs))
end

/-- (the domain hypotheses are no longer used; kept for the callers' signatures) -/
theorem cmp_transOK (fl : Bool) (a b c : Value) (_ : inD fl a = true) (_ : inD fl b = true)
    (_ : inD fl c = true) : TransOK (cmp a b) (cmp b c) (cmp a c) := cmp_transOK_all a b c
theorem cmpL_transOK (fl : Bool) (a b c : List Value) (_ : inDL fl a = true) (_ : inDL fl b = true)
    (_ : inDL fl c = true) : TransOK (cmpL a b) (cmpL b c) (cmpL a c) := cmpL_transOK_all a b c
theorem cmpKV_transOK (fl : Bool) (a b c : List (String × Value)) (_ : inDKV fl a = true)
    (_ : inDKV fl b = true) (_ : inDKV fl c = true) :
    TransOK (cmpKV a b) (cmpKV b c) (cmpKV a c) := cmpKV_transOK_all a b c

theorem cmp_isLE_trans_all {a b c : Value} (h1 : (cmp a b).isLE) (h2 : (cmp b c).isLE) :
    (cmp a c).isLE := (cmp_transOK_all a b c).isLE h1 h2

theorem cmp_isLE_trans {fl : Bool} {a b c : Value} (ha : inD fl a) (hb : inD fl b) (hc : inD fl c)
    (h1 : (cmp a b).isLE) (h2 : (cmp b c).isLE) : (cmp a c).isLE :=
  (cmp_transOK fl a b c ha hb hc).isLE h1 h2

/-! ### `==` (derived `PartialEq`) against `cmp … = Equal` on values with normalised numbers -/

/-- a `Float` as `from_float` leaves it: it does not hold an integer of the i64 range (NaN, ±inf,
non-integral doubles, and integral doubles beyond ±2^63) -/
def normFloat : F64 → Bool
  | fin s m e => fractNonzero (fin s m e) || !inI64 (truncInt s m e)
  | _ => true

mutual
/-- values whose numbers are normalised the way `from_float` leaves them (a `Float` never holds
an integer of the i64 range); an `Int` is any i64 (the model's integers are mathematical: the
range is part of the Rust type, and beyond it `Int 2^63` would be `Equal` to the normalised
`Float 2^63`) — recursively through arrays and objects -/
def inS : Value → Bool
  | none => true
  | bool _ => true
  | int i => inI64 i
  | float f => normFloat f
  | str _ => true
  | date _ => true
  | dur _ => true
  | arr vs => inSL vs
  | obj kvs => inSKV kvs
def inSL : List Value → Bool
  | [] => true
  | x :: xs => inS x && inSL xs
def inSKV : List (String × Value) → Bool
  | [] => true
  | (_, x) :: xs => inS x && inSKV xs
end

mutual
theorem inD_of_inS : ∀ a : Value, inS a = true → inD true a = true
  | .none, _ => by simp [inD]
  | .bool _, _ => by simp [inD]
  | .int _, _ => by simp [inD]
  | .float _, _ => by simp [inD]
  | .str _, _ => by simp [inD]
  | .date _, _ => by simp [inD]
  | .dur _, _ => by simp [inD]
  | .arr xs, h => by simp only [inS] at h; simp only [inD]; exact inDL_of_inSL xs h
  | .obj xs, h => by simp only [inS] at h; simp only [inD]; exact inDKV_of_inSKV xs h
theorem inDL_of_inSL : ∀ a : List Value, inSL a = true → inDL true a = true
  | [], _ => by simp [inDL]
  | x :: xs, h => by
    simp only [inSL, Bool.and_eq_true] at h
    simp only [inDL, Bool.and_eq_true]
    exact ⟨inD_of_inS x h.1, inDL_of_inSL xs h.2⟩
theorem inDKV_of_inSKV : ∀ a : List (String × Value), inSKV a = true → inDKV true a = true
  | [], _ => by simp [inDKV]
  | (_, x) :: xs, h => by
    simp only [inSKV, Bool.and_eq_true] at h
    simp only [inDKV, Bool.and_eq_true]
    exact ⟨inD_of_inS x h.1, inDKV_of_inSKV xs h.2⟩
end

theorem cmpBool_eq_iff (a b : Bool) : cmpBool a b = .eq ↔ a = b := by
  cases a <;> cases b <;> simp [cmpBool]

/-- a normalised double is not `Equal` to any integer of the i64 range -/
theorem cmpIntFloat_ne_eq_norm {i : Int} {f : F64} (hi : inI64 i = true)
    (hf : normFloat f = true) : cmpIntFloat i f ≠ .eq := by
  intro h
  have hv := cmpIntFloat_eq_hasVal h
  cases f with
  | nan => simp [HasVal] at hv
  | inf b => simp [HasVal] at hv
  | fin s m e =>
    simp only [normFloat, Bool.or_eq_true, Bool.not_eq_true'] at hf
    by_cases hfr : fractNonzero (fin s m e) = true
    · exact not_hasVal_int_of_fractNonzero hfr hv
    · have hfr' : fractNonzero (fin s m e) = false := by simpa using hfr
      rcases hf with hf | hf
      · exact absurd hf hfr
      · -- integral: its value is `truncInt`, which is outside the i64 range, but equals `i`
        have hv2 : HasVal (fin s m e) (truncInt s m e) 0 := truncInt_hasVal hfr'
        rw [← hasVal_unique hv hv2, hi] at hf
        exact absurd hf (by decide)

theorem beq_iff_cmp_eq_flat {a b : Value} (ha : inS a) (hb : inS b) (hflat : a.rank < 6) :
    beq a b = true ↔ cmp a b = .eq := by
  cases a <;> simp [rank] at hflat <;> cases b <;> simp only [inS] at ha hb <;>
    simp [beq, cmp, rank, cmpBool_eq_iff, oeq_iff] <;> try decide
  · exact cmpIntFloat_ne_eq_norm ha hb
  · exact cmpIntFloat_ne_eq_norm hb ha

mutual
theorem beq_iff_cmp_eq : ∀ a b : Value, inS a = true → inS b = true →
    (beq a b = true ↔ cmp a b = .eq)
  | .none, _, ha, hb => beq_iff_cmp_eq_flat ha hb (by simp [rank])
  | .bool _, _, ha, hb => beq_iff_cmp_eq_flat ha hb (by simp [rank])
  | .int _, _, ha, hb => beq_iff_cmp_eq_flat ha hb (by simp [rank])
  | .float _, _, ha, hb => beq_iff_cmp_eq_flat ha hb (by simp [rank])
  | .str _, _, ha, hb => beq_iff_cmp_eq_flat ha hb (by simp [rank])
  | .date _, _, ha, hb => beq_iff_cmp_eq_flat ha hb (by simp [rank])
  | .dur _, _, ha, hb => beq_iff_cmp_eq_flat ha hb (by simp [rank])
  | .arr xs, b, ha, hb => by
    cases b <;> try (simp [beq, cmp, rank]; done)
    simp only [inS] at ha hb
    simp only [beq, cmp_arr_arr]
    exact beqL_iff_cmpL_eq xs _ ha hb
  | .obj xs, b, ha, hb => by
    cases b <;> try (simp [beq, cmp, rank]; done)
    simp only [inS] at ha hb
    simp only [beq, cmp_obj_obj]
    exact beqKV_iff_cmpKV_eq xs _ ha hb
theorem beqL_iff_cmpL_eq : ∀ a b : List Value, inSL a = true → inSL b = true →
    (beqL a b = true ↔ cmpL a b = .eq)
  | [], b, _, _ => by cases b <;> simp [beqL, cmpL]
  | x :: xs, b, ha, hb => by
    cases b with
    | nil => simp [beqL, cmpL]
    | cons y ys =>
      simp only [inSL, Bool.and_eq_true] at ha hb
      rw [cmpL_cons_cons, Ordering.then_eq_eq]
      simp only [beqL, Bool.and_eq_true]
      rw [beq_iff_cmp_eq x y ha.1 hb.1, beqL_iff_cmpL_eq xs ys ha.2 hb.2]
theorem beqKV_iff_cmpKV_eq : ∀ a b : List (String × Value), inSKV a = true → inSKV b = true →
    (beqKV a b = true ↔ cmpKV a b = .eq)
  | [], b, _, _ => by cases b <;> simp [beqKV, cmpKV]
  | (k, x) :: xs, b, ha, hb => by
    cases b with
    | nil => simp [beqKV, cmpKV]
    | cons y ys =>
      obtain ⟨l, y⟩ := y
      simp only [inSKV, Bool.and_eq_true] at ha hb
      rw [cmpKV_cons_cons, Ordering.then_eq_eq, Ordering.then_eq_eq]
      simp only [beqKV, Bool.and_eq_true, beq_iff_eq]
      rw [beq_iff_cmp_eq x y ha.1 hb.1, beqKV_iff_cmpKV_eq xs ys ha.2 hb.2,
        Std.LawfulEqOrd.compare_eq_iff_eq]
      exact and_assoc
end

/-! ### exact numeric value of a `Value`; numbers compare by it -/

/-- exact numeric value (`none` for non-numbers and for NaN / ±inf) -/
def num : Value → Option Dyadic
  | int i => some (i : Dyadic)
  | float f => val? f
  | _ => Option.none

theorem dcmp_intCast (a b : Int) : dcmp (a : Dyadic) (b : Dyadic) = compare a b :=
  dcmp_ofIntWithPrec a b 0

/-- numbers (integers and finite doubles, mixed) compare by exact value — all of them -/
theorem cmp_eq_dcmp_all {a b : Value} {x y : Dyadic}
    (hx : num a = some x) (hy : num b = some y) : cmp a b = dcmp x y := by
  cases a <;> simp only [num, reduceCtorEq] at hx <;> cases b <;> simp only [num, reduceCtorEq] at hy
  · simp only [Option.some.injEq] at hx hy
    subst hx hy
    rw [cmp_int_int, dcmp_intCast]
  · simp only [Option.some.injEq] at hx
    subst hx
    simp only [cmp]
    exact cmpIntFloat_eq_dcmp _ hy
  · simp only [Option.some.injEq] at hy
    subst hy
    simp only [cmp]
    rw [cmpIntFloat_eq_ocmp, ocmp_swap]
    exact ocmp_eq_dcmp hx (val_exactInt _)
  · simp only [cmp]
    exact ocmp_eq_dcmp hx hy

/-- (the domain hypotheses are no longer used; kept for the callers' signatures) -/
theorem cmp_eq_dcmp {fl : Bool} {a b : Value} {x y : Dyadic} (_ : inD fl a) (_ : inD fl b)
    (hx : num a = some x) (hy : num b = some y) : cmp a b = dcmp x y := cmp_eq_dcmp_all hx hy

end Value
end Ag
