/-
Helper lemmas about `Value.cmp` / `Value.beq` (`impl Ord for Value`, derived `PartialEq`):
compatibility with `rank`, orientation, transitivity on the domain `inD`.
-/
import AgProofs.Lemmas.F64

namespace Ag
namespace Value
open F64

/-! ### the domain

`inD fl v`: `v` is not an object (the model's object order is a stand-in for hash order), and
either there are no floats at all (`fl = false`, integers unrestricted) or floats are allowed
(`fl = true`) and every integer is within ±2^53, where `i64 as f64` is exact.
Arrays are members: `cmp` makes any two arrays `Equal`, which is still a total preorder. -/

def inD (fl : Bool) : Value → Bool
  | obj _ => false
  | float _ => fl
  | int i => !fl || decide (i.natAbs ≤ two53)
  | _ => true

/-- the double a number is compared as -/
def toF : Value → F64
  | int i => ofInt i
  | float f => f
  | _ => F64.nan

def isNum : Value → Bool
  | int _ => true
  | float _ => true
  | _ => false

/-! ### rank -/

theorem isNum_iff_rank (a : Value) : isNum a = true ↔ a.rank = 2 := by
  cases a <;> simp [isNum, rank]

theorem isNum_of_rank {a b : Value} (h : a.rank = b.rank) (ha : isNum a) : isNum b := by
  rw [isNum_iff_rank] at *; omega

theorem cmp_rank_lt (a b : Value) (h : a.rank < b.rank) : cmp a b = .lt := by
  cases a <;> cases b <;> simp [rank] at h <;> simp [cmp, rank] <;> decide

theorem cmp_rank_gt (a b : Value) (h : b.rank < a.rank) : cmp a b = .gt := by
  cases a <;> cases b <;> simp [rank] at h <;> simp [cmp, rank] <;> decide

theorem rank_le_of_isLE {a b : Value} (h : (cmp a b).isLE) : a.rank ≤ b.rank := by
  apply Nat.le_of_not_lt
  intro hlt
  rw [cmp_rank_gt a b hlt] at h
  exact absurd h (by decide)

theorem cmpBool_swap (a b : Bool) : (cmpBool a b).swap = cmpBool b a := by
  cases a <;> cases b <;> rfl

theorem cmpBool_isLE_trans {a b c : Bool} (h1 : (cmpBool a b).isLE) (h2 : (cmpBool b c).isLE) :
    (cmpBool a c).isLE := by
  cases a <;> cases b <;> cases c <;> simp_all [cmpBool]

/-! ### numbers are compared as doubles -/

theorem cmp_num {fl : Bool} {a b : Value} (ha : inD fl a) (hb : inD fl b)
    (na : isNum a) (nb : isNum b) (hfl : fl = true) : cmp a b = ocmp (toF a) (toF b) := by
  subst hfl
  cases a <;> cases b <;> simp [isNum] at na nb <;> simp [cmp, toF]
  simp [inD] at ha hb
  rw [ocmp_ofInt ha hb]

theorem cmp_int_int (a b : Int) : cmp (int a) (int b) = compare a b := by simp [cmp]

/-! ### orientation (all values except object/object pairs) -/

theorem cmp_swap (a b : Value) (h : ¬ (a.rank = 7 ∧ b.rank = 7)) : (cmp a b).swap = cmp b a := by
  cases a <;> cases b <;> simp [rank] at h <;>
    simp [cmp, rank, ocmp_swap, Int.compare_swap, cmpBool_swap] <;> try decide
  exact (Std.OrientedOrd.eq_swap).symm

/-! ### transitivity on the domain -/

theorem cmp_isLE_trans {fl : Bool} {a b c : Value} (ha : inD fl a) (hb : inD fl b) (hc : inD fl c)
    (h1 : (cmp a b).isLE) (h2 : (cmp b c).isLE) : (cmp a c).isLE := by
  have r1 := rank_le_of_isLE h1
  have r2 := rank_le_of_isLE h2
  by_cases hlt : a.rank < c.rank
  · rw [cmp_rank_lt a c hlt]; decide
  have rab : a.rank = b.rank := by omega
  have rbc : b.rank = c.rank := by omega
  by_cases hn : isNum a
  · have hnb : isNum b := isNum_of_rank rab hn
    have hnc : isNum c := isNum_of_rank rbc hnb
    cases fl
    · -- no floats: all three are ints
      cases a <;> cases b <;> cases c <;> simp_all [isNum, inD]
      simp only [cmp_int_int] at h1 h2 ⊢
      exact Std.TransCmp.isLE_trans h1 h2
    · rw [cmp_num ha hb hn hnb rfl] at h1
      rw [cmp_num hb hc hnb hnc rfl] at h2
      rw [cmp_num ha hc hn hnc rfl]
      exact ocmp_isLE_trans h1 h2
  · cases a <;> simp [isNum] at hn <;> cases b <;> simp [rank] at rab <;>
      cases c <;> simp [rank] at rbc <;> simp_all [cmp, inD, rank]
    · exact cmpBool_isLE_trans h1 h2
    · exact Std.TransCmp.isLE_trans h1 h2
    · exact Std.TransCmp.isLE_trans h1 h2
    · exact Std.TransCmp.isLE_trans h1 h2

/-! ### `==` (derived `PartialEq`) against `cmp … = Equal` on scalars with normalised numbers -/

/-- scalar values whose numbers are normalised the way `from_float` leaves them: a `float` never
holds an integral value (NaN and ±inf count as non-integral), integers within ±2^53 -/
def inS : Value → Bool
  | none => true
  | bool _ => true
  | str _ => true
  | date _ => true
  | dur _ => true
  | int i => decide (i.natAbs ≤ two53)
  | float f => fractNonzero f
  | arr _ => false
  | obj _ => false

theorem inD_of_inS {a : Value} (h : inS a) : inD true a := by
  cases a <;> simp_all [inS, inD]

theorem cmpBool_eq_iff (a b : Bool) : cmpBool a b = .eq ↔ a = b := by
  cases a <;> cases b <;> simp [cmpBool]

theorem beq_iff_cmp_eq {a b : Value} (ha : inS a) (hb : inS b) :
    beq a b = true ↔ cmp a b = .eq := by
  cases a <;> cases b <;> simp [inS] at ha hb <;>
    simp [beq, cmp, rank, cmpBool_eq_iff, oeq_iff] <;> try decide
  · exact (ocmp_ofInt_ne_eq ha hb).1
  · exact (ocmp_ofInt_ne_eq hb ha).2

/-! ### exact numeric value of a `Value`; numbers compare by it -/

/-- exact numeric value (`none` for non-numbers and for NaN / ±inf) -/
def num : Value → Option Dyadic
  | int i => some (i : Dyadic)
  | float f => val? f
  | _ => Option.none

theorem dcmp_intCast (a b : Int) : dcmp (a : Dyadic) (b : Dyadic) = compare a b :=
  dcmp_ofIntWithPrec a b 0

theorem cmp_eq_dcmp {fl : Bool} {a b : Value} {x y : Dyadic} (ha : inD fl a) (hb : inD fl b)
    (hx : num a = some x) (hy : num b = some y) : cmp a b = dcmp x y := by
  cases a <;> simp only [num, reduceCtorEq] at hx <;> cases b <;> simp only [num, reduceCtorEq] at hy
  · simp only [Option.some.injEq] at hx hy
    subst hx hy
    rw [cmp_int_int, dcmp_intCast]
  · cases fl <;> simp [inD] at ha hb
    simp only [cmp]
    exact ocmp_eq_dcmp (by rw [val_ofInt ha, hx]) hy
  · cases fl <;> simp [inD] at ha hb
    simp only [cmp]
    exact ocmp_eq_dcmp hx (by rw [val_ofInt hb, hy])
  · simp only [cmp]
    exact ocmp_eq_dcmp hx hy

theorem rank_ne_obj_of_inD {fl : Bool} {a : Value} (h : inD fl a) : a.rank ≠ 7 := by
  cases a <;> simp_all [inD, rank]

end Value
end Ag
