/-
`split_with_delimiters` / `find_close_delimiter` (src/operator/split.rs) — lemmas for C07:
progress and termination for a non-empty separator, shape of the tokens, the quote-free case.
-/
import AgModel.Ops

namespace Ag.Text

theorem dropWhile_idem {α} (p : α → Bool) (l : List α) :
    (l.dropWhile p).dropWhile p = l.dropWhile p := by
  induction l with
  | nil => rfl
  | cons a l ih =>
    simp only [List.dropWhile_cons]
    split
    · exact ih
    · rename_i h; simp [h]

theorem dropWhile_of_head {α} (p : α → Bool) (a : α) (l : List α) (h : p a = false) :
    (a :: l).dropWhile p = a :: l := by
  simp [h]

theorem trimStart_head (cs : List Char) (a : Char) (r : List Char)
    (h : trimStart cs = a :: r) : isWhite a = false := by
  have := List.head?_dropWhile_not isWhite cs
  unfold trimStart at h
  rw [h] at this
  simpa using this

theorem trimEnd_prefix (cs : List Char) : trimEnd cs <+: cs := by
  unfold trimEnd
  have := List.dropWhile_suffix (l := cs.reverse) isWhite
  have h2 := List.reverse_prefix.mpr this
  simpa using h2

theorem trimEnd_idem (cs : List Char) : trimEnd (trimEnd cs) = trimEnd cs := by
  simp [trimEnd, dropWhile_idem]

/-- the result of `trim` starts and ends with a non-blank (or is empty) -/
theorem trimStart_trim (cs : List Char) : trimStart (trim cs) = trim cs := by
  unfold trim
  cases hz : trimEnd (trimStart cs) with
  | nil => rfl
  | cons a z =>
    have hp := trimEnd_prefix (trimStart cs)
    rw [hz] at hp
    obtain ⟨t, ht⟩ := hp
    have hw : isWhite a = false := trimStart_head cs a (z ++ t) (by simpa using ht.symm)
    exact dropWhile_of_head isWhite a z hw

theorem trimEnd_trim (cs : List Char) : trimEnd (trim cs) = trim cs := by
  unfold trim; exact trimEnd_idem _

theorem trim_idem (cs : List Char) : trim (trim cs) = trim cs := by
  show trimEnd (trimStart (trim cs)) = trim cs
  rw [trimStart_trim, trimEnd_trim]

theorem stripPrefix?_some (p s r : List Char) : stripPrefix? p s = some r ↔ s = p ++ r := by
  induction p generalizing s with
  | nil => simp only [stripPrefix?, Option.some.injEq, List.nil_append, eq_comm]
  | cons a p ih =>
    cases s with
    | nil => simp [stripPrefix?]
    | cons c s =>
      simp only [stripPrefix?]
      by_cases h : (a == c) = true
      · have e : a = c := by simpa using h
        subst e
        simp [ih]
      · have h' : (a == c) = false := by simpa using h
        have ne : ¬ a = c := by simpa using h
        simp only [h', Bool.false_eq_true, if_false]
        constructor
        · intro x; cases x
        · intro x; simp at x; exact absurd x.1.symm ne

theorem splitOnce_some (pat s a b : List Char) (h : splitOnce pat s = some (a, b)) :
    s = a ++ (pat ++ b) := by
  induction s generalizing a with
  | nil =>
    simp only [splitOnce] at h
    split at h
    · rename_i hp
      have : pat = [] := by simpa using hp
      simp at h; simp [h.1, h.2, this]
    · cases h
  | cons c cs ih =>
    simp only [splitOnce] at h
    cases hs : stripPrefix? pat (c :: cs) with
    | some rest =>
      simp only [hs, Option.some.injEq, Prod.mk.injEq] at h
      obtain ⟨h1, h2⟩ := h
      subst h1 h2
      simpa using (stripPrefix?_some pat (c :: cs) rest).mp hs
    | none =>
      simp only [hs] at h
      cases hr : splitOnce pat cs with
      | none => simp [hr] at h
      | some ab =>
        obtain ⟨a', b'⟩ := ab
        simp only [hr, Option.some.injEq, Prod.mk.injEq] at h
        obtain ⟨h1, h2⟩ := h
        subst h1 h2
        simp [ih a' hr]

end Ag.Text

namespace Ag.Split

/-- one round of the loop of `split_with_delimiters`: (token, rest) -/
def step (sep wip : List Char) : List Char × List Char :=
  match wip with
  | c :: _ =>
    if c == '"' then closeDelim '"' wip
    else if c == '\'' then closeDelim '\'' wip
    else splitOnce wip sep
  | [] => ([], [])

/-- `let token = token.trim(); if !token.is_empty() { ret.push(token) }` (list kept reversed) -/
def emit (acc : List (List Char)) (tok : List Char) : List (List Char) :=
  if (Text.trim tok).isEmpty then acc else Text.trim tok :: acc

theorem splitLoop_succ (sep : List Char) (fuel : Nat) (c : Char) (cs : List Char)
    (acc : List (List Char)) :
    splitLoop sep (fuel + 1) (c :: cs) acc =
      if (step sep (c :: cs)).2.length < (c :: cs).length
      then splitLoop sep fuel (step sep (c :: cs)).2 (emit acc (step sep (c :: cs)).1) else none := by
  simp only [splitLoop, step, emit]
  split <;> rfl

theorem splitLoop_nil (sep : List Char) (fuel : Nat) (acc : List (List Char)) :
    splitLoop sep fuel [] acc = some acc.reverse := by
  cases fuel <;> rfl

theorem findClose_length (q : Char) (whole acc cur tok rest : List Char)
    (h : findClose q whole acc cur = some (tok, rest)) : rest.length < cur.length := by
  induction cur generalizing acc with
  | nil => simp [findClose] at h
  | cons c cs ih =>
    simp only [findClose] at h
    split at h
    · simp only [Option.some.injEq, Prod.mk.injEq] at h
      rw [← h.2]; simp
    · have := ih (c :: acc) h
      simp; omega

theorem closeDelim_length (q c : Char) (cs : List Char) :
    (closeDelim q (c :: cs)).2.length < (c :: cs).length := by
  simp only [closeDelim]
  cases h : findClose q (c :: cs) [] cs with
  | none => simp
  | some r =>
    obtain ⟨tok, rest⟩ := r
    have := findClose_length q (c :: cs) [] cs tok rest h
    simp; omega

theorem splitOnce_length (sep : List Char) (hsep : sep ≠ []) (c : Char) (cs : List Char) :
    (splitOnce (c :: cs) sep).2.length < (c :: cs).length := by
  simp only [splitOnce]
  cases h : Text.splitOnce sep (c :: cs) with
  | none => simp
  | some ab =>
    obtain ⟨a, b⟩ := ab
    have e := Text.splitOnce_some sep (c :: cs) a b h
    have hl : 0 < sep.length := List.length_pos_iff.mpr hsep
    have : (c :: cs).length = a.length + (sep.length + b.length) := by rw [e]; simp
    simp only
    omega

/-- **progress**: with a non-empty separator every round strictly shortens the work string -/
theorem step_progress (sep : List Char) (hsep : sep ≠ []) (c : Char) (cs : List Char) :
    (step sep (c :: cs)).2.length < (c :: cs).length := by
  simp only [step]
  split
  · exact closeDelim_length '"' c cs
  · split
    · exact closeDelim_length '\'' c cs
    · exact splitOnce_length sep hsep c cs

/-- **termination**: the fuel `input.length + 1` is never exhausted -/
theorem splitLoop_isSome (sep : List Char) (hsep : sep ≠ []) (fuel : Nat) (s : List Char)
    (acc : List (List Char)) (h : s.length < fuel) : (splitLoop sep fuel s acc).isSome = true := by
  induction fuel generalizing s acc with
  | zero => omega
  | succ n ih =>
    cases s with
    | nil => simp [splitLoop_nil]
    | cons c cs =>
      rw [splitLoop_succ]
      have hp := step_progress sep hsep c cs
      simp only [hp, if_true]
      apply ih
      simp at h hp ⊢; omega

/-- the fuel does not matter once it is enough -/
theorem splitLoop_fuel (sep : List Char) (hsep : sep ≠ []) (n m : Nat) (s : List Char)
    (acc : List (List Char)) (hn : s.length < n) (hm : s.length < m) :
    splitLoop sep n s acc = splitLoop sep m s acc := by
  induction n generalizing m s acc with
  | zero => omega
  | succ n ih =>
    cases m with
    | zero => omega
    | succ m =>
      cases s with
      | nil => simp [splitLoop_nil]
      | cons c cs =>
        rw [splitLoop_succ, splitLoop_succ]
        have hp := step_progress sep hsep c cs
        simp only [hp, if_true]
        apply ih <;> (simp at hn hm hp ⊢; omega)

/-- the accumulator is only ever prepended to -/
theorem splitLoop_acc (sep : List Char) (fuel : Nat) (s : List Char) (acc : List (List Char)) :
    splitLoop sep fuel s acc = (splitLoop sep fuel s []).map (acc.reverse ++ ·) := by
  induction fuel generalizing s acc with
  | zero => cases s <;> simp [splitLoop]
  | succ n ih =>
    cases s with
    | nil => simp [splitLoop_nil]
    | cons c cs =>
      rw [splitLoop_succ, splitLoop_succ]
      split
      · rw [ih _ (emit acc _), ih _ (emit [] _)]
        simp only [Option.map_map]
        congr 1
        funext l
        simp only [Function.comp, emit]
        split <;> simp
      · rfl

/-- every token already collected / produced is non-empty and trimmed -/
def Clean (l : List (List Char)) : Prop := ∀ t ∈ l, t ≠ [] ∧ Text.trim t = t

theorem emit_clean (acc : List (List Char)) (tok : List Char) (h : Clean acc) : Clean (emit acc tok) := by
  unfold emit
  split
  · exact h
  · rename_i hne
    intro t ht
    simp only [List.mem_cons] at ht
    rcases ht with ht | ht
    · subst ht
      refine ⟨?_, Text.trim_idem tok⟩
      intro e; rw [e] at hne; simp at hne
    · exact h t ht

theorem splitLoop_clean (sep : List Char) (fuel : Nat) (s : List Char) (acc toks : List (List Char))
    (hacc : Clean acc) (h : splitLoop sep fuel s acc = some toks) : Clean toks := by
  induction fuel generalizing s acc with
  | zero =>
    cases s with
    | nil =>
      simp [splitLoop] at h; subst h
      intro t ht; exact hacc t (by simpa using ht)
    | cons c cs => simp [splitLoop] at h
  | succ n ih =>
    cases s with
    | nil =>
      rw [splitLoop_nil] at h
      simp at h; subst h
      intro t ht; exact hacc t (by simpa using ht)
    | cons c cs =>
      rw [splitLoop_succ] at h
      split at h
      · exact ih _ _ (emit_clean acc _ hacc) h
      · cases h

/-! ### the quote-free case: plain `str::split` -/

/-- `s.split(sep)` for a non-empty separator (fuel `s.length + 1` is enough, `splitOn_fuel`) -/
def splitOnAux (sep : List Char) : Nat → List Char → List (List Char)
  | 0, s => [s]
  | n + 1, s =>
    match Text.splitOnce sep s with
    | some (a, b) => a :: splitOnAux sep n b
    | none => [s]

def splitOn (sep s : List Char) : List (List Char) := splitOnAux sep (s.length + 1) s

/-- `.map(str::trim).filter(|t| !t.is_empty())` -/
def cleanup (l : List (List Char)) : List (List Char) :=
  (l.map Text.trim).filter (fun t => !t.isEmpty)

def NoQuote (s : List Char) : Prop := '"' ∉ s ∧ '\'' ∉ s

/-- joining with the separator -/
def joinSep (sep : List Char) : List (List Char) → List Char
  | [] => []
  | [x] => x
  | x :: y :: r => x ++ (sep ++ joinSep sep (y :: r))

theorem splitOnAux_ne_nil (sep : List Char) (n : Nat) (s : List Char) : splitOnAux sep n s ≠ [] := by
  cases n with
  | zero => simp [splitOnAux]
  | succ n => simp only [splitOnAux]; split <;> simp

/-- the pieces of `splitOn`, joined with the separator, give the text back -/
theorem joinSep_splitOnAux (sep : List Char) (n : Nat) (s : List Char) :
    joinSep sep (splitOnAux sep n s) = s := by
  induction n generalizing s with
  | zero => rfl
  | succ n ih =>
    simp only [splitOnAux]
    cases h : Text.splitOnce sep s with
    | none => rfl
    | some ab =>
      obtain ⟨a, b⟩ := ab
      simp only
      have hne := splitOnAux_ne_nil sep n b
      cases hs : splitOnAux sep n b with
      | nil => exact absurd hs hne
      | cons y r =>
        simp only [joinSep]
        rw [← hs, ih b]
        exact (Text.splitOnce_some sep s a b h).symm

theorem cleanup_cons (a : List Char) (l : List (List Char)) :
    cleanup (a :: l) = (emit [] a) ++ cleanup l := by
  simp only [cleanup, emit, List.map_cons, List.filter_cons]
  split <;> simp_all

theorem emit_nil_reverse (a : List Char) : (emit [] a).reverse = emit [] a := by
  unfold emit; split <;> simp

theorem emit_nil_eq (a : List Char) :
    emit [] a = List.filter (fun t => !t.isEmpty) [Text.trim a] := by
  unfold emit; split <;> simp_all

theorem splitLoop_noquote (sep : List Char) (hsep : sep ≠ []) (fuel : Nat) (s : List Char)
    (h : s.length < fuel) (hq : NoQuote s) :
    splitLoop sep fuel s [] = some (cleanup (splitOnAux sep fuel s)) := by
  induction fuel generalizing s with
  | zero => omega
  | succ n ih =>
    cases s with
    | nil =>
      rw [splitLoop_nil]
      have : Text.splitOnce sep [] = none := by
        simp only [Text.splitOnce]
        have : sep.isEmpty = false := by cases sep <;> simp_all
        simp [this]
      simp only [splitOnAux, this]
      simp [cleanup, Text.trim, Text.trimEnd, Text.trimStart]
    | cons c cs =>
      rw [splitLoop_succ]
      have hp := step_progress sep hsep c cs
      simp only [hp, if_true]
      have hc1 : (c == '"') = false := by
        have : c ≠ '"' := fun e => hq.1 (by simp [e])
        simpa using this
      have hc2 : (c == '\'') = false := by
        have : c ≠ '\'' := fun e => hq.2 (by simp [e])
        simpa using this
      have hstep : step sep (c :: cs) = splitOnce (c :: cs) sep := by
        simp [step, hc1, hc2]
      rw [splitLoop_acc]
      simp only [splitOnAux]
      rw [hstep] at hp ⊢
      simp only [splitOnce] at hp ⊢
      cases hs : Text.splitOnce sep (c :: cs) with
      | none =>
        simp only [splitLoop_nil, cleanup]
        simp only [List.reverse_nil, Option.map_some, List.map_cons, List.map_nil, emit_nil_reverse]
        rw [emit_nil_eq]; simp
      | some ab =>
        obtain ⟨a, b⟩ := ab
        simp only [hs] at hp
        simp only
        have e := Text.splitOnce_some sep (c :: cs) a b hs
        have hqb : NoQuote b := by
          constructor
          · intro hm; exact hq.1 (by rw [e]; simp [hm])
          · intro hm; exact hq.2 (by rw [e]; simp [hm])
        rw [ih b (by simp at h hp ⊢; omega) hqb, cleanup_cons]
        simp [emit_nil_reverse]

/-! ### quoted tokens -/

/-- the closing quote is the first `q` that is not preceded by a backslash -/
theorem findClose_found (q : Char) (whole acc body rest : List Char)
    (hesc : ∀ pre post, body = pre ++ q :: post → (acc.reverse ++ pre).getLast? = some '\\')
    (hlast : (acc.reverse ++ body).getLast? ≠ some '\\') :
    findClose q whole acc (body ++ q :: rest) = some (acc.reverse ++ body, rest) := by
  induction body generalizing acc with
  | nil =>
    simp only [List.nil_append, findClose, beq_self_eq_true, Bool.true_and, List.append_nil]
    have : acc.head? ≠ some '\\' := by
      intro h; apply hlast
      simp only [List.append_nil, List.getLast?_reverse]; exact h
    simp [this]
  | cons b body ih =>
    simp only [List.cons_append, findClose]
    have hcond : (b == q && acc.head? != some '\\') = false := by
      by_cases hb : b = q
      · subst hb
        have := hesc [] body rfl
        simp only [List.append_nil, List.getLast?_reverse] at this
        simp [this]
      · simp [hb]
    simp only [hcond, Bool.false_eq_true, if_false]
    rw [ih (b :: acc)]
    · simp
    · intro pre post e
      have := hesc (b :: pre) post (by simp [e])
      simpa using this
    · simpa using hlast

end Ag.Split
