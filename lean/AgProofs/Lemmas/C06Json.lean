/-
Correctness of the model's JSON reader on canonically printed documents (for C06_json_roundtrip):
integer literals, strings with serde_json's escapes, arrays and objects; fuel and depth sufficiency.
-/
import AgModel.Json

namespace Ag.C06
open Ag Ag.Json

/-! ### decimal digits -/

theorem digitsToNat_eq_aux (cs : List Char) (a : Nat) :
    cs.foldl (fun acc c => acc * 10 + Value.digitVal c) a = Nat.ofDigitChars 10 cs a := by
  induction cs generalizing a with
  | nil => simp [Nat.ofDigitChars]
  | cons c t ih =>
    simp only [List.foldl_cons, Nat.ofDigitChars_cons]
    rw [ih]
    simp [Value.digitVal, Nat.mul_comm]

theorem digitsToNat_toDigits (n : Nat) : Value.digitsToNat (Nat.toDigits 10 n) = n := by
  unfold Value.digitsToNat
  rw [digitsToNat_eq_aux]
  exact Nat.ofDigitChars_ten_toDigits

theorem toDigits_all_digit (n : Nat) : ∀ c ∈ Nat.toDigits 10 n, c.isDigit = true :=
  fun _ hc => Nat.isDigit_of_mem_toDigits (by decide) (by decide) hc

theorem toDigits_head (n : Nat) (h : 0 < n) : (Nat.toDigits 10 n).head? ≠ some '0' := by
  induction n using Nat.strongRecOn with
  | _ n ih =>
    rw [Nat.toDigits_eq_if (by decide)]
    split
    · rename_i hlt
      simp only [List.head?_cons, ne_eq, Option.some.injEq, Nat.digitChar_eq_zero]
      omega
    · rename_i hge
      have hpos : 0 < n / 10 := Nat.div_pos (by omega) (by decide)
      have := ih (n / 10) (Nat.div_lt_self h (by decide)) hpos
      have hne : Nat.toDigits 10 (n / 10) ≠ [] := Nat.toDigits_ne_nil
      cases hd : Nat.toDigits 10 (n / 10) with
      | nil => exact absurd hd hne
      | cons x xs => simpa [hd] using this

theorem takeWhile_append_stop (p : Char → Bool) (ds rest : List Char) (h : ∀ c ∈ ds, p c = true)
    (hr : ∀ c t, rest = c :: t → p c = false) :
    (ds ++ rest).takeWhile p = ds ∧ (ds ++ rest).dropWhile p = rest := by
  induction ds with
  | nil =>
    cases rest with
    | nil => simp
    | cons c t => simp [hr c t rfl]
  | cons d ds ih =>
    have hd : p d = true := h d (by simp)
    have := ih (fun c hc => h c (by simp [hc]))
    simp [hd, this]

/-- what may follow a value in printed text: nothing, or `,` `]` `}` -/
def Stop (rest : List Char) : Prop :=
  rest = [] ∨ ∃ t, rest = ',' :: t ∨ rest = ']' :: t ∨ rest = '}' :: t

theorem Stop.not_digit {rest : List Char} (h : Stop rest) : ∀ c t, rest = c :: t → c.isDigit = false := by
  intro c t e
  rcases h with rfl | ⟨t', h | h | h⟩
  · cases e
  all_goals (rw [h] at e; injection e with e1 _; subst e1; decide)

theorem splitSign_of_ne (c : Char) (t : List Char) (h : c ≠ '-') : splitSign (c :: t) = (false, c :: t) := by
  unfold splitSign
  split
  · rename_i heq; injection heq with h1 _; exact absurd h1 h
  · rfl

theorem splitSign_minus (t : List Char) : splitSign ('-' :: t) = (true, t) := rfl

theorem fracPart_stop (rest : List Char) (hs : Stop rest) : fracPart rest = ([], rest, false, true) := by
  rcases hs with rfl | ⟨t, h | h | h⟩ <;> (try subst h) <;> rfl

theorem expPart_stop (rest : List Char) (hs : Stop rest) : expPart rest = some (0, rest, false) := by
  rcases hs with rfl | ⟨t, h | h | h⟩ <;> (try subst h) <;> simp [expPart]

/-- the digits of `n`, optionally signed, followed by a stop: the common part of `parseNum` -/
theorem parseNum_digits (neg : Bool) (n : Nat) (rest : List Char) (hs : Stop rest) :
    parseNum ((if neg then ['-'] else []) ++ Nat.toDigits 10 n ++ rest) =
      (let v : Int := if neg then -(n : Int) else n
       if neg && (n : Int) = 0 then some (Value.fromFloat (F64.fin true 0 F64.eMin), rest)
       else if Value.inI64 v then some (.int v, rest)
       else some (Value.fromFloat (F64.ofDecimal neg n 0), rest)) := by
  have hall := toDigits_all_digit n
  have htw := takeWhile_append_stop Char.isDigit (Nat.toDigits 10 n) rest hall hs.not_digit
  have hsplit : splitSign ((if neg then ['-'] else []) ++ Nat.toDigits 10 n ++ rest) =
      (neg, Nat.toDigits 10 n ++ rest) := by
    cases neg with
    | true => simp [splitSign_minus]
    | false =>
      cases hd : Nat.toDigits 10 n with
      | nil => exact absurd hd Nat.toDigits_ne_nil
      | cons d0 ds =>
        have hd0 : d0.isDigit = true := hall d0 (by simp [hd])
        have hne : d0 ≠ '-' := by intro e; subst e; simp at hd0
        simp [splitSign_of_ne d0 _ hne]
  have hne : (Nat.toDigits 10 n).isEmpty = false := by
    cases hd : Nat.toDigits 10 n with
    | nil => exact absurd hd Nat.toDigits_ne_nil
    | cons _ _ => rfl
  have hlead : (decide ((Nat.toDigits 10 n).length > 1) && (Nat.toDigits 10 n).head? == some '0') = false := by
    by_cases h0 : n = 0
    · subst h0; decide
    · have := toDigits_head n (by omega)
      simp [this]
  unfold parseNum
  simp only [hsplit, htw.1, htw.2, hne, hlead, fracPart_stop rest hs, expPart_stop rest hs,
    digitsToNat_toDigits]
  simp

/-- an integer literal inside i64 followed by a stop is read as that integer, nothing else consumed -/
theorem parseNum_int (i : Int) (rest : List Char) (hs : Stop rest) (hi : Value.inI64 i = true) :
    parseNum ((toString i).toList ++ rest) = some (.int i, rest) := by
  rw [Int.toString_eq_repr, Int.repr_eq_if]
  by_cases h0 : 0 ≤ i
  · have := parseNum_digits false i.toNat rest hs
    simp only [if_pos h0, Nat.toList_repr]
    simp only [Bool.false_eq_true, if_false, List.nil_append, Bool.false_and] at this
    rw [this]
    have e : (i.toNat : Int) = i := by omega
    simp [e, hi]
  · have := parseNum_digits true (-i).toNat rest hs
    simp only [if_neg h0, String.toList_append, Nat.toList_repr]
    simp only [if_true, Bool.true_and] at this
    have e : ((-i).toNat : Int) = -i := by omega
    have e1 : "-".toList = ['-'] := rfl
    rw [e1, this]
    have hnz : ¬ (-i = 0) := by omega
    simp [e, hnz, hi]

/-! ### strings: serde_json's escapes -/

def hexDigit (d : Nat) : Char := if d < 10 then Char.ofNat (48 + d) else Char.ofNat (87 + d)

/-- how serde_json writes one character of a string: `\"` `\\` `\b` `\f` `\n` `\r` `\t`, other
control characters as `\u00XX`, everything else (DEL, non-ASCII, `/`) raw -/
def escChar (c : Char) : List Char :=
  if c = '"' then ['\\', '"']
  else if c = '\\' then ['\\', '\\']
  else if c = '\n' then ['\\', 'n']
  else if c = '\r' then ['\\', 'r']
  else if c = '\t' then ['\\', 't']
  else if c = Char.ofNat 8 then ['\\', 'b']
  else if c = Char.ofNat 12 then ['\\', 'f']
  else if c.toNat < 0x20 then ['\\', 'u', '0', '0', hexDigit (c.toNat / 16), hexDigit (c.toNat % 16)]
  else [c]

/-- the body of a string literal followed by `k` -/
def escK : List Char → List Char → List Char
  | [], k => k
  | c :: cs, k => escChar c ++ escK cs k

theorem hexVal_hexDigit : ∀ d : Fin 16, hex4.hexVal (hexDigit d.val) = some d.val := by decide

theorem hex4_ctl (n : Nat) (h : n < 32) (rest : List Char) :
    hex4 ('0' :: '0' :: hexDigit (n / 16) :: hexDigit (n % 16) :: rest) = some (n, rest) := by
  have h1 := hexVal_hexDigit ⟨n / 16, by omega⟩
  have h2 := hexVal_hexDigit ⟨n % 16, by omega⟩
  have h0 : hex4.hexVal '0' = some 0 := by decide
  simp only [hex4, h0, h1, h2]
  simp
  omega

/-- one (escaped) character: the reader pushes the character itself -/
theorem parseStr_char (fuel : Nat) (c : Char) (rest acc : List Char) :
    parseStr (fuel + 1) (escChar c ++ rest) acc = parseStr fuel rest (c :: acc) := by
  unfold escChar
  split
  · rename_i h; subst h; simp [parseStr]
  split
  · rename_i h; subst h; simp [parseStr]
  split
  · rename_i h; subst h; simp [parseStr]
  split
  · rename_i h; subst h; simp [parseStr]
  split
  · rename_i h; subst h; simp [parseStr]
  split
  · rename_i h; subst h; simp [parseStr]
  split
  · rename_i h; subst h; simp [parseStr]
  split
  · rename_i h1 h2 h3 h4 h5 h6 h7 h8
    have hx := hex4_ctl c.toNat h8 rest
    have hc : Char.ofNat c.toNat = c := Char.ofNat_toNat c
    simp only [List.cons_append, List.nil_append, parseStr, hx]
    have a1 : ¬ (0xD800 ≤ c.toNat) := by omega
    have a2 : ¬ (0xDC00 ≤ c.toNat) := by omega
    simp [a1, a2, hc]
  · rename_i h1 h2 h3 h4 h5 h6 h7 h8
    simp only [List.cons_append, List.nil_append]
    rw [parseStr]
    · simp [h8]
    · exact h1
    · intro e r hc _; exact h2 hc

theorem escChar_length_pos (c : Char) : 1 ≤ (escChar c).length := by
  unfold escChar
  repeat' split
  all_goals simp

theorem escK_length (s k : List Char) : s.length + k.length ≤ (escK s k).length := by
  induction s with
  | nil => simp [escK]
  | cons c cs ih =>
    have := escChar_length_pos c
    simp only [escK, List.length_append, List.length_cons]
    omega

/-- a whole string body up to and including the closing quote -/
theorem parseStr_esc (s rest : List Char) :
    ∀ (acc : List Char) (fuel : Nat), s.length + 1 ≤ fuel →
      parseStr fuel (escK s ('"' :: rest)) acc = some (String.ofList (acc.reverse ++ s), rest) := by
  induction s with
  | nil =>
    intro acc fuel hf
    obtain ⟨f, rfl⟩ : ∃ f, fuel = f + 1 := ⟨fuel - 1, by omega⟩
    simp [escK, parseStr]
  | cons c cs ih =>
    intro acc fuel hf
    obtain ⟨f, rfl⟩ : ∃ f, fuel = f + 1 := ⟨fuel - 1, by omega⟩
    simp only [escK]
    rw [parseStr_char, ih (c :: acc) f (by simp at hf ⊢; omega)]
    simp

/-! ### documents, their canonical compact text, their direct translation -/

inductive JDoc where
  | null
  | bool (b : Bool)
  | int (i : Int)              -- an integer literal
  | num (f : F64)              -- any other number, given as the double it denotes
  | str (s : List Char)
  | arr (l : List JDoc)
  | obj (kvs : List (List Char × JDoc))

section
variable (P : F64 → List Char)

mutual
/-- compact text of a document followed by `k` (`P` prints the non-integer numbers) -/
def printK : JDoc → List Char → List Char
  | .null, k => 'n' :: 'u' :: 'l' :: 'l' :: k
  | .bool true, k => 't' :: 'r' :: 'u' :: 'e' :: k
  | .bool false, k => 'f' :: 'a' :: 'l' :: 's' :: 'e' :: k
  | .int i, k => (toString i).toList ++ k
  | .num f, k => P f ++ k
  | .str s, k => '"' :: escK s ('"' :: k)
  | .arr [], k => '[' :: ']' :: k
  | .arr (d :: ds), k => '[' :: printK d (printElemsK ds (']' :: k))
  | .obj [], k => '{' :: '}' :: k
  | .obj ((key, d) :: rest), k =>
    '{' :: '"' :: escK key ('"' :: ':' :: printK d (printMembersK rest ('}' :: k)))
/-- the remaining elements, each preceded by a comma -/
def printElemsK : List JDoc → List Char → List Char
  | [], k => k
  | d :: ds, k => ',' :: printK d (printElemsK ds k)
def printMembersK : List (List Char × JDoc) → List Char → List Char
  | [], k => k
  | (key, d) :: rest, k => ',' :: '"' :: escK key ('"' :: ':' :: printK d (printMembersK rest k))
end

end

mutual
/-- the direct structural translation: members are put into a finite map in document order
(duplicate names: the last one wins), kept key-sorted -/
def toValue : JDoc → Value
  | .null => .none
  | .bool b => .bool b
  | .int i => .int i
  | .num f => Value.fromFloat f
  | .str s => .str (String.ofList s)
  | .arr l => .arr (toValues l)
  | .obj kvs => .obj (toFields kvs [])
def toValues : List JDoc → List Value
  | [] => []
  | d :: ds => toValue d :: toValues ds
def toFields : List (List Char × JDoc) → Fields → Fields
  | [], acc => acc
  | (k, d) :: rest, acc => toFields rest (Fields.put (String.ofList k) (toValue d) acc)
end

mutual
/-- fuel that suffices for `parseValue` -/
def need : JDoc → Nat
  | .arr l => 1 + needElems l
  | .obj kvs => 1 + needMembers kvs
  | _ => 1
def needElems : List JDoc → Nat
  | [] => 0
  | d :: ds => 1 + need d + needElems ds
def needMembers : List (List Char × JDoc) → Nat
  | [] => 0
  | (_, d) :: rest => 1 + need d + needMembers rest
end

mutual
/-- nesting depth (arrays and objects) -/
def depthOf : JDoc → Nat
  | .arr l => 1 + depthElems l
  | .obj kvs => 1 + depthMembers kvs
  | _ => 0
def depthElems : List JDoc → Nat
  | [] => 0
  | d :: ds => max (depthOf d) (depthElems ds)
def depthMembers : List (List Char × JDoc) → Nat
  | [] => 0
  | (_, d) :: rest => max (depthOf d) (depthMembers rest)
end

mutual
/-- every integer literal fits i64; every other number is printed by `P` so that the reader gets
the double back (external: ryu / float parsing), as a text that starts like a number -/
def NumsOK (P : F64 → List Char) : JDoc → Prop
  | .int i => Value.inI64 i = true
  | .num f => (∀ rest, Stop rest → parseNum (P f ++ rest) = some (Value.fromFloat f, rest)) ∧
      ∃ c t, P f = c :: t ∧ (c = '-' ∨ c.isDigit = true)
  | .arr l => NumsOKs P l
  | .obj kvs => NumsOKm P kvs
  | _ => True
def NumsOKs (P : F64 → List Char) : List JDoc → Prop
  | [] => True
  | d :: ds => NumsOK P d ∧ NumsOKs P ds
def NumsOKm (P : F64 → List Char) : List (List Char × JDoc) → Prop
  | [] => True
  | (_, d) :: rest => NumsOK P d ∧ NumsOKm P rest
end

/-! ### the value reader on printed text -/

theorem skipWs_of_not_ws (c : Char) (t : List Char) (h : isWs c = false) : skipWs (c :: t) = c :: t := by
  simp [skipWs, h]

/-- a text that starts like a number is handed to `parseNum` -/
theorem parseValue_num (fuel depth : Nat) (c : Char) (t : List Char) (h : c = '-' ∨ c.isDigit = true) :
    parseValue (fuel + 1) depth (c :: t) = parseNum (c :: t) := by
  have hws : isWs c = false := by
    rcases h with rfl | h
    · decide
    · unfold isWs
      have : c.isDigit = true := h
      simp only [Char.isDigit, Bool.and_eq_true, decide_eq_true_eq] at this
      have h1 : c ≠ ' ' := by intro e; subst e; simp at this
      have h2 : c ≠ '\t' := by intro e; subst e; simp at this
      have h3 : c ≠ '\n' := by intro e; subst e; simp at this
      have h4 : c ≠ '\r' := by intro e; subst e; simp at this
      simp [h1, h2, h3, h4]
  rw [parseValue, skipWs_of_not_ws c t hws]
  have hcases : (c == '-' || c.isDigit) = true := by
    rcases h with rfl | h
    · decide
    · simp [h]
  split
  all_goals first
    | (rename_i heq; injection heq with e1 e2; subst e1
       rcases h with h | h
       · exact absurd h (by decide)
       · exact absurd h (by decide))
    | (rename_i heq; injection heq with e1 e2; subst e1; subst e2; simp [hcases])
    | (rename_i heq; cases heq)

/-- first characters of a printed value -/
def ValStart (c : Char) : Prop :=
  c = 'n' ∨ c = 't' ∨ c = 'f' ∨ c = '"' ∨ c = '[' ∨ c = '{' ∨ c = '-' ∨ c.isDigit = true

theorem ValStart.facts {c : Char} (h : ValStart c) :
    isWs c = false ∧ c ≠ ']' ∧ c ≠ '}' ∧ c ≠ ',' := by
  rcases h with rfl | rfl | rfl | rfl | rfl | rfl | rfl | h
  all_goals first
    | decide
    | (refine ⟨?_, ?_, ?_, ?_⟩
       · unfold isWs
         have h1 : c ≠ ' ' := by intro e; subst e; simp at h
         have h2 : c ≠ '\t' := by intro e; subst e; simp at h
         have h3 : c ≠ '\n' := by intro e; subst e; simp at h
         have h4 : c ≠ '\r' := by intro e; subst e; simp at h
         simp [h1, h2, h3, h4]
       · intro e; subst e; simp at h
       · intro e; subst e; simp at h
       · intro e; subst e; simp at h)

theorem intText_head (i : Int) : ∃ c t, (toString i).toList = c :: t ∧ (c = '-' ∨ c.isDigit = true) := by
  rw [Int.toString_eq_repr, Int.repr_eq_if]
  by_cases h0 : 0 ≤ i
  · simp only [if_pos h0, Nat.toList_repr]
    cases hd : Nat.toDigits 10 i.toNat with
    | nil => exact absurd hd Nat.toDigits_ne_nil
    | cons d0 ds => exact ⟨d0, ds, rfl, Or.inr (toDigits_all_digit i.toNat d0 (by simp [hd]))⟩
  · simp only [if_neg h0, String.toList_append]
    exact ⟨'-', _, rfl, Or.inl rfl⟩

section
variable (P : F64 → List Char)

theorem printK_head (d : JDoc) (hn : NumsOK P d) (X : List Char) :
    ∃ c t, printK P d X = c :: t ∧ ValStart c := by
  cases d with
  | null => exact ⟨'n', _, by rw [printK], Or.inl rfl⟩
  | bool b => cases b
              · exact ⟨'f', _, by rw [printK], Or.inr (Or.inr (Or.inl rfl))⟩
              · exact ⟨'t', _, by rw [printK], Or.inr (Or.inl rfl)⟩
  | int i =>
    obtain ⟨c, t, h1, h2⟩ := intText_head i
    refine ⟨c, t ++ X, by rw [printK, h1]; rfl, ?_⟩
    rcases h2 with h2 | h2
    · exact Or.inr (Or.inr (Or.inr (Or.inr (Or.inr (Or.inr (Or.inl h2))))))
    · exact Or.inr (Or.inr (Or.inr (Or.inr (Or.inr (Or.inr (Or.inr h2))))))
  | num f =>
    obtain ⟨_, c, t, h1, h2⟩ := hn
    refine ⟨c, t ++ X, by rw [printK, h1]; rfl, ?_⟩
    rcases h2 with h2 | h2
    · exact Or.inr (Or.inr (Or.inr (Or.inr (Or.inr (Or.inr (Or.inl h2))))))
    · exact Or.inr (Or.inr (Or.inr (Or.inr (Or.inr (Or.inr (Or.inr h2))))))
  | str s => exact ⟨'"', _, by rw [printK], Or.inr (Or.inr (Or.inr (Or.inl rfl)))⟩
  | arr l =>
    cases l with
    | nil => exact ⟨'[', _, by rw [printK], Or.inr (Or.inr (Or.inr (Or.inr (Or.inl rfl))))⟩
    | cons d ds => exact ⟨'[', _, by rw [printK], Or.inr (Or.inr (Or.inr (Or.inr (Or.inl rfl))))⟩
  | obj kvs =>
    cases kvs with
    | nil => exact ⟨'{', _, by rw [printK], Or.inr (Or.inr (Or.inr (Or.inr (Or.inr (Or.inl rfl)))))⟩
    | cons kd rest =>
      obtain ⟨key, d⟩ := kd
      exact ⟨'{', _, by rw [printK], Or.inr (Or.inr (Or.inr (Or.inr (Or.inr (Or.inl rfl)))))⟩

theorem stop_elems (ds : List JDoc) (k : List Char) : Stop (printElemsK P ds (']' :: k)) := by
  cases ds with
  | nil => exact Or.inr ⟨k, Or.inr (Or.inl (by rw [printElemsK]))⟩
  | cons d ds => exact Or.inr ⟨_, Or.inl (by rw [printElemsK])⟩

theorem stop_members (rest : List (List Char × JDoc)) (k : List Char) :
    Stop (printMembersK P rest ('}' :: k)) := by
  cases rest with
  | nil => exact Or.inr ⟨k, Or.inr (Or.inr (by rw [printMembersK]))⟩
  | cons kd rest => obtain ⟨key, d⟩ := kd; exact Or.inr ⟨_, Or.inl (by rw [printMembersK])⟩

omit P in
theorem parseValue_arr (f depth : Nat) (c : Char) (t : List Char) (hd0 : depth ≠ 0)
    (hws : isWs c = false) (hne : c ≠ ']') :
    parseValue (f + 1) depth ('[' :: c :: t) = parseElems f (depth - 1) (c :: t) [] := by
  rw [parseValue, skipWs_of_not_ws '[' _ (by decide)]
  simp only [hd0, if_false, skipWs_of_not_ws c t hws]
  split
  · rename_i heq; injection heq with e1 _; exact absurd e1 hne
  · rfl

omit P in
theorem parseValue_obj (f depth : Nat) (t : List Char) (hd0 : depth ≠ 0) :
    parseValue (f + 1) depth ('{' :: '"' :: t) = parseMembers f (depth - 1) ('"' :: t) [] := by
  rw [parseValue, skipWs_of_not_ws '{' _ (by decide)]
  simp only [hd0, if_false, skipWs_of_not_ws '"' t (by decide)]
  split
  · rename_i heq; injection heq with e1 _; exact absurd e1 (by decide)
  · rfl

omit P in
theorem parseElems_comma (f depth : Nat) (cs rest' : List Char) (acc : List Value) (v : Value)
    (hv : parseValue f depth cs = some (v, ',' :: rest')) :
    parseElems (f + 1) depth cs acc = parseElems f depth rest' (v :: acc) := by
  rw [parseElems, hv]
  simp only [skipWs_of_not_ws ',' rest' (by decide)]

omit P in
theorem parseElems_close (f depth : Nat) (cs rest' : List Char) (acc : List Value) (v : Value)
    (hv : parseValue f depth cs = some (v, ']' :: rest')) :
    parseElems (f + 1) depth cs acc = some (.arr (v :: acc).reverse, rest') := by
  rw [parseElems, hv]
  simp only [skipWs_of_not_ws ']' rest' (by decide)]

omit P in
theorem parseMembers_comma (f depth : Nat) (body rest2 rest4 : List Char) (acc : Fields)
    (key : String) (v : Value)
    (hk : parseStr (body.length + 1) body [] = some (key, ':' :: rest2))
    (hv : parseValue f depth rest2 = some (v, ',' :: rest4)) :
    parseMembers (f + 1) depth ('"' :: body) acc = parseMembers f depth rest4 (Fields.put key v acc) := by
  rw [parseMembers, skipWs_of_not_ws '"' _ (by decide)]
  simp only [hk, skipWs_of_not_ws ':' rest2 (by decide), hv, skipWs_of_not_ws ',' rest4 (by decide)]

omit P in
theorem parseMembers_close (f depth : Nat) (body rest2 rest4 : List Char) (acc : Fields)
    (key : String) (v : Value)
    (hk : parseStr (body.length + 1) body [] = some (key, ':' :: rest2))
    (hv : parseValue f depth rest2 = some (v, '}' :: rest4)) :
    parseMembers (f + 1) depth ('"' :: body) acc = some (.obj (Fields.put key v acc), rest4) := by
  rw [parseMembers, skipWs_of_not_ws '"' _ (by decide)]
  simp only [hk, skipWs_of_not_ws ':' rest2 (by decide), hv, skipWs_of_not_ws '}' rest4 (by decide)]

mutual
theorem parseValue_print : ∀ (d : JDoc) (fuel depth : Nat) (k : List Char),
    need d ≤ fuel → depthOf d ≤ depth → Stop k → NumsOK P d →
    parseValue fuel depth (printK P d k) = some (toValue d, k)
  | .null, fuel, depth, k, hf, _, _, _ => by
    obtain ⟨f, rfl⟩ : ∃ f, fuel = f + 1 := ⟨fuel - 1, by simp [need] at hf; omega⟩
    simp [parseValue, printK, skipWs, isWs, toValue]
  | .bool true, fuel, depth, k, hf, _, _, _ => by
    obtain ⟨f, rfl⟩ : ∃ f, fuel = f + 1 := ⟨fuel - 1, by simp [need] at hf; omega⟩
    simp [parseValue, printK, skipWs, isWs, toValue]
  | .bool false, fuel, depth, k, hf, _, _, _ => by
    obtain ⟨f, rfl⟩ : ∃ f, fuel = f + 1 := ⟨fuel - 1, by simp [need] at hf; omega⟩
    simp [parseValue, printK, skipWs, isWs, toValue]
  | .int i, fuel, depth, k, hf, _, hs, hn => by
    obtain ⟨f, rfl⟩ : ∃ f, fuel = f + 1 := ⟨fuel - 1, by simp [need] at hf; omega⟩
    obtain ⟨c, t, h1, h2⟩ := intText_head i
    have hi : Value.inI64 i = true := hn
    rw [printK]
    have := parseNum_int i k hs hi
    rw [h1] at this ⊢
    rw [List.cons_append, parseValue_num f depth c (t ++ k) h2, ← List.cons_append, this, toValue]
  | .num x, fuel, depth, k, hf, _, hs, hn => by
    obtain ⟨f, rfl⟩ : ∃ f, fuel = f + 1 := ⟨fuel - 1, by simp [need] at hf; omega⟩
    obtain ⟨hp, c, t, h1, h2⟩ := hn
    have := hp k hs
    rw [printK]
    rw [h1] at this ⊢
    rw [List.cons_append, parseValue_num f depth c (t ++ k) h2, ← List.cons_append, this, toValue]
  | .str s, fuel, depth, k, hf, _, _, _ => by
    obtain ⟨f, rfl⟩ : ∃ f, fuel = f + 1 := ⟨fuel - 1, by simp [need] at hf; omega⟩
    have hlen := escK_length s ('"' :: k)
    have := parseStr_esc s k [] ((escK s ('"' :: k)).length + 1) (by simp at hlen ⊢; omega)
    simp [parseValue, printK, skipWs, isWs, toValue, this]
  | .arr [], fuel, depth, k, hf, hd, _, _ => by
    obtain ⟨f, rfl⟩ : ∃ f, fuel = f + 1 := ⟨fuel - 1, by simp [need] at hf; omega⟩
    have hd0 : depth ≠ 0 := by simp [depthOf] at hd; omega
    simp [parseValue, printK, skipWs, isWs, toValue, toValues, hd0]
  | .arr (d :: ds), fuel, depth, k, hf, hd, _, hn => by
    obtain ⟨f, rfl⟩ : ∃ f, fuel = f + 1 := ⟨fuel - 1, by simp [need] at hf; omega⟩
    have hd0 : depth ≠ 0 := by simp [depthOf] at hd; omega
    have hnl : NumsOKs P (d :: ds) := hn
    obtain ⟨c, t, hc, hv⟩ := printK_head P d hnl.1 (printElemsK P ds (']' :: k))
    obtain ⟨hws, hne, _, _⟩ := hv.facts
    have ih := parseElems_print (d :: ds) f (depth - 1) k []
      (by simp only [need] at hf; omega) (by simp only [depthOf] at hd; omega) hnl
    simp only at ih
    rw [hc] at ih
    rw [printK, hc, parseValue_arr f depth c t hd0 hws hne, ih]
    simp [toValue]
  | .obj [], fuel, depth, k, hf, hd, _, _ => by
    obtain ⟨f, rfl⟩ : ∃ f, fuel = f + 1 := ⟨fuel - 1, by simp [need] at hf; omega⟩
    have hd0 : depth ≠ 0 := by simp [depthOf] at hd; omega
    simp [parseValue, printK, skipWs, isWs, toValue, toFields, hd0]
  | .obj ((key, d) :: rest), fuel, depth, k, hf, hd, _, hn => by
    obtain ⟨f, rfl⟩ : ∃ f, fuel = f + 1 := ⟨fuel - 1, by simp [need] at hf; omega⟩
    have hd0 : depth ≠ 0 := by simp [depthOf] at hd; omega
    have hnl : NumsOKm P ((key, d) :: rest) := hn
    have ih := parseMembers_print ((key, d) :: rest) f (depth - 1) k []
      (by simp only [need] at hf; omega) (by simp only [depthOf] at hd; omega) hnl
    simp only at ih
    rw [printK, parseValue_obj f depth _ hd0, ih]
    simp [toValue]

theorem parseElems_print : ∀ (l : List JDoc) (fuel depth : Nat) (k : List Char) (acc : List Value),
    needElems l ≤ fuel → depthElems l ≤ depth → NumsOKs P l →
    match l with
    | [] => True
    | d :: ds =>
      parseElems fuel depth (printK P d (printElemsK P ds (']' :: k))) acc =
        some (.arr (acc.reverse ++ toValues (d :: ds)), k)
  | [], _, _, _, _, _, _, _ => trivial
  | d :: ds, fuel, depth, k, acc, hf, hd, hn => by
    obtain ⟨f, rfl⟩ : ∃ f, fuel = f + 1 := ⟨fuel - 1, by simp [needElems] at hf; omega⟩
    have hv := parseValue_print d f depth (printElemsK P ds (']' :: k))
      (by simp only [needElems] at hf; omega) (by simp only [depthElems] at hd; omega)
      (stop_elems P ds k) hn.1
    simp only
    cases ds with
    | nil =>
      rw [printElemsK] at hv ⊢
      rw [parseElems_close f depth _ k acc (toValue d) hv]
      simp [toValues]
    | cons d' ds' =>
      have ih := parseElems_print (d' :: ds') f depth k (toValue d :: acc)
        (by simp only [needElems] at hf ⊢; omega) (by simp only [depthElems] at hd ⊢; omega) hn.2
      simp only at ih
      rw [printElemsK] at hv ⊢
      rw [parseElems_comma f depth _ _ acc (toValue d) hv, ih]
      simp [toValues]

theorem parseMembers_print : ∀ (l : List (List Char × JDoc)) (fuel depth : Nat) (k : List Char) (acc : Fields),
    needMembers l ≤ fuel → depthMembers l ≤ depth → NumsOKm P l →
    match l with
    | [] => True
    | (key, d) :: rest =>
      parseMembers fuel depth
        ('"' :: escK key ('"' :: ':' :: printK P d (printMembersK P rest ('}' :: k)))) acc =
        some (.obj (toFields ((key, d) :: rest) acc), k)
  | [], _, _, _, _, _, _, _ => trivial
  | (key, d) :: rest, fuel, depth, k, acc, hf, hd, hn => by
    obtain ⟨f, rfl⟩ : ∃ f, fuel = f + 1 := ⟨fuel - 1, by simp [needMembers] at hf; omega⟩
    have hv := parseValue_print d f depth (printMembersK P rest ('}' :: k))
      (by simp only [needMembers] at hf; omega) (by simp only [depthMembers] at hd; omega)
      (stop_members P rest k) hn.1
    have hlen := escK_length key ('"' :: ':' :: printK P d (printMembersK P rest ('}' :: k)))
    have hstr := parseStr_esc key (':' :: printK P d (printMembersK P rest ('}' :: k))) []
      ((escK key ('"' :: ':' :: printK P d (printMembersK P rest ('}' :: k)))).length + 1)
      (by simp at hlen ⊢; omega)
    simp only [List.reverse_nil, List.nil_append] at hstr
    simp only
    cases rest with
    | nil =>
      rw [printMembersK] at hv hstr ⊢
      rw [parseMembers_close f depth _ _ k acc _ (toValue d) hstr hv]
      simp [toFields]
    | cons kd' rest' =>
      obtain ⟨key', d'⟩ := kd'
      have ih := parseMembers_print ((key', d') :: rest') f depth k
        (Fields.put (String.ofList key) (toValue d) acc)
        (by simp only [needMembers] at hf ⊢; omega) (by simp only [depthMembers] at hd ⊢; omega) hn.2
      simp only at ih
      rw [printMembersK] at hv hstr ⊢
      rw [parseMembers_comma f depth _ _ _ acc _ (toValue d) hstr hv, ih]
      simp [toFields]
end

end

end Ag.C06
