/-
Correctness of the model's JSON reader on canonically printed documents (for C06_json_roundtrip):
integer literals, strings with serde_json's escapes, arrays and objects; fuel and depth sufficiency.
-/
import AgModel.Json

namespace Ag.C06
open Ag Ag.Json

/-! ### decimal digits -/

theorem digitsToNat_eq_aux (cs : List Char) (a : Nat) :
    cs.foldl (fun acc c => acc * 10 + Value.digitVal c) a = Nat.ofDigitChars 10 cs a := by
  induction cs generalizing a with
  | nil => simp [Nat.ofDigitChars]
  | cons c t ih =>
    simp only [List.foldl_cons, Nat.ofDigitChars_cons]
    rw [ih]
    simp [Value.digitVal, Nat.mul_comm]

theorem digitsToNat_toDigits (n : Nat) : Value.digitsToNat (Nat.toDigits 10 n) = n := by
  unfold Value.digitsToNat
  rw [digitsToNat_eq_aux]
  exact Nat.ofDigitChars_ten_toDigits

theorem toDigits_all_digit (n : Nat) : ∀ c ∈ Nat.toDigits 10 n, c.isDigit = true :=
  fun _ hc => Nat.isDigit_of_mem_toDigits (by decide) (by decide) hc

theorem toDigits_head (n : Nat) (h : 0 < n) : (Nat.toDigits 10 n).head? ≠ some '0' := by
  induction n using Nat.strongRecOn with
  | _ n ih =>
    rw [Nat.toDigits_eq_if (by decide)]
    split
    · rename_i hlt
      simp only [List.head?_cons, ne_eq, Option.some.injEq, Nat.digitChar_eq_zero]
      omega
    · rename_i hge
      have hpos : 0 < n / 10 := Nat.div_pos (by omega) (by decide)
      have := ih (n / 10) (Nat.div_lt_self h (by decide)) hpos
      have hne : Nat.toDigits 10 (n / 10) ≠ [] := Nat.toDigits_ne_nil
      cases hd : Nat.toDigits 10 (n / 10) with
      | nil => exact absurd hd hne
      | cons x xs => simpa [hd] using this

theorem takeWhile_append_stop (p : Char → Bool) (ds rest : List Char) (h : ∀ c ∈ ds, p c = true)
    (hr : ∀ c t, rest = c :: t → p c = false) :
    (ds ++ rest).takeWhile p = ds ∧ (ds ++ rest).dropWhile p = rest := by
  induction ds with
  | nil =>
    cases rest with
    | nil => simp
    | cons c t => simp [hr c t rfl]
  | cons d ds ih =>
    have hd : p d = true := h d (by simp)
    have := ih (fun c hc => h c (by simp [hc]))
    simp [hd, this]

/-- what may follow a value in printed text: nothing, or `,` `]` `}` -/
def Stop (rest : List Char) : Prop :=
  rest = [] ∨ ∃ t, rest = ',' :: t ∨ rest = ']' :: t ∨ rest = '}' :: t

theorem Stop.not_digit {rest : List Char} (h : Stop rest) : ∀ c t, rest = c :: t → c.isDigit = false := by
  intro c t e
  rcases h with rfl | ⟨t', h | h | h⟩
  · cases e
  all_goals (rw [h] at e; injection e with e1 _; subst e1; decide)

/-- an unsigned digit string followed by a stop is read as that number, nothing else consumed -/
theorem parseNum_nat (n : Nat) (rest : List Char) (hs : Stop rest) (hi : Value.inI64 (n : Int) = true) :
    parseNum (Nat.toDigits 10 n ++ rest) = some (.int n, rest) := by
  sorry

end Ag.C06
