import AgModel.Value

namespace Ag.Outcome

@[simp] theorem pure_eq {α} (a : α) : (pure a : Outcome α) = .ok a := rfl
@[simp] theorem bind_ok {α β} (a : α) (f : α → Outcome β) : (Outcome.ok a >>= f) = f a := rfl
@[simp] theorem bind_err {α β} (k : String) (f : α → Outcome β) : (Outcome.err k >>= f) = .err k := rfl
@[simp] theorem bind_panic {α β} (k : String) (f : α → Outcome β) : (Outcome.panic k >>= f) = .panic k := rfl
@[simp] theorem bind_unmodelled {α β} (k : String) (f : α → Outcome β) :
    (Outcome.unmodelled k >>= f) = .unmodelled k := rfl

end Ag.Outcome
