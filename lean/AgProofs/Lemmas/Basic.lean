import AgModel.Value

namespace Ag.Outcome

@[simp] theorem pure_eq {α} (a : α) : (pure a : Outcome α) = .ok a := rfl
@[simp] theorem bind_ok {α β} (a : α) (f : α → Outcome β) : (Outcome.ok a >>= f) = f a := rfl
@[simp] theorem bind_err {α β} (k : String) (f : α → Outcome β) : (Outcome.err k >>= f) = .err k := rfl
@[simp] theorem bind_panic {α β} (k : String) (f : α → Outcome β) : (Outcome.panic k >>= f) = .panic k := rfl
@[simp] theorem bind_unmodelled {α β} (k : String) (f : α → Outcome β) :
    (Outcome.unmodelled k >>= f) = .unmodelled k := rfl

instance : LawfulMonad Outcome := LawfulMonad.mk'
  (id_map := by intro α x; cases x <;> rfl)
  (pure_bind := by intro α β a f; rfl)
  (bind_assoc := by intro α β γ x f g; cases x <;> rfl)

end Ag.Outcome
