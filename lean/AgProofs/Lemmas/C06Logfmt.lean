/-
C06 (logfmt part): what the `logfmt` operator reads.

Model: `Ag.Logfmt.step` / `Ag.Logfmt.parse` (AgModel/Logfmt.lean, the `logfmt` crate 0.0.2 state
machine) and `applyStateless ext (.logfmt src)` (AgModel/Ops.lean, src/operator.rs `Logfmt`).

1. A printer (`printPairs`) and its round trip through `Logfmt.parse`, with the exact side conditions
   under which the crate reads back what was written, and the two named counterexamples showing
   that the side conditions are real (an empty quoted value that is not last is dropped; a
   backslash before the closing quote cannot be written).
2. The operator: the fields of the output record, key by key (`C06_logfmt_fields`,
   `C06_logfmt_from_field`).
-/
import AgModel.Ops
import AgProofs.Lemmas.Fields

namespace Ag.C06

open Ag.Logfmt (Pair St step parse completePair bufStr)

/-! ### the printer -/

/-- every `"` becomes `\"`; all other characters unchanged -/
def escVal : List Char → List Char
  | [] => []
  | c :: cs => if c = '"' then '\\' :: '"' :: escVal cs else c :: escVal cs

/-- `key` for a bare key, `key="escaped value"` otherwise -/
def printPair (p : Pair) : List Char :=
  match p.val with
  | none => p.key.toList
  | some v => p.key.toList ++ '=' :: '"' :: escVal v.toList ++ ['"']

/-- the pairs joined by exactly one blank -/
def printPairs : List Pair → List Char
  | [] => []
  | [p] => printPair p
  | p :: q :: rest => printPair p ++ ' ' :: printPairs (q :: rest)

/-- characters that may appear in a key (or in an unquoted value): not blank, `=`, `"` -/
def KeyChars (k : List Char) : Prop := ∀ c ∈ k, c ≠ ' ' ∧ c ≠ '=' ∧ c ≠ '"'

/-- a key that can be written: non-empty, without blank, `=`, `"` -/
def GoodKey (k : List Char) : Prop := k ≠ [] ∧ KeyChars k

/-- a value that can be written between quotes: without backslash -/
def GoodVal (v : List Char) : Prop := ∀ c ∈ v, c ≠ '\\'

instance (k : List Char) : Decidable (KeyChars k) := by unfold KeyChars; infer_instance
instance (k : List Char) : Decidable (GoodKey k) := by unfold GoodKey; infer_instance
instance (v : List Char) : Decidable (GoodVal v) := by unfold GoodVal; infer_instance

/-- no pair except the last one carries the empty string as its value (a bare key, `val = none`,
is allowed anywhere).  The exclusion is real: see `C06_logfmt_empty_value_dropped`. -/
def NonLastNonEmpty : List Pair → Prop
  | [] => True
  | [_] => True
  | p :: q :: rest => p.val ≠ some "" ∧ NonLastNonEmpty (q :: rest)

instance NonLastNonEmpty.dec : (kvs : List Pair) → Decidable (NonLastNonEmpty kvs)
  | [] => isTrue trivial
  | [_] => isTrue trivial
  | p :: q :: rest =>
    match NonLastNonEmpty.dec (q :: rest) with
    | isTrue h =>
      if hp : p.val = some "" then isFalse (fun hh => hh.1 hp) else isTrue ⟨hp, h⟩
    | isFalse h => isFalse (fun hh => h hh.2)

/-! ### the two counterexamples that justify the side conditions -/

/-- `a="" b=2`: at the blank the buffer is empty, so the pending pair `a` is not completed, and the
next `=` overwrites it: the pair `a` is lost. -/
theorem C06_logfmt_empty_value_dropped :
    Logfmt.parse "a=\"\" b=2" = [⟨"b", some "2"⟩] := by decide

/-- what the text `p="c:\\" q=1` (two backslashes) parses to: the second backslash re-arms the
escape, the quote is taken as an escaped quote, the value never ends. -/
theorem C06_logfmt_backslash_before_quote_value :
    Logfmt.parse "p=\"c:\\\\\" q=1" = [⟨"p", some "c:\" q=1"⟩] := by decide

/-- the text `p="c:\\" q=1`, meant as the value `c:\` followed by the pair `q=1`, is not read
that way (nor is `p="c:\" q=1`, next theorem): a value ending in a backslash has no quoted form. -/
theorem C06_logfmt_backslash_before_quote_counterexample :
    Logfmt.parse "p=\"c:\\\\\" q=1" ≠ [⟨"p", some "c:\\"⟩, ⟨"q", some "1"⟩] := by decide

/-- the unescaped variant `p="c:\" q=1` fails in the same way -/
theorem C06_logfmt_backslash_unescaped_counterexample :
    Logfmt.parse "p=\"c:\\\" q=1" ≠ [⟨"p", some "c:\\"⟩, ⟨"q", some "1"⟩] := by decide

/-! ### scanning lemmas -/

/-- the final completion of `Logfmt.parse` -/
def finish (s : St) : List Pair :=
  (if !s.garbage then completePair (bufStr s) s.pair :: s.pairs else s.pairs).reverse

theorem parse_eq (msg : String) : parse msg = finish (msg.toList.foldl step {}) := rfl

/-- (a) key characters outside quotes are appended to the buffer -/
theorem scan_key (k : List Char) (hk : KeyChars k) (pr : Option Pair) (ps : List Pair) (g : Bool) :
    ∀ buf : List Char,
      k.foldl step ⟨pr, ps, buf, false, g, false⟩ = ⟨pr, ps, k.reverse ++ buf, false, g, false⟩ := by
  induction k with
  | nil => intro buf; rfl
  | cons c cs ih =>
    intro buf
    have hc := hk c (by simp)
    have hcs : KeyChars cs := fun x hx => hk x (by simp [hx])
    have h1 : step ⟨pr, ps, buf, false, g, false⟩ c = ⟨pr, ps, c :: buf, false, g, false⟩ := by
      simp [step, hc.1, hc.2.1, hc.2.2]
    simp only [List.foldl_cons, h1, ih hcs]
    simp

/-- (b) the escaped value between quotes is appended, un-escaped, to the buffer -/
theorem scan_val (v : List Char) (hv : GoodVal v) (pr : Option Pair) (ps : List Pair) (g : Bool) :
    ∀ buf : List Char,
      (escVal v).foldl step ⟨pr, ps, buf, false, g, true⟩ =
        ⟨pr, ps, v.reverse ++ buf, false, g, true⟩ := by
  induction v with
  | nil => intro buf; rfl
  | cons c cs ih =>
    intro buf
    have hc := hv c (by simp)
    have hcs : GoodVal cs := fun x hx => hv x (by simp [hx])
    by_cases hq : c = '"'
    · subst hq
      have h1 : step (step ⟨pr, ps, buf, false, g, true⟩ '\\') '"' =
          ⟨pr, ps, '"' :: buf, false, g, true⟩ := by
        simp [step]
      simp only [escVal, if_true, List.foldl_cons, h1, ih hcs]
      simp
    · have h1 : step ⟨pr, ps, buf, false, g, true⟩ c = ⟨pr, ps, c :: buf, false, g, true⟩ := by
        simp [step, hc, hq]
      simp only [escVal, hq, if_false, List.foldl_cons, h1, ih hcs]
      simp

/-- the state at a pair boundary -/
def boundary (ps : List Pair) : St := ⟨none, ps, [], false, false, false⟩

/-- the state after the text of one pair (before the separating blank / the end of the line) -/
def afterPair (p : Pair) (ps : List Pair) : St :=
  match p.val with
  | none => ⟨none, ps, p.key.toList.reverse, false, false, false⟩
  | some v => ⟨some ⟨p.key, none⟩, ps, v.toList.reverse, false, false, false⟩

theorem scan_pair (p : Pair) (ps : List Pair) (hk : GoodKey p.key.toList)
    (hv : ∀ v, p.val = some v → GoodVal v.toList) :
    (printPair p).foldl step (boundary ps) = afterPair p ps := by
  obtain ⟨key, val⟩ := p
  cases val with
  | none =>
    simp only [printPair, boundary, afterPair]
    rw [scan_key _ hk.2]
    simp
  | some v =>
    have hne : key.toList ≠ [] := hk.1
    simp only [printPair, boundary, afterPair, List.foldl_append, List.foldl_cons, List.foldl_nil]
    rw [scan_key _ hk.2]
    have h1 : step ⟨none, ps, key.toList.reverse ++ [], false, false, false⟩ '=' =
        ⟨some ⟨key, none⟩, ps, [], false, false, false⟩ := by
      simp [step, hne, bufStr]
    have h2 : step ⟨some ⟨key, none⟩, ps, [], false, false, false⟩ '"' =
        ⟨some ⟨key, none⟩, ps, [], false, false, true⟩ := by
      simp [step]
    rw [h1, h2, scan_val _ (hv v rfl)]
    simp [step]

/-- the end of the line completes the pending pair -/
theorem finish_afterPair (p : Pair) (ps : List Pair) :
    finish (afterPair p ps) = ps.reverse ++ [p] := by
  obtain ⟨key, val⟩ := p
  cases val with
  | none => simp [finish, afterPair, completePair, bufStr]
  | some v => simp [finish, afterPair, completePair, bufStr]

/-- (c) the separating blank pushes the completed pair and resets the state -/
theorem blank_afterPair (p : Pair) (ps : List Pair) (hk : p.key.toList ≠ [])
    (hv : p.val ≠ some "") :
    step (afterPair p ps) ' ' = boundary (p :: ps) := by
  obtain ⟨key, val⟩ := p
  cases val with
  | none => simp [step, afterPair, boundary, completePair, bufStr, hk]
  | some v =>
    have hne : v.toList ≠ [] := by
      intro h
      apply hv
      have : String.ofList v.toList = String.ofList [] := by rw [h]
      rw [String.ofList_toList] at this
      rw [this]
    simp [step, afterPair, boundary, completePair, bufStr, hne]

/-- the whole line, from a pair boundary with `ps` already pushed -/
theorem scan_pairs (kvs : List Pair) (hne : kvs ≠ [])
    (hg : ∀ p ∈ kvs, GoodKey p.key.toList ∧ ∀ v, p.val = some v → GoodVal v.toList)
    (hl : NonLastNonEmpty kvs) :
    ∀ ps : List Pair, finish ((printPairs kvs).foldl step (boundary ps)) = ps.reverse ++ kvs := by
  induction kvs with
  | nil => exact absurd rfl hne
  | cons p rest ih =>
    intro ps
    have hp := hg p (by simp)
    cases rest with
    | nil =>
      simp only [printPairs]
      rw [scan_pair p ps hp.1 hp.2, finish_afterPair]
    | cons q rest' =>
      have hg' : ∀ x ∈ q :: rest', GoodKey x.key.toList ∧ ∀ v, x.val = some v → GoodVal v.toList :=
        fun x hx => hg x (List.mem_cons_of_mem _ hx)
      simp only [printPairs, List.foldl_append, List.foldl_cons]
      rw [scan_pair p ps hp.1 hp.2, blank_afterPair p ps hp.1.1 hl.1,
        ih (by simp) hg' hl.2 (p :: ps)]
      simp

/-! ### the round trip -/

/-- **C06 (logfmt round trip).** A non-empty list of pairs with good keys (non-empty, no blank,
`=`, `"`), values without backslash, and no empty-string value except possibly in the last pair,
printed as `key`, `key="value"` (quotes escaped as `\"`) joined by one blank, parses back to
exactly that list. -/
theorem C06_logfmt_roundtrip (kvs : List Pair) (hne : kvs ≠ [])
    (hg : ∀ p ∈ kvs, GoodKey p.key.toList ∧ ∀ v, p.val = some v → GoodVal v.toList)
    (hl : NonLastNonEmpty kvs) :
    Logfmt.parse (String.ofList (printPairs kvs)) = kvs := by
  rw [parse_eq, String.toList_ofList]
  have := scan_pairs kvs hne hg hl []
  simpa [boundary] using this

/-- non-vacuity: a quoted value with blank, `=` and `"` inside, a bare key in the middle, an empty
value at the end -/
example :
    let kvs : List Pair := [⟨"a", some "x y=\"z\""⟩, ⟨"b", none⟩, ⟨"c", some ""⟩]
    kvs ≠ [] ∧ (∀ p ∈ kvs, GoodKey p.key.toList ∧ ∀ v, p.val = some v → GoodVal v.toList) ∧
      NonLastNonEmpty kvs ∧
      String.ofList (printPairs kvs) = "a=\"x y=\\\"z\\\"\" b c=\"\"" := by
  decide

/-- a bare key alone on the line -/
theorem C06_logfmt_bare_key (k : List Char) (hk : GoodKey k) :
    Logfmt.parse (String.ofList k) = [⟨String.ofList k, none⟩] := by
  rw [parse_eq, String.toList_ofList]
  have h := scan_key k hk.2 none [] false []
  have h0 : ({} : St) = ⟨none, [], [], false, false, false⟩ := rfl
  rw [h0, h]
  simp [finish, completePair, bufStr]

example : GoodKey ['l', 'e', 'v', 'e', 'l'] := by decide

/-- `key=` at the end of the line gives the empty string -/
theorem C06_logfmt_key_eq (k : List Char) (hk : GoodKey k) :
    Logfmt.parse (String.ofList (k ++ ['='])) = [⟨String.ofList k, some ""⟩] := by
  rw [parse_eq, String.toList_ofList]
  have h := scan_key k hk.2 none [] false []
  have h0 : ({} : St) = ⟨none, [], [], false, false, false⟩ := rfl
  have hne : k ≠ [] := hk.1
  rw [h0, List.foldl_append, h]
  simp [step, finish, completePair, bufStr, hne]

/-- an unquoted value: `key=value`.  Stated for every `v` without blank, `=`, `"` (this is more
than was asked: `v` may be empty, then it coincides with `C06_logfmt_key_eq`, and `v` may contain
backslashes, which are ordinary characters outside quotes). -/
theorem C06_logfmt_unquoted (k v : List Char) (hk : GoodKey k) (hv : KeyChars v) :
    Logfmt.parse (String.ofList (k ++ '=' :: v)) = [⟨String.ofList k, some (String.ofList v)⟩] := by
  rw [parse_eq, String.toList_ofList]
  have h := scan_key k hk.2 none [] false []
  have h0 : ({} : St) = ⟨none, [], [], false, false, false⟩ := rfl
  have hne : k ≠ [] := hk.1
  have h1 : step ⟨none, [], k.reverse ++ [], false, false, false⟩ '=' =
      ⟨some ⟨String.ofList k, none⟩, [], [], false, false, false⟩ := by
    simp [step, hne, bufStr]
  rw [h0, List.foldl_append, h, List.foldl_cons, h1, scan_key v hv]
  simp [finish, completePair, bufStr]

/-- the statement as asked: `v` non-empty without blank, `=`, `"`, backslash -/
theorem C06_logfmt_unquoted' (k v : List Char) (hk : GoodKey k) (hv : GoodKey v)
    (_hb : GoodVal v) :
    Logfmt.parse (String.ofList (k ++ '=' :: v)) = [⟨String.ofList k, some (String.ofList v)⟩] :=
  C06_logfmt_unquoted k v hk hv.2

example : GoodKey ['r', 'c'] ∧ GoodKey ['-', '1', '.', '5'] ∧ GoodVal ['-', '1', '.', '5'] ∧
    KeyChars ['c', ':', '\\'] := by decide

/-! ### the operator -/

/-- the last pair with key `k` -/
def lastPair (k : String) : List Pair → Option Pair
  | [] => none
  | p :: ps =>
    match lastPair k ps with
    | some q => some q
    | none => if p.key = k then some p else none

/-- the value stored for a pair: a bare key gives `none`, a value goes through `Value.fromString` -/
def pairValue (p : Pair) : Value :=
  match p.val with
  | none => .none
  | some v => Value.fromString v

/-- the fold of `Logfmt::process` -/
def putPairs (pairs : List Pair) (d : Fields) : Fields :=
  pairs.foldl (fun d p =>
    match p.val with
    | none => Fields.put p.key .none d
    | some v => Fields.put p.key (Value.fromString v) d) d

theorem get_putPairs_aux (k : String) (pairs : List Pair) :
    ∀ d : Fields, Fields.get k (putPairs pairs d) =
      match lastPair k pairs with
      | some p => some (pairValue p)
      | none => Fields.get k d := by
  induction pairs with
  | nil => intro d; rfl
  | cons p ps ih =>
    intro d
    have hstep : putPairs (p :: ps) d = putPairs ps (Fields.put p.key (pairValue p) d) := by
      obtain ⟨key, val⟩ := p
      cases val <;> rfl
    rw [hstep, ih]
    simp only [lastPair]
    cases lastPair k ps with
    | some q => rfl
    | none =>
      by_cases hk : p.key = k
      · simp only [hk, if_true]
        rw [← hk]; exact Fields.get_put_eq _ _ _
      · simp only [hk, if_false]
        exact Fields.get_put_ne k p.key _ d (fun e => hk e.symm)

/-- key by key: the last pair with that key wins, other fields are untouched -/
theorem get_putPairs (k : String) (pairs : List Pair) (d : Fields) :
    Fields.get k (putPairs pairs d) =
      match lastPair k pairs with
      | some p =>
        match p.val with
        | none => some .none
        | some v => some (Value.fromString v)
      | none => Fields.get k d := by
  rw [get_putPairs_aux]
  cases lastPair k pairs with
  | none => rfl
  | some p =>
    obtain ⟨key, val⟩ := p
    cases val <;> rfl

/-- the operator on a given input text -/
theorem apply_logfmt (ext : Ext) (src : Option Expr) (rec : Record) (s : String)
    (hs : getInput ext rec src = .ok s) :
    applyStateless ext (.logfmt src) rec =
      .ok (some { rec with
        data := putPairs (Logfmt.parse (String.ofList (Text.trimEnd s.toList))) rec.data }) := by
  simp only [applyStateless, hs, bind, Outcome.bind, pure, putPairs]
  rfl

/-- **C06 (logfmt operator, whole line).** `| logfmt` never fails and never drops the row; the
raw line is kept; field `k` of the result is: for the LAST pair with key `k` among the pairs parsed
from the right-trimmed line, `none` for a bare key and `Value.fromString v` for `k=v`; if there is no
such pair, whatever `k` held before. -/
theorem C06_logfmt_fields (ext : Ext) (rec : Record) :
    ∃ data : Fields,
      applyStateless ext (.logfmt none) rec = .ok (some { rec with data := data }) ∧
      ∀ k : String, Fields.get k data =
        match lastPair k (Logfmt.parse (String.ofList (Text.trimEnd rec.raw.toList))) with
        | some p =>
          match p.val with
          | none => some .none
          | some v => some (Value.fromString v)
        | none => Fields.get k rec.data := by
  refine ⟨putPairs (Logfmt.parse (String.ofList (Text.trimEnd rec.raw.toList))) rec.data,
    apply_logfmt ext none rec rec.raw rfl, ?_⟩
  intro k
  exact get_putPairs k (Logfmt.parse (String.ofList (Text.trimEnd rec.raw.toList))) rec.data

/-- **C06 (logfmt operator, `logfmt from e`).** The text is `evalStr ext rec.data e`; an evaluation
error (or panic / unmodelled marker) is passed on unchanged; otherwise as `C06_logfmt_fields` with
that text in place of the raw line. -/
theorem C06_logfmt_from_field (ext : Ext) (e : Expr) (rec : Record) :
    (∀ s : String, evalStr ext rec.data e = .ok s →
      ∃ data : Fields,
        applyStateless ext (.logfmt (some e)) rec = .ok (some { rec with data := data }) ∧
        ∀ k : String, Fields.get k data =
          match lastPair k (Logfmt.parse (String.ofList (Text.trimEnd s.toList))) with
          | some p =>
            match p.val with
            | none => some .none
            | some v => some (Value.fromString v)
          | none => Fields.get k rec.data) ∧
    (∀ kd : String, evalStr ext rec.data e = .err kd →
      applyStateless ext (.logfmt (some e)) rec = .err kd) ∧
    (∀ site : String, evalStr ext rec.data e = .panic site →
      applyStateless ext (.logfmt (some e)) rec = .panic site) ∧
    (∀ why : String, evalStr ext rec.data e = .unmodelled why →
      applyStateless ext (.logfmt (some e)) rec = .unmodelled why) := by
  refine ⟨?_, ?_, ?_, ?_⟩
  · intro s hs
    refine ⟨putPairs (Logfmt.parse (String.ofList (Text.trimEnd s.toList))) rec.data,
      apply_logfmt ext (some e) rec s hs, ?_⟩
    intro k
    exact get_putPairs k (Logfmt.parse (String.ofList (Text.trimEnd s.toList))) rec.data
  · intro kd hs
    simp only [applyStateless, getInput, hs, bind, Outcome.bind]
  · intro site hs
    simp only [applyStateless, getInput, hs, bind, Outcome.bind]
  · intro why hs
    simp only [applyStateless, getInput, hs, bind, Outcome.bind]

/-- non-vacuity / illustration of `lastPair`: the later `a` wins -/
example : lastPair "a" [⟨"a", some "1"⟩, ⟨"b", none⟩, ⟨"a", some "2"⟩] = some ⟨"a", some "2"⟩ ∧
    lastPair "c" [⟨"a", some "1"⟩, ⟨"b", none⟩] = none := by decide

end Ag.C06
