/-
Helper lemmas about AgModel/Sched.lean: line splitting, the sequential reference, and the
invariants of the transition system (used by Props/C15.lean and Props/C17.lean).
-/
import AgModel.Sched

namespace Ag.Sched

variable {σ ρ : Type}

/-! ### line splitting -/

theorem splitNl_some : ∀ {l p q : Bytes}, splitNl l = some (p, q) → l = p ++ 10 :: q ∧ 10 ∉ p
  | [], p, q, h => by simp [splitNl] at h
  | b :: r, p, q, h => by
    simp only [splitNl] at h
    by_cases hb : b = 10
    · simp [hb] at h; obtain ⟨rfl, rfl⟩ := h; simp [hb]
    · simp only [hb, if_false] at h
      cases hr : splitNl r with
      | none => simp [hr] at h
      | some pq =>
        obtain ⟨p', q'⟩ := pq
        simp only [hr, Option.some.injEq, Prod.mk.injEq] at h
        obtain ⟨rfl, rfl⟩ := h
        have := splitNl_some hr
        refine ⟨by simp [this.1], ?_⟩
        simp only [List.mem_cons, not_or]
        exact ⟨fun h => hb h.symm, this.2⟩

theorem splitNl_none : ∀ {l : Bytes}, splitNl l = none ↔ 10 ∉ l
  | [] => by simp [splitNl]
  | b :: r => by
    simp only [splitNl]
    by_cases hb : b = 10
    · simp [hb]
    · simp only [hb, if_false, List.mem_cons, not_or]
      have ih := @splitNl_none r
      cases hr : splitNl r with
      | none => simp [hr] at ih; simp [ih]; exact fun h => hb h.symm
      | some pq => simp [hr] at ih; simp [ih]

theorem lines_nl : ∀ (p q : Bytes), 10 ∉ p → lines (p ++ 10 :: q) = (p ++ [10]) :: lines q
  | [], q, _ => by simp [lines]
  | b :: p, q, h => by
    simp only [List.mem_cons, not_or] at h
    have hb : b ≠ 10 := fun e => h.1 e.symm
    simp [lines, hb, lines_nl p q h.2]

theorem lines_nonl : ∀ (l : Bytes), 10 ∉ l → l ≠ [] → lines l = [l]
  | [], _, h => absurd rfl h
  | [b], h, _ => by
    have hb : b ≠ 10 := fun e => h (by simp [e])
    simp [lines, hb]
  | b :: c :: r, h, _ => by
    simp only [List.mem_cons, not_or] at h
    have hb : b ≠ 10 := fun e => h.1 e.symm
    have ih := lines_nonl (c :: r) (by simp [h.2]) (by simp)
    simp only [lines, hb, if_false] at ih ⊢
    rw [ih]

theorem go_eq : ∀ (bs cur : List Nat) (acc : List (List Nat)), 10 ∉ cur →
    Utf8.splitLines.go bs cur acc = acc.reverse ++ lines (cur.reverse ++ bs)
  | [], cur, acc, h => by
    simp only [Utf8.splitLines.go, List.append_nil]
    by_cases hc : cur = []
    · simp [hc, lines]
    · have : cur.isEmpty = false := by simp [hc]
      rw [lines_nonl cur.reverse (by simpa using h) (by simpa using hc)]
      simp [this]
  | b :: r, cur, acc, h => by
    simp only [Utf8.splitLines.go]
    by_cases hb : b = 10
    · subst hb
      simp only [beq_self_eq_true, if_true]
      rw [go_eq r [] _ (by simp), lines_nl _ _ (by simpa using h)]
      simp
    · have : (b == 10) = false := by simpa using hb
      simp only [this, Bool.false_eq_true, if_false]
      rw [go_eq r (b :: cur) acc (by
        simp only [List.mem_cons, not_or]; exact ⟨fun e => hb e.symm, h⟩)]
      simp

/-- the structural specification is the model's `read_until` splitting (AgModel/Utf8.lean) -/
theorem lines_eq_splitLines (bs : Bytes) : lines bs = Utf8.splitLines bs := by
  simp [Utf8.splitLines, go_eq]


/-! ### runs -/

theorem run_append (c : Cfg σ ρ) : ∀ (ls ls' : List Label) (s : State σ ρ),
    run c (ls ++ ls') s = (run c ls s).bind (run c ls')
  | [], _, _ => by simp [run]
  | l :: ls, ls', s => by
    simp only [List.cons_append, run]
    cases next c s l with
    | none => simp
    | some s' => simpa using run_append c ls ls' s'

/-- invariants: from a state to every state reached from it -/
theorem inv_run {c : Cfg σ ρ} {P : State σ ρ → Prop}
    (hstep : ∀ s l s', P s → next c s l = some s' → P s') :
    ∀ (ls : List Label) (s s' : State σ ρ), P s → run c ls s = some s' → P s'
  | [], s, s', hp, h => by simp [run] at h; exact h ▸ hp
  | l :: ls, s, s', hp, h => by
    simp only [run] at h
    cases hn : next c s l with
    | none => simp [hn] at h
    | some s1 => simp only [hn] at h; exact inv_run hstep ls s1 s' (hstep s l s1 hp hn) h

theorem inv_reachable {c : Cfg σ ρ} {P : State σ ρ → Prop} (h0 : P (init c))
    (hstep : ∀ s l s', P s → next c s l = some s' → P s') : ∀ s, Reachable c s → P s :=
  fun s ⟨ls, h⟩ => inv_run hstep ls (init c) s h0 h

/-- the same for schedules without fault labels -/
theorem inv_runFF {c : Cfg σ ρ} {P : State σ ρ → Prop}
    (hstep : ∀ s l s', P s → l.fault = false → next c s l = some s' → P s') :
    ∀ (ls : List Label) (s s' : State σ ρ), (∀ l ∈ ls, l.fault = false) → P s →
      run c ls s = some s' → P s'
  | [], s, s', _, hp, h => by simp [run] at h; exact h ▸ hp
  | l :: ls, s, s', hf, hp, h => by
    simp only [run] at h
    cases hn : next c s l with
    | none => simp [hn] at h
    | some s1 =>
      simp only [hn] at h
      exact inv_runFF hstep ls s1 s' (fun l' hl' => hf l' (List.mem_cons_of_mem _ hl'))
        (hstep s l s1 hp (hf l (List.mem_cons_self ..)) hn) h

theorem inv_reachableFF {c : Cfg σ ρ} {P : State σ ρ → Prop} (h0 : P (init c))
    (hstep : ∀ s l s', P s → l.fault = false → next c s l = some s' → P s') :
    ∀ s, ReachableFF c s → P s :=
  fun s ⟨ls, hf, h⟩ => inv_runFF hstep ls (init c) s hf h0 h

theorem ReachableFF.reachable {c : Cfg σ ρ} {s : State σ ρ} (h : ReachableFF c s) : Reachable c s :=
  let ⟨ls, _, h⟩ := h; ⟨ls, h⟩

theorem Reachable.step {c : Cfg σ ρ} {s s' : State σ ρ} {l : Label} (h : Reachable c s)
    (hn : next c s l = some s') : Reachable c s' := by
  obtain ⟨ls, h⟩ := h
  exact ⟨ls ++ [l], by simp [run_append, h, run, hn]⟩

theorem Reachable.run {c : Cfg σ ρ} {s s' : State σ ρ} {ls : List Label} (h : Reachable c s)
    (hn : Sched.run c ls s = some s') : Reachable c s' := by
  obtain ⟨ls0, h⟩ := h
  exact ⟨ls0 ++ ls, by simp [run_append, h, hn]⟩

/-! ### sequential reference -/

theorem runLines_append (c : Cfg σ ρ) : ∀ (st : σ) (a b : List Line),
    c.runLines st (a ++ b) =
      ((c.runLines (c.runLines st a).1 b).1, (c.runLines st a).2 ++ (c.runLines (c.runLines st a).1 b).2)
  | st, [], b => by simp [Cfg.runLines]
  | st, l :: a, b => by simp [Cfg.runLines, runLines_append c _ a b]

theorem runLines_snoc (c : Cfg σ ρ) (st : σ) (a : List Line) (l : Line) :
    c.runLines st (a ++ [l]) =
      ((c.step (c.runLines st a).1 l).1, (c.runLines st a).2 ++ (c.step (c.runLines st a).1 l).2.toList) := by
  simp [runLines_append, Cfg.runLines]

/-! ### structural invariants (every schedule, faults included) -/

structure Basic (c : Cfg σ ρ) (s : State σ ρ) : Prop where
  chanBound : s.chan.length ≤ c.cap
  errs : s.errs = 0 ∨ (s.errs = 1 ∧ s.rend = .done)
  txOut : s.tx = .dropped → s.outq = [] ∧ s.reader ≠ .running
  finalAgg : s.rend = .final → c.agg = true ∧ s.tx = .dropped
  aggCur : c.agg = true → s.cur = none
  doneJoin : s.reader = .done → s.tx = .dropped ∧ (s.rend = .done ∨ s.rend = .panicked)
  panicOut : s.reader = .panicked → s.outq = []
  rdErrs : s.rdErrs = 0 ∨ (s.rdErrs = 1 ∧ s.reader ≠ .running)

theorem basic_init (c : Cfg σ ρ) : Basic c (init c) := by
  constructor <;> simp [init]

theorem payload_some {c : Cfg σ ρ} {s : State σ ρ} {p : Bytes} (h : payload c s = some p) :
    (s.rend = .running ∧ c.agg = false ∧ ∃ r, s.cur = some r ∧ p = c.render r) ∨
    (s.rend = .final ∧ c.agg = true ∧ p = c.aggFinal s.acc) := by
  simp only [payload] at h
  split at h <;> simp_all

theorem basic_step {c : Cfg σ ρ} (s : State σ ρ) (l : Label) (s' : State σ ρ)
    (hb : Basic c s) (h : next c s l = some s') : Basic c s' := by
  obtain ⟨h1, h2, h3, h4, h5, h6, h7, h8⟩ := hb
  cases l
  case write =>
    cases hp : payload c s with
    | none => simp [next, hp] at h
    | some p =>
      simp only [next, hp] at h
      split at h
      · cases h
        rcases payload_some hp with ⟨a, b, r, d, e⟩ | ⟨a, b, d⟩ <;> constructor <;> simp_all
      · contradiction
  case writeFail k =>
    cases hp : payload c s with
    | none => simp [next, hp] at h
    | some p =>
      simp only [next, hp] at h
      (repeat' split at h) <;> first
        | contradiction
        | (cases h
           rcases payload_some hp with ⟨a, b, r, d, e⟩ | ⟨a, b, d⟩ <;> constructor <;> simp_all)
  all_goals
    simp only [next, consume] at h
    (repeat' split at h) <;>
    first
    | contradiction
    | (cases h; constructor <;> simp_all <;> omega)
    | (cases h; constructor <;> simp_all)

/-! ### the reader's line assembly (every schedule) -/

structure RdInv (c : Cfg σ ρ) (s : State σ ρ) : Prop where
  carryNl : 10 ∉ s.carry
  /-- whatever bytes are still to come, the lines of the whole input are the lines consumed so far
  followed by the lines of (partial line ++ unread bytes ++ future bytes) -/
  bytes : ∀ more, (s.eof = true → more = []) →
    lines (s.fed ++ more) = s.consumed ++ lines (s.carry ++ s.inbuf ++ more)
  term : s.eof = false → ∀ l ∈ s.consumed, l.getLast? = some 10
  stEq : s.st = (c.runLines c.init s.consumed).1

theorem rd_init (c : Cfg σ ρ) : RdInv c (init c) := by
  constructor <;> simp [init, Cfg.runLines]

theorem rd_step {c : Cfg σ ρ} (s : State σ ρ) (l : Label) (s' : State σ ρ)
    (hb : RdInv c s) (h : next c s l = some s') : RdInv c s' := by
  obtain ⟨h1, h2, h3, h4⟩ := hb
  cases l
  case feed b =>
    simp only [next] at h
    split at h
    · contradiction
    · cases h
      rename_i he
      refine ⟨h1, ?_, ?_, h4⟩
      · intro more hm
        have := h2 (b ++ more) (by simp [he])
        simpa [List.append_assoc] using this
      · simpa using h3
  case absorb n =>
    simp only [next] at h
    (repeat' split at h) <;> try contradiction
    cases h
    rename_i hc
    refine ⟨?_, ?_, h3, h4⟩
    · simp only [List.mem_append, not_or]; exact ⟨h1, hc.2.2⟩
    · intro more hm
      have := h2 more hm
      simpa [List.append_assoc] using this
  case readLine =>
    simp only [next] at h
    (repeat' split at h) <;> try contradiction
    · -- a newline is available
      rename_i pre rest hs
      cases h
      obtain ⟨hin, hpre⟩ := splitNl_some hs
      refine ⟨by simp [consume], ?_, ?_, ?_⟩
      · intro more hm
        have := h2 more hm
        rw [hin] at this
        have e : s.carry ++ (pre ++ 10 :: rest) ++ more = (s.carry ++ pre) ++ 10 :: (rest ++ more) := by
          simp [List.append_assoc]
        rw [e, lines_nl _ _ (by simp only [List.mem_append, not_or]; exact ⟨h1, hpre⟩)] at this
        simpa [consume, List.append_assoc] using this
      · intro he l hl
        simp only [consume, List.mem_append, List.mem_singleton] at hl he
        rcases hl with hl | hl
        · exact h3 he l hl
        · subst hl; simp
      · simp [consume, runLines_snoc, ← h4]
    · -- end of input completes the last line
      rename_i hc
      cases h
      obtain ⟨he, hi, hne⟩ := hc
      refine ⟨by simp [consume], ?_, ?_, ?_⟩
      · intro more hm
        have hm' : more = [] := hm (by simpa [consume] using he)
        subst hm'
        have := h2 [] (fun _ => rfl)
        simp only [hi, List.append_nil] at this
        rw [lines_nonl _ h1 hne] at this
        simp [consume, this, lines]
      · intro he'; simp [consume, he] at he'
      · simp [consume, runLines_snoc, ← h4]
  case eof =>
    simp only [next] at h
    split at h
    · contradiction
    · cases h
      refine ⟨h1, ?_, by simp, h4⟩
      intro more hm
      have hm' : more = [] := hm rfl
      subst hm'
      exact h2 [] (by simp_all)
  all_goals
    simp only [next] at h
    (repeat' split at h) <;>
    first
    | contradiction
    | (cases h; exact ⟨h1, by simpa using h2, by simpa using h3, h4⟩)
    | (cases h; constructor <;> simp_all)

theorem reach_basic {c : Cfg σ ρ} {s : State σ ρ} (h : Reachable c s) : Basic c s :=
  inv_reachable (basic_init c) basic_step s h

theorem reach_rd {c : Cfg σ ρ} {s : State σ ρ} (h : Reachable c s) : RdInv c s :=
  inv_reachable (rd_init c) rd_step s h

/-! ### conservation of rows (schedules without fault labels) -/

@[simp] theorem renderAll_nil (c : Cfg σ ρ) : c.renderAll [] = [] := rfl
@[simp] theorem renderAll_cons (c : Cfg σ ρ) (r : ρ) (rs : List ρ) :
    c.renderAll (r :: rs) = c.render r ++ c.renderAll rs := by simp [Cfg.renderAll]
@[simp] theorem renderAll_append (c : Cfg σ ρ) (a b : List ρ) :
    c.renderAll (a ++ b) = c.renderAll a ++ c.renderAll b := by simp [Cfg.renderAll]

/-- the rows the reader has handed over (or is about to hand over) so far -/
def produced (c : Cfg σ ρ) (s : State σ ρ) : List ρ :=
  (c.runLines c.init s.consumed).2 ++
    (if s.reader = .running then [] else c.drain (c.runLines c.init s.consumed).1)

structure Good (c : Cfg σ ρ) (s : State σ ρ) : Prop where
  sink : s.sinkBroken = false
  noErr : s.errs = 0
  rdOk : s.reader ≠ .panicked
  rnOk : s.rend ≠ .panicked
  joinOk : s.joinErr = false
  rendDone : s.rend ≠ .running → s.tx = .dropped ∧ s.chan = [] ∧ s.cur = none
  rdEnd : s.reader ≠ .running → s.eof = true ∧ s.inbuf = [] ∧ s.carry = []
  /-- record renderer: bytes written ++ rows in flight = rows produced -/
  consNoagg : c.agg = false →
    s.written ++ c.renderAll (s.cur.toList ++ s.chan ++ s.outq) = c.renderAll (produced c s)
  /-- aggregate renderer: nothing is written before the end; rows received ++ in flight = produced -/
  consAgg : c.agg = true →
    (s.rend ≠ .done → s.written = [] ∧ s.acc ++ s.chan ++ s.outq = produced c s) ∧
    (s.rend = .done → s.written = c.aggFinal (produced c s))

theorem good_init (c : Cfg σ ρ) : Good c (init c) := by
  constructor <;> simp [init, produced, Cfg.runLines]

theorem good_step {c : Cfg σ ρ} (s : State σ ρ) (l : Label) (s' : State σ ρ)
    (hb : Basic c s) (hr : RdInv c s) (hg : Good c s) (hf : l.fault = false)
    (h : next c s l = some s') : Good c s' := by
  obtain ⟨g1, g2, g3, g4, g5, g6, g7, g8, g9⟩ := hg
  have hst := hr.stEq
  have htx := hb.txOut
  cases l
  case readLine =>
    simp only [next] at h
    have key : ∀ line rest, s.reader = .running → s.outq = [] → Good c (consume c s line rest) := by
      intro line rest hrun hq
      have hp : produced c (consume c s line rest) = produced c s ++ (c.step s.st line).2.toList := by
        simp [produced, consume, hrun, runLines_snoc, ← hst]
      refine ⟨g1, g2, by simp [consume, hrun], g4, g5, g6, by simp [consume, hrun], ?_, ?_⟩
      · intro ha
        have := g8 ha
        rw [hp]
        simp only [hq, List.append_nil] at this
        simp only [consume, renderAll_append, ← List.append_assoc]
        simp only [renderAll_append, ← List.append_assoc] at this
        rw [this]
      · intro ha
        obtain ⟨a1, a2⟩ := g9 ha
        rw [hp]
        refine ⟨fun hd => ?_, fun hd => ?_⟩
        · obtain ⟨w, e⟩ := a1 hd
          refine ⟨w, ?_⟩
          simp only [hq, List.append_nil] at e
          simp [consume, ← e]
        · have := (g6 (by simp [show s.rend = .done from hd])).1
          exact absurd hrun (htx this).2
    (repeat' split at h) <;> try contradiction
    · cases h; exact key _ _ (by assumption) (by assumption)
    · cases h; exact key _ _ (by assumption) (by assumption)
  case readEof =>
    simp only [next] at h
    (repeat' split at h) <;> try contradiction
    cases h
    rename_i hrun hq hc
    have hp : produced c { s with reader := .draining, outq := c.drain s.st } = produced c s ++ c.drain s.st := by
      simp [produced, hrun, ← hst]
    refine ⟨g1, g2, by simp, g4, g5, g6, by simp [hc], ?_, ?_⟩
    · intro ha
      have := g8 ha
      rw [hp]
      simp only [hq, List.append_nil] at this
      simp only [renderAll_append, ← List.append_assoc]
      simp only [renderAll_append, ← List.append_assoc] at this
      rw [this]
    · intro ha
      obtain ⟨a1, a2⟩ := g9 ha
      rw [hp]
      refine ⟨fun hd => ?_, fun hd => ?_⟩
      · obtain ⟨w, e⟩ := a1 hd
        refine ⟨w, ?_⟩
        simp only [hq, List.append_nil] at e
        simp [← e]
      · have := (g6 (by simp [show s.rend = .done from hd])).1
        exact absurd hrun (htx this).2
  case send =>
    simp only [next] at h
    (repeat' split at h) <;> try contradiction
    cases h
    rename_i r q hq hc
    have hp : produced c { s with outq := q, chan := s.chan ++ [r] } = produced c s := rfl
    have hrun : s.rend = .running := by
      cases hrd : s.rend with
      | running => rfl
      | _ => have := hc.1
             have h' := (g6 (by simp [hrd])).1
             have := (htx h').1
             simp [hq] at this
    refine ⟨g1, g2, g3, g4, g5, by simp [hrun], g7, ?_, ?_⟩
    · intro ha
      have := g8 ha
      rw [hp, ← this]
      simp [hq]
    · intro ha
      obtain ⟨a1, a2⟩ := g9 ha
      rw [hp]
      refine ⟨fun hd => ?_, fun hd => by simp [hrun] at hd⟩
      obtain ⟨w, e⟩ := a1 hd
      refine ⟨w, ?_⟩
      simp only [hq] at e
      simp [← e]
  case sendFail n =>
    cases hq : s.outq with
    | nil => simp [next, hq] at h
    | cons r q =>
      simp only [next, hq] at h
      split at h
      · rename_i hc
        have : s.rend ≠ .running := by
          intro hh; simp [State.rxAlive, hh] at hc
        have := (htx (g6 this).1).1
        simp [hq] at this
      · contradiction
  case write =>
    cases hp : payload c s with
    | none => simp [next, hp] at h
    | some p =>
      simp only [next, hp] at h
      split at h
      · cases h
        rcases payload_some hp with ⟨a, b, r, d, e⟩ | ⟨a, b, d⟩
        · refine ⟨g1, g2, g3, by simp [b, a], g5, by simp [b, a], g7, ?_, by simp [b]⟩
          intro _
          have := g8 b
          simp only [produced] at this ⊢
          rw [← this]
          simp [d, e]
        · have h6 := g6 (by simp [a])
          obtain ⟨a1, a2⟩ := g9 b
          obtain ⟨w, e⟩ := a1 (by simp [a])
          refine ⟨g1, g2, g3, by simp [b], g5, by simp [b, h6], g7, by simp [b], ?_⟩
          intro _
          refine ⟨by simp [b], fun _ => ?_⟩
          simp only [h6.2.1, (htx h6.1).1, List.append_nil] at e
          simp only [produced] at e ⊢
          simp [w, d, e]
      · contradiction
  all_goals
    simp only [next, Label.fault] at h hf
    (repeat' split at h) <;>
    first
    | contradiction
    | (cases h; constructor <;> simp_all [produced])

theorem reachFF_good {c : Cfg σ ρ} {s : State σ ρ} (h : ReachableFF c s) :
    Basic c s ∧ RdInv c s ∧ Good c s :=
  inv_reachableFF (P := fun s => Basic c s ∧ RdInv c s ∧ Good c s)
    ⟨basic_init c, rd_init c, good_init c⟩
    (fun s l s' ⟨hb, hr, hg⟩ hf hn =>
      ⟨basic_step s l s' hb hn, rd_step s l s' hr hn, good_step s l s' hb hr hg hf hn⟩) s h

/-! ### measure -/

theorem toList_length_le {α} (o : Option α) : o.toList.length ≤ 1 := by cases o <;> simp

theorem carryRank_le (b : Bytes) : carryRank b ≤ 4 := by cases b <;> simp [carryRank]

theorem measure_step {c : Cfg σ ρ} (s : State σ ρ) (l : Label) (s' : State σ ρ)
    (hl : l.internal = true) (h : next c s l = some s') :
    rdRank1 s'.reader < rdRank1 s.reader ∨
      (rdRank1 s'.reader = rdRank1 s.reader ∧ s'.weight < s.weight) := by
  cases l
  case write =>
    cases hp : payload c s with
    | none => simp [next, hp] at h
    | some p =>
      simp only [next, hp] at h
      split at h
      · cases h
        rcases payload_some hp with ⟨a, b, r, d, e⟩ | ⟨a, b, d⟩ <;>
          simp [State.weight, a, b, d, rnRank, optRank] <;> (try cases s.cur) <;>
          (try simp) <;> omega
      · contradiction
  case writeFail k =>
    cases hp : payload c s with
    | none => simp [next, hp] at h
    | some p =>
      simp only [next, hp] at h
      (repeat' split at h) <;> first
        | contradiction
        | (cases h
           rcases payload_some hp with ⟨a, b, r, d, e⟩ | ⟨a, b, d⟩ <;>
             simp [State.weight, a, d, rnRank, optRank] <;> (try cases s.cur) <;>
             (try simp) <;> omega)
  case absorb n =>
    simp only [next] at h
    (repeat' split at h) <;> try contradiction
    cases h
    rename_i hc
    right
    refine ⟨rfl, ?_⟩
    have h1 := carryRank_le (s.carry ++ List.take n s.inbuf)
    have h2 : carryRank s.carry ≥ 0 := Nat.zero_le _
    simp only [State.weight, List.length_drop]
    omega
  case readLine =>
    simp only [next] at h
    (repeat' split at h) <;> try contradiction
    · rename_i pre rest hs
      have hq : s.outq = [] := by assumption
      cases h
      obtain ⟨hin, _⟩ := splitNl_some hs
      have hlen : s.inbuf.length = pre.length + 1 + rest.length := by simp [hin]; omega
      have := toList_length_le (c.step s.st (s.carry ++ pre ++ [10])).2
      right
      refine ⟨rfl, ?_⟩
      simp only [State.weight, consume, carryRank, hlen, hq, List.length_nil]
      omega
    · rename_i hc
      have hq : s.outq = [] := by assumption
      cases h
      have := toList_length_le (c.step s.st s.carry).2
      have h4 : carryRank s.carry = 4 := by
        cases hcar : s.carry with
        | nil => exact absurd hcar hc.2.2
        | cons _ _ => rfl
      right
      refine ⟨rfl, ?_⟩
      simp only [State.weight, consume, hc.2.1, h4, hq, List.length_nil,
        show carryRank ([] : Bytes) = 0 from rfl]
      omega
  all_goals
    simp only [next, Label.internal] at h hl
    (repeat' split at h) <;>
    first
    | contradiction
    | (cases h; simp_all [State.weight, rdRank1, rdRank2, rnRank, txRank, optRank] <;> omega)

/-! ### progress (deadlock freedom) -/

def Enabled (c : Cfg σ ρ) (s : State σ ρ) : Prop :=
  ∃ l, l.internal = true ∧ (next c s l).isSome = true

theorem write_progress {c : Cfg σ ρ} {s : State σ ρ} {p : Bytes} (hp : payload c s = some p) :
    Enabled c s := by
  by_cases h : s.sinkBroken = false ∨ p = []
  · exact ⟨.write, rfl, by simp [next, hp, h]⟩
  · have h' : s.sinkBroken = true ∧ p ≠ [] := by
      cases hs : s.sinkBroken <;> simp_all
    have hl : 0 < p.length := List.length_pos_iff.mpr h'.2
    refine ⟨.writeFail 0, rfl, ?_⟩
    simp [next, hp, hl]

theorem rend_progress {c : Cfg σ ρ} {s : State σ ρ} (hb : Basic c s) (hr : s.rend = .running)
    (h : s.chan ≠ [] ∨ s.tx = .dropped ∨ s.cur ≠ none) : Enabled c s := by
  cases hcur : s.cur with
  | some r =>
    have hagg : c.agg = false := by
      cases ha : c.agg with
      | false => rfl
      | true => have := hb.aggCur ha; simp [hcur] at this
    exact write_progress (p := c.render r) (by simp [payload, hr, hagg, hcur])
  | none =>
    cases hch : s.chan with
    | cons r q =>
      refine ⟨.recv, rfl, ?_⟩
      simp only [next, hr, hcur, hch]
      split <;> rfl
    | nil =>
      have ht : s.tx = .dropped := by
        rcases h with h | h | h
        · exact absurd hch h
        · exact h
        · exact absurd hcur h
      exact ⟨.disconnect, rfl, by simp [next, hr, hcur, hch, ht]⟩

theorem final_progress {c : Cfg σ ρ} {s : State σ ρ} (hb : Basic c s) (hr : s.rend = .final) :
    Enabled c s :=
  write_progress (p := c.aggFinal s.acc) (by simp [payload, hr, (hb.finalAgg hr).1])

theorem send_progress {c : Cfg σ ρ} (hcap : 0 < c.cap) {s : State σ ρ} (hb : Basic c s)
    {r : ρ} {q : List ρ} (hq : s.outq = r :: q) : Enabled c s := by
  cases hrx : s.rxAlive with
  | false => exact ⟨.sendFail 0, rfl, by simp [next, hq, hrx]⟩
  | true =>
    by_cases hlen : s.chan.length < c.cap
    · exact ⟨.send, rfl, by simp [next, hq, hrx, hlen]⟩
    · cases hr : s.rend with
      | running =>
        refine rend_progress hb hr (Or.inl ?_)
        intro hnil; simp [hnil] at hlen; omega
      | final =>
        have := (hb.txOut (hb.finalAgg hr).2).1
        simp [hq] at this
      | done => simp [State.rxAlive, hr] at hrx
      | panicked => simp [State.rxAlive, hr] at hrx

/-- in every reachable state: the run is over, or some thread can move, or the reader is blocked
in `read_until` waiting for the environment -/
theorem progress {c : Cfg σ ρ} (hcap : 0 < c.cap) {s : State σ ρ} (hb : Basic c s) :
    s.reader = .done ∨ s.reader = .panicked ∨ Enabled c s ∨
      (s.reader = .running ∧ s.outq = [] ∧ s.eof = false ∧ s.inbuf = []) := by
  cases hq : s.outq with
  | cons r q => exact Or.inr (Or.inr (Or.inl (send_progress hcap hb hq)))
  | nil =>
    cases hrd : s.reader with
    | done => exact Or.inl rfl
    | panicked => exact Or.inr (Or.inl rfl)
    | running =>
      cases hs : splitNl s.inbuf with
      | some pq =>
        exact Or.inr (Or.inr (Or.inl ⟨.readLine, rfl, by simp [next, hrd, hq, hs]⟩))
      | none =>
        by_cases hi : s.inbuf = []
        · cases he : s.eof with
          | false => exact Or.inr (Or.inr (Or.inr ⟨rfl, rfl, rfl, hi⟩))
          | true =>
            by_cases hc : s.carry = []
            · exact Or.inr (Or.inr (Or.inl ⟨.readEof, rfl, by simp [next, hrd, hq, he, hi, hc]⟩))
            · exact Or.inr (Or.inr (Or.inl ⟨.readLine, rfl, by simp [next, hrd, hq, he, hi, hc, splitNl]⟩))
        · refine Or.inr (Or.inr (Or.inl ⟨.absorb s.inbuf.length, rfl, ?_⟩))
          have hpos : 0 < s.inbuf.length := List.length_pos_iff.mpr hi
          have hnl : 10 ∉ s.inbuf := splitNl_none.mp hs
          simp [next, hrd, hq, hpos, hnl]
    | draining =>
      cases ht : s.tx with
      | «open» => exact Or.inr (Or.inr (Or.inl ⟨.dropTx, rfl, by simp [next, hrd, hq, ht]⟩))
      | dropped =>
        cases hr : s.rend with
        | running => exact Or.inr (Or.inr (Or.inl (rend_progress hb hr (Or.inr (Or.inl ht)))))
        | final => exact Or.inr (Or.inr (Or.inl (final_progress hb hr)))
        | done => exact Or.inr (Or.inr (Or.inl ⟨.join, rfl, by simp [next, hrd, ht, hr]⟩))
        | panicked => exact Or.inr (Or.inr (Or.inl ⟨.join, rfl, by simp [next, hrd, ht, hr]⟩))

/-- in the read loop the reader holds at most one unsent row -/
theorem outq_step {c : Cfg σ ρ} (s : State σ ρ) (l : Label) (s' : State σ ρ)
    (hi : s.reader = .running → s.outq.length ≤ 1) (h : next c s l = some s') :
    s'.reader = .running → s'.outq.length ≤ 1 := by
  cases l
  case readLine =>
    simp only [next] at h
    (repeat' split at h) <;> try contradiction
    · cases h; intro _; exact toList_length_le _
    · cases h; intro _; exact toList_length_le _
  all_goals
    simp only [next] at h
    (repeat' split at h) <;>
    first
    | contradiction
    | (cases h; simp_all <;> omega)
    | (cases h; simp_all)

theorem reach_outq {c : Cfg σ ρ} {s : State σ ρ} (h : Reachable c s) :
    s.reader = .running → s.outq.length ≤ 1 :=
  inv_reachable (P := fun s => s.reader = .running → s.outq.length ≤ 1) (by simp [init])
    outq_step s h

/-! ### termination -/

/-- one step of one of the two threads -/
def InternalStep (c : Cfg σ ρ) (s' s : State σ ρ) : Prop :=
  ∃ l, l.internal = true ∧ next c s l = some s'

/-- every sequence of thread steps is finite (environment and clock steps excluded) -/
theorem internal_wf (c : Cfg σ ρ) : WellFounded (InternalStep c) := by
  apply Subrelation.wf (r := InvImage (Prod.Lex (· < ·) (· < ·)) State.measure)
  · intro a b ⟨l, hl, hn⟩
    rcases measure_step b l a hl hn with h | ⟨h1, h2⟩
    · exact Prod.Lex.left _ _ h
    · show Prod.Lex _ _ (rdRank1 a.reader, a.weight) (rdRank1 b.reader, b.weight)
      rw [h1]; exact Prod.Lex.right _ h2
  · exact InvImage.wf _ (Prod.lex Nat.lt_wfRel Nat.lt_wfRel).wf

theorem eof_step {c : Cfg σ ρ} (s : State σ ρ) (l : Label) (s' : State σ ρ)
    (he : s.eof = true) (h : next c s l = some s') : s'.eof = true := by
  cases l
  all_goals
    simp only [next, consume] at h
    (repeat' split at h) <;>
    first
    | contradiction
    | (cases h; simp_all)

/-- the bytes supplied so far are the chunks of the `feed` labels, concatenated -/
def chunkOf : Label → Bytes
  | .feed b => b
  | _ => []

theorem fed_step {c : Cfg σ ρ} (s : State σ ρ) (l : Label) (s' : State σ ρ)
    (h : next c s l = some s') : s'.fed = s.fed ++ chunkOf l := by
  cases l
  all_goals
    simp only [next, consume] at h
    (repeat' split at h) <;>
    first
    | contradiction
    | (cases h; simp [chunkOf])

theorem fed_run {c : Cfg σ ρ} : ∀ (ls : List Label) (s s' : State σ ρ),
    run c ls s = some s' → s'.fed = s.fed ++ (ls.map chunkOf).flatten
  | [], s, s', h => by simp [run] at h; simp [h]
  | l :: ls, s, s', h => by
    simp only [run] at h
    cases hn : next c s l with
    | none => simp [hn] at h
    | some s1 =>
      simp only [hn] at h
      rw [fed_run ls s1 s' h, fed_step s l s1 hn]
      simp

theorem not_running_step {c : Cfg σ ρ} (s : State σ ρ) (l : Label) (s' : State σ ρ)
    (hd : s.reader ≠ .running) (h : next c s l = some s') : s'.reader ≠ .running := by
  cases l
  all_goals
    simp only [next, consume] at h
    (repeat' split at h) <;>
    first
    | contradiction
    | (cases h; simp_all)

/-- with the input exhausted — or the reader already out of its loop (send failure, read error) —
finitely many thread steps end the run, whatever faults occurred -/
theorem terminates {c : Cfg σ ρ} (hcap : 0 < c.cap) : ∀ (s : State σ ρ), Reachable c s →
    (s.eof = true ∨ s.reader ≠ .running) →
    ∃ ls s', (∀ l ∈ ls, l.internal = true) ∧ run c ls s = some s' ∧
      (s'.reader = .done ∨ s'.reader = .panicked) := by
  intro s
  induction s using (internal_wf c).induction with
  | _ s ih =>
    intro hr he
    rcases progress hcap (reach_basic hr) with h | h | ⟨l, hl, hn⟩ | h
    · exact ⟨[], s, by simp, rfl, Or.inl h⟩
    · exact ⟨[], s, by simp, rfl, Or.inr h⟩
    · cases hn' : next c s l with
      | none => simp [hn'] at hn
      | some s1 =>
        have he1 : s1.eof = true ∨ s1.reader ≠ .running := by
          rcases he with e | e
          · exact Or.inl (eof_step s l s1 e hn')
          · exact Or.inr (not_running_step s l s1 e hn')
        obtain ⟨ls, s', h1, h2, h3⟩ := ih s1 ⟨l, hl, hn'⟩ (hr.step hn') he1
        refine ⟨l :: ls, s', ?_, by simp [run, hn', h2], h3⟩
        intro l' hl'
        rcases List.mem_cons.mp hl' with e | e
        · exact e ▸ hl
        · exact h1 l' e
    · rcases he with e | e
      · simp [e] at h
      · exact absurd h.1 e

end Ag.Sched
