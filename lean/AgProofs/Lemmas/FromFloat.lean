/-
Helper lemmas for `Value::from_float` (`Value.fromFloat`): exactness of `floor`, of the
subtraction `f - floor f`, and the comparison against `f64::EPSILON`.
-/
import AgProofs.Lemmas.ValueOrder

namespace Ag
namespace F64

/-! ### `SameVal` at a shifted scale -/

theorem sameVal_shift {n m : Nat} {K E e : Int} (hK : K ≤ E) :
    SameVal (n * pow2 (E - K)) K m e ↔ SameVal n E m e := by
  unfold SameVal
  by_cases h1 : e ≤ K
  · rw [pow2_of_nonpos (by omega : e - K ≤ 0), pow2_of_nonpos (by omega : e - E ≤ 0),
      pow2_sub_split h1 hK, Nat.mul_assoc]
  · by_cases h2 : e ≤ E
    · rw [pow2_of_nonpos (by omega : K - e ≤ 0), pow2_of_nonpos (by omega : e - E ≤ 0),
        pow2_sub_split (by omega : K ≤ e) h2, Nat.mul_one, Nat.mul_one, ← Nat.mul_assoc]
      exact Nat.mul_left_inj (Nat.pos_iff_ne_zero.1 (pow2_pos _))
    · rw [pow2_of_nonpos (by omega : K - e ≤ 0), pow2_of_nonpos (by omega : E - e ≤ 0),
        pow2_sub_split hK (by omega : E ≤ e), Nat.mul_one, Nat.mul_one, ← Nat.mul_assoc]
      exact Nat.mul_left_inj (Nat.pos_iff_ne_zero.1 (pow2_pos _))

/-- every `n < 2^53` at a scale `eMin ≤ sc ≤ eMax` is a double -/
theorem representable_small (s : Bool) {n : Nat} {sc : Int} (hn : n ≠ 0) (h : n < two53)
    (h1 : eMin ≤ sc) (h2 : sc ≤ eMax) : ∃ m e, Canon (fin s m e) ∧ SameVal n sc m e := by
  obtain ⟨hc, hv⟩ := norm_spec hn h s
  rw [canon_fin] at hc
  by_cases hlow : eMin ≤ normE n + sc
  · refine ⟨normM n, normE n + sc, ?_, ?_⟩
    · rw [canon_fin]
      refine ⟨hc.1, hlow, ?_, ?_⟩
      · have : normE n ≤ 0 := by
          have := hc.2.2.1; simp only [normE, eMax] at *
          have hL : n.log2 < 53 := (Nat.log2_lt hn).2 (by rw [← two53_eq]; exact h)
          omega
        omega
      · intro hlt
        have := hc.2.2.2 hlt
        simp only [normE, eMin] at this; omega
    · unfold SameVal at hv ⊢
      have e1 : sc - (normE n + sc) = 0 - normE n := by omega
      have e2 : normE n + sc - sc = normE n - 0 := by omega
      rw [e1, e2, hv]
  · refine ⟨n * pow2 (sc - eMin), eMin, ?_, ?_⟩
    · have hL1 : n < 2 ^ (n.log2 + 1) := Nat.lt_log2_self
      obtain ⟨dd, hdd⟩ : ∃ dd : Nat, sc - eMin = dd := ⟨(sc - eMin).toNat, by omega⟩
      have hlt : n * pow2 (sc - eMin) < two52 := by
        rw [hdd, pow2_natCast, two52_eq]
        have hle : n.log2 + 1 + dd ≤ 52 := by simp only [normE] at hlow; omega
        calc n * 2 ^ dd < 2 ^ (n.log2 + 1) * 2 ^ dd :=
              Nat.mul_lt_mul_of_pos_right hL1 (Nat.two_pow_pos _)
          _ = 2 ^ (n.log2 + 1 + dd) := (Nat.pow_add ..).symm
          _ ≤ 2 ^ 52 := Nat.pow_le_pow_right (by decide) hle
      rw [canon_fin]
      refine ⟨?_, Int.le_refl _, by decide, fun _ => rfl⟩
      have : two52 < two53 := by decide
      omega
    · unfold SameVal
      rw [pow2_of_nonpos (by omega : eMin - sc ≤ 0), Nat.mul_one]

/-! ### `roundInt` in terms of exact values -/

theorem hasVal_zero (z : Bool) (K : Int) : HasVal (fin z 0 eMin) 0 K := by
  rw [hasVal_fin, smant_zero]; simp

/-- rounding `k·2^E` when that value is a double: the result has exactly that value (stated at
any scale `K ≤ E` with `K ≤` every canonical exponent, i.e. `K ≤ eMin`) -/
theorem roundInt_hasVal {k E K : Int} (z : Bool) (hK : K ≤ E) (hKm : K ≤ eMin)
    (hrep : k ≠ 0 → ∃ m e, Canon (fin (decide (k < 0)) m e) ∧
      SameVal (k.natAbs * pow2 (E - K)) K m e) :
    ∃ sR mR eR, roundInt k E z = fin sR mR eR ∧ Canon (fin sR mR eR) ∧
      HasVal (fin sR mR eR) (k * (pow2 (E - K) : Nat)) K := by
  by_cases hk : k = 0
  · subst hk
    refine ⟨z, 0, eMin, by simp [roundInt], by rw [canon_fin]; decide, ?_⟩
    simpa using hasVal_zero z K
  · obtain ⟨m, e, hc, hv⟩ := hrep hk
    have hv' := (sameVal_shift hK).1 hv
    refine ⟨_, m, e, roundInt_exact k E z m e hk hc hv', hc, ?_⟩
    have he : K ≤ e := by rw [canon_fin] at hc; omega
    unfold SameVal at hv
    rw [pow2_of_nonpos (by omega : K - e ≤ 0), Nat.mul_one] at hv
    rw [hasVal_fin, pow2_of_nonpos (by omega : K - e ≤ 0), ← smant_mul, ← hv, smant_mul,
      smant_of_int]
    simp

/-! ### `add` in terms of exact values (scale `eMin`) -/

theorem hasVal_eMin_scaled {s : Bool} {m : Nat} {e k E : Int} (h : HasVal (fin s m e) k eMin)
    (hE : eMin ≤ E) (hEe : E ≤ e) : scaled E s m e * (pow2 (E - eMin) : Nat) = k := by
  have := hasVal_scaled h (by omega : eMin ≤ e) (Int.le_refl _)
  rw [Int.sub_self, pow2_zero] at this
  simp only [Int.natCast_one, Int.mul_one] at this
  rw [← this]
  unfold scaled
  rw [pow2_sub_split hE hEe, Int.natCast_mul, Int.mul_assoc]

theorem add_hasVal {s1 s2 : Bool} {m1 m2 : Nat} {e1 e2 ka kb : Int}
    (h1 : eMin ≤ e1) (h2 : eMin ≤ e2)
    (ha : HasVal (fin s1 m1 e1) ka eMin) (hb : HasVal (fin s2 m2 e2) kb eMin)
    (hrep : ka + kb ≠ 0 → ∃ m e, Canon (fin (decide (ka + kb < 0)) m e) ∧
      SameVal (ka + kb).natAbs eMin m e) :
    ∃ sR mR eR, add (fin s1 m1 e1) (fin s2 m2 e2) = fin sR mR eR ∧ Canon (fin sR mR eR) ∧
      HasVal (fin sR mR eR) (ka + kb) eMin := by
  have hE : eMin ≤ min e1 e2 := by omega
  have e1' := hasVal_eMin_scaled ha hE (by omega)
  have e2' := hasVal_eMin_scaled hb hE (by omega)
  have hsum : (scaled (min e1 e2) s1 m1 e1 + scaled (min e1 e2) s2 m2 e2) *
      (pow2 (min e1 e2 - eMin) : Nat) = ka + kb := by
    rw [Int.add_mul, e1', e2']
  have hadd : add (fin s1 m1 e1) (fin s2 m2 e2) =
      roundInt (scaled (min e1 e2) s1 m1 e1 + scaled (min e1 e2) s2 m2 e2) (min e1 e2)
        (s1 && s2) := rfl
  rw [hadd]
  have hpos : (0 : Int) < (pow2 (min e1 e2 - eMin) : Nat) := by
    have := pow2_pos (min e1 e2 - eMin); omega
  have := roundInt_hasVal (k := scaled (min e1 e2) s1 m1 e1 + scaled (min e1 e2) s2 m2 e2)
    (E := min e1 e2) (K := eMin) (s1 && s2) hE (Int.le_refl _) (by
      intro hk
      have hne : ka + kb ≠ 0 := by
        rw [← hsum]; exact Int.mul_ne_zero hk (by omega)
      obtain ⟨m, e, hc, hv⟩ := hrep hne
      refine ⟨m, e, ?_, ?_⟩
      · have : decide (scaled (min e1 e2) s1 m1 e1 + scaled (min e1 e2) s2 m2 e2 < 0) =
            decide (ka + kb < 0) := by
          rw [← hsum]
          congr 1
          exact propext ⟨fun h => Int.mul_neg_of_neg_of_pos h hpos,
            fun h => by
              rcases Int.lt_trichotomy (scaled (min e1 e2) s1 m1 e1 + scaled (min e1 e2) s2 m2 e2) 0
                with h' | h' | h'
              · exact h'
              · rw [h'] at h; simp at h
              · have := Int.mul_pos h' hpos; omega⟩
        rw [this]; exact hc
      · have : (scaled (min e1 e2) s1 m1 e1 + scaled (min e1 e2) s2 m2 e2).natAbs *
            pow2 (min e1 e2 - eMin) = (ka + kb).natAbs := by
          rw [← hsum, Int.natAbs_mul, Int.natAbs_natCast]
        rw [this]; exact hv)
  rw [hsum] at this
  exact this

/-! ### the fractional part -/

theorem ceilDiv_cases (m d : Nat) (hd : 0 < d) :
    (m + d - 1) / d = if m % d = 0 then m / d else m / d + 1 := by
  have hm := Nat.div_add_mod m d
  generalize hq : m / d = q at *
  generalize hr : m % d = r at *
  have hrd : r < d := by rw [← hr]; exact Nat.mod_lt _ hd
  by_cases h0 : r = 0
  · rw [if_pos h0]
    have : m + d - 1 = d * q + (d - 1) := by omega
    rw [this, Nat.mul_add_div hd, Nat.div_eq_of_lt (by omega), Nat.add_zero]
  · rw [if_neg h0]
    have : m + d - 1 = d * (q + 1) + (r - 1) := by rw [Nat.mul_add]; omega
    rw [this, Nat.mul_add_div hd, Nat.div_eq_of_lt (by omega)]

/-- numerator of the fractional part `f − floor f`, in units of `2^e` (for `e < 0`) -/
def fracNum (s : Bool) (m : Nat) (e : Int) : Nat :=
  if s then (pow2 (-e) - m % pow2 (-e)) % pow2 (-e) else m % pow2 (-e)

theorem fracNum_lt (s : Bool) (m : Nat) (e : Int) : fracNum s m e < pow2 (-e) := by
  unfold fracNum; split <;> exact Nat.mod_lt _ (pow2_pos _)

theorem fracNum_eq_zero_iff (s : Bool) (m : Nat) (e : Int) :
    fracNum s m e = 0 ↔ m % pow2 (-e) = 0 := by
  have hd := pow2_pos (-e)
  have hr := Nat.mod_lt m hd
  unfold fracNum
  cases s
  · simp
  · simp only [if_true]
    by_cases h0 : m % pow2 (-e) = 0
    · rw [h0]; simp
    · rw [Nat.mod_eq_of_lt (by omega)]; omega

theorem fracNum_spec (s : Bool) (m : Nat) (e : Int) (he : e < 0) :
    smant s m - floorInt s m e * (pow2 (-e) : Nat) = (fracNum s m e : Nat) := by
  have hd := pow2_pos (-e)
  have hm : m / pow2 (-e) * pow2 (-e) + m % pow2 (-e) = m := by
    rw [Nat.mul_comm]; exact Nat.div_add_mod m (pow2 (-e))
  have hr := Nat.mod_lt m hd
  unfold floorInt fracNum
  rw [if_neg (by omega)]
  cases s
  · simp only [smant_false, Bool.false_eq_true, if_false]
    generalize pow2 (-e) = d at *
    generalize m / d = q at *
    generalize m % d = r at *
    subst hm; push_cast; omega
  · simp only [smant_true, if_true]
    rw [ceilDiv_cases m _ hd]
    generalize pow2 (-e) = d at *
    generalize m / d = q at *
    generalize m % d = r at *
    by_cases h0 : r = 0
    · subst h0; subst hm; simp [Int.neg_mul]
    · rw [if_neg h0, Nat.mod_eq_of_lt (by omega)]
      subst hm; push_cast
      rw [Int.natCast_sub (by omega)]
      simp [Int.add_mul, Int.neg_mul]; omega
/-! ### `floor` is exact -/

theorem roundInt_zero_scale (k : Int) (z : Bool) (hk : k ≠ 0) : roundInt k 0 z = ofInt k := by
  unfold ofInt roundInt; rw [if_neg hk, if_neg hk]

theorem floorInt_natAbs_le (s : Bool) (m : Nat) (e : Int) (he : e < 0) :
    (floorInt s m e).natAbs ≤ m / 2 + 1 := by
  have hd : 2 ≤ pow2 (-e) := by
    have : pow2 1 ≤ pow2 (-e) := pow2_le_pow2 (by omega)
    exact this
  have hq : m / pow2 (-e) ≤ m / 2 := Nat.div_le_div_left hd (by decide)
  unfold floorInt
  rw [if_neg (by omega)]
  cases s
  · simp only [Bool.false_eq_true, if_false, Int.natAbs_natCast]; omega
  · simp only [if_true, Int.natAbs_neg, Int.natAbs_natCast]
    rw [ceilDiv_cases m _ (by omega)]
    split <;> omega

theorem floor_hasVal {s : Bool} {m : Nat} {e : Int} (hc : Canon (fin s m e)) (he : e < 0) :
    ∃ sF mF eF, floor (fin s m e) = fin sF mF eF ∧ Canon (fin sF mF eF) ∧
      HasVal (fin sF mF eF) (floorInt s m e) 0 := by
  have hfl : floor (fin s m e) = roundInt (floorInt s m e) 0 s := by
    simp only [floor]; rw [if_neg (by omega)]
  rw [hfl]
  by_cases hk : floorInt s m e = 0
  · rw [hk]
    exact ⟨s, 0, eMin, by simp [roundInt], by rw [canon_fin]; decide, hasVal_zero s 0⟩
  · rw [roundInt_zero_scale _ _ hk]
    have hb : (floorInt s m e).natAbs ≤ two53 := by
      have := floorInt_natAbs_le s m e he
      have hm : m < two53 := hc.1
      simp only [two53] at *; omega
    obtain ⟨hv, hcan⟩ := ofInt_hasVal hb
    cases hF : ofInt (floorInt s m e) with
    | nan => rw [hF] at hv; exact absurd hv (by simp [HasVal])
    | inf b => rw [hF] at hv; exact absurd hv (by simp [HasVal])
    | fin sF mF eF => rw [hF] at hv hcan; exact ⟨sF, mF, eF, rfl, hcan, hv⟩

/-! ### `f - floor f` is exact whenever its numerator fits in 53 bits -/

theorem hasVal_neg {s : Bool} {m : Nat} {e k K : Int} (h : HasVal (fin s m e) k K) :
    HasVal (fin (!s) m e) (-k) K := by
  rw [hasVal_fin] at h ⊢
  rw [smant_not, Int.neg_mul, h, Int.neg_mul]

theorem hasVal_abs {s : Bool} {m : Nat} {e k K : Int} (h : HasVal (fin s m e) k K) (hk : 0 ≤ k) :
    HasVal (fin false m e) k K := by
  rw [hasVal_fin] at h ⊢
  cases s
  · exact h
  · have hp : (0 : Int) < (pow2 (e - K) : Nat) := by have := pow2_pos (e - K); omega
    have hq : (0 : Int) ≤ k * (pow2 (K - e) : Nat) := Int.mul_nonneg hk (by omega)
    rw [smant_true] at h
    have hm : (m : Int) * (pow2 (e - K) : Nat) ≤ 0 := by
      have : -(m : Int) * (pow2 (e - K) : Nat) = -((m : Int) * (pow2 (e - K) : Nat)) :=
        Int.neg_mul _ _
      omega
    have hm0 : m = 0 := by
      rcases Nat.eq_zero_or_pos m with h0 | h0
      · exact h0
      · have : (0 : Int) < (m : Int) * (pow2 (e - K) : Nat) := Int.mul_pos (by omega) hp
        omega
    subst hm0
    rw [smant_false]
    simp only [Int.natCast_zero, Int.neg_zero, Int.zero_mul] at h ⊢
    exact h

theorem sub_floor_hasVal {s : Bool} {m : Nat} {e : Int} (hc : Canon (fin s m e)) (he : e < 0)
    (hk : fracNum s m e < two53) :
    ∃ sR mR eR, sub (fin s m e) (floor (fin s m e)) = fin sR mR eR ∧
      HasVal (fin sR mR eR) ((fracNum s m e : Nat) * (pow2 (e - eMin) : Nat)) eMin := by
  obtain ⟨sF, mF, eF, hF, hcF, hvF⟩ := floor_hasVal hc he
  rw [hF]
  have hce := hc; rw [canon_fin] at hce
  have hcFe := hcF; rw [canon_fin] at hcFe
  have h1 : eMin ≤ e := hce.2.1
  have h2 : eMin ≤ eF := hcFe.2.1
  have ha := hasVal_rescale (hasVal_self s m e) h1
  have hb := hasVal_rescale (hasVal_neg hvF) (by decide : eMin ≤ 0)
  have hsplit : pow2 (0 - eMin) = pow2 (-e) * pow2 (e - eMin) := by
    have := pow2_sub_split (a := 0) (b := e) (c := eMin) h1 (by omega)
    rw [Int.zero_sub e] at this; exact this
  have hsum : smant s m * (pow2 (e - eMin) : Nat) + -floorInt s m e * (pow2 (0 - eMin) : Nat) =
      (fracNum s m e : Nat) * (pow2 (e - eMin) : Nat) := by
    rw [← fracNum_spec s m e he, hsplit]
    simp only [Int.natCast_mul, Int.sub_mul, Int.neg_mul, Int.mul_assoc]
    omega
  have hpos : (0 : Int) < (pow2 (e - eMin) : Nat) := by have := pow2_pos (e - eMin); omega
  have hnn : (0 : Int) ≤ (fracNum s m e : Nat) * (pow2 (e - eMin) : Nat) :=
    Int.mul_nonneg (by omega) (by omega)
  have := add_hasVal (s1 := s) (s2 := !sF) (m1 := m) (m2 := mF) (e1 := e) (e2 := eF) h1 h2 ha hb (by
    rw [hsum]
    intro hne
    have hf0 : fracNum s m e ≠ 0 := by
      intro h0; apply hne; rw [h0]; simp
    obtain ⟨m', e', hc', hv'⟩ := representable_small false hf0 hk h1 hce.2.2.1
    refine ⟨m', e', ?_, ?_⟩
    · have : decide ((fracNum s m e : Nat) * (pow2 (e - eMin) : Nat) < (0 : Int)) = false := by
        simp only [decide_eq_false_iff_not]; omega
      rw [this]; exact hc'
    · have : ((fracNum s m e : Nat) * (pow2 (e - eMin) : Nat) : Int).natAbs =
          fracNum s m e * pow2 (e - eMin) := by
        rw [Int.natAbs_mul, Int.natAbs_natCast, Int.natAbs_natCast]
      rw [this]
      exact (sameVal_shift h1).2 hv')
  rw [hsum] at this
  obtain ⟨sR, mR, eR, hR, -, hvR⟩ := this
  exact ⟨sR, mR, eR, hR, hvR⟩

/-! ### the test `|f − floor f| < EPSILON` and `from_float` itself -/

theorem epsilon_hasVal : HasVal epsilon ((pow2 (-52 - eMin) : Nat) : Int) eMin := by
  unfold epsilon; rw [hasVal_fin]; decide +kernel

theorem lt_fin_eq_ocmp (s1 : Bool) (m1 : Nat) (e1 : Int) (s2 : Bool) (m2 : Nat) (e2 : Int) :
    F64.lt (fin s1 m1 e1) (fin s2 m2 e2) = (ocmp (fin s1 m1 e1) (fin s2 m2 e2) == .lt) := by
  simp [F64.lt, pcmp, ocmp]

/-- the fractional part is below `f64::EPSILON = 2^-52` -/
def fracSmall (s : Bool) (m : Nat) (e : Int) : Bool :=
  decide (fracNum s m e * pow2 (e - eMin) < pow2 (-52 - eMin))

theorem frac_test {s : Bool} {m : Nat} {e : Int} (hc : Canon (fin s m e)) (he : e < 0)
    (hk : fracNum s m e < two53) :
    F64.lt (F64.abs (sub (fin s m e) (floor (fin s m e)))) epsilon = fracSmall s m e := by
  obtain ⟨sR, mR, eR, hR, hvR⟩ := sub_floor_hasVal hc he hk
  rw [hR]
  have hnn : (0 : Int) ≤ (fracNum s m e : Nat) * (pow2 (e - eMin) : Nat) :=
    Int.mul_nonneg (by omega) (by omega)
  have hv := hasVal_abs hvR hnn
  show F64.lt (fin false mR eR) (fin false two52 (-104)) = _
  rw [lt_fin_eq_ocmp]
  have := ocmp_of_hasVal hv epsilon_hasVal
  unfold epsilon at this
  rw [this, fracSmall, Bool.eq_iff_iff]
  simp only [beq_iff_eq, decide_eq_true_eq]
  rw [Int.compare_eq_lt, ← Int.natCast_mul, Int.ofNat_lt]

theorem sub_self_fin (s : Bool) (m : Nat) (e : Int) :
    sub (fin s m e) (fin s m e) = fin false 0 eMin := by
  show add (fin s m e) (fin (!s) m e) = _
  unfold add
  simp only [Int.min_self, Int.sub_self, pow2_zero, smant_not]
  have : smant s m * ((1 : Nat) : Int) + -smant s m * ((1 : Nat) : Int) = 0 := by omega
  rw [this]
  cases s <;> simp [roundInt]

theorem zero_lt_epsilon : F64.lt (F64.abs (fin false 0 eMin)) epsilon = true := by decide +kernel

/-- `from_float` on a double with non-negative exponent (an integer ≥ 2^52 in magnitude, or 0):
always the saturating cast -/
theorem fromFloat_of_nonneg_exp (s : Bool) (m : Nat) (e : Int) (he : 0 ≤ e) :
    Value.fromFloat (fin s m e) = .int (toI64 (fin s m e)) := by
  unfold Value.fromFloat
  have : floor (fin s m e) = fin s m e := by simp only [floor]; rw [if_pos (by omega)]
  rw [this, sub_self_fin, zero_lt_epsilon]; rfl

/-- `from_float` on a canonical double with negative exponent whose fractional numerator fits
53 bits (always when `f ≥ 0` or `|f| ≥ 2^-1`…): it returns the `Int` cast exactly when the
fractional part is below 2^-52, the double itself otherwise -/
theorem fromFloat_of_neg_exp {s : Bool} {m : Nat} {e : Int} (hc : Canon (fin s m e)) (he : e < 0)
    (hk : fracNum s m e < two53) :
    Value.fromFloat (fin s m e) =
      if fracSmall s m e then .int (toI64 (fin s m e)) else .float (fin s m e) := by
  unfold Value.fromFloat
  rw [frac_test hc he hk]

/-! ### the remaining case: `-1 < f < 0` so small that `1 - |f|` is not a double -/

theorem le_divRoundEven (a b : Nat) : a / b ≤ divRoundEven a b := by
  unfold divRoundEven
  simp only
  split
  · exact Nat.le_refl _
  · split
    · omega
    · split <;> omega

/-- rounding a value in `[1/2, 1)` given with many bits: the result is still at least `1/2` -/
theorem roundRat_ge_half (n j : Nat) (hj : 1 ≤ j) (h1 : 2 ^ (j + 52) ≤ n) (h2 : n < 2 ^ (j + 53)) :
    ∃ m' e', roundRat false n 1 (-((j : Int) + 53)) = fin false m' e' ∧ two52 ≤ m' ∧ -53 ≤ e' := by
  have hn : n ≠ 0 := by
    have := Nat.two_pow_pos (j + 52); omega
  have hlog : n.log2 = j + 52 := (Nat.log2_eq_iff hn).2 ⟨h1, h2⟩
  have hlog1 : ((1 : Nat).log2 : Int) = 0 := by decide
  rw [roundRat_eq false n 1 _ hn, hlog, hlog1]
  have he0 : ((j + 52 : Nat) : Int) - 0 + -((j : Int) + 53) - 52 = -53 := by omega
  rw [he0]
  have hmant : mantAt n 1 (-((j : Int) + 53)) (-53) = (n, 2 ^ j) := by
    unfold mantAt
    rw [if_neg (by omega)]
    have : -(-((j : Int) + 53) - -53) = (j : Int) := by omega
    rw [this, pow2_natCast, Nat.one_mul]
  have hq1 : two52 ≤ n / 2 ^ j := by
    rw [Nat.le_div_iff_mul_le (Nat.two_pow_pos _), two52_eq, ← Nat.pow_add, Nat.add_comm]; exact h1
  have hq2 : n / 2 ^ j < two53 := by
    rw [Nat.div_lt_iff_lt_mul (Nat.two_pow_pos _), two53_eq, ← Nat.pow_add, Nat.add_comm]; exact h2
  have hfix : fixExp n 1 (-((j : Int) + 53)) (-53) = -53 := by
    rw [fixExp_eq, hmant]
    simp only
    rw [if_neg (by omega), if_neg (by omega)]
  rw [hfix]
  have hcl : clampMin (-53) = -53 := by decide
  rw [hcl, finishAt_eq, hmant]
  simp only
  have hge := le_divRoundEven n (2 ^ j)
  split
  · rename_i hbig
    rw [if_neg (by decide)]
    refine ⟨_, _, rfl, ?_, by decide⟩
    have : two53 = 2 * two52 := by decide
    omega
  · rw [if_neg (by decide)]
    exact ⟨_, _, rfl, by omega, by decide⟩
theorem negOne_round : roundInt (-1) 0 true = fin true two52 (-52) := by decide

/-- arithmetic facts in the tiny-negative case -/
theorem neg_tiny_facts {m : Nat} {e : Int} (hm : m < two53) (he : e < 0)
    (hk : two53 ≤ fracNum true m e) :
    ∃ j : Nat, 1 ≤ j ∧ e = -((j : Int) + 53) ∧ m ≠ 0 ∧ m % pow2 (-e) = m ∧ m < pow2 (-e) ∧
      2 ^ (j + 52) ≤ pow2 (-e) - m ∧ pow2 (-e) - m < 2 ^ (j + 53) := by
  have hlt := fracNum_lt true m e
  have he53 : e < -53 := by
    apply Int.lt_of_not_ge
    intro hge
    have h1 : pow2 (-e) ≤ pow2 53 := pow2_le_pow2 (by omega)
    have h53 : pow2 53 = two53 := by decide
    rw [h53] at h1
    omega
  obtain ⟨j, hj⟩ : ∃ j : Nat, -e = (j : Int) + 53 := ⟨(-e - 53).toNat, by omega⟩
  have hj1 : 1 ≤ j := by omega
  have hd : pow2 (-e) = 2 ^ (j + 53) := by
    have : (j : Int) + 53 = ((j + 53 : Nat) : Int) := by omega
    rw [hj, this, pow2_natCast]
  have h53le : two53 ≤ 2 ^ (j + 52) := by
    rw [two53_eq]; exact Nat.pow_le_pow_right (by decide) (by omega)
  have hdd : 2 ^ (j + 53) = 2 * 2 ^ (j + 52) := by
    rw [show j + 53 = (j + 52) + 1 from rfl, Nat.pow_succ, Nat.mul_comm]
  have hm0 : m ≠ 0 := by
    intro h0
    have h1 : fracNum true m e = 0 := (fracNum_eq_zero_iff true m e).2 (by rw [h0]; simp)
    have h2 : 0 < two53 := by decide
    omega
  refine ⟨j, hj1, by omega, hm0, ?_, ?_, ?_, ?_⟩ <;> rw [hd] at * <;>
    generalize 2 ^ (j + 53) = D at * <;> generalize 2 ^ (j + 52) = P at *
  · exact Nat.mod_eq_of_lt (by omega)
  · omega
  · omega
  · omega

theorem sub_neg_tiny {m : Nat} {e : Int} {j : Nat} (hj : e = -((j : Int) + 53))
    (hmD : m < pow2 (-e)) :
    sub (fin true m e) (fin true two52 (-52)) = roundRat false (pow2 (-e) - m) 1 e := by
  simp only [sub, neg, Bool.not_true]
  unfold add
  have hmin : min e (-52) = e := by omega
  simp only [hmin, Int.sub_self, pow2_zero, smant_true, smant_false]
  have hp : two52 * pow2 (-52 - e) = pow2 (-e) := by
    have h52 : pow2 52 = two52 := by decide
    have hnn : (0 : Int) ≤ -52 - e := by omega
    rw [← h52, ← pow2_add (a := 52) (b := -52 - e) (by decide) hnn]; congr 1; omega
  have hp' : (two52 : Int) * ((pow2 (-52 - e) : Nat) : Int) = ((pow2 (-e) : Nat) : Int) := by
    rw [← Int.natCast_mul, hp]
  rw [hp']
  generalize pow2 (-e) = D at *
  have hk' : -(m : Int) * ((1 : Nat) : Int) + (D : Int) = ((D - m : Nat) : Int) := by omega
  rw [hk']
  unfold roundInt
  have hne : ((D - m : Nat) : Int) ≠ 0 := by omega
  rw [if_neg hne]
  have hneg : decide (((D - m : Nat) : Int) < 0) = false := by
    simp only [decide_eq_false_iff_not]; omega
  rw [hneg, Int.natAbs_natCast]

theorem ge_half_not_lt_epsilon {m' : Nat} {e' : Int} (hm' : two52 ≤ m') (he' : -53 ≤ e') :
    F64.lt (F64.abs (fin false m' e')) epsilon = false := by
  show F64.lt (fin false m' e') (fin false two52 (-104)) = false
  rw [lt_fin_eq_ocmp, ocmp_fin, cmpFin_scale _ _ _ _ _ _ (-104) (by omega) (by omega)]
  unfold scaled
  simp only [smant_false, Int.sub_self, pow2_zero]
  have h1 : (1 : Int) ≤ ((pow2 (e' - -104) : Nat) : Int) := by
    have := pow2_pos (e' - -104); omega
  have h2 : (two52 : Int) ≤ (m' : Int) := by omega
  have h3 : (two52 : Int) * ((1 : Nat) : Int) ≤ (m' : Int) * ((pow2 (e' - -104) : Nat) : Int) := by
    calc (two52 : Int) * ((1 : Nat) : Int) = (two52 : Int) * 1 := by simp
      _ ≤ (m' : Int) * ((pow2 (e' - -104) : Nat) : Int) :=
          Int.mul_le_mul h2 h1 (by decide) (by omega)
  rw [beq_eq_false_iff_ne]
  intro hcmp
  rw [Int.compare_eq_lt] at hcmp
  omega

theorem fromFloat_neg_tiny {m : Nat} {e : Int} (hc : Canon (fin true m e)) (he : e < 0)
    (hk : two53 ≤ fracNum true m e) :
    Value.fromFloat (fin true m e) = .float (fin true m e) := by
  rw [canon_fin] at hc
  obtain ⟨j, hj1, hj, hm0, hmd, hmD, hlo, hhi⟩ := neg_tiny_facts hc.1 he hk
  have hfloorInt : floorInt true m e = -1 := by
    unfold floorInt
    rw [if_neg (by omega)]
    simp only [if_true]
    rw [ceilDiv_cases m _ (pow2_pos _), hmd, if_neg hm0, Nat.div_eq_of_lt hmD]
    rfl
  have hfl : floor (fin true m e) = roundInt (floorInt true m e) 0 true := by
    simp only [floor]; rw [if_neg (by omega)]
  have hfloor : floor (fin true m e) = fin true two52 (-52) := by
    rw [hfl, hfloorInt, negOne_round]
  obtain ⟨m', e', hR, hm', he'⟩ := roundRat_ge_half (pow2 (-e) - m) j hj1 hlo hhi
  unfold Value.fromFloat
  rw [← hj] at hR
  rw [hfloor, sub_neg_tiny hj hmD, hR, ge_half_not_lt_epsilon hm' he']
  rfl

/-! ### complete description of `from_float` on canonical finite doubles -/

theorem fracNum_false_lt {m : Nat} (e : Int) (hm : m < two53) : fracNum false m e < two53 := by
  unfold fracNum
  simp only [Bool.false_eq_true, if_false]
  exact Nat.lt_of_le_of_lt (Nat.mod_le _ _) hm

theorem pow2_1022 : pow2 (-52 - eMin) = 2 ^ 1022 := by decide +kernel

theorem fracSmall_of_zero {s : Bool} {m : Nat} {e : Int} (h : fracNum s m e = 0) :
    fracSmall s m e = true := by
  unfold fracSmall
  rw [h, Nat.zero_mul, decide_eq_true_eq]
  exact pow2_pos _

theorem fracSmall_tiny {m : Nat} {e : Int} (hc : Canon (fin true m e)) (he : e < 0)
    (hk : two53 ≤ fracNum true m e) : fracSmall true m e = false := by
  rw [canon_fin] at hc
  obtain ⟨j, hj1, hj, hm0, hmd, hmD, hlo, hhi⟩ := neg_tiny_facts hc.1 he hk
  have hfn : fracNum true m e = pow2 (-e) - m := by
    unfold fracNum
    simp only [if_true]
    rw [hmd, Nat.mod_eq_of_lt (by omega)]
  unfold fracSmall
  rw [decide_eq_false_iff_not, hfn, pow2_1022, Nat.not_lt]
  have hemin : eMin ≤ e := hc.2.1
  obtain ⟨t, ht⟩ : ∃ t : Nat, e - eMin = t := ⟨(e - eMin).toNat, by omega⟩
  rw [ht, pow2_natCast]
  have hjt : j + 52 + t = 1073 := by simp only [eMin] at ht; omega
  calc 2 ^ 1022 ≤ 2 ^ 1073 := Nat.pow_le_pow_right (by decide) (by decide)
    _ = 2 ^ (j + 52) * 2 ^ t := by rw [← Nat.pow_add, hjt]
    _ ≤ (pow2 (-e) - m) * 2 ^ t := Nat.mul_le_mul_right _ hlo

/-- `from_float` returns the `Int` cast exactly when the exponent is non-negative or the
fractional part is below 2^-52 -/
def returnsInt (s : Bool) (m : Nat) (e : Int) : Bool := decide (0 ≤ e) || fracSmall s m e

theorem fromFloat_fin {s : Bool} {m : Nat} {e : Int} (hc : Canon (fin s m e)) :
    Value.fromFloat (fin s m e) =
      if returnsInt s m e then .int (toI64 (fin s m e)) else .float (fin s m e) := by
  unfold returnsInt
  by_cases he : 0 ≤ e
  · rw [fromFloat_of_nonneg_exp s m e he]; simp [he]
  · have he' : e < 0 := by omega
    have hd : decide (0 ≤ e) = false := by simp [he]
    rw [hd, Bool.false_or]
    by_cases hk : fracNum s m e < two53
    · exact fromFloat_of_neg_exp hc he' hk
    · have hs : s = true := by
        cases s
        · exact absurd (fracNum_false_lt e hc.1) hk
        · rfl
      subst hs
      rw [fromFloat_neg_tiny hc he' (by omega), fracSmall_tiny hc he' (by omega)]
      rfl

theorem fractNonzero_iff (s : Bool) (m : Nat) (e : Int) :
    fractNonzero (fin s m e) = true ↔ e < 0 ∧ fracNum s m e ≠ 0 := by
  simp only [fractNonzero]
  by_cases he : e ≥ 0
  · simp [he]; omega
  · rw [if_neg he, bne_iff_ne, ne_eq, ne_eq, fracNum_eq_zero_iff]
    constructor
    · intro h; exact ⟨by omega, h⟩
    · intro h; exact h.2

/-- on an integral double, `truncInt` is its exact value -/
theorem truncInt_hasVal {s : Bool} {m : Nat} {e : Int} (h : fractNonzero (fin s m e) = false) :
    HasVal (fin s m e) (truncInt s m e) 0 := by
  rw [hasVal_fin]
  unfold truncInt
  by_cases he : e ≥ 0
  · rw [if_pos he, Int.sub_zero, pow2_of_nonpos (by omega : 0 - e ≤ 0)]; simp
  · rw [if_neg he, Int.sub_zero, pow2_of_nonpos (by omega : e ≤ 0), Int.zero_sub,
      ← smant_mul s (m / pow2 (-e)) (pow2 (-e))]
    simp only [fractNonzero] at h
    rw [if_neg he] at h
    have hmod : m % pow2 (-e) = 0 := by simpa using h
    rw [Nat.div_mul_cancel (Nat.dvd_of_mod_eq_zero hmod)]; simp

theorem toI64_fin (s : Bool) (m : Nat) (e : Int) :
    toI64 (fin s m e) = if truncInt s m e < i64Min then i64Min
      else if truncInt s m e > i64Max then i64Max else truncInt s m e := rfl

/-! ### `val?` against `HasVal` -/

theorem hasVal_of_scaled_eq {s : Bool} {m : Nat} {e k K : Int}
    (h : smant s m * (pow2 (e - min e K) : Nat) = k * (pow2 (K - min e K) : Nat)) :
    HasVal (fin s m e) k K := by
  rw [hasVal_fin]
  by_cases hc : K ≤ e
  · have hm : min e K = K := by omega
    rw [hm, Int.sub_self, pow2_zero] at h
    rw [pow2_of_nonpos (by omega : K - e ≤ 0)]
    exact h
  · have hm : min e K = e := by omega
    rw [hm, Int.sub_self, pow2_zero] at h
    rw [pow2_of_nonpos (by omega : e - K ≤ 0)]
    exact h

theorem val_eq_iff_hasVal (s : Bool) (m : Nat) (e k K : Int) :
    val? (fin s m e) = some (Dyadic.ofIntWithPrec k (-K)) ↔ HasVal (fin s m e) k K := by
  refine ⟨fun h => ?_, hasVal_val⟩
  apply hasVal_of_scaled_eq
  have h1 := hasVal_val (hasVal_rescale (hasVal_self s m e) (by omega : min e K ≤ e))
  rw [h, Option.some.injEq,
    ← ofIntWithPrec_mul_pow2 k (-K) (K - min e K) (by omega)] at h1
  have : -K + (K - min e K) = -min e K := by omega
  rw [this, ofIntWithPrec_inj] at h1
  exact h1.symm

/-! ### when does `from_float` preserve the numeric value? -/

theorem intCast_dyadic (t : Int) : (t : Dyadic) = Dyadic.ofIntWithPrec t (-0) := rfl

theorem intCast_dyadic_inj {a b : Int} (h : (a : Dyadic) = (b : Dyadic)) : a = b := by
  rw [intCast_dyadic, intCast_dyadic] at h
  exact (ofIntWithPrec_inj a b (-0)).1 h

/-- exact condition: the value survives `from_float` iff the double is an integer inside the
`i64` range, or is not an integer and its fractional part is at least 2^-52 -/
theorem fromFloat_value_iff {s : Bool} {m : Nat} {e : Int} (hc : Canon (fin s m e)) :
    Value.num (Value.fromFloat (fin s m e)) = Value.num (.float (fin s m e)) ↔
      (if fractNonzero (fin s m e) = true then fracSmall s m e = false
       else Value.inI64 (truncInt s m e) = true) := by
  rw [fromFloat_fin hc]
  by_cases hfr : fractNonzero (fin s m e) = true
  · rw [if_pos hfr]
    obtain ⟨he, hfn⟩ := (fractNonzero_iff s m e).1 hfr
    have hri : returnsInt s m e = fracSmall s m e := by
      unfold returnsInt
      have : decide (0 ≤ e) = false := by simp; omega
      rw [this, Bool.false_or]
    rw [hri]
    cases hfs : fracSmall s m e
    · simp
    · simp only [if_true, Value.num, reduceCtorEq, iff_false]
      intro h
      rw [intCast_dyadic] at h
      exact not_hasVal_int_of_fractNonzero hfr ((val_eq_iff_hasVal s m e _ 0).1 h.symm)
  · rw [if_neg hfr]
    have hfr' : fractNonzero (fin s m e) = false := by simpa using hfr
    have hv := truncInt_hasVal hfr'
    have hval := hasVal_val hv
    have hri : returnsInt s m e = true := by
      unfold returnsInt
      by_cases he : 0 ≤ e
      · simp [he]
      · have : fracNum s m e = 0 := by
          apply Classical.byContradiction
          intro hne
          have := (fractNonzero_iff s m e).2 ⟨by omega, hne⟩
          rw [this] at hfr'; exact absurd hfr' (by decide)
        rw [fracSmall_of_zero this]; simp
    rw [hri]
    simp only [if_true, Value.num, hval, Option.some.injEq, ← intCast_dyadic]
    rw [toI64_fin]
    unfold Value.inI64
    constructor
    · intro h
      have h' := intCast_dyadic_inj h
      simp only [Bool.and_eq_true, decide_eq_true_eq]
      by_cases h1 : truncInt s m e < i64Min
      · rw [if_pos h1] at h'; omega
      · rw [if_neg h1] at h'
        by_cases h2 : truncInt s m e > i64Max
        · rw [if_pos h2] at h'; omega
        · omega
    · intro h
      simp only [Bool.and_eq_true, decide_eq_true_eq] at h
      rw [if_neg (by omega), if_neg (by omega)]

end F64
end Ag
