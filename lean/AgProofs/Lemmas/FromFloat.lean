/-
Helper lemmas for `Value::from_float` (`Value.fromFloat`): exactness of `floor`, of the
subtraction `f - floor f`, and the comparison against `f64::EPSILON`.
-/
import AgProofs.Lemmas.ValueOrder

namespace Ag
namespace F64

/-! ### `SameVal` at a shifted scale -/

theorem sameVal_shift {n m : Nat} {K E e : Int} (hK : K ≤ E) :
    SameVal (n * pow2 (E - K)) K m e ↔ SameVal n E m e := by
  unfold SameVal
  by_cases h1 : e ≤ K
  · rw [pow2_of_nonpos (by omega : e - K ≤ 0), pow2_of_nonpos (by omega : e - E ≤ 0),
      pow2_sub_split h1 hK, Nat.mul_assoc]
  · by_cases h2 : e ≤ E
    · rw [pow2_of_nonpos (by omega : K - e ≤ 0), pow2_of_nonpos (by omega : e - E ≤ 0),
        pow2_sub_split (by omega : K ≤ e) h2, Nat.mul_one, Nat.mul_one, ← Nat.mul_assoc]
      exact Nat.mul_left_inj (Nat.pos_iff_ne_zero.1 (pow2_pos _))
    · rw [pow2_of_nonpos (by omega : K - e ≤ 0), pow2_of_nonpos (by omega : E - e ≤ 0),
        pow2_sub_split hK (by omega : E ≤ e), Nat.mul_one, Nat.mul_one, ← Nat.mul_assoc]
      exact Nat.mul_left_inj (Nat.pos_iff_ne_zero.1 (pow2_pos _))

/-- every `n < 2^53` at a scale `eMin ≤ sc ≤ eMax` is a double -/
theorem representable_small (s : Bool) {n : Nat} {sc : Int} (hn : n ≠ 0) (h : n < two53)
    (h1 : eMin ≤ sc) (h2 : sc ≤ eMax) : ∃ m e, Canon (fin s m e) ∧ SameVal n sc m e := by
  obtain ⟨hc, hv⟩ := norm_spec hn h s
  rw [canon_fin] at hc
  by_cases hlow : eMin ≤ normE n + sc
  · refine ⟨normM n, normE n + sc, ?_, ?_⟩
    · rw [canon_fin]
      refine ⟨hc.1, hlow, ?_, ?_⟩
      · have : normE n ≤ 0 := by
          have := hc.2.2.1; simp only [normE, eMax] at *
          have hL : n.log2 < 53 := (Nat.log2_lt hn).2 (by rw [← two53_eq]; exact h)
          omega
        omega
      · intro hlt
        have := hc.2.2.2 hlt
        simp only [normE, eMin] at this; omega
    · unfold SameVal at hv ⊢
      have e1 : sc - (normE n + sc) = 0 - normE n := by omega
      have e2 : normE n + sc - sc = normE n - 0 := by omega
      rw [e1, e2, hv]
  · refine ⟨n * pow2 (sc - eMin), eMin, ?_, ?_⟩
    · have hL1 : n < 2 ^ (n.log2 + 1) := Nat.lt_log2_self
      obtain ⟨dd, hdd⟩ : ∃ dd : Nat, sc - eMin = dd := ⟨(sc - eMin).toNat, by omega⟩
      have hlt : n * pow2 (sc - eMin) < two52 := by
        rw [hdd, pow2_natCast, two52_eq]
        have hle : n.log2 + 1 + dd ≤ 52 := by simp only [normE] at hlow; omega
        calc n * 2 ^ dd < 2 ^ (n.log2 + 1) * 2 ^ dd :=
              Nat.mul_lt_mul_of_pos_right hL1 (Nat.two_pow_pos _)
          _ = 2 ^ (n.log2 + 1 + dd) := (Nat.pow_add ..).symm
          _ ≤ 2 ^ 52 := Nat.pow_le_pow_right (by decide) hle
      rw [canon_fin]
      refine ⟨?_, Int.le_refl _, by decide, fun _ => rfl⟩
      have : two52 < two53 := by decide
      omega
    · unfold SameVal
      rw [pow2_of_nonpos (by omega : eMin - sc ≤ 0), Nat.mul_one]

/-! ### `roundInt` in terms of exact values -/

theorem hasVal_zero (z : Bool) (K : Int) : HasVal (fin z 0 eMin) 0 K := by
  rw [hasVal_fin, smant_zero]; simp

/-- rounding `k·2^E` when that value is a double: the result has exactly that value (stated at
any scale `K ≤ E` with `K ≤` every canonical exponent, i.e. `K ≤ eMin`) -/
theorem roundInt_hasVal {k E K : Int} (z : Bool) (hK : K ≤ E) (hKm : K ≤ eMin)
    (hrep : k ≠ 0 → ∃ m e, Canon (fin (decide (k < 0)) m e) ∧
      SameVal (k.natAbs * pow2 (E - K)) K m e) :
    ∃ sR mR eR, roundInt k E z = fin sR mR eR ∧ Canon (fin sR mR eR) ∧
      HasVal (fin sR mR eR) (k * (pow2 (E - K) : Nat)) K := by
  by_cases hk : k = 0
  · subst hk
    refine ⟨z, 0, eMin, by simp [roundInt], by rw [canon_fin]; decide, ?_⟩
    simpa using hasVal_zero z K
  · obtain ⟨m, e, hc, hv⟩ := hrep hk
    have hv' := (sameVal_shift hK).1 hv
    refine ⟨_, m, e, roundInt_exact k E z m e hk hc hv', hc, ?_⟩
    have he : K ≤ e := by rw [canon_fin] at hc; omega
    unfold SameVal at hv
    rw [pow2_of_nonpos (by omega : K - e ≤ 0), Nat.mul_one] at hv
    rw [hasVal_fin, pow2_of_nonpos (by omega : K - e ≤ 0), ← smant_mul, ← hv, smant_mul,
      smant_of_int]
    simp

/-! ### `add` in terms of exact values (scale `eMin`) -/

theorem hasVal_eMin_scaled {s : Bool} {m : Nat} {e k E : Int} (h : HasVal (fin s m e) k eMin)
    (hE : eMin ≤ E) (hEe : E ≤ e) : scaled E s m e * (pow2 (E - eMin) : Nat) = k := by
  have := hasVal_scaled h (by omega : eMin ≤ e) (Int.le_refl _)
  rw [Int.sub_self, pow2_zero] at this
  simp only [Int.natCast_one, Int.mul_one] at this
  rw [← this]
  unfold scaled
  rw [pow2_sub_split hE hEe, Int.natCast_mul, Int.mul_assoc]

theorem add_hasVal {s1 s2 : Bool} {m1 m2 : Nat} {e1 e2 ka kb : Int}
    (h1 : eMin ≤ e1) (h2 : eMin ≤ e2)
    (ha : HasVal (fin s1 m1 e1) ka eMin) (hb : HasVal (fin s2 m2 e2) kb eMin)
    (hrep : ka + kb ≠ 0 → ∃ m e, Canon (fin (decide (ka + kb < 0)) m e) ∧
      SameVal (ka + kb).natAbs eMin m e) :
    ∃ sR mR eR, add (fin s1 m1 e1) (fin s2 m2 e2) = fin sR mR eR ∧ Canon (fin sR mR eR) ∧
      HasVal (fin sR mR eR) (ka + kb) eMin := by
  have hE : eMin ≤ min e1 e2 := by omega
  have e1' := hasVal_eMin_scaled ha hE (by omega)
  have e2' := hasVal_eMin_scaled hb hE (by omega)
  have hsum : (scaled (min e1 e2) s1 m1 e1 + scaled (min e1 e2) s2 m2 e2) *
      (pow2 (min e1 e2 - eMin) : Nat) = ka + kb := by
    rw [Int.add_mul, e1', e2']
  have hadd : add (fin s1 m1 e1) (fin s2 m2 e2) =
      roundInt (scaled (min e1 e2) s1 m1 e1 + scaled (min e1 e2) s2 m2 e2) (min e1 e2)
        (s1 && s2) := rfl
  rw [hadd]
  have hpos : (0 : Int) < (pow2 (min e1 e2 - eMin) : Nat) := by
    have := pow2_pos (min e1 e2 - eMin); omega
  have := roundInt_hasVal (k := scaled (min e1 e2) s1 m1 e1 + scaled (min e1 e2) s2 m2 e2)
    (E := min e1 e2) (K := eMin) (s1 && s2) hE (Int.le_refl _) (by
      intro hk
      have hne : ka + kb ≠ 0 := by
        rw [← hsum]; exact Int.mul_ne_zero hk (by omega)
      obtain ⟨m, e, hc, hv⟩ := hrep hne
      refine ⟨m, e, ?_, ?_⟩
      · have : decide (scaled (min e1 e2) s1 m1 e1 + scaled (min e1 e2) s2 m2 e2 < 0) =
            decide (ka + kb < 0) := by
          rw [← hsum]
          congr 1
          exact propext ⟨fun h => Int.mul_neg_of_neg_of_pos h hpos,
            fun h => by
              rcases Int.lt_trichotomy (scaled (min e1 e2) s1 m1 e1 + scaled (min e1 e2) s2 m2 e2) 0
                with h' | h' | h'
              · exact h'
              · rw [h'] at h; simp at h
              · have := Int.mul_pos h' hpos; omega⟩
        rw [this]; exact hc
      · have : (scaled (min e1 e2) s1 m1 e1 + scaled (min e1 e2) s2 m2 e2).natAbs *
            pow2 (min e1 e2 - eMin) = (ka + kb).natAbs := by
          rw [← hsum, Int.natAbs_mul, Int.natAbs_natCast]
        rw [this]; exact hv)
  rw [hsum] at this
  exact this

end F64
end Ag
