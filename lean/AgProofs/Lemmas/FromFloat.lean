/-
Helper lemmas for `Value::from_float` (`Value.fromFloat`) and for the exactness of `floor` and of
`f - floor f` in the binary64 model.
-/
import AgProofs.Lemmas.ValueOrder
import AgProofs.Lemmas.F64Add

namespace Ag
namespace F64

/-! ### the fractional part -/

theorem ceilDiv_cases (m d : Nat) (hd : 0 < d) :
    (m + d - 1) / d = if m % d = 0 then m / d else m / d + 1 := by
  have hm := Nat.div_add_mod m d
  generalize hq : m / d = q at *
  generalize hr : m % d = r at *
  have hrd : r < d := by rw [← hr]; exact Nat.mod_lt _ hd
  by_cases h0 : r = 0
  · rw [if_pos h0]
    have : m + d - 1 = d * q + (d - 1) := by omega
    rw [this, Nat.mul_add_div hd, Nat.div_eq_of_lt (by omega), Nat.add_zero]
  · rw [if_neg h0]
    have : m + d - 1 = d * (q + 1) + (r - 1) := by rw [Nat.mul_add]; omega
    rw [this, Nat.mul_add_div hd, Nat.div_eq_of_lt (by omega)]

/-- numerator of the fractional part `f − floor f`, in units of `2^e` (for `e < 0`) -/
def fracNum (s : Bool) (m : Nat) (e : Int) : Nat :=
  if s then (pow2 (-e) - m % pow2 (-e)) % pow2 (-e) else m % pow2 (-e)

theorem fracNum_lt (s : Bool) (m : Nat) (e : Int) : fracNum s m e < pow2 (-e) := by
  unfold fracNum; split <;> exact Nat.mod_lt _ (pow2_pos _)

theorem fracNum_eq_zero_iff (s : Bool) (m : Nat) (e : Int) :
    fracNum s m e = 0 ↔ m % pow2 (-e) = 0 := by
  have hd := pow2_pos (-e)
  have hr := Nat.mod_lt m hd
  unfold fracNum
  cases s
  · simp
  · simp only [if_true]
    by_cases h0 : m % pow2 (-e) = 0
    · rw [h0]; simp
    · rw [Nat.mod_eq_of_lt (by omega)]; omega

theorem fracNum_spec (s : Bool) (m : Nat) (e : Int) (he : e < 0) :
    smant s m - floorInt s m e * (pow2 (-e) : Nat) = (fracNum s m e : Nat) := by
  have hd := pow2_pos (-e)
  have hm : m / pow2 (-e) * pow2 (-e) + m % pow2 (-e) = m := by
    rw [Nat.mul_comm]; exact Nat.div_add_mod m (pow2 (-e))
  have hr := Nat.mod_lt m hd
  unfold floorInt fracNum
  rw [if_neg (by omega)]
  cases s
  · simp only [smant_false, Bool.false_eq_true, if_false]
    generalize pow2 (-e) = d at *
    generalize m / d = q at *
    generalize m % d = r at *
    subst hm; push_cast; omega
  · simp only [smant_true, if_true]
    rw [ceilDiv_cases m _ hd]
    generalize pow2 (-e) = d at *
    generalize m / d = q at *
    generalize m % d = r at *
    by_cases h0 : r = 0
    · subst h0; subst hm; simp [Int.neg_mul]
    · rw [if_neg h0, Nat.mod_eq_of_lt (by omega)]
      subst hm; push_cast
      rw [Int.natCast_sub (by omega)]
      simp [Int.add_mul, Int.neg_mul]; omega
/-! ### `floor` is exact -/

theorem roundInt_zero_scale (k : Int) (z : Bool) (hk : k ≠ 0) : roundInt k 0 z = ofInt k := by
  unfold ofInt roundInt; rw [if_neg hk, if_neg hk]

theorem floorInt_natAbs_le (s : Bool) (m : Nat) (e : Int) (he : e < 0) :
    (floorInt s m e).natAbs ≤ m / 2 + 1 := by
  have hd : 2 ≤ pow2 (-e) := by
    have : pow2 1 ≤ pow2 (-e) := pow2_le_pow2 (by omega)
    exact this
  have hq : m / pow2 (-e) ≤ m / 2 := Nat.div_le_div_left hd (by decide)
  unfold floorInt
  rw [if_neg (by omega)]
  cases s
  · simp only [Bool.false_eq_true, if_false, Int.natAbs_natCast]; omega
  · simp only [if_true, Int.natAbs_neg, Int.natAbs_natCast]
    rw [ceilDiv_cases m _ (by omega)]
    split <;> omega

theorem floor_hasVal {s : Bool} {m : Nat} {e : Int} (hc : Canon (fin s m e)) (he : e < 0) :
    ∃ sF mF eF, floor (fin s m e) = fin sF mF eF ∧ Canon (fin sF mF eF) ∧
      HasVal (fin sF mF eF) (floorInt s m e) 0 := by
  have hfl : floor (fin s m e) = roundInt (floorInt s m e) 0 s := by
    simp only [floor]; rw [if_neg (by omega)]
  rw [hfl]
  by_cases hk : floorInt s m e = 0
  · rw [hk]
    exact ⟨s, 0, eMin, by simp [roundInt], by rw [canon_fin]; decide, hasVal_zero s 0⟩
  · rw [roundInt_zero_scale _ _ hk]
    have hb : (floorInt s m e).natAbs ≤ two53 := by
      have := floorInt_natAbs_le s m e he
      have hm : m < two53 := hc.1
      simp only [two53] at *; omega
    obtain ⟨hv, hcan⟩ := ofInt_hasVal hb
    cases hF : ofInt (floorInt s m e) with
    | nan => rw [hF] at hv; exact absurd hv (by simp [HasVal])
    | inf b => rw [hF] at hv; exact absurd hv (by simp [HasVal])
    | fin sF mF eF => rw [hF] at hv hcan; exact ⟨sF, mF, eF, rfl, hcan, hv⟩

/-! ### `f - floor f` is exact whenever its numerator fits in 53 bits -/

theorem hasVal_neg {s : Bool} {m : Nat} {e k K : Int} (h : HasVal (fin s m e) k K) :
    HasVal (fin (!s) m e) (-k) K := by
  rw [hasVal_fin] at h ⊢
  rw [smant_not, Int.neg_mul, h, Int.neg_mul]

theorem hasVal_abs {s : Bool} {m : Nat} {e k K : Int} (h : HasVal (fin s m e) k K) (hk : 0 ≤ k) :
    HasVal (fin false m e) k K := by
  rw [hasVal_fin] at h ⊢
  cases s
  · exact h
  · have hp : (0 : Int) < (pow2 (e - K) : Nat) := by have := pow2_pos (e - K); omega
    have hq : (0 : Int) ≤ k * (pow2 (K - e) : Nat) := Int.mul_nonneg hk (by omega)
    rw [smant_true] at h
    have hm : (m : Int) * (pow2 (e - K) : Nat) ≤ 0 := by
      have : -(m : Int) * (pow2 (e - K) : Nat) = -((m : Int) * (pow2 (e - K) : Nat)) :=
        Int.neg_mul _ _
      omega
    have hm0 : m = 0 := by
      rcases Nat.eq_zero_or_pos m with h0 | h0
      · exact h0
      · have : (0 : Int) < (m : Int) * (pow2 (e - K) : Nat) := Int.mul_pos (by omega) hp
        omega
    subst hm0
    rw [smant_false]
    simp only [Int.natCast_zero, Int.neg_zero, Int.zero_mul] at h ⊢
    exact h

theorem sub_floor_hasVal {s : Bool} {m : Nat} {e : Int} (hc : Canon (fin s m e)) (he : e < 0)
    (hk : fracNum s m e < two53) :
    ∃ sR mR eR, sub (fin s m e) (floor (fin s m e)) = fin sR mR eR ∧
      HasVal (fin sR mR eR) ((fracNum s m e : Nat) * (pow2 (e - eMin) : Nat)) eMin := by
  obtain ⟨sF, mF, eF, hF, hcF, hvF⟩ := floor_hasVal hc he
  rw [hF]
  have hce := hc; rw [canon_fin] at hce
  have hcFe := hcF; rw [canon_fin] at hcFe
  have h1 : eMin ≤ e := hce.2.1
  have h2 : eMin ≤ eF := hcFe.2.1
  have ha := hasVal_rescale (hasVal_self s m e) h1
  have hb := hasVal_rescale (hasVal_neg hvF) (by decide : eMin ≤ 0)
  have hsplit : pow2 (0 - eMin) = pow2 (-e) * pow2 (e - eMin) := by
    have := pow2_sub_split (a := 0) (b := e) (c := eMin) h1 (by omega)
    rw [Int.zero_sub e] at this; exact this
  have hsum : smant s m * (pow2 (e - eMin) : Nat) + -floorInt s m e * (pow2 (0 - eMin) : Nat) =
      (fracNum s m e : Nat) * (pow2 (e - eMin) : Nat) := by
    rw [← fracNum_spec s m e he, hsplit]
    simp only [Int.natCast_mul, Int.sub_mul, Int.neg_mul, Int.mul_assoc]
    omega
  have hpos : (0 : Int) < (pow2 (e - eMin) : Nat) := by have := pow2_pos (e - eMin); omega
  have hnn : (0 : Int) ≤ (fracNum s m e : Nat) * (pow2 (e - eMin) : Nat) :=
    Int.mul_nonneg (by omega) (by omega)
  have := add_hasVal (s1 := s) (s2 := !sF) (m1 := m) (m2 := mF) (e1 := e) (e2 := eF) h1 h2 ha hb (by
    rw [hsum]
    intro hne
    have hf0 : fracNum s m e ≠ 0 := by
      intro h0; apply hne; rw [h0]; simp
    obtain ⟨m', e', hc', hv'⟩ := representable_small false hf0 hk h1 hce.2.2.1
    refine ⟨m', e', ?_, ?_⟩
    · have : decide ((fracNum s m e : Nat) * (pow2 (e - eMin) : Nat) < (0 : Int)) = false := by
        simp only [decide_eq_false_iff_not]; omega
      rw [this]; exact hc'
    · have : ((fracNum s m e : Nat) * (pow2 (e - eMin) : Nat) : Int).natAbs =
          fracNum s m e * pow2 (e - eMin) := by
        rw [Int.natAbs_mul, Int.natAbs_natCast, Int.natAbs_natCast]
      rw [this]
      exact (sameVal_shift h1).2 hv')
  rw [hsum] at this
  obtain ⟨sR, mR, eR, hR, -, hvR⟩ := this
  exact ⟨sR, mR, eR, hR, hvR⟩

/-! ### integral doubles -/

theorem fractNonzero_iff (s : Bool) (m : Nat) (e : Int) :
    fractNonzero (fin s m e) = true ↔ e < 0 ∧ fracNum s m e ≠ 0 := by
  simp only [fractNonzero]
  by_cases he : e ≥ 0
  · simp [he]; omega
  · rw [if_neg he, bne_iff_ne, ne_eq, ne_eq, fracNum_eq_zero_iff]
    constructor
    · intro h; exact ⟨by omega, h⟩
    · intro h; exact h.2

theorem toI64_fin (s : Bool) (m : Nat) (e : Int) :
    toI64 (fin s m e) = if truncInt s m e < i64Min then i64Min
      else if truncInt s m e > i64Max then i64Max else truncInt s m e := rfl

/-! ### `val?` against `HasVal` -/

theorem hasVal_of_scaled_eq {s : Bool} {m : Nat} {e k K : Int}
    (h : smant s m * (pow2 (e - min e K) : Nat) = k * (pow2 (K - min e K) : Nat)) :
    HasVal (fin s m e) k K := by
  rw [hasVal_fin]
  by_cases hc : K ≤ e
  · have hm : min e K = K := by omega
    rw [hm, Int.sub_self, pow2_zero] at h
    rw [pow2_of_nonpos (by omega : K - e ≤ 0)]
    exact h
  · have hm : min e K = e := by omega
    rw [hm, Int.sub_self, pow2_zero] at h
    rw [pow2_of_nonpos (by omega : e - K ≤ 0)]
    exact h

theorem val_eq_iff_hasVal (s : Bool) (m : Nat) (e k K : Int) :
    val? (fin s m e) = some (Dyadic.ofIntWithPrec k (-K)) ↔ HasVal (fin s m e) k K := by
  refine ⟨fun h => ?_, hasVal_val⟩
  apply hasVal_of_scaled_eq
  have h1 := hasVal_val (hasVal_rescale (hasVal_self s m e) (by omega : min e K ≤ e))
  rw [h, Option.some.injEq,
    ← ofIntWithPrec_mul_pow2 k (-K) (K - min e K) (by omega)] at h1
  have : -K + (K - min e K) = -min e K := by omega
  rw [this, ofIntWithPrec_inj] at h1
  exact h1.symm

theorem intCast_dyadic (t : Int) : (t : Dyadic) = Dyadic.ofIntWithPrec t (-0) := rfl

theorem intCast_dyadic_inj {a b : Int} (h : (a : Dyadic) = (b : Dyadic)) : a = b := by
  rw [intCast_dyadic, intCast_dyadic] at h
  exact (ofIntWithPrec_inj a b (-0)).1 h

end F64

namespace Value
open F64

/-! ### `Value::from_float` (after the repair: an `Int` only for an integer of the i64 range) -/

theorem fromFloat_fin (s : Bool) (m : Nat) (e : Int) :
    fromFloat (fin s m e) =
      if (!fractNonzero (fin s m e) && decide (i64Min ≤ truncInt s m e) &&
          decide (truncInt s m e ≤ i64Max)) = true
      then int (truncInt s m e) else float (fin s m e) := rfl

/-- the double is an integer of the i64 range -/
def isI64Valued : F64 → Bool
  | fin s m e => !fractNonzero (fin s m e) && inI64 (truncInt s m e)
  | _ => false

theorem fromFloat_of_isI64Valued {s : Bool} {m : Nat} {e : Int}
    (h : isI64Valued (fin s m e) = true) : fromFloat (fin s m e) = int (truncInt s m e) := by
  rw [fromFloat_fin]
  simp only [isI64Valued, inI64, Bool.and_eq_true, Bool.not_eq_true', decide_eq_true_eq] at h
  rw [if_pos]
  simp only [Bool.and_eq_true, Bool.not_eq_true', decide_eq_true_eq]
  exact ⟨⟨h.1, h.2.1⟩, h.2.2⟩

theorem fromFloat_of_not_isI64Valued {f : F64} (h : isI64Valued f = false) :
    fromFloat f = float f := by
  cases f with
  | nan => rfl
  | inf b => rfl
  | fin s m e =>
    rw [fromFloat_fin, if_neg]
    intro hc
    simp only [Bool.and_eq_true, Bool.not_eq_true', decide_eq_true_eq] at hc
    simp only [isI64Valued, inI64, Bool.and_eq_false_iff, Bool.not_eq_false',
      decide_eq_false_iff_not] at h
    rcases h with h | h | h
    · rw [hc.1.1] at h; exact absurd h (by decide)
    · exact h hc.1.2
    · exact h hc.2

/-- `from_float` never changes the numeric value -/
theorem num_fromFloat (f : F64) : num (fromFloat f) = num (float f) := by
  cases hI : isI64Valued f
  · rw [fromFloat_of_not_isI64Valued hI]
  · cases f with
    | nan => simp [isI64Valued] at hI
    | inf b => simp [isI64Valued] at hI
    | fin s m e =>
      rw [fromFloat_of_isI64Valued hI]
      simp only [isI64Valued, Bool.and_eq_true, Bool.not_eq_true'] at hI
      have hv := hasVal_val (truncInt_hasVal hI.1)
      simp only [num, hv]
      rfl

/-- it returns an `Int` exactly for the integers of the i64 range, and then that integer -/
theorem fromFloat_eq_int_iff (f : F64) (i : Int) :
    fromFloat f = int i ↔ isI64Valued f = true ∧ toI64 f = i := by
  cases hI : isI64Valued f
  · rw [fromFloat_of_not_isI64Valued hI]; simp
  · cases f with
    | nan => simp [isI64Valued] at hI
    | inf b => simp [isI64Valued] at hI
    | fin s m e =>
      rw [fromFloat_of_isI64Valued hI, toI64_fin]
      simp only [isI64Valued, inI64, Bool.and_eq_true, Bool.not_eq_true', decide_eq_true_eq] at hI
      rw [if_neg (by omega), if_neg (by omega)]
      simp

/-- a `Float` it returns is the argument itself and is normalised (`normFloat`) -/
theorem fromFloat_eq_float (f g : F64) (h : fromFloat f = float g) :
    g = f ∧ normFloat g = true := by
  cases hI : isI64Valued f
  · rw [fromFloat_of_not_isI64Valued hI] at h
    simp only [float.injEq] at h
    subst h
    refine ⟨rfl, ?_⟩
    cases f with
    | nan => rfl
    | inf b => rfl
    | fin s m e =>
      simp only [isI64Valued, Bool.and_eq_false_iff, Bool.not_eq_false'] at hI
      simp only [normFloat, Bool.or_eq_true, Bool.not_eq_true']
      exact hI
  · cases f with
    | nan => simp [isI64Valued] at hI
    | inf b => simp [isI64Valued] at hI
    | fin s m e => rw [fromFloat_of_isI64Valued hI] at h; exact absurd h (by simp)

end Value
end Ag
