/-
Structural Boolean equality of query ASTs (used by the evaluated `decide` instances of C04/C20:
comparing ASTs directly keeps string building out of kernel reduction).
-/
import AgModel.Lang.Parser

/-- `q!"text"` = the query text as a `List Char` literal, built at elaboration time (kernel
reduction of `String.toList` on long literals is pathologically slow) -/
macro:max "q!" s:str : term => do
  let elems := s.getString.toList.map (fun c => Lean.Syntax.mkCharLit c)
  `([$(elems.toArray),*])

namespace Ag.LangEq
open Ag Ag.Lang

def refEq : Ref → Ref → Bool
  | .field a, .field b => a == b
  | .idx a, .idx b => a == b
  | _, _ => false

def listEq {α} (f : α → α → Bool) : List α → List α → Bool
  | [], [] => true
  | a :: as, b :: bs => f a b && listEq f as bs
  | _, _ => false

mutual
def exprEq : Expr → Expr → Bool
  | .col h r, .col h' r' => h == h' && listEq refEq r r'
  | .not a, .not b => exprEq a b
  | .cmp o a b, .cmp o' a' b' => decide (o = o') && exprEq a a' && exprEq b b'
  | .arith o a b, .arith o' a' b' => decide (o = o') && exprEq a a' && exprEq b b'
  | .logic o a b, .logic o' a' b' => decide (o = o') && exprEq a a' && exprEq b b'
  | .call f as, .call f' as' => f == f' && exprsEq as as'
  | .ifop a b c, .ifop a' b' c' => exprEq a a' && exprEq b b' && exprEq c c'
  | .val v, .val v' => Value.beq v v' && v.rank == v'.rank
  | .error, .error => true
  | _, _ => false
def exprsEq : List Expr → List Expr → Bool
  | [], [] => true
  | a :: as, b :: bs => exprEq a b && exprsEq as bs
  | _, _ => false
end

def optEq {α} (f : α → α → Bool) : Option α → Option α → Bool
  | none, none => true
  | some a, some b => f a b
  | _, _ => false

mutual
def searchEq : Search → Search → Bool
  | .and a, .and b => searchesEq a b
  | .or a, .or b => searchesEq a b
  | .not a, .not b => searchEq a b
  | .kw a, .kw b => decide (a = b)
  | _, _ => false
def searchesEq : List Search → List Search → Bool
  | [], [] => true
  | a :: as, b :: bs => searchEq a b && searchesEq as bs
  | _, _ => false
end

def aggEq : AggFn → AggFn → Bool
  | .count a, .count b => optEq exprEq a b
  | .sum a, .sum b => exprEq a b
  | .min a, .min b => exprEq a b
  | .max a, .max b => exprEq a b
  | .avg a, .avg b => exprEq a b
  | .pct p s a, .pct p' s' b => decide (p = p') && s == s' && exprEq a b
  | .countDistinct a, .countDistinct b => optEq exprsEq a b
  | .error, .error => true
  | _, _ => false

def inlineEq : Inline → Inline → Bool
  | .json a, .json b => optEq exprEq a b
  | .logfmt a, .logfmt b => optEq exprEq a b
  | .parse p f a b nd nc, .parse p' f' a' b' nd' nc' =>
    decide (p = p') && f == f' && optEq exprEq a a' && optEq exprEq b b' && nd == nd' && nc == nc'
  | .fields m n, .fields m' n' => decide (m = m') && n == n'
  | .whereOp a, .whereOp b => optEq exprEq a b
  | .limit a, .limit b => decide (a = b)
  | .split s a b, .split s' a' b' => s == s' && optEq exprEq a a' && optEq exprEq b b'
  | .timeslice a d o, .timeslice a' d' o' => exprEq a a' && d == d' && o == o'
  | .total a n, .total a' n' => exprEq a a' && n == n'
  | .fieldExpr a n, .fieldExpr a' n' => exprEq a a' && n == n'
  | _, _ => false

def multiAggEq (a b : MultiAgg) : Bool :=
  exprsEq a.keyCols b.keyCols && a.headers == b.headers &&
  listEq (fun x y => x.1 == y.1 && aggEq x.2 y.2) a.fns b.fns

mutual
def opEq : Operator → Operator → Bool
  | .alias a, .alias b => opsEq a b
  | .inline a, .inline b => inlineEq a b
  | .agg a, .agg b => multiAggEq a b
  | .sort c d, .sort c' d' => exprsEq c c' && decide (d = d')
  | .error, .error => true
  | _, _ => false
def opsEq : List Operator → List Operator → Bool
  | [], [] => true
  | a :: as, b :: bs => opEq a b && opsEq as bs
  | _, _ => false
end

def queryEq (a b : Query) : Bool := searchEq a.search b.search && opsEq a.ops b.ops

/-- both texts are accepted and parse to the same AST -/
def sameAst (a b : List Char) : Bool :=
  match parseChars a, parseChars b with
  | .accept q1, .accept q2 => queryEq q1 q2
  | _, _ => false

def isReject : ParseResult → Bool
  | .reject => true
  | _ => false

def isAccept : ParseResult → Bool
  | .accept _ => true
  | _ => false

def isPanic : ParseResult → Bool
  | .panic _ => true
  | _ => false

/-- the operators of an accepted query -/
def opsOf (q : List Char) : Option (List Operator) :=
  match parseChars q with
  | .accept q => some q.ops
  | _ => none

/-! ### keywords (`kw`, repo commit 0324001) -/

theorem stripPrefix_append (p r : List Char) : Text.stripPrefix? p (p ++ r) = some r := by
  induction p with
  | nil => simp [Text.stripPrefix?]
  | cons c cs ih => simp [Text.stripPrefix?, ih]

theorem tag_append (w : String) (cs rest : List Char) (hw : w.toList = cs) (e : Nat) :
    tag w (cs ++ rest) e = .ok () rest e := by
  simp [tag, hw, stripPrefix_append]

/-- what follows a keyword is not an identifier character (blank, punctuation, end of input) -/
def Boundary (rest : List Char) : Prop := ∀ c r, rest = c :: r → isIdentCh c = false

theorem kw_unfold (w : String) (i : List Char) (e : Nat) :
    kw w i e = (P.bind' (tag w) fun a => P.bind' (notP (satisfy isIdentCh)) fun _ => P.pure' a) i e := rfl

/-- a keyword at a word boundary is recognised and consumes exactly the word -/
theorem kw_boundary (w : String) (cs rest : List Char) (hw : w.toList = cs) (e : Nat)
    (h : Boundary rest) : kw w (cs ++ rest) e = .ok () rest e := by
  rw [kw_unfold]
  simp only [P.bind', tag_append w cs rest hw]
  cases rest with
  | nil => simp [notP, satisfy, P.pure']
  | cons c r =>
    have hc := h c r rfl
    simp [notP, satisfy, hc, P.pure']

/-- **a keyword directly followed by an identifier character is not that keyword**, whatever
follows: the error sits at the offending character -/
theorem kw_glued (w : String) (cs : List Char) (hw : w.toList = cs) (c : Char) (rest : List Char)
    (e : Nat) (hc : isIdentCh c = true) : kw w (cs ++ c :: rest) e = .fail (c :: rest) e := by
  rw [kw_unfold]
  simp [P.bind', tag_append w cs (c :: rest) hw, notP, satisfy, hc]

/-- a keyword never matches a text that does not start with the word -/
theorem kw_mismatch (w : String) (i : List Char) (e : Nat)
    (h : Text.stripPrefix? w.toList i = none) : kw w i e = .fail i e := by
  rw [kw_unfold]
  simp [P.bind', tag, h]

example : Boundary [] ∧ Boundary q!" by x" ∧ Boundary q!"(x)" ∧ Boundary q!"|limit 1" := by
  refine ⟨?_, ?_, ?_, ?_⟩ <;> intro c r h <;> simp at h <;> (try (obtain ⟨rfl, _⟩ := h; decide))

end Ag.LangEq

example : q!"a|b" = ['a', '|', 'b'] := rfl
